import WK.Prelude.Drv
import WK.Model.C29
/-
  C29 driver.  ops `coal`, `rec` (pure: model output compared exactly) and `traffic`
  (concurrent: modelOut `-`, verdict = WK.C29.judge on the implementation's log).
-/
open WK WK.C29

def ints (xs : List Nat) : String :=
  if xs.isEmpty then "-" else ",".intercalate (xs.map toString)

def parseDots (s : String) (n : Nat) : Option (List Nat) := do
  let parts := s.splitOn "."
  if parts.length ≠ n then none
  let vs ← parts.mapM String.toNat?
  if vs.any (· > 1048576) then none else pure vs

def coalOp (fs : List String) : Option String := do
  let items ← fs.mapM fun f => do
    match ← parseDots f 3 with
    | [u, m, p] => pure ({ frm := u, cmsg := m, payload := p } : Item)
    | _ => none
  let (uniq, owners) := coalesce id items
  let ex := expand owners
  pure s!"k={uniq.length} u={ints (uniq.map (·.1))} o={ints owners} s={ints (ex.map (·.1))} c={ints (ex.map fun r => if r.2 then 1 else 0)}"

def lkOf : Nat → Option Lk
  | 0 => some .miss | 1 => some .hit | 2 => some .err | _ => none

def recOp (fs : List String) : Option String := do
  match fs with
  | e :: hs :: md :: rest =>
    let e ← e.toNat?; let hs ← hs.toNat?; let md ← md.toNat?
    if e > 1 || hs > 1 || md > 4 || rest.isEmpty then none
    let raw ← rest.mapM fun f => parseDots f 6
    let keys := raw.map fun v => (v[0]!, v[1]!)
    if !(decide keys.Nodup) then none
    let items ← raw.mapM fun v => do
      if v[0]! == 0 || v[1]! == 0 || v[5]! > 1 then none
      let l1 ← lkOf v[3]!; let l2 ← lkOf v[4]!
      pure ({ lk1 := l1, lk2 := l2, expired := v[5]! == 1 } : RItem)
    let (outs, sizes) := recover (e == 0) (hs == 1) md items
    pure s!"cl={ints (outs.map fun o => if o.ok then 0 else 1)} sq={ints (outs.map (·.seq))} cm={ints (outs.map fun o => if o.committed then 1 else 0)} rs={ints sizes}"
  | _ => none

def parseTok (t : String) : Option Tok := do
  match t.splitOn "." with
  | k :: rest =>
    let vs ← rest.mapM String.toNat?
    match k, vs with
    | "I", [c, i, ch, u, m, p] => pure (.item c i ch u m p)
    | "B", [c] => pure (.beg c)
    | "L", [c, n] => pure (.len c n)
    | "R", [c, i, kd, id, sq] => pure (.res c i kd id sq)
    | "E", [c] => pure (.fin c)
    | "Q", [r, ch, a] => pure (.req r ch a)
    | "M", [r, u, m, p, id] => pure (.msg r u m p id)
    | "P", [ch, u, m, p, id, sq] => pure (.pers ch u m p id sq)
    | "H", [c] => pure (.hang c)
    | "K", [u, m] => pure (.lkerr u m)
    | "X", [c] => pure (.twoInflight c)
    | _, _ => none
  | [] => none

def trafficOk (fs : List String) : Bool :=
  fs.length == 13 && fs.all (fun f => f.toNat?.isSome)

def c29Step (_ : Unit) (op impl : String) : Unit × String × String :=
  match fields op with
  | "coal" :: fs =>
    match coalOp fs with
    | some out => ((), out, if impl == out then "ok" else "viol:coalescing-differs-from-model")
    | none => ((), "bad-op", "ok")
  | "rec" :: fs =>
    match recOp fs with
    | some out => ((), out, if impl == out then "ok" else "viol:recovery-differs-from-model")
    | none => ((), "bad-op", "ok")
  | ["expired", pat] =>
    let cs := pat.toList
    if cs.isEmpty || cs.length > 16 || !cs.all (fun c => c == 'x' || c == 'l') then ((), "bad-op", "ok") else
    let flags := cs.map (· == 'x')
    let sent := activeItems flags
    let res := flags.map fun x => if x then 2 else 0
    let out := s!"sent={ints sent} res={ints res} stored={ints sent}"
    -- the property on the IMPLEMENTATION's output: no expired item reaches the Appender / the store
    let expiredIdx := (List.range flags.length).filter fun i => flags.getD i false
    let implSent := match (fields impl).find? (·.startsWith "sent=") with
      | some f => ((f.drop 5).toString.splitOn ",").filterMap String.toNat?
      | none => []
    let bad := implSent.filter fun i => expiredIdx.contains i
    let verdict :=
      if impl == "never-answered" then "viol:future-never-completed"
      else if bad.isEmpty then "ok"
      else if bad == [0] && flags.getD 1 false then "viol:expired-item-appended:two-leading-inactive"
      else "viol:expired-item-appended:other"
    ((), out, verdict)
  | "drain" :: fs =>
    match fs.mapM String.toNat? with
    | some arr =>
      if arr.isEmpty || arr.any (· > 1048576) then ((), "bad-op", "ok") else
      let out := "|".intercalate ((Drain.run Drain.init arr).map ints)
      ((), out, if impl == out then "ok" else "viol:completion-drain-differs-from-model")
    | none => ((), "bad-op", "ok")
  | [k, a, sd] =>
    if !((k == "routerdl" || k == "idlewriter" || k == "twopass") && sd.toNat?.isSome) then ((), "bad-op", "ok") else
    match a.toNat? with
    | none => ((), "bad-op", "ok")
    | some n =>
      if (k == "routerdl" && n > 2) || (k == "idlewriter" && (n < 1 || n > 100)) || (k == "twopass" && n > 1) then ((), "bad-op", "ok") else
      if impl == "bad-op" then ((), "-", "ok") else
      match (if impl.startsWith "ev=" then ((impl.drop 3).toString.splitOn ",").mapM parseTok else none) with
      | some l => ((), "-", judgeNoFailures (if k == "routerdl" then [1] else []) l)
      | none => ((), "-", "viol:unparseable-output")
  | "traffic" :: fs =>
    if !trafficOk fs then ((), "bad-op", "ok") else
    if impl == "bad-op" then ((), "-", "ok") else
    if impl == "ev=-" then ((), "-", "ok") else
    match (if impl.startsWith "ev=" then ((impl.drop 3).toString.splitOn ",").mapM parseTok else none) with
    | some l => ((), "-", judge l)
    | none => ((), "-", "viol:unparseable-output")
  | _ => ((), "bad-op", "ok")

def main : IO Unit := Drv.main { init := (), step := c29Step }

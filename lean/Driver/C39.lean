import WK.Prelude.Drv
import WK.Model.C39
/-
  C39 driver.  Ops (the harness plays the migration orchestrator, the same
  bookkeeping is kept here):
    w k v | wt k v | start | snap | dl i1 [i2 ..] | fence | ack i | switch | rt | rs
  Output: `<res> # S:<kv> T:<kv> OB:<idxs> ST:<state> AD:<idxs>`.
  Judge (on the implementation's output): deltas applied exactly once,
  non-owners / fenced source refuse ordinary writes, every accepted write is in
  the outbox when forwarding is on, and after the ownership switch the target's
  contents equal the reference map of all accepted writes.
-/
open WK WK.C39

namespace WK.C39.Drv

structure Sys where
  s : Src := {}
  t : Tgt := {}
  fwd : List Delta := []
  /-- source indices whose live forward reached the orchestrator -/
  live : List Nat := []
  snapDone : Bool := false
  switched : Bool := false
  everStarted : Bool := false
  fencedSeen : Bool := false
  delivered : List Nat := []

structure Obs where
  sdata : KV
  tdata : KV
  ob : List Nat
  st : String
  ad : List Nat

structure DState where
  m : Sys := {}
  prev : Option Obs := none
  /-- reference map: every write the implementation accepted, in order -/
  ref : KV := []
  /-- bookkeeping of the judge's own (implementation-side) view -/
  jSwitched : Bool := false
  jStarted : Bool := false
  /-- (idx, key) of freshly applied deltas, newest first -/
  jFresh : List (Nat × Nat) := []
  jReordered : Bool := false
  jIdx : Nat := 0
  jFwd : List Delta := []
  jDiverged : Bool := false
  /-- every source index the implementation ever reported as applied on the target -/
  jApplied : List Nat := []

def keys : List Nat := [1, 2, 3, 4]

def sortNat (xs : List Nat) : List Nat :=
  xs.foldr (fun x acc => (acc.filter (· < x)) ++ [x] ++ (acc.filter (fun y => !(y < x)))) []

def dedupNat : List Nat → List Nat
  | a :: b :: rest => if a == b then dedupNat (b :: rest) else a :: dedupNat (b :: rest)
  | l => l

def fmtKV (m : KV) : String :=
  let parts := keys.filterMap (fun k => (get m k).map (fun v => s!"{k}={v}"))
  if parts.isEmpty then "-" else ",".intercalate parts

def fmtIdx (xs : List Nat) : String :=
  if xs.isEmpty then "-" else ",".intercalate ((sortNat xs).map toString)

def fmtSt (s : Src) : String :=
  match s.st with
  | none => "-"
  | some m => s!"1.2.{m.phase}.{m.fence}.{m.lastOutbox}.{m.lastAcked}"

def dump (y : Sys) : String :=
  s!"S:{fmtKV y.s.data} T:{fmtKV y.t.data} OB:{fmtIdx y.s.outbox} ST:{fmtSt y.s} AD:{fmtIdx y.t.applied}"

def num (s : String) (max : Nat) : Option Nat :=
  match s.toNat? with
  | some n => if n ≤ max && !(s.length > 1 && s.startsWith "0") then some n else none
  | none => none

/-- one command of a multi-command source batch -/
inductive SItem
  | f | w (k v : Nat) | a (i : Nat)

inductive Op
  | w (k v : Nat) (drop : Bool) | wt (k v : Nat) | start | snap | dl (is : List Nat) (fromOutbox : Bool) (stalePos : Option Nat)
  | fence | ack (i : Nat) | ackc (i : Nat) | switch | rt | rs | snap2 | cl (i : Nat) | sb (items : List SItem)

def idxList (rest : List String) : Option (List Nat) :=
  if rest.isEmpty || rest.length > 4 then none
  else
    let ns := rest.filterMap (fun x => num x 1048576)
    if ns.length == rest.length then some ns else none

def parseOp (op : String) : Option Op :=
  match fields op with
  | ["w", k, v] => do let k ← num k 4; let v ← num v 1048576; if k == 0 then none else pure (Op.w k v false)
  | ["wd", k, v] => do let k ← num k 4; let v ← num v 1048576; if k == 0 then none else pure (Op.w k v true)
  | ["wt", k, v] => do let k ← num k 4; let v ← num v 1048576; if k == 0 then none else pure (Op.wt k v)
  | ["start"] => some .start
  | ["snap"] => some .snap
  | "dl" :: rest => idxList rest |>.map (fun ns => Op.dl ns false none)
  | "dlo" :: rest => idxList rest |>.map (fun ns => Op.dl ns true none)
  | "dlm" :: p :: rest => do let p ← num p 1; let ns ← idxList rest; pure (Op.dl ns false (some p))
  | ["fence"] => some .fence
  | ["ack", i] => (num i 1048576).map Op.ack
  | ["ackc", i] => (num i 1048576).map Op.ackc
  | ["switch"] => some .switch
  | ["rt"] => some .rt
  | ["rs"] => some .rs
  | ["snap2"] => some .snap2
  | ["cl", i] => (num i 1048576).map Op.cl
  | "sb" :: rest =>
    if rest.length < 2 || rest.length > 5 then none
    else
      let items := rest.filterMap (fun it =>
        if it == "f" then some SItem.f
        else match it.splitOn "." with
          | ["w", k, v] => do let k ← num k 4; let v ← num v 1048576; if k == 0 then none else pure (SItem.w k v)
          | ["a", i] => (num i 1048576).map SItem.a
          | _ => none)
      if items.length == rest.length then some (.sb items) else none
  | _ => none

def addFwd (y : Sys) (d : Option Delta) (drop : Bool := false) : Sys :=
  match d with
  | some d => { y with fwd := y.fwd ++ [d], live := if drop then y.live else y.live ++ [d.idx] }
  | none => y

/-- the model's step: new system state and result string -/
def stepOp (y : Sys) : Op → Sys × String
  | .w k v drop =>
    let r := y.s.write k v
    (addFwd { y with s := r.1 } r.2.2 drop, r.2.1)
  | .wt k v =>
    let r := y.t.write k v
    ({ y with t := r.1 }, r.2)
  | .start =>
    if y.everStarted || y.switched then (y, "skip")
    else ({ y with s := { y.s with started := true }, everStarted := true }, "ok")
  | .snap =>
    if !y.everStarted || y.snapDone || y.switched then (y, "skip")
    else ({ y with t := y.t.importSnapshot y.s, snapDone := true }, "ok")
  | .dl is fromOutbox stalePos =>
    if !y.snapDone then (y, "skip")
    else
      let avail := fun (i : Nat) => if fromOutbox then y.s.outbox.any (· == i) else y.live.any (· == i)
      let ds := is.filterMap (fun i => if avail i then y.fwd.find? (fun d => d.idx == i) else none)
      if ds.length != is.length then (y, "norow")
      else
        -- with a stale companion command the batch commit fails and the FSM re-applies one by one: same effect
        let oks := is.map (fun _ => "ok")
        let rs := match stalePos with
          | none => oks
          | some 0 => "stale" :: oks
          | some _ => oks ++ ["stale"]
        ({ y with t := y.t.deliverAll ds, delivered := y.delivered ++ is }, ",".intercalate rs)
  | .fence =>
    let r := y.s.fence
    let y' := addFwd { y with s := r.1 } r.2.2
    ({ y' with fencedSeen := y'.fencedSeen || r.2.1 == "ok" }, r.2.1)
  | .ack i =>
    if !y.delivered.any (· == i) then (y, "skip")
    else let r := y.s.ack i; ({ y with s := r.1 }, r.2)
  | .ackc i =>
    if !y.delivered.any (· == i) then ({ y with s := { y.s with idx := y.s.idx + 1 } }, "skip")
    else let r := y.s.ackCmd i; ({ y with s := r.1 }, r.2)
  | .switch =>
    let ready := y.everStarted && y.snapDone && !y.switched && y.fencedSeen &&
      y.s.outbox.all (fun i => y.delivered.any (· == i))
    if !ready then (y, "skip")
    else ({ y with switched := true, s := { y.s with owned := false, started := false }, t := { y.t with owned := true } }, "ok")
  | .rt => (y, "ok")
  | .rs => (y, "ok")
  | .snap2 =>
    if !y.snapDone || y.switched then (y, "skip")
    else ({ y with t := y.t.importSnapshot y.s }, "ok")
  | .cl i =>
    if !y.switched then ({ y with s := { y.s with idx := y.s.idx + 1 } }, "skip")
    else let r := y.s.cleanup i; ({ y with s := r.1 }, r.2)
  | .sb items =>
    let bump : Sys := { y with s := { y.s with idx := y.s.idx + items.length } }
    if items.any (fun it => match it with | .a i => !y.delivered.any (· == i) | _ => false) then (bump, "skip")
    else
      -- one ApplyBatch: the commands see each other's staged migration state, so it is the sequential fold;
      -- any command error aborts the whole batch (nothing committed)
      let (y', rs) := items.foldl (fun (acc : Sys × List String) it =>
        let (z, rs) := acc
        match it with
        | .f =>
          let r := z.s.fence
          let z' := addFwd { z with s := r.1 } r.2.2
          ({ z' with fencedSeen := z'.fencedSeen || r.2.1 == "ok" }, rs ++ [r.2.1])
        | .w k v =>
          let r := z.s.write k v
          (addFwd { z with s := r.1 } r.2.2, rs ++ [r.2.1])
        | .a i => let r := z.s.ackCmd i; ({ z with s := r.1 }, rs ++ [r.2])) (y, [])
      match rs.find? (fun r => r.startsWith "err") with
      | some e => (bump, e)
      | none => (y', ",".intercalate rs)

def parseKV (s : String) : Option KV :=
  if s == "-" then some []
  else (s.splitOn ",").foldlM (fun (acc : KV) (p : String) =>
    match p.splitOn "=" with
    | [k, v] => do let k ← k.toNat?; let v ← v.toNat?; pure (acc ++ [(k, v)])
    | _ => none) []

def parseIdx (s : String) : Option (List Nat) :=
  if s == "-" then some []
  else
    let ps := s.splitOn ","
    let ns := ps.filterMap String.toNat?
    if ns.length == ps.length then some ns else none

def parseObs (d : String) : Option Obs :=
  match fields d with
  | [a, b, c, e, f] =>
    match a.splitOn ":", b.splitOn ":", c.splitOn ":", e.splitOn ":", f.splitOn ":" with
    | ["S", sa], ["T", ta], ["OB", ob], ["ST", st], ["AD", ad] => do
      pure { sdata := ← parseKV sa, tdata := ← parseKV ta, ob := ← parseIdx ob, st := st, ad := ← parseIdx ad }
    | _, _, _, _, _ => none
  | _ => none

def splitOut (impl : String) : String × String :=
  match impl.splitOn " # " with
  | [a, b] => (a, b)
  | [a] => (a, "")
  | a :: rest => (a, " # ".intercalate rest)
  | [] => ("", "")

def kvEq (a b : KV) : Bool := sameOn keys a b

def fenceOf (st : String) : Nat :=
  match st.splitOn "." with
  | [_, _, _, f, _, _] => f.toNat?.getD 0
  | _ => 0

/-- judge one op on the implementation's output; returns verdict and updated judge state -/
def diverge (d : DState) (tdata : KV) : String × DState :=
  if kvEq tdata d.ref || d.jDiverged then ("ok", d)
  else ("viol:target-diverges" ++ (if d.jReordered then ":reordered-conflicting-deltas" else ""), { d with jDiverged := true })

def judge (d : DState) (op : Op) (res : String) (o : Obs) : String × DState :=
  let pre : Obs := d.prev.getD { sdata := [], tdata := [], ob := [], st := "-", ad := [] }
  let accepted := res == "ok"
  match op with
  | .w k v _ =>
    let idx := d.jIdx + 1
    let d := { d with jIdx := idx }
    if d.jSwitched then
      -- the source no longer owns the hash slot
      if accepted || !kvEq o.sdata pre.sdata || !kvEq o.tdata pre.tdata then ("viol:non-owner-accepted", d) else ("ok", d)
    else if fenceOf pre.st != 0 then
      if accepted || !kvEq o.sdata pre.sdata then ("viol:fenced-write-accepted", d) else ("ok", d)
    else if accepted then
      let d := { d with ref := put k v d.ref, jFwd := if d.jStarted then d.jFwd ++ [⟨idx, some (k, v)⟩] else d.jFwd }
      if d.jStarted && !o.ob.any (· == idx) then ("viol:write-not-outboxed", d)
      else if get o.sdata k != some v then ("viol:accepted-write-missing-at-source", d)
      else ("ok", d)
    else ("ok", d)
  | .wt k v =>
    if !d.jSwitched then
      if accepted || !kvEq o.tdata pre.tdata then ("viol:non-owner-accepted", d) else ("ok", d)
    else
      let d := if accepted then { d with ref := put k v d.ref } else d
      diverge d o.tdata
  | .start => ("ok", if res == "ok" then { d with jStarted := true } else d)
  | .fence =>
    let idx := d.jIdx + 1
    let d := { d with jIdx := idx }
    let d := if accepted && fenceOf pre.st == 0 && fenceOf o.st != 0 then { d with jFwd := d.jFwd ++ [⟨idx, none⟩] } else d
    ("ok", d)
  | .dl is _ _ =>
    if res == "skip" || res == "norow" || res.startsWith "err" then
      (if kvEq o.tdata pre.tdata then "ok" else "viol:refused-delivery-changed-target", d)
    else
      -- exactly once: replay keys already recorded (or repeated in the batch) change nothing, fresh ones apply once in order
      let ds := is.filterMap (fun i => d.jFwd.find? (fun x => x.idx == i))
      let (expect, seen, fresh, reord) := ds.foldl (fun (acc : KV × List Nat × List (Nat × Nat) × Bool) (x : Delta) =>
        let (m, seen, fresh, reord) := acc
        if seen.any (· == x.idx) then acc
        else match x.cmd with
          | some (k, v) =>
            let r := fresh.any (fun p => p.2 == k && p.1 > x.idx)
            (put k v m, x.idx :: seen, (x.idx, k) :: fresh, reord || r)
          | none => (m, x.idx :: seen, fresh, reord)) (pre.tdata, pre.ad ++ d.jApplied, d.jFresh, d.jReordered)
      let d := { d with jFresh := fresh, jReordered := reord }
      if ds.length != is.length then ("viol:unknown-delta-accepted", d)
      else if !kvEq o.tdata expect then ("viol:delta-not-exactly-once", d)
      else if !(dedupNat (sortNat o.ad) == dedupNat (sortNat seen)) then ("viol:applied-record-mismatch", d)
      else if d.jSwitched then diverge d o.tdata
      else ("ok", d)
  | .switch =>
    if res != "ok" then ("ok", d)
    else
      diverge { d with jSwitched := true } o.tdata
  | .ack i | .ackc i =>
    let d := if op matches .ackc _ then { d with jIdx := d.jIdx + 1 } else d
    -- an ack removes at most the acked row: every other outbox row survives
    if pre.ob.any (fun x => x != i && !o.ob.any (· == x)) then ("viol:ack-removed-other-outbox-row", d)
    else if !kvEq o.tdata pre.tdata || !kvEq o.sdata pre.sdata then ("viol:ack-changed-data", d)
    else ("ok", d)
  | .snap2 =>
    -- a re-installed snapshot must keep the durable applied-delta records (else old deltas are re-applied)
    if res == "ok" && !(sortNat o.ad == sortNat pre.ad) then ("viol:snapshot-install-lost-applied-records", d) else ("ok", d)
  | .cl _ => ("ok", { d with jIdx := d.jIdx + 1 })
  | .sb items =>
    let base := d.jIdx
    let d := { d with jIdx := base + items.length }
    if res == "skip" || res.startsWith "err" then
      (if kvEq o.sdata pre.sdata then "ok" else "viol:refused-batch-changed-source", d)
    else
      let rs := res.splitOn ","
      -- walk the batch: a write answered ok after the fence (already durable, or entered earlier in this batch) is a violation
      let (d, v, _, _) := (items.zip rs).foldl (fun (acc : DState × String × Bool × Nat) (p : SItem × String) =>
        let (d, v, fenced, n) := acc
        let idx := base + n + 1
        match p.1 with
        | .f => (if p.2 == "ok" && !fenced then { d with jFwd := d.jFwd ++ [⟨idx, none⟩] } else d, v, fenced || p.2 == "ok", n + 1)
        | .w k w' =>
          if p.2 == "ok" then
            let d := { d with ref := put k w' d.ref, jFwd := if d.jStarted then d.jFwd ++ [⟨idx, some (k, w')⟩] else d.jFwd }
            let v := if v != "ok" then v
                     else if fenced then "viol:fenced-write-accepted"
                     else if d.jStarted && !o.ob.any (· == idx) then "viol:write-not-outboxed"
                     else v
            (d, v, fenced, n + 1)
          else (d, v, fenced, n + 1)
        | .a _ => (d, v, fenced, n + 1)) (d, "ok", fenceOf pre.st != 0, 0)
      let hadFence := (items.zip rs).any (fun p => match p.1 with | .f => p.2 == "ok" | _ => false)
      if v != "ok" then (v, d)
      else if hadFence && fenceOf o.st == 0 then ("viol:fence-lost", d)
      else ("ok", d)
  | .rt | .rs =>
    (if kvEq o.tdata pre.tdata && kvEq o.sdata pre.sdata && sortNat o.ad == sortNat pre.ad then "ok" else "viol:restart-changed-durable-state", d)
  | _ => ("ok", d)

def step (d : DState) (op impl : String) : DState × String × String :=
  match parseOp op with
  | none => (d, "bad-op", "ok")
  | some o =>
    let (m', res) := stepOp d.m o
    let mout := res ++ " # " ++ dump m'
    let (ires, idump) := splitOut impl
    match parseObs idump with
    | none => ({ d with m := m' }, mout, "viol:unparseable-output")
    | some obs =>
      let (verdict, d') := judge d o ires obs
      ({ d' with m := m', prev := some obs, jApplied := obs.ad ++ d'.jApplied.filter (fun i => !obs.ad.any (· == i)) }, mout, verdict)

end WK.C39.Drv

def main : IO Unit := WK.Drv.main { init := ({} : WK.C39.Drv.DState), step := WK.C39.Drv.step }

import WK.Prelude.Drv
import WK.Model.C14
/-
  C14 driver.  Three scopes (0,1 = slots, 2 = controller) on one DB.

  ops
    save <s> <hs|-> <snap|-> <first> <ents|->     hs = T,V,C   snap = I,T,<conf>,<hex>
                                                  conf = v.v/l.l ( _ = empty )   ents = e;e;…  e = TERM:n<hex> | TERM:c<ty>.<node>
    repl <s> <snap>      mark <s> <i>      cmark <s> <i>
    ents <s> <lo> <hi> <max>      term <s> <i>      reopen
    par <sub> | <sub> | …          (concurrent writers on distinct scopes)
  impl/model output
    mutation : `P=<ok|outofdate|err> <dump> M=<ok|err> <dump>`   (dump = full read API, see `renderReads`)
    reopen   : `R0 <dump> R1 <dump> R2 <dump>`
    ents     : `P=<entries> M=<entries>`        term : `P=<n> M=<n>`
  judge: on the IMPLEMENTATION's dump — Pebble = reference while the history is
  Raft-valid, contiguity, nothing below the compaction point, Term defined iff
  in [first-1,last], reopen changes nothing.
-/
open WK WK.C14

/-! rendering -/
def dotList (xs : List Nat) : String :=
  if xs.isEmpty then "_" else ".".intercalate (xs.map toString)

def renderConf (c : Conf) : String := dotList c.voters ++ "/" ++ dotList c.learners

def renderEntry (e : Entry) : String :=
  let p := match e.pl with
    | .normal b => "n" ++ hexEncode b
    | .cc ty node => s!"c{ty}.{node}"
  s!"{e.index}:{e.term}:{p}"

def renderEntries (es : List Entry) : String :=
  if es.isEmpty then "-" else ";".intercalate (es.map renderEntry)

def renderSnap (s : Snap) : String := s!"{s.index},{s.term},{renderConf s.conf},{hexEncode s.data}"

def optNat : Option Nat → String
  | some n => toString n
  | none => "err"

def renderReads (r : Reads) : String :=
  let init := match r.init with
    | some (h, c, ap, ca) => s!"{h.term},{h.vote},{h.commit},{renderConf c},{ap},{ca}"
    | none => "err"
  let sn := match r.snap with
    | some s => renderSnap s
    | none => "err"
  let en := match r.ents with
    | some es => renderEntries es
    | none => "err"
  let tm := match r.first, r.last with
    | some _, some _ =>
      (match r.terms with
       | some ts => s!"{r.termLo}:" ++ ".".intercalate (ts.map toString)
       | none => "err")
    | _, _ => "-"
  s!"in={init} fi={optNat r.first} la={optNat r.last} sn={sn} en={en} tm={tm}"

/-! parsing -/
def parseDots (s : String) : Option (List Nat) :=
  if s == "_" then some [] else (s.splitOn ".").mapM String.toNat?

def parseConf (s : String) : Option Conf :=
  match s.splitOn "/" with
  | [v, l] => do
    let v ← parseDots v
    let l ← parseDots l
    pure ⟨v, l⟩
  | _ => none

def parseSnap (s : String) : Option Snap :=
  match s.splitOn "," with
  | [i, t, c, d] => do
    let i ← i.toNat?
    let t ← t.toNat?
    let c ← parseConf c
    let d ← hexDecode d
    pure ⟨i, t, c, d⟩
  | _ => none

def parsePayload (s : String) : Option Payload :=
  if s.startsWith "n" then (hexDecode (s.drop 1).toString).map Payload.normal
  else if s.startsWith "c" then
    match ((s.drop 1).toString).splitOn "." with
    | [a, b] => do
      let a ← a.toNat?
      let b ← b.toNat?
      pure (Payload.cc a b)
    | _ => none
  else none

/-- `TERM:payload` list with consecutive indices from `first` -/
def parseOpEnts (first : Nat) (s : String) : Option (List Entry) :=
  if s == "-" then some [] else
  let rec go (i : Nat) : List String → Option (List Entry)
    | [] => some []
    | x :: xs =>
      match x.splitOn ":" with
      | [t, p] => do
        let t ← t.toNat?
        let p ← parsePayload p
        let r ← go (i + 1) xs
        pure (⟨i, t, p⟩ :: r)
      | _ => none
  go first (s.splitOn ";")

/-- `INDEX:TERM:payload` list of a dump -/
def parseDumpEnts (s : String) : Option (List Entry) :=
  if s == "-" then some [] else
  (s.splitOn ";").mapM (fun x =>
    match x.splitOn ":" with
    | [i, t, p] => do
      let i ← i.toNat?
      let t ← t.toNat?
      let p ← parsePayload p
      pure (⟨i, t, p⟩ : Entry)
    | _ => none)

def parseHard (s : String) : Option (Option Hard) :=
  if s == "-" then some none else
  match (s.splitOn ",").mapM String.toNat? with
  | some [t, v, c] => some (some ⟨t, v, c⟩)
  | _ => none

def kv (key : String) (f : String) : Option String :=
  if f.startsWith (key ++ "=") then some (f.drop (key.length + 1)).toString else none

/-- parse six dump fields back into `Reads` (errors become `none`) -/
def parseReads (fs : List String) : Option Reads :=
  match fs with
  | [a, b, c, d, e, f] => do
    let a ← kv "in" a
    let b ← kv "fi" b
    let c ← kv "la" c
    let d ← kv "sn" d
    let e ← kv "en" e
    let f ← kv "tm" f
    let init ← (if a == "err" then some none else
      match a.splitOn "," with
      | [t, v, cm, cf, ap, ca] => do
        let t ← t.toNat?
        let v ← v.toNat?
        let cm ← cm.toNat?
        let cf ← parseConf cf
        let ap ← ap.toNat?
        let ca ← ca.toNat?
        pure (some (⟨t, v, cm⟩, cf, ap, ca))
      | _ => none)
    let first ← (if b == "err" then some none else b.toNat?.map some)
    let last ← (if c == "err" then some none else c.toNat?.map some)
    let snap ← (if d == "err" then some none else (parseSnap d).map some)
    let ents ← (if e == "err" then some none else (parseDumpEnts e).map some)
    let (lo, terms) ← (if f == "err" ∨ f == "-" then some (0, none) else
      match f.splitOn ":" with
      | [lo, ts] => do
        let lo ← lo.toNat?
        let ts ← (ts.splitOn ".").mapM String.toNat?
        pure (lo, some ts)
      | _ => none)
    pure { init := init, first := first, last := last, snap := snap, ents := ents, termLo := lo, terms := terms }
  | _ => none

/-! state -/
structure Sc where
  p : PStore := {}
  m : RaftStore := {}
  valid : Bool := true          -- the history of this scope is Raft-valid so far
  lastDump : String := ""       -- implementation's last Pebble dump of this scope
deriving Inhabited

structure St where
  scs : List Sc := [{}, {}, {}]

def St.get (st : St) (s : Nat) : Sc := st.scs.getD s {}
def St.set (st : St) (s : Nat) (x : Sc) : St := { st with scs := st.scs.set s x }

def errStr : Err → String
  | .outOfDate => "outofdate"
  | .other => "err"

abbrev Mut := Op

def snapInRange (s : Snap) : Bool := s.index ≤ maxU64 && s.term ≤ maxU64

def parseMut (fs : List String) : Option (Nat × Mut) :=
  match fs with
  | ["save", s, hs, sn, first, ents] => do
    let s ← s.toNat?
    let hs ← parseHard hs
    let sn ← (if sn == "-" then some none else (parseSnap sn).map some)
    let first ← first.toNat?
    let es ← parseOpEnts first ents
    let okHs : Bool := match hs with
      | some h => decide (h.term ≤ maxU64 ∧ h.vote ≤ maxU64 ∧ h.commit ≤ maxU64)
      | none => true
    let okSn : Bool := match sn with
      | some x => snapInRange x
      | none => true
    if s < 3 ∧ 1 ≤ first ∧ first + es.length < 9223372036854775808 ∧ okHs ∧ okSn then pure (s, Op.save hs sn es) else none
  | ["repl", s, sn] => do
    let s ← s.toNat?
    let sn ← parseSnap sn
    if s < 3 ∧ snapInRange sn then pure (s, Op.repl sn) else none
  | ["mark", s, i] => do
    let s ← s.toNat?
    let i ← i.toNat?
    if s < 3 ∧ i ≤ maxU64 then pure (s, Op.mark i) else none
  | ["cmark", s, i] => do
    let s ← s.toNat?
    let i ← i.toNat?
    if s < 3 ∧ i ≤ maxU64 then pure (s, Op.cmark i) else none
  | _ => none

/-- run one mutation on both models; returns the new scope state and the model's output text -/
def runMut (sc : Sc) (mu : Mut) : Sc × String :=
  let (pres, mres, valid) : (Except Err PStore) × (Option RaftStore) × Bool :=
    (stepP? sc.p mu, stepM? sc.m mu, validOp sc.m mu)
  let (p, ptxt) := match pres with
    | .ok p => (p, "ok")
    | .error e => (sc.p, errStr e)
  let (m, mtxt) := match mres with
    | some m => (m, "ok")
    | none => (sc.m, "err")
  let (p, pr) := p.reads
  let out := s!"P={ptxt} {renderReads pr} M={mtxt} {renderReads m.reads}"
  ({ sc with p := p, m := m, valid := sc.valid && valid }, out)

/-- judge one mutation's implementation output -/
def judgeMut (valid : Bool) (impl : String) : String × String :=
  match fields impl with
  | [pres, a, b, c, d, e, f, mres, a', b', c', d', e', f'] =>
    let pd := " ".intercalate [a, b, c, d, e, f]
    let md := " ".intercalate [a', b', c', d', e', f']
    if !valid then ("ok", pd) else
    match parseReads [a, b, c, d, e, f] with
    | none => ("viol:unparseable-output", pd)
    | some r =>
      if pres ≠ "P=ok" ∨ mres ≠ "M=ok" then ("viol:valid-mutation-refused", pd)
      else if r.init.isNone ∨ r.first.isNone ∨ r.last.isNone ∨ r.snap.isNone ∨ r.ents.isNone ∨ r.terms.isNone then
        ("viol:read-api-error", pd)
      else if !r.noneBelow then ("viol:entry-below-compaction", pd)
      else if !r.contiguous then ("viol:not-contiguous", pd)
      else if !r.termsDefinedIff then ("viol:term-defined-mismatch", pd)
      else if pd ≠ md then ("viol:pebble-differs-from-reference", pd)
      else ("ok", pd)
  | _ => ("viol:unparseable-output", "")

def splitBar (s : String) : List String := (s.splitOn " | ").map String.trimAscii |>.map (·.toString)

def stepMuts (st : St) (subs : List String) (impls : List String) : Option (St × List String × String) :=
  let rec go (st : St) (used : List Nat) : List String → List String → Option (St × List String × String)
    | [], _ => some (st, [], "ok")
    | sub :: subs, impls =>
      match parseMut (fields sub) with
      | none => none
      | some (s, mu) =>
        if used.contains s then none else
        let sc := st.get s
        let (sc', out) := runMut sc mu
        let (v, pd) := judgeMut sc'.valid (impls.headD "")
        let sc' := { sc' with lastDump := pd }
        match go (st.set s sc') (s :: used) subs (impls.drop 1) with
        | none => none
        | some (st', outs, v') => some (st', out :: outs, if v ≠ "ok" then v else v')
  go st [] subs impls

def c14Step (st : St) (op impl : String) : St × String × String :=
  let fs := fields op
  match fs with
  | ["reopen"] =>
    let scs := st.scs.map (fun sc => { sc with p := stepP sc.p Op.reopen })
    -- dump every scope (reads may persist a missing meta)
    let rd := scs.map (fun sc => let (p, r) := sc.p.reads; ({ sc with p := p }, renderReads r))
    let out := " ".intercalate ((List.range rd.length).map (fun k => s!"R{k} " ++ (rd.getD k default).2))
    -- judge: each scope's implementation dump equals its last dump (when it had one)
    let parts := fields impl
    let verdict :=
      if parts.length ≠ 21 then "viol:unparseable-output" else
      let bad := (List.range 3).any (fun k =>
        let pd := " ".intercalate ((parts.drop (7 * k + 1)).take 6)
        let last := (scs.getD k default).lastDump
        last ≠ "" ∧ last ≠ pd)
      if bad then "viol:reopen-changed-state" else "ok"
    let scs := (List.range rd.length).map (fun k =>
      let sc := (rd.getD k default).1
      let pd := " ".intercalate (((fields impl).drop (7 * k + 1)).take 6)
      { sc with lastDump := if sc.lastDump == "" then sc.lastDump else pd })
    ({ st with scs := scs }, out, verdict)
  | ["ents", s, lo, hi, mx] =>
    match s.toNat?, lo.toNat?, hi.toNat?, mx.toNat? with
    | some s, some lo, some hi, some mx =>
      if s ≥ 3 ∨ lo > maxU64 ∨ hi > maxU64 ∨ mx > maxU64 then (st, "bad-op", "ok") else
      let sc := st.get s
      let pe := sc.p.d.entriesGo lo hi mx
      let me := sc.m.entriesGo lo hi mx
      let out := s!"P={renderEntries pe} M={renderEntries me}"
      -- judge: nothing at or below the snapshot index, and (valid history, hi ≠ 0) Pebble = reference
      let verdict :=
        match fields impl with
        | [pi, mi] =>
          match (kv "P" pi).bind parseDumpEnts, kv "M" mi with
          | some es, some mtxt =>
            if sc.valid ∧ hi ≠ 0 ∧ (kv "P" pi) ≠ some mtxt then "viol:pebble-differs-from-reference"
            else if sc.valid ∧ es.any (fun e => e.index ≤ sc.m.snapshot.index ∨ e.index < lo ∨ (hi ≠ 0 ∧ e.index ≥ hi)) then "viol:entry-below-compaction"
            else if sc.valid ∧ !consecutiveFrom (es.headD default).index es then "viol:not-contiguous"
            else "ok"
          | _, _ => "viol:unparseable-output"
        | _ => "viol:unparseable-output"
      (st, out, verdict)
    | _, _, _, _ => (st, "bad-op", "ok")
  | ["firstrace", s, first, ents] =>
    match s.toNat?, first.toNat? with
    | some s, some first =>
      match parseOpEnts first ents with
      | some es =>
        if s ≥ 3 ∨ first < 1 ∨ first + es.length ≥ 9223372036854775808 then (st, "bad-op", "ok") else
        let sc := st.get s
        let raced := sc.p.d.logMeta.isNone
        let (p, ptxt) := match sc.p.firstReadRace es with
          | .ok p => (p, "ok")
          | .error e => (sc.p, errStr e)
        let m := sc.m.save none none es
        let (p, pr) := p.reads
        let out := s!"P={ptxt} {renderReads pr} M=ok {renderReads m.reads}"
        -- judge: with a valid history so far the entries just acknowledged must be visible through the meta
        let verdict :=
          match fields impl with
          | [_, a, b, c, d, e, f, _, _, _, _, _, _, _] =>
            match parseReads [a, b, c, d, e, f] with
            | some r =>
              if sc.valid ∧ validSave sc.m none none es ∧ !r.contiguous then
                (if raced then "viol:stale-meta-after-first-read-race" else "viol:not-contiguous")
              else "ok"
            | none => "viol:unparseable-output"
          | _ => "viol:unparseable-output"
        let pd := " ".intercalate (((fields impl).drop 1).take 6)
        (st.set s { sc with p := p, m := m, valid := false, lastDump := pd }, out, verdict)
      | none => (st, "bad-op", "ok")
    | _, _ => (st, "bad-op", "ok")
  | ["term", s, i] =>
    match s.toNat?, i.toNat? with
    | some s, some i =>
      if s ≥ 3 ∨ i > maxU64 then (st, "bad-op", "ok") else
      let sc := st.get s
      let pt := match sc.p.d.termGo i with
        | .ok t => toString t
        | .error _ => "err"
      let out := s!"P={pt} M={sc.m.termGo i}"
      let verdict :=
        match fields impl with
        | [pi, mi] =>
          match (kv "P" pi), (kv "M" mi) with
          | some a, some b =>
            if !sc.valid then "ok"
            else if a ≠ b then "viol:pebble-differs-from-reference"
            else
              -- answered (non-zero) iff the reference spec defines it at an index ≥ 1
              let defined : Bool := match sc.m.term? i with
                | .ok _ => decide (i ≥ 1)
                | .error _ => false
              if (a != "0") != defined then "viol:term-defined-mismatch" else "ok"
          | _, _ => "viol:unparseable-output"
        | _ => "viol:unparseable-output"
      (st, out, verdict)
    | _, _ => (st, "bad-op", "ok")
  | "par" :: _ =>
    let subs := splitBar ((op.drop 4).toString)
    let impls := splitBar impl
    if subs.length < 2 ∨ subs.length > 3 then (st, "bad-op", "ok") else
    match stepMuts st subs impls with
    | some (st', outs, v) => (st', " | ".intercalate outs, v)
    | none => (st, "bad-op", "ok")
  | _ =>
    match stepMuts st [op] [impl] with
    | some (st', outs, v) => (st', " | ".intercalate outs, v)
    | none => (st, "bad-op", "ok")

def main : IO Unit := Drv.main { init := ({} : St), step := c14Step }

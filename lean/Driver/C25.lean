import WK.Prelude.Drv
import WK.Spec.C25
import Std.Data.HashMap
/-
  C25 driver.  See harness/C25/c25.go for the op grammar.
  The AES block calls the real code made are in the implementation's line
  (`ein/eout`, `din/dout`); the outputs are the ORACLE for the abstract
  permutation, the inputs must be predicted exactly by the model.
-/
open WK WK.C25 WK.Gen.C25

namespace C25Drv

def kv (s : String) : List (String × String) :=
  (fields s).filterMap fun f =>
    match f.splitOn "=" with
    | [k, v] => some (k, v)
    | _ => none

def look (m : List (String × String)) (k : String) : Option String := (m.find? (·.1 == k)).map (·.2)

def lookHex (m : List (String × String)) (k : String) : Option Bytes := (look m k).bind hexDecode

/-- block → block table from the recorded calls -/
def table (ins outs : Bytes) : Std.HashMap Bytes Bytes :=
  (List.zip (chunks ins) (chunks outs)).foldl (fun m (a, b) => m.insert a b) {}

def oracle (t : Std.HashMap Bytes Bytes) (b : Bytes) : Bytes := (t.get? b).getD []

def prims (enc dec : Std.HashMap Bytes Bytes) : Prims :=
  { E := fun _ b => oracle enc b, D := fun _ b => oracle dec b, b64enc := b64Enc, b64dec := b64Dec, md5 := md5,
    dh := fun _ _ => none, basepoint := [] }

def exStr : Except Err Bytes → String
  | .ok b => hexEncode b
  | .error e => e.str

/-- mirrored by c25TamperBytes in the harness -/
def tamperBytes (kind : String) (b : Bytes) (idx arg : Nat) : Bytes :=
  if kind == "f" then
    if b.length = 0 then b else
    let j := idx % b.length
    b.take j ++ ((b.drop j).take 1).map (· ^^^ UInt8.ofNat (2 ^ (arg % 8))) ++ b.drop (j + 1)
  else if kind == "d" then
    if b.length = 0 then b else
    let j := idx % b.length
    b.take j ++ b.drop (j + 1)
  else if kind == "t" || kind == "c" then
    if b.length = 0 then b else b.take (idx % b.length)
  else
    let j := idx % (b.length + 1)
    b.take j ++ [UInt8.ofNat arg] ++ b.drop j

def flipBit (n bit : Nat) : Nat := if (n / 2 ^ bit) % 2 == 1 then n - 2 ^ bit else n + 2 ^ bit

structure SendIn where
  keys : SessionKeys
  mode : String
  ver : Nat
  pkt : SendPacket      -- as the application hands it to the client (plaintext payload)
  tamper : String

def parseSend : List String → Option SendIn
  | [key, iv, mode, ver, setting, seq, msgno, chid, chtype, expire, topic, payload, tamper] => do
    let key ← hexDecode key
    let iv ← hexDecode iv
    let ver ← ver.toNat?
    let setting ← setting.toNat?
    let seq ← seq.toNat?
    let msgno ← hexDecode msgno
    let chid ← hexDecode chid
    let chtype ← chtype.toNat?
    let expire ← expire.toNat?
    let topic ← hexDecode topic
    let payload ← hexDecode payload
    if key.length < 16 ∨ iv.length < 16 ∨ ¬ (mode == "c" ∨ mode == "k" ∨ mode == "n" ∨ mode == "e")
        ∨ ¬ (ver = 0 ∨ ver = 5 ∨ ver = 6) ∨ ¬ (setting = 0 ∨ setting = 8 ∨ setting = 16 ∨ setting = 24)
        ∨ seq ≥ 2 ^ 64 ∨ chtype > 255 ∨ expire ≥ 2 ^ 32 then none
    else some { keys := { aesKey := key, aesIV := iv }, mode, ver, tamper,
                pkt := { setting, clientSeq := seq, clientMsgNo := msgno, channelID := chid, channelType := chtype,
                         expire, topic, payload } }
  | _ => none

/-- apply the perturbation to the sealed packet; `none` = malformed spec; Bool = a covered field / payload / msg key really changed by a single perturbation -/
def applyTamper (p : SendPacket) (t : String) : Option (SendPacket × Bool × Bool) :=  -- (packet, coveredChanged, isShift)
  if t == "none" then some (p, false, false)
  else if t == "shift" then
    match p.clientMsgNo.getLast? with
    | none => some (p, false, true)
    | some c => some ({ p with clientMsgNo := p.clientMsgNo.dropLast, channelID := c :: p.channelID }, false, true)
  else
    match t.splitOn ":" with
    | [k, f, idx, arg] =>
      match idx.toNat?, arg.toNat? with
      | some idx, some arg =>
        if ¬ (k == "f" ∨ k == "d" ∨ k == "i" ∨ k == "t" ∨ k == "c") ∨ arg > 255 ∨ ((k == "t" ∨ k == "c") ∧ f != "payload") then none else
        if f == "payload" && k == "c" then
          -- combined: truncated ciphertext + forged msg key (bit of its first byte) + altered channel id
          let mk := match p.msgKey with
            | [] => []
            | b :: r => (b ^^^ UInt8.ofNat (2 ^ (arg % 8))) :: r
          some ({ p with payload := tamperBytes k p.payload idx arg, msgKey := mk, channelID := p.channelID ++ [88] }, true, false)
        else if f == "payload" then let v := tamperBytes k p.payload idx arg; some ({ p with payload := v }, v != p.payload, false)
        else if f == "msgkey" then let v := tamperBytes k p.msgKey idx arg; some ({ p with msgKey := v }, v != p.msgKey, false)
        else if f == "msgno" then let v := tamperBytes k p.clientMsgNo idx arg; some ({ p with clientMsgNo := v }, v != p.clientMsgNo, false)
        else if f == "chid" then let v := tamperBytes k p.channelID idx arg; some ({ p with channelID := v }, v != p.channelID, false)
        else if f == "topic" then some ({ p with topic := tamperBytes k p.topic idx arg }, false, false)
        else if k != "f" then none
        else if f == "seq" then some ({ p with clientSeq := flipBit p.clientSeq (arg % 32) }, true, false)
        else if f == "chtype" then some ({ p with channelType := flipBit p.channelType (arg % 8) }, true, false)
        else if f == "expire" then some ({ p with expire := flipBit p.expire (arg % 32) }, false, false)
        else none
      | _, _ => none
    | _ => none

def sendLine (p : SendPacket) : String :=
  s!"ok seq={p.clientSeq} msgno={hexEncode p.clientMsgNo} chid={hexEncode p.channelID} chtype={p.channelType} expire={p.expire} topic={hexEncode p.topic} payload={hexEncode p.payload}"

def stepSend (args : List String) (impl : String) : String × String :=
  match parseSend args with
  | none => ("bad-op", "ok")
  | some i =>
    let m := kv impl
    let clientEncrypts := !noEncrypt i.pkt.setting && i.mode != "n"
    -- the client's ciphertext and msg key are opaque values taken from the implementation's line
    match (if clientEncrypts then (lookHex m "enc", lookHex m "mk") else (some i.pkt.payload, some [])) with
    | (some enc, some mk) =>
      let sealed : SendPacket := { i.pkt with payload := enc, msgKey := mk }
      match applyTamper sealed i.tamper with
      | none => ("bad-op", "ok")
      | some (tp, coveredChanged, isShift) =>
        -- the wire: ClientSeq is 32 bits, the topic travels only with the topic bit
        let hasTopic := (i.pkt.setting / 8) % 2 == 1
        let wire : SendPacket := { tp with clientSeq := tp.clientSeq % 2 ^ 32, topic := if hasTopic then tp.topic else [] }
        let suffix := if clientEncrypts then s!" enc={hexEncode enc} mk={hexEncode mk}" else ""
        let enabled := i.mode != "n"
        let serverDecrypts := !noEncrypt wire.setting && enabled
        let implOk := impl.startsWith "ok "
        if !serverDecrypts then
          (sendLine wire ++ suffix, "ok")
        else if i.mode == "e" then
          (Err.missingKey.str ++ suffix, "ok")
        else
          -- ideal functionality of validate: accepted iff msg key untouched and the preimage is the one the client signed
          let accepted := wire.msgKey == sealed.msgKey && sendPreimage wire == sendPreimage sealed
          let model :=
            if !accepted then Err.mismatch.str ++ suffix
            else if wire.payload == enc then sendLine { wire with payload := i.pkt.payload } ++ suffix
            else "-"
          -- the judge: the property itself, on the implementation's output
          let mustReject := coveredChanged || i.pkt.clientSeq ≥ 2 ^ 32
          let verdict :=
            if mustReject then (if implOk then "viol:tampered-send-accepted" else "ok")
            else if isShift then "ok"
            else if !implOk then "viol:genuine-send-rejected"
            else
              let g := kv impl
              if lookHex g "payload" != some i.pkt.payload then "viol:wrong-plaintext"
              else if look g "seq" != some (toString i.pkt.clientSeq) || lookHex g "msgno" != some i.pkt.clientMsgNo
                   || lookHex g "chid" != some i.pkt.channelID || look g "chtype" != some (toString i.pkt.channelType) then "viol:covered-field-changed"
              else "ok"
          (model, verdict)
    | _ => ("-", if impl.startsWith "bad-op" then "ok" else "viol:unparseable-output")

def step (_ : Unit) (op impl : String) : Unit × String × String :=
  let m := kv impl
  let r : String × String :=
    match fields op with
    | ["pad", n, bs] =>
      match n.toNat?, bs.toNat? with
      | some n, some bs =>
        if bs = 0 ∨ bs ≥ 65536 ∨ n ≥ 2 ^ 31 then ("bad-op", "ok") else
        (toString (pkcs7PaddingSize n bs),
          match impl.toNat? with
          | some r => if judgePad n bs r then "ok" else "viol:bad-padding-size"
          | none => "viol:unparseable-output")
      | _, _ => ("bad-op", "ok")
    | ["unpad", b, bs] =>
      match hexDecode b, bs.toNat? with
      | some b, some bs =>
        if bs = 0 ∨ bs ≥ 65536 then ("bad-op", "ok") else
        let mo := match unpadView b bs with
          | .ok o => "ok " ++ hexEncode o
          | .error e => e.str
        let v := match fields impl with
          | ["ok", o] => match hexDecode o with
            | some o => if judgeUnpad b bs o then "ok" else "viol:unpad-accepted-bad-padding"
            | none => "viol:unparseable-output"
          | [e] => if e.startsWith "err:" then (if (unpadView b bs).toBool then "viol:unpad-rejected-good-padding" else "ok") else "viol:unparseable-output"
          | _ => "viol:unparseable-output"
        (mo, v)
      | _, _ => ("bad-op", "ok")
    | ["enc", key, iv, payload] =>
      match hexDecode key, hexDecode iv, hexDecode payload with
      | some key, some iv, some payload =>
        let keys : SessionKeys := { aesKey := key, aesIV := iv }
        match aesBlockAndIV keys with
        | .error e => (e.str, if impl == e.str then "ok" else "viol:unexpected-result")
        | .ok (_, iv16) =>
          match lookHex m "ein", lookHex m "eout" with
          | some ein, some eout =>
            let P := prims (table ein eout) (table eout ein)
            let inputs := (cbcEncInputs (P.E []) iv16 (chunks (padBytes payload blockSize))).flatten
            let out := encryptPayload P keys payload
            let mo := s!"ok ein={hexEncode inputs} eout={hexEncode eout} out={exStr out} rt={hexEncode payload} pub=1"
            -- judge: decrypt∘encrypt = id on the implementation's own ciphertext, by the implementation and by the model's decrypt
            let v :=
              if lookHex m "rt" != some payload then "viol:roundtrip"
              else if look m "pub" != some "1" then "viol:entrypoints-differ"
              else match lookHex m "out" with
                | some o => if exStr (decryptPayload P keys o) == hexEncode payload then "ok" else "viol:model-cannot-decrypt"
                | none => "viol:unparseable-output"
            (mo, v)
          | _, _ => ("-", "viol:unparseable-output")
      | _, _, _ => ("bad-op", "ok")
    | ["dec", key, iv, text] =>
      match hexDecode key, hexDecode iv, hexDecode text with
      | some key, some iv, some text =>
        let keys : SessionKeys := { aesKey := key, aesIV := iv }
        match aesBlockAndIV keys with
        | .error e => (e.str ++ " din=- dout=-", "ok")
        | .ok (_, iv16) =>
          match lookHex m "din", lookHex m "dout" with
          | some din, some dout =>
            let P := prims (table dout din) (table din dout)
            let raw := match b64Dec text with
              | some r => if r.length = 0 ∨ r.length % blockSize ≠ 0 then [] else r
              | none => []
            let res := decryptPayload P keys text
            let mo := match res with
              | .ok p => s!"ok din={hexEncode raw} dout={hexEncode dout} plain={hexEncode p} pub=1"
              | .error e => s!"{e.str} din={hexEncode raw} dout={hexEncode dout} pub=1"
            -- judge: an accepted plaintext re-pads to exactly what the cipher layer produced
            let v :=
              if look m "pub" != some "1" then "viol:entrypoints-differ"
              else if impl.startsWith "ok " then
                match lookHex m "plain" with
                | some p => if padBytes p blockSize == cbcDecrypt (P.D []) iv16 din ∧ din.length > 0 then "ok" else "viol:accepted-bad-padding"
                | none => "viol:unparseable-output"
              else "ok"
            (mo, v)
          | _, _ => ("-", "viol:unparseable-output")
      | _, _, _ => ("bad-op", "ok")
    | ["mk", key, iv, seq, msgno, chid, chtype, payload] =>
      match hexDecode key, hexDecode iv, seq.toNat?, hexDecode msgno, hexDecode chid, chtype.toNat?, hexDecode payload with
      | some key, some iv, some seq, some msgno, some chid, some chtype, some payload =>
        if seq ≥ 2 ^ 64 ∨ chtype > 255 then ("bad-op", "ok") else
        let keys : SessionKeys := { aesKey := key, aesIV := iv }
        let pkt : SendPacket := { clientSeq := seq, clientMsgNo := msgno, channelID := chid, channelType := chtype, payload }
        match aesBlockAndIV keys with
        | .error e => (e.str, if impl == e.str then "ok" else "viol:unexpected-result")
        | .ok (_, iv16) =>
          match lookHex m "ein", lookHex m "eout" with
          | some ein, some eout =>
            let P := prims (table ein eout) {}
            let inputs := (cbcEncInputs (P.E []) iv16 (chunks (padBytes (sendPreimage pkt) blockSize))).flatten
            let mo := s!"ok ein={hexEncode inputs} eout={hexEncode eout} key={exStr (sendMsgKey P keys pkt)} pub=1"
            let v := match lookHex m "key" with
              | some k => if k.length == 32 && k.all isLowerHex then (if look m "pub" == some "1" then "ok" else "viol:genuine-key-rejected") else "viol:msgkey-format"
              | none => "viol:unparseable-output"
            (mo, v)
          | _, _ => ("-", "viol:unparseable-output")
      | _, _, _, _, _, _, _ => ("bad-op", "ok")
    | "send" :: args => stepSend args impl
    | ["recv", key, iv, mode, setting, mid, mseq, msgno, ts, from_, chid, chtype, payload] =>
      match hexDecode key, hexDecode iv, setting.toNat?, mid.toInt?, mseq.toNat?, hexDecode msgno, ts.toInt?, hexDecode from_, hexDecode chid, chtype.toNat?, hexDecode payload with
      | some key, some iv, some setting, some mid, some mseq, some msgno, some ts, some from_, some chid, some chtype, some payload =>
        if key.length < 16 ∨ iv.length < 16 ∨ ¬ (mode == "c" ∨ mode == "k" ∨ mode == "n") ∨ ¬ (setting = 0 ∨ setting = 16) ∨ mseq ≥ 2 ^ 32 ∨ chtype > 255
            ∨ mid < -(2 ^ 63 : Int) ∨ mid ≥ 2 ^ 63 ∨ ts < -(2 ^ 31 : Int) ∨ ts ≥ 2 ^ 31 then ("bad-op", "ok") else
        let keys : SessionKeys := { aesKey := key, aesIV := iv }
        let pkt : RecvPacket := { setting, messageID := mid, messageSeq := mseq, clientMsgNo := msgno, timestamp := ts, fromUID := from_,
                                  channelID := chid, channelType := chtype, payload }
        let sealed := mode != "n" && !noEncrypt setting
        -- judge: the client opens what the gateway sealed; the key has the wire format
        let v :=
          if lookHex m "pl" != some payload then "viol:recv-roundtrip"
          else if sealed then
            (match lookHex m "mk" with
             | some k => if k.length == 32 && k.all isLowerHex then "ok" else "viol:msgkey-format"
             | none => "viol:unparseable-output")
          else if lookHex m "mk" != some [] then "viol:unsealed-has-key" else "ok"
        if !sealed then (s!"ok pl={hexEncode payload} mk=- enc={hexEncode payload}", v)
        else
          match lookHex m "ein", lookHex m "eout", aesBlockAndIV keys with
          | some ein, some eout, .ok (_, iv16) =>
            let P := prims (table ein eout) {}
            match sealRecv P keys pkt with
            | .ok s =>
              let in1 := (cbcEncInputs (P.E []) iv16 (chunks (padBytes payload blockSize))).flatten
              let in2 := (cbcEncInputs (P.E []) iv16 (chunks (padBytes (recvPreimage { pkt with payload := s.payload }) blockSize))).flatten
              (s!"ok pl={hexEncode payload} mk={hexEncode s.msgKey} enc={hexEncode s.payload} ein={hexEncode (in1 ++ in2)} eout={hexEncode eout}", v)
            | .error e => (e.str, v)
          | _, _, _ => ("-", "viol:unparseable-output")
      | _, _, _, _, _, _, _, _, _, _, _ => ("bad-op", "ok")
    | ["neg", priv, variant] =>
      match hexDecode priv, lookHex m "ckey", look m "dhok" with
      | some priv, some ckey, some dhok =>
        if priv.length ≠ 32 then ("bad-op", "ok") else
        let _ := variant
        -- dh is abstract: the only thing the model needs is whether X25519 accepts the point (oracle `dhok`)
        let P : Prims := { E := fun _ b => b, D := fun _ b => b, b64enc := b64Enc, b64dec := b64Dec, md5 := md5,
                           dh := fun _ _ => if dhok == "1" then some [] else none, basepoint := [] }
        let tail := s!" ckey={hexEncode ckey} dhok={dhok}"
        match decodePublicKey P ckey with
        | .error e => (e.str ++ tail, "ok")
        | .ok _ =>
          if dhok != "1" then (Err.dh.str ++ tail, "ok") else
          match lookHex m "secret", lookHex m "siv", lookHex m "skey", lookHex m "ckey2", lookHex m "civ" with
          | some secret, some siv, some skey, some ckey2, some civ =>
            let k := deriveAESKey P secret
            let mo := s!"ok ckey={hexEncode ckey} dhok=1 secret={hexEncode secret} skey={hexEncode k} siv={hexEncode siv} ckey2={hexEncode k} civ={hexEncode siv} talk=1"
            let v :=
              if skey != ckey2 || siv != civ then "viol:keys-differ"
              else if look m "talk" != some "1" then "viol:sides-cannot-talk"
              else if siv.length != 16 || !siv.all ivAlphabetOk then "viol:iv-format"
              else if skey.length != 16 || !skey.all isLowerHex then "viol:key-format"
              else "ok"
            (mo, v)
          | _, _, _, _, _ => ("-", "viol:negotiation-failed")
      | _, _, _ => ("-", if impl == "bad-op" then "ok" else "viol:unparseable-output")
    | _ => ("bad-op", "ok")
  ((), r.1, r.2)

/-- per-case state of the session histories -/
structure DState where
  keys : Option SessionKeys := none
  sealed : Option SendPacket := none    -- the last genuine packet as it went on the wire
  plain : Bytes := []

def stepS (st : DState) (op impl : String) : DState × String × String :=
  match fields op with
  | ["sopen", key, iv] =>
    match hexDecode key, hexDecode iv with
    | some key, some iv =>
      if key.length < 16 ∨ iv.length < 16 then (st, "bad-op", "ok")
      else ({ keys := some { aesKey := key, aesIV := iv }, sealed := none, plain := [] }, "ok", if impl == "ok" then "ok" else "viol:unexpected-result")
    | _, _ => (st, "bad-op", "ok")
  | ["sgen", seq, msgno, chid, chtype, payload] =>
    match seq.toNat?, hexDecode msgno, hexDecode chid, chtype.toNat?, hexDecode payload with
    | some seq, some msgno, some chid, some chtype, some payload =>
      if seq ≥ 2 ^ 32 ∨ chtype > 255 then (st, "bad-op", "ok") else
      match st.keys with
      | none => (st, "err:no-session", "ok")
      | some _ =>
        let m := kv impl
        match lookHex m "enc", lookHex m "mk" with
        | some enc, some mk =>
          let sealed : SendPacket := { clientSeq := seq, clientMsgNo := msgno, channelID := chid, channelType := chtype, payload := enc, msgKey := mk }
          let mo := sendLine { sealed with payload := payload } ++ s!" enc={hexEncode enc} mk={hexEncode mk}"
          ({ st with sealed := some sealed, plain := payload }, mo, if impl == mo then "ok" else "viol:genuine-send-rejected")
        | _, _ => (st, "-", "viol:unparseable-output")
    | _, _, _, _, _ => (st, "bad-op", "ok")
  | ["srep", tamper] =>
    match st.keys, st.sealed with
    | none, _ => (st, "err:no-session", "ok")
    | some _, none => (st, "err:no-genuine", "ok")
    | some _, some sealed =>
      if tamper.startsWith "c:" || tamper == "shift" || (tamper.splitOn ":").getD 1 "" == "msgkey" || (tamper.splitOn ":").getD 1 "" == "topic"
          || (tamper.splitOn ":").getD 1 "" == "expire" then (st, "bad-op", "ok") else
      match applyTamper sealed tamper with
      | none => (st, "bad-op", "ok")
      | some (tp, coveredChanged, _) =>
        let wire : SendPacket := { tp with clientSeq := tp.clientSeq % 2 ^ 32 }
        -- the key is the one the session has already verified once: it must still be checked against THIS content
        let accepted := sendPreimage wire == sendPreimage sealed
        let mo := if !accepted then Err.mismatch.str
                  else if wire.payload == sealed.payload then sendLine { wire with payload := st.plain } else "-"
        let v := if coveredChanged then (if impl.startsWith "ok " then "viol:tampered-send-accepted" else "ok")
                 else if impl.startsWith "ok " then "ok" else "viol:genuine-send-rejected"
        (st, mo, v)
  | _ =>
    let r := step () op impl
    (st, r.2.1, r.2.2)

end C25Drv

def main : IO Unit := Drv.main { init := ({} : C25Drv.DState), step := C25Drv.stepS }

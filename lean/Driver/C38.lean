import WK.Prelude.Drv
import WK.Model.C38
/-
  C38 driver.  Ops: see harness/C38/c38.go.  The model side is the verdict of
  the abstract `verify`: a freshly published archive verifies (`ok`), every single
  mutation class must make verification fail, the undo restores `ok`.
  Judge on the implementation's output:
    arch / verify : must be `ok`                                   (publish ⇒ verifies)
    mut class …   : `verify=ok` is a violation `viol:undetected-<class>`   (detects)
    json kind mut : a meaning-preserving / non-canonical mutation accepted with different bytes is
                    `viol:noncanonical-accepted-<mutation>`; anything accepted must re-encode to itself
-/
open WK

namespace C38D

def nonCanonical : List String :=
  ["unknown-field", "nested-unknown", "dup-key", "space", "number-float", "number-exp", "leading-zero", "reorder",
   "trailing", "null", "escape", "upper-hex", "truncate", "oversize", "empty", "array"]

def step (built : Bool) (op impl : String) : Bool × String × String :=
  match fields op with
  | ["arch", _] =>
    (true, "-", if impl.startsWith "ok slots=256 " then "ok" else "viol:published-archive-does-not-verify")
  | ["verify"] =>
    if !built then (built, "no-archive", "ok")
    else (built, "ok", if impl == "ok" then "ok" else "viol:published-archive-does-not-verify")
  | ["mut", cls, _, _, _] =>
    if !built then (built, "no-archive", "ok")
    else if impl == "skip" ∨ impl == "bad-op" then (built, "-", "ok")
    else if cls == "chunk-bitsweep" ∨ cls == "chunk-bitsweep-empty" then
      -- every single-bit change of a stored chunk object must be detected (c38_detects_chunk)
      let nat := fun (k : String) => ((impl.splitOn " ").filterMap (fun t => match t.splitOn "=" with
        | [a, v] => if a == k then v.toNat? else none | _ => none)).head?
      match nat "flips", nat "undetected", nat "storeundetected" with
      | some f, some 0, some 0 => (built, "-", if f > 0 then "ok" else "viol:mut-output-malformed")
      | some _, some _, some _ => (built, "-", "viol:undetected-chunk-bitflip")
      | _, _, _ => (built, "-", "viol:mut-output-malformed")
    else if impl == "verify=ok" then (built, "-", "viol:undetected-" ++ cls)
    else if impl.startsWith "verify=err:" then (built, "-", "ok")
    else (built, "-", "viol:mut-output-malformed")
  | ["json", _, m, _] =>
    let v :=
      if impl.startsWith "rej:" then (if m == "valid" then "viol:canonical-manifest-rejected" else "ok")
      else if impl == "acc same=true canon=true" then "ok"
      else if impl.startsWith "acc " then
        if nonCanonical.contains m then "viol:noncanonical-accepted-" ++ m
        else if m == "byte-flip" ∧ impl == "acc same=false canon=true" then "ok"
        else "viol:accepted-body-not-canonical"
      else if impl == "bad-op" then "ok"
      else "viol:json-output-malformed"
    (built, "-", v)
  | _ => (built, "bad-op", "ok")

end C38D

def main : IO Unit := Drv.main { init := false, step := C38D.step }

import WK.Prelude.Drv
import WK.Spec.C19
import WK.Gen.C19
/-
  C19 driver.  The model file system executes the call list REGENERATED from
  store.go (`WK.Gen.C19.saveOps`) — completely for `save`, up to the killed
  call for `ksave`, with the deferred cleanup for `savefail` — and predicts what
  `Load` and the directory listing show.  File contents in the model are the
  spec strings of the harness.

  judge (the property itself, on the implementation's outputs):
    * after any kill/failed save, `load` returns the previous or the new state;
    * a damaged file is rejected or yields exactly the state that was saved;
    * a loaded state is exactly a state that was saved (`exact=1`);
    * `crashmodel`: power-loss enumeration on the regenerated call list;
    * `strace`: the same enumeration on the OBSERVED call list.
-/
open WK WK.C19 WK.Gen.C19

structure C19St where
  fs : FS := fs0 none
  nextName : Nat := 1
  temps : List Name := []
  corrupt : Option Ino := none     -- the inode whose bytes were damaged
  corruptAny : Bool := false       -- damage applied while the file identity was uncertain
  alt : Option Bytes := none       -- a timer-killed save may or may not have replaced the file
  lsKnown : Bool := true

def specBytes (s : String) : Bytes := s.toUTF8.toList
def bytesSpec (b : Bytes) : String := String.ofList (b.map (fun x => Char.ofNat x.toNat))

def specOk (s : String) : Bool :=
  let f := s.splitOn "."
  f.length == 8 && (f.head! == "V" || f.head! == "B") && (f.drop 1 |>.take 6).all (fun x => x.toNat?.isSome) && f.getLast! ≠ ""
def specBad (s : String) : Bool := s.startsWith "B"

def okLine (b : Bytes) : String := s!"ok {bytesSpec b} exact=1"

def isCorrupt (st : C19St) : Bool :=
  st.corruptAny || (match st.fs.view pathName, st.corrupt with
    | some i, some c => i == c
    | _, _ => false)

/-- the temp name of the next save: fresh (`os.CreateTemp`), or always the same
    one if the regenerated list opens a deterministic temp name -/
def tempName (st : C19St) : Name :=
  if saveOps.any (fun o => match o with | .openFixed _ => true | _ => false) then 1 else st.nextName

/-- a complete in-process Save of `new` -/
def doSave (st : C19St) (new : Bytes) : C19St :=
  let t := tempName st
  { st with fs := (run t new saveOps (st.fs, {})).1, nextName := st.nextName + 1, temps := if st.temps.contains t then st.temps else st.temps ++ [t],
            alt := none, corruptAny := false }

def renamed (ops : List Op) : Bool := ops.any (fun o => match o with | .rename _ .path => true | _ => false)

def classify (st : C19St) : String :=
  let cls := st.temps.filterMap fun t =>
    match st.fs.view t with
    | none => none
    | some i =>
      let d := (st.fs.inodes i).data
      if d.isEmpty then some "empty"
      else if specOk (bytesSpec d) then some ("full:" ++ bytesSpec d) else some "partial"
  "tmp=[" ++ ",".intercalate (cls.toArray.qsort (· < ·)).toList ++ "]"

def corruptArgsOk (kind : String) (a b : Nat) : Bool :=
  match kind with
  | "flip" => 1 ≤ b && b ≤ 255
  | "trunc" => a ≤ 999
  | "zero" | "del" | "dup" => 1 ≤ b
  | "digit" => 1 ≤ b && b ≤ 9
  | "letter" => 1 ≤ b && b ≤ 25
  | "sum" => true
  | _ => false

def kv (s key : String) : Option Nat :=
  (fields s).findSome? fun f => if f.startsWith (key ++ "=") then (f.drop (key.length + 1)).toString.toNat? else none

def traceOp : String → Option (Option Op)
  | "creat" => some (some .createTemp)
  | "write" => some (some (.write true))
  | "fsync" => some (some .fsync)
  | "close" => some (some .close)
  | "rename" => some (some (.rename .tmp .path))
  | "fsyncdir" => some (some .fsyncDir)
  | "unlink" => some (some .removeTmp)
  | "opendir" | "closedir" => some none
  | _ => none

def c19Step (st : C19St) (op impl : String) : C19St × String × String :=
  match fields op with
  | ["save", spec] =>
    if !specOk spec then (st, "bad-op", "ok")
    else if specBad spec then (st, "err:invalid", "ok")
    else (doSave st (specBytes spec), "ok", "ok")
  | ["savefail", spec] =>
    if !specOk spec then (st, "bad-op", "ok")
    else if specBad spec then (st, "err:invalid", "ok")
    else
      match saveOps.findIdx? (· == .hook) with
      | none => (doSave st (specBytes spec), "ok", "ok")
      | some h =>
        let t := tempName st
        let s := abortAt t (specBytes spec) deferredRemove saveOps (h + 1) st.fs
        let done := renamed (saveOps.take (h + 1))
        ({ st with fs := s.1, nextName := st.nextName + 1, temps := if st.temps.contains t then st.temps else st.temps ++ [t],
                   alt := if done then none else st.alt, corruptAny := if done then false else st.corruptAny },
         "err:hook", "ok")
  | ["ksave", spec, p] =>
    if !specOk spec || !(["creat", "write", "fsync", "close", "rename", "opendir", "hook", "none"].contains p) then (st, "bad-op", "ok")
    else if specBad spec then (st, "err", "ok")
    else
      let t := tempName st
      let before := opsBeforeKill p saveOps
      let done := renamed before
      ({ st with fs := (run t (specBytes spec) before (st.fs, {})).1, nextName := st.nextName + 1, temps := if st.temps.contains t then st.temps else st.temps ++ [t],
                 alt := if done then none else st.alt, corruptAny := if done then false else st.corruptAny },
       if killedBy p saveOps then "killed" else "exited", "ok")
  | ["tsave", spec, us] =>
    if !specOk spec || us.toNat?.isNone then (st, "bad-op", "ok")
    else if specBad spec then (st, "-", "ok")
    else
      let v := if impl == "killed" || impl == "exited" then "ok" else "viol:timer-kill-child-misbehaved"
      ({ st with alt := some (specBytes spec), lsKnown := false }, "-", v)
  | ["load"] =>
    let cur := st.fs.read pathName
    let corrupted := isCorrupt st
    let base : String := match cur with | none => "err:notfound" | some b => okLine b
    let isErr := impl.startsWith "err:" && impl ≠ "err:notfound"
    let altLine := st.alt.map okLine
    let accepted := impl == base || (cur.isSome && corrupted && isErr) || altLine == some impl
    let verdict :=
      if accepted then "ok"
      else if impl.startsWith "ok " && impl.endsWith "exact=0" then "viol:loaded-state-is-not-a-saved-state"
      else if corrupted then "viol:damaged-file-accepted-as-a-different-state"
      else if impl.startsWith "ok " then "viol:load-neither-old-nor-new"
      else "viol:intact-file-not-loadable"
    let out := if corrupted || st.alt.isSome then "-" else base
    -- resolve the timer-kill uncertainty
    let st' := match st.alt with
      | some a => if impl == okLine a && impl ≠ base then { doSave st a with lsKnown := false } else { st with alt := none }
      | none => st
    (st', out, verdict)
  | ["ls"] =>
    if st.lsKnown then (st, classify st, "ok")
    else (st, "-", if impl.startsWith "tmp=[" then "ok" else "viol:ls-malformed")
  | ["corrupt", kind, a, b] =>
    match a.toNat?, b.toNat? with
    | some a, some b =>
      if !corruptArgsOk kind a b then (st, "bad-op", "ok")
      else if st.alt.isSome then ({ st with corruptAny := true }, "-", "ok")
      else
        match st.fs.view pathName with
        | none => (st, "err:nofile", "ok")
        | some i => ({ st with corrupt := some i }, "ok", "ok")
    | _, _ => (st, "bad-op", "ok")
  | ["sweep", mode, spec] =>
    if !specOk spec || specBad spec || !(["bits", "all", "digits", "trunc"].contains mode) then (st, "bad-op", "ok")
    else
      match kv impl "n", kv impl "rej", kv impl "same", kv impl "diff" with
      | some n, some r, some s, some d =>
        if d ≠ 0 then (st, "-", "viol:damaged-file-accepted-as-a-different-state")
        else if r + s ≠ n || n == 0 then (st, "-", "viol:sweep-malformed")
        else (st, "-", "ok")
      | _, _, _, _ => (st, "-", "viol:sweep-malformed")
  | ["strace", spec] =>
    if !specOk spec || specBad spec then (st, "bad-op", "ok")
    else if impl == "nostrace" then (st, "-", "ok")
    else
      let expected := " ".intercalate ((saveOps.flatMap sysOf).filter (· ≠ .hook) |>.map Sys.toString)
      let toks := (fields impl).map traceOp
      if toks.any (·.isNone) then (st, expected, "viol:observed-unknown-file-system-call")
      else
        let ops := toks.filterMap (fun x => x.join)
        let v := crashVerdict ops (some (specBytes "V.1.1.3.1.0.0.old")) (specBytes spec)
        (st, expected, if v == "ok" then "ok" else "viol:observed-" ++ (v.drop 5).toString)
  | ["crashmodel", old, new] =>
    if !specOk new || (old ≠ "-" && !specOk old) then (st, "bad-op", "ok")
    else
      let o := if old == "-" then none else some (specBytes old)
      (st, "-", crashVerdict saveOps o (specBytes new))
  | _ => (st, "bad-op", "ok")

def main : IO Unit := Drv.main { init := ({} : C19St), step := c19Step }

import WK.Prelude.Drv
import WK.Spec.C30
/-
  C30 driver (ops: see harness/C30/c30.go).

  model out: sequential ops are replayed through the instruction lists GENERATED
  from app.go (`runSeq`), with the generator stream the observation implies
  (Next returned id ⇒ the generator delivered id; SetFloor changed the floor to
  p ⇒ the probe was p).  The model must return the same result and leave the
  same floor.  Concurrent bursts are not predicted (`-`).
  verdict: the property on the implementation's output — every id distinct,
  above every earlier id and every acknowledged floor, the floor never falls.
-/
open WK WK.C30 WK.Gen.C30

structure C30St where
  alive : Bool := false
  floor : Nat := 0      -- model floor
  maxId : Nat := 0      -- largest id the implementation returned
  maxAck : Nat := 0     -- largest floor the implementation acknowledged
  implFloor : Nat := 0  -- last floor the implementation reported

def pN (s : String) : Option Nat :=
  if s.isEmpty || !s.all Char.isDigit then none else s.toNat?

def pEv (s : String) : Option Ev :=
  match s.splitOn ":" with
  | ["N", g, st, en, v] => do
    let g ← pN g; let st ← pN st; let en ← pN en; let v ← pN v
    pure { isNext := true, g := g, start := st, stop := en, val := v, ok := true }
  | ["F", g, st, en, v, r] => do
    let g ← pN g; let st ← pN st; let en ← pN en; let v ← pN v
    if r == "ok" then pure { isNext := false, g := g, start := st, stop := en, val := v, ok := true }
    else if r == "err" then pure { isNext := false, g := g, start := st, stop := en, val := v, ok := false }
    else none
  | _ => none

def retStr : Ret → String
  | .id v => toString v
  | .ok => "ok"
  | .err => "err"

def c30Step (st : C30St) (op impl : String) : C30St × String × String :=
  let bad : C30St × String × String := (st, "bad-op", "ok")
  match fields op with
  | ["new", n] =>
    match pN n with
    | some _ => ({ alive := impl == "ok" }, "ok", if impl == "ok" then "ok" else "viol:unparseable-output")
    | none => bad
  | ["next"] =>
    if !st.alive then (st, "no-allocator", "ok") else
    match (fields impl).map pN with
    | [some id, some fl] =>
      let (mo, mfl) := match runSeq nextProg 64 st.floor (spawnThread .next 0 init) [id] with
        | some (r, fl') => (s!"{retStr r} {fl'}", fl')
        | none => ("stuck", fl)
      let verdict :=
        if id ≤ st.maxId then (if id == st.maxId then "viol:duplicate-id" else "viol:id-not-above-earlier-id")
        else if id ≤ st.maxAck then "viol:id-at-or-below-floor"
        else if fl < st.implFloor then "viol:floor-decreased"
        else if fl < id then "viol:floor-below-returned-id"
        else "ok"
      ({ st with floor := mfl, maxId := max st.maxId id, implFloor := fl }, mo, verdict)
    | _ => (st, "-", "viol:unparseable-output")
  | ["rewind"] =>
    if !st.alive then (st, "no-allocator", "ok") else (st, "ok", if impl == "ok" then "ok" else "viol:unparseable-output")
  | ["floor", mode, d] =>
    if (mode != "rel" && mode != "gen" && mode != "abs" && mode != "genmax") || (mode == "abs" && (pN d).isNone) || ((pN d).isNone && !(d.startsWith "-" && (pN (d.drop 1).toString).isSome)) then bad else
    if !st.alive then (st, "no-allocator", "ok") else
    match fields impl with
    | [f, res, fl] =>
      match pN f, pN fl, (res == "ok" || res == "err") with
      | some f, some fl, true =>
        let gens := if fl != st.floor then [fl] else [f]
        let (mo, mfl) := match runSeq setFloorProg 64 st.floor (spawnThread .setFloor f init) gens with
          | some (r, fl') => (s!"{f} {retStr r} {fl'}", fl')
          | none => ("stuck", fl)
        let verdict :=
          if fl < st.implFloor then "viol:floor-decreased"
          else if res == "ok" && fl < f then "viol:acknowledged-floor-not-reached"
          else "ok"
        ({ st with floor := mfl, maxAck := if res == "ok" then max st.maxAck f else st.maxAck, implFloor := fl }, mo, verdict)
      | _, _, _ => (st, "-", "viol:unparseable-output")
    | _ => (st, "-", "viol:unparseable-output")
  | ["conc", g, n, s, r, sd] =>
    match pN g, pN n, pN s, pN r, pN sd with
    | some _, some _, some _, some _, some _ =>
      if !st.alive then (st, "no-allocator", "ok") else
      let parts := fields impl
      match parts.getLast? with
      | none => (st, "-", "viol:unparseable-output")
      | some last =>
        match last.splitOn ":" with
        | ["E", fl] =>
          match pN fl with
          | none => (st, "-", "viol:unparseable-output")
          | some fl =>
            let evs := (parts.dropLast).map pEv
            if evs.any Option.isNone then (st, "-", "viol:unparseable-output") else
            let evs := evs.filterMap id
            let ids := (evs.filter (·.isNext)).map (·.val)
            let acks := (evs.filter (fun e => !e.isNext && e.ok)).map (·.val)
            let mx := ids.foldl max st.maxId
            let v1 := judgeBurst st.maxId st.maxAck evs
            let v2 := if fl < st.implFloor then "viol:floor-decreased"
                      else if fl < mx then "viol:floor-below-returned-id"
                      else if acks.any (fun a => decide (fl < a)) then "viol:acknowledged-floor-not-reached" else "ok"
            ({ st with floor := fl, maxId := mx, maxAck := acks.foldl max st.maxAck, implFloor := fl }, "-",
             if v1 != "ok" then v1 else v2)
        | _ => (st, "-", "viol:unparseable-output")
    | _, _, _, _, _ => bad
  | _ => bad

def main : IO Unit := Drv.main { init := ({} : C30St), step := c30Step }

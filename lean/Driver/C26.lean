import WK.Prelude.Drv
import WK.Spec.C26
/-
  C26 driver.
  Part 1 ops (header codec, frame reader/writer):
    dec <hex> <max>                          -> `ok k p sid rid blen` | `err:<class>`
    enc <k> <p> <sid> <rid> <blen> <max>     -> `<hex24> ok …` | `<hex24> err:<class>`
    rf  <hexstream> <max>                    -> `ok k p sid rid blen <bodyhex> c=<n>` | `err:<class> c=<n> a=small|big`
    wf  <k> <p> <sid> <rid> <blen> <bodyhex> <max> -> `ok <hex> rb:ok … same=true` | `err:<class>`
  Part 2 ops: see `WK.C26.pendStep` (trace acceptor, modelOut `-`).
-/
open WK WK.C26 WK.Gen.C26

def parseHdr : List String → Option Header
  | [k, p, s, r, b] => do
    let k ← k.toNat?; let p ← p.toNat?; let s ← s.toNat?; let r ← r.toNat?; let b ← b.toNat?
    let h : Header := ⟨k, p, s, r, b⟩
    if decide h.WF then some h else none
  | _ => none

def decStr : Except Err Header → String
  | .ok h => "ok " ++ h.str
  | .error e => e.str

def isHdrErr (s : String) : Bool :=
  s == "err:invalid-frame" || s == "err:invalid-priority" || s == "err:too-large"

def rfStr (o : RFOut) : String :=
  match o.res with
  | .ok (h, body) => s!"ok {h.str} {hexEncode body} c={o.consumed}"
  | .error (.hdr e) => s!"{e.str} c={o.consumed} a=small"
  | .error e => s!"{e.str} c={o.consumed} a=-"

def headerStep (op impl : String) : Option (String × String) :=
  let im := fields impl
  match fields op with
  | ["dec", hx, mx] =>
    match hexDecode hx, mx.toInt? with
    | some bs, some max =>
      let m := decodeHeader bs max
      let verdict :=
        match im with
        | "ok" :: rest =>
          match parseHdr rest with
          | some h => if acceptable bs h max then "ok" else "viol:accepted-malformed-header"
          | none => "viol:unparseable-output"
        | [e] =>
          if isHdrErr e then
            match m with
            | .ok h => if acceptable bs h max then "viol:rejected-valid-header" else "ok"
            | .error _ => "ok"
          else "viol:unparseable-output"
        | _ => "viol:unparseable-output"
      some (decStr m, verdict)
    | _, _ => some ("bad-op", "ok")
  | ["enc", k, p, s, r, b, mx] =>
    match parseHdr [k, p, s, r, b], mx.toInt? with
    | some h, some max =>
      let enc := encodeHeader h
      let m := hexEncode enc ++ " " ++ decStr (decodeHeader enc max)
      let verdict :=
        match im with
        | hx :: "ok" :: rest =>
          if (hexDecode hx).map List.length != some HeaderSize then "viol:encoded-size" else
          if decide (Valid h max) then
            (if parseHdr rest == some h then "ok" else "viol:roundtrip-changed-header")
          else "viol:accepted-invalid-header"
        | [hx, e] =>
          if (hexDecode hx).map List.length != some HeaderSize then "viol:encoded-size" else
          if !isHdrErr e then "viol:unparseable-output" else
          if decide (Valid h max) then "viol:roundtrip-rejected-valid-header" else "ok"
        | _ => "viol:unparseable-output"
      some (m, verdict)
    | _, _ => some ("bad-op", "ok")
  | ["rf", hx, mx] =>
    match hexDecode hx, mx.toInt? with
    | some s, some max =>
      let o := readFrame s max
      let verdict :=
        match im with
        | ["ok", k, p, sid, r, b, body, c] =>
          match parseHdr [k, p, sid, r, b], hexDecode body with
          | some h, some bd =>
            if !(acceptable s h max) then "viol:accepted-malformed-header" else
            if bd != (s.drop HeaderSize).take h.bodyLen || bd.length != h.bodyLen then "viol:frame-body-mismatch" else
            if c != s!"c={HeaderSize + h.bodyLen}" then "viol:read-past-frame" else "ok"
          | _, _ => "viol:unparseable-output"
        | [e, c, a] =>
          if isHdrErr e then
            (if a != "a=small" then "viol:alloc-before-header-validated"
             else if c != s!"c={HeaderSize}" then "viol:read-past-rejected-header"
             else match o.res with
               | .ok (h, _) => if acceptable s h max then "viol:rejected-valid-header" else "ok"
               | .error _ => "ok")
          else if e == "err:eof" || e == "err:short" then
            match o.res with
            | .ok (h, _) => if acceptable s h max then "viol:rejected-valid-header" else "ok"
            | .error _ => "ok"
          else "viol:unparseable-output"
        | _ => "viol:unparseable-output"
      some (rfStr o, verdict)
    | _, _ => some ("bad-op", "ok")
  | ["wf", k, p, sid, r, b, body, mx] =>
    match parseHdr [k, p, sid, r, b], hexDecode body, mx.toInt? with
    | some h, some bd, some max =>
      let h' : Header := { h with bodyLen := bd.length }
      let m :=
        match writeFrame h bd max with
        | .error e => e.str
        | .ok out =>
          let o := readFrame out max
          match o.res with
          | .ok (hh, b2) => s!"ok {hexEncode out} rb:ok {hh.str} same={if b2 == bd then "true" else "false"}"
          | .error e => s!"ok {hexEncode out} rb:{e.str}"
      let verdict :=
        match im with
        | ["ok", _, "rb:ok", k2, p2, s2, r2, b2, same] =>
          if !decide (Valid h' max) then "viol:wrote-invalid-frame" else
          if parseHdr [k2, p2, s2, r2, b2] != some h' then "viol:roundtrip-changed-header" else
          if same != "same=true" then "viol:roundtrip-changed-body" else "ok"
        | ["ok", _, _] => "viol:written-frame-unreadable"
        | [e] =>
          if !isHdrErr e then "viol:unparseable-output" else
          if decide (Valid h' max) then "viol:roundtrip-rejected-valid-header" else "ok"
        | _ => "viol:unparseable-output"
      some (m, verdict)
    | _, _, _ => some ("bad-op", "ok")
  | _ => none

def c26Step (st : Unit) (op impl : String) : Unit × String × String :=
  match headerStep op impl with
  | some (m, v) => (st, m, v)
  | none =>
    match fields op with
    | "pend" :: args => if args.length == 7 then (st, "-", judgePend impl) else (st, "bad-op", "ok")
    | "e2e" :: args => if args.length == 5 then (st, "-", judgeE2E impl) else (st, "bad-op", "ok")
    | _ => (st, "bad-op", "ok")

def main : IO Unit := Drv.main { init := (), step := c26Step }

import WK.Prelude.Drv
import WK.Spec.C27
import WK.Model.C27_Exchange
/-
  C27 driver.  Generic ops (`rt`, `gb`): modelOut `-`, verdict from the implementation's
  flags.  Modelled ops (propose / clusternet / primitives): modelOut = the Lean model's
  output, verdict = the property evaluated on the implementation's output.
-/
open WK WK.C27

def optStr {α} (f : α → String) : Option α → String
  | some a => "ok " ++ f a
  | none => "err"

def fwdStr (r : Fwd) : String :=
  s!"{r.slotID} {r.hashSlot} {r.cls} {if r.want then 1 else 0} {hexEncode r.payload}"

def idxStr : Option (List Nat) → String
  | none => "nil"
  | some [] => "-"
  | some l => ",".intercalate (l.map toString)

def xbStr (d : Bytes) : String :=
  match decBatch d with
  | none => "err"
  | some b =>
    let items := b.items.map (fun it =>
      s!" [{it.requestID} k=2 {hexEncode it.probe.key} {hexEncode it.probe.cid} {it.probe.typ.toNat} {it.probe.leader} {it.probe.follower} {idxStr it.probe.indexes}]")
    let re := match encBatch b with
      | none => "err"
      | some e => if e == d then "same" else "diff"
    s!"ok p={b.priority.toNat}{String.join items} re={re}"

def c27Step (_ : Unit) (op impl : String) : Unit × String × String :=
  let im := fields impl
  let out : String × String :=
    match fields op with
    | ["rt", codec, fl, _] =>
      if fl.length != 2 then ("bad-op", "ok") else ("-", judgeRT codec (fl.startsWith "1") (fl.endsWith "1") impl)
    | ["bd", codec, fl, bound, n, mx, _] =>
      match n.toNat?, mx.toNat? with
      | some n, some mx =>
        if fl.length != 2 then ("bad-op", "ok") else ("-", judgeBD codec bound (fl.startsWith "1") (fl.endsWith "1") n mx impl)
      | _, _ => ("bad-op", "ok")
    | ["gb", codec, fl, _] =>
      if fl.length != 2 then ("bad-op", "ok") else ("-", judgeGB codec (fl.endsWith "1") impl)
    | ["pp", hs, cmd] =>
      match hs.toNat?, hexDecode cmd with
      | some hs, some cmd =>
        if hs ≥ 65536 then ("bad-op", "ok") else
        let enc := encodePayload hs cmd
        let m := hexEncode enc ++ " " ++ optStr (fun (p : Nat × Bytes) => s!"{p.1} {hexEncode p.2}") (decodePayload enc)
        -- property: the implementation's decode of its own encoding gives back (hs, cmd), and the frame is 3+len bytes
        let v := match im with
          | [ehex, "ok", h2, c2] =>
            if h2.toNat? == some hs && hexDecode c2 == some cmd && (hexDecode ehex).map List.length == some (3 + cmd.length)
            then "ok" else "viol:roundtrip-neq:propose.payload"
          | _ => "viol:roundtrip-err:propose.payload"
        (m, v)
      | _, _ => ("bad-op", "ok")
    | ["pd", hx] =>
      match hexDecode hx with
      | some d =>
        let m := optStr (fun (p : Nat × Bytes) => s!"{p.1} {hexEncode p.2}") (decodePayload d)
        -- property: accepted ⇒ canonical (re-encoding gives the input back) and output no longer than input
        let v := match im with
          | ["ok", h2, c2] =>
            match h2.toNat?, hexDecode c2 with
            | some h, some c => if encodePayload h c == d then "ok" else "viol:garbage-decodes-to-unstable-value:propose.payload"
            | _, _ => "viol:unparseable-output"
          | ["err"] => "ok"
          | _ => "viol:unparseable-output"
        (m, v)
      | none => ("bad-op", "ok")
    | ["fe", slot, hs, cl, w, pl] =>
      match slot.toNat?, hs.toNat?, cl.toNat?, w.toNat?, hexDecode pl with
      | some slot, some hs, some cl, some w, some pl =>
        let r : Fwd := ⟨slot, hs, cl, w == 1, pl⟩
        let m := match encodeForward r with
          | none => "err"
          | some enc => hexEncode enc ++ " " ++ optStr fwdStr (decodeForward enc)
        let want : Fwd := { r with cls := normClass cl }
        let v := match im with
          | ["err"] => if slot = 0 ∨ pl.length = 0 then "ok" else "viol:roundtrip-err:propose.forward"
          | [_, "ok", s2, h2, c2, w2, p2] =>
            if s2.toNat? == some want.slotID && h2.toNat? == some want.hashSlot && c2.toNat? == some want.cls
              && w2.toNat? == some w && hexDecode p2 == some pl then "ok" else "viol:roundtrip-neq:propose.forward"
          | _ => "viol:roundtrip-err:propose.forward"
        (m, v)
      | _, _, _, _, _ => ("bad-op", "ok")
    | ["fd", hx] =>
      match hexDecode hx with
      | some d =>
        let m := optStr fwdStr (decodeForward d)
        -- property: an accepted frame accounts for every input byte (declared length = what follows)
        let v := match im with
          | ["ok", _, _, _, _, p2] =>
            match hexDecode p2 with
            | some p =>
              -- header size by version; the declared length must be exactly what is returned and what follows
              let hsz := (d.headD 0).toNat + 10
              if !(p.length + 11 ≤ d.length ∧ d.length ≤ p.length + 13) then "viol:alloc-unbounded:propose.forward"
              else if d.length != hsz + p.length || rdBE ((d.drop (hsz - 4)).take 4) != p.length then
                "viol:declared-length-ignored:propose.forward"
              else "ok"
            | none => "viol:unparseable-output"
          | ["err"] => "ok"
          | _ => "viol:unparseable-output"
        (m, v)
      | none => ("bad-op", "ok")
    | ["nh", buf, v, k] =>
      match hexDecode buf, v.toNat?, k.toNat? with
      | some b, some v, some k => (hexEncode (putHeader b v k), "ok")
      | _, _, _ => ("bad-op", "ok")
    | ["nc", hx, v, k] =>
      match hexDecode hx, v.toNat?, k.toNat? with
      | some d, some v, some k =>
        let m := optStr hexEncode (checkHeader d v k)
        let vd := match im with
          | ["ok", p] => if (hexDecode p).map (fun p => putHeader [] v k ++ p) == some d then "ok" else "viol:garbage-decodes-to-unstable-value:clusternet.header"
          | ["err"] => "ok"
          | _ => "viol:unparseable-output"
        (m, vd)
      | _, _, _ => ("bad-op", "ok")
    | ["xb", hx] =>
      match hexDecode hx with
      | some d =>
        let m := xbStr d
        -- items of another kind (replicate / fetch) are outside the model: no comparison
        let other := (impl.splitOn " k=1]").length > 1 || (impl.splitOn " k=3]").length > 1
        -- property on the implementation's output: an accepted frame re-encodes,
        -- within the frame bound, with 1..256 items
        let v :=
          if impl == "err" then "ok"
          else if !impl.startsWith "ok " then "viol:unparseable-output"
          else if d.length > maxExchangeBatchBytes then "viol:alloc-unbounded:repl.batch"
          -- (binary.Uvarint accepts padded varints, so an accepted frame need not be byte-canonical;
          --  but what the decoder accepts its own encoder must accept too)
          else if (impl.splitOn " re=err").length > 1 then "viol:decoder-accepts-what-encoder-refuses:repl.batch"
          else if (impl.splitOn " [").length - 1 > maxBatchItems || (impl.splitOn " [").length < 2 then "viol:count-above-declared-max"
          else "ok"
        (if other then "-" else m, v)
      | none => ("bad-op", "ok")
    | ["au", v] =>
      match v.toNat? with
      | some v => (hexEncode (putUvarint v), "ok")
      | none => ("bad-op", "ok")
    | ["ab", hx] =>
      match hexDecode hx with
      | some b => (hexEncode (putBytes b), "ok")
      | none => ("bad-op", "ok")
    | ["cu", kind, hx, mx] =>
      match hexDecode hx, mx.toNat? with
      | some d, some mx =>
        let m :=
          if kind == "uvarint" then optStr (fun (p : Nat × Nat) => s!"{p.1} off={p.2}") (uvarint d)
          else if kind == "varint" then optStr (fun (p : Int × Nat) => s!"{p.1} off={p.2}") (varint d)
          else if kind == "byte" then optStr (fun (p : UInt8 × Nat) => s!"{p.1.toNat} off={p.2}") (cByte d)
          else if kind == "bool" then optStr (fun (p : Bool × Nat) => s!"{if p.1 then 1 else 0} off={p.2}") (cBool d)
          else if kind == "count" then optStr (fun (p : Nat × Nat) => s!"{p.1} off={p.2}") (cCount d mx)
          else if kind == "slicecount" then
            optStr (fun (p : Nat × Bool × Nat) => s!"{p.1} nil={if p.2.1 then 1 else 0} off={p.2.2}") (cSliceCount d mx)
          else if kind == "bytes" then optStr (fun (p : Bytes × Nat) => s!"{hexEncode p.1} off={p.2}") (cBytes d)
          else if kind == "fixed32" then optStr (fun (p : Bytes × Nat) => s!"{hexEncode p.1} off={p.2}") (cFixed32 d)
          else "bad-op"
        -- property on the implementation's output: never reads past the input, counts within the declared maximum
        let v := match im with
          | "ok" :: rest =>
            match (rest.getLast?).bind (fun t => if t.startsWith "off=" then (t.drop 4).toString.toNat? else none) with
            | some off =>
              if off > d.length then "viol:read-past-input"
              else if (kind == "uvarint" || kind == "varint" || kind == "count" || kind == "slicecount") &&
                  (off == 0 || off > 10 || (d.getD (off - 1) 0).toNat ≥ 128) then "viol:accepted-unterminated-varint"
              else if (kind == "count" || kind == "slicecount") && (rest.head?.bind String.toNat?).any (· > mx) then "viol:count-above-declared-max"
              else if kind == "bytes" && (rest.head?.bind hexDecode).any (fun b => b.length > d.length) then "viol:alloc-unbounded:prim.bytes"
              else "ok"
            | none => "viol:unparseable-output"
          | ["err"] =>
            -- a count inside the declared maximum must not be refused (spec = the proved model)
            if kind == "count" && (cCount d mx).isSome then "viol:rejected-count-within-declared-max"
            else if kind == "slicecount" && (cSliceCount d mx).isSome then "viol:rejected-count-within-declared-max"
            else "ok"
          | _ => "viol:unparseable-output"
        (m, v)
      | _, _ => ("bad-op", "ok")
    | _ => ("bad-op", "ok")
  ((), out.1, out.2)

def main : IO Unit := Drv.main { init := (), step := c27Step }

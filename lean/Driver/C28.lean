import WK.Prelude.Drv
import WK.Spec.C28
/-
  C28 driver.  ops (see harness/C28/c28.go):
    cfg <workers> <cap> <maxrec> <maxwait_us> <maxbytes>          impl/model out: ok
    phase <pseed> <nsess> <burst> <hlat> <fail%> <close%> <pushes> <act>   impl out: event trace (not compared)
    gate <drain> <wait_ms>                                        impl out: event trace (steered admission window)
    fin                                                           impl out: event trace + snapshot
  The judge is the trace acceptor `WK.C28.verdict` run on the whole trace of
  the case so far (a violation is reported at the op whose events complete it).
-/
open WK WK.C28

structure C28St where
  started : Bool := false
  finished : Bool := false
  violated : Bool := false
  cfgOnly : Bool := false   -- a cfg op ran and nothing else yet
  trace : List Ev := []

def c28Ints (xs : List String) : Option (List Nat) := xs.mapM (fun x => if x == "-1" then some 0 else x.toNat?)

def c28Judge (st : C28St) (impl : String) : C28St × String × String :=
  if impl == "bad-op" ∨ impl.startsWith "start-failed" then (st, "trace", "ok") else
  match parseTrace impl with
  | none => (st, "-", "viol:unparseable-trace")
  | some evs =>
    let tr := st.trace ++ evs
    let v := if st.violated then "ok" else verdict tr
    ({ st with trace := tr, violated := st.violated || v != "ok" }, "-", v)

def c28Step (st : C28St) (op impl : String) : C28St × String × String :=
  match fields op with
  | "cfg" :: args =>
    match c28Ints args with
    | some [w, c, m, _, _] =>
      if st.started ∨ w < 1 ∨ w > 64 ∨ c < 1 ∨ m < 1 then (st, "bad-op", "ok")
      else ({ st with started := true, cfgOnly := true }, "ok", "ok")
    | _ => (st, "bad-op", "ok")
  | "phase" :: args =>
    match c28Ints args with
    | some [_, ns, burst, _, _, _, _, act] =>
      if ns < 1 ∨ ns > 64 ∨ burst > 1000 ∨ act > 3 ∨ st.finished then (st, "bad-op", "ok")
      else c28Judge { st with started := true, cfgOnly := false } impl
    | _ => (st, "bad-op", "ok")
  | ["redrain", w] =>
    match w.toNat? with
    | some n => if n > 5000 ∨ ¬ st.cfgOnly ∨ st.finished then (st, "bad-op", "ok") else c28Judge { st with cfgOnly := false } impl
    | none => (st, "bad-op", "ok")
  | "gate" :: args =>
    match c28Ints args with
    | some [d, w] =>
      if d > 1 ∨ w > 5000 ∨ ¬ st.started ∨ st.finished then (st, "bad-op", "ok")
      else c28Judge { st with cfgOnly := false } impl
    | _ => (st, "bad-op", "ok")
  | ["fin"] =>
    if ¬ st.started ∨ st.finished then (st, "bad-op", "ok") else
    let st := { st with finished := true }
    if impl == "inconclusive" then (st, "-", "ok")
    else if impl.startsWith "STUCK" then (st, "-", "viol:no-quiescence-after-drain")
    else c28Judge st impl
  | _ => (st, "bad-op", "ok")

def main : IO Unit := Drv.main { init := {}, step := c28Step }

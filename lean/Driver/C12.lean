import WK.Prelude.Drv
import WK.Model.C12
/-
  C12 driver = trace acceptor.   op: `sched <seed> <n> <profile>`
  impl output: the schedule's trace (see harness/C12); model output `-` (the run is
  a real concurrent cluster, nothing is predicted) — the verdict is the acceptor's:
  per replica applied indices strictly increase after the last apply/restore and the
  running checksum matches (no re-apply, no reorder, restore carries exactly the
  applied prefix), all replicas agree per index, no replica skips an index another
  one applied, an acknowledged proposal is applied at the acknowledged index with
  the acknowledged result, no proposal is applied twice.
-/
open WK WK.C12

structure RepKey where
  node : Nat
  slot : Nat
deriving BEq, Inhabited

structure TAcc where
  reps : List (RepKey × Rep) := []
  union : List (Nat × Nat × Nat) := []          -- (slot, index, id)
  restores : List (Nat × Nat × Nat) := []       -- (slot, index, chain)
  verdict : String := "ok"

def TAcc.fail (a : TAcc) (why : String) : TAcc := if a.verdict == "ok" then { a with verdict := "viol:" ++ why } else a

def TAcc.rep (a : TAcc) (k : RepKey) : Rep := ((a.reps.find? (·.1 == k)).map (·.2)).getD {}
def TAcc.setRep (a : TAcc) (k : RepKey) (r : Rep) : TAcc :=
  if a.reps.any (·.1 == k) then { a with reps := a.reps.map (fun p => if p.1 == k then (k, r) else p) }
  else { a with reps := (k, r) :: a.reps }

def parsePair (s : String) : Option (Nat × Nat) :=
  match s.splitOn "=" with
  | [i, d] => do
    let i ← i.toNat?
    let d ← d.toNat?
    pure (i, d)
  | _ => none

/-- `T<n>.<s>:<body>` -/
def parseT (tok : String) : Option (RepKey × Ev) :=
  match ((tok.drop 1).toString).splitOn ":" with
  | [ns, body] =>
    match ns.splitOn "." with
    | [n, s] =>
      match n.toNat?, s.toNat? with
      | some n, some s =>
        let k : RepKey := ⟨n, s⟩
        let kind := body.take 1 |>.toString
        let rest := (body.drop 1).toString
        if kind == "X" then some (k, .restart)
        else match rest.splitOn "#" with
          | [x, c] =>
            match c.toNat? with
            | none => none
            | some c =>
              if kind == "A" then ((x.splitOn ",").mapM parsePair).map (fun cmds => (k, .apply cmds c))
              else if kind == "S" then x.toNat?.map (fun a => (k, .snap a c))
              else if kind == "R" then
                match x.splitOn "." with
                | [i, _] => i.toNat?.map (fun i => (k, .restore i c))
                | _ => none
              else none
          | _ => none
      | _, _ => none
    | _ => none
  | _ => none

def accT (a : TAcc) (k : RepKey) (ev : Ev) : TAcc :=
  let (r, err) := (a.rep k).step ev
  let a := a.setRep k r
  let a := match err with
    | some why => a.fail why
    | none => a
  match ev with
  | .apply cmds _ =>
    cmds.foldl (fun (a : TAcc) (p : Nat × Nat) =>
      -- the agreement decision is `unionAdd` of the spec (c12_acceptor_sound_agreement)
      let u := (a.union.filter (fun x => x.1 == k.slot)).map (·.2)
      match unionAdd u p with
      | none => a.fail "replicas-disagree"
      | some u' =>
        if u'.length == u.length then a
        else
          let a := if u.any (fun x => x.2 == p.2) then a.fail "proposal-applied-twice" else a
          { a with union := (k.slot, p.1, p.2) :: a.union }) a
  | .restore i c => { a with restores := (k.slot, i, c) :: a.restores }
  | _ => a

/-- `F<slot>.<id>:ok@<idx>.<term>=<res>` -/
def accF (a : TAcc) (tok : String) : TAcc :=
  match ((tok.drop 1).toString).splitOn ":" with
  | [si, body] =>
    match si.splitOn "." with
    | [s, id] =>
      match s.toNat?, id.toNat? with
      | some s, some id =>
        if body.startsWith "ok@" then
          match ((body.drop 3).toString).splitOn "=" with
          | [it, res] =>
            match (it.splitOn ".").map String.toNat? with
            | [some idx, some _] =>
              let a := if res.toNat? ≠ some idx then a.fail "future-result-mismatch" else a
              match a.union.find? (fun u => u.1 == s && u.2.1 == idx) with
              | some u => if u.2.2 ≠ id then a.fail "acked-index-holds-other-command" else a
              | none =>
                -- nobody applied that index: fine only if no replica of the slot got past it
                if a.reps.any (fun p => p.1.slot == s && p.2.pos ≥ idx) then a.fail "acked-proposal-not-applied" else a
            | _ => a.fail "unparseable-output"
          | _ => a.fail "unparseable-output"
        else a
      | _, _ => a.fail "unparseable-output"
    | _ => a.fail "unparseable-output"
  | _ => a.fail "unparseable-output"

def insertAsc (x : Nat) : List Nat → List Nat
  | [] => [x]
  | y :: ys => if x ≤ y then x :: y :: ys else y :: insertAsc x ys

/-- end of trace: gaps against the union, and restores against the union's checksum -/
def finish (a : TAcc) : TAcc :=
  let a := a.reps.foldl (fun (a : TAcc) (p : RepKey × Rep) =>
    let uni := (a.union.filter (fun u => u.1 == p.1.slot)).map (·.2.1)
    let segs := (p.2.base, p.2.cur) :: p.2.segs
    if segs.any (fun sg => segGaps uni sg.1 sg.2.reverse) then a.fail "skipped-index" else a) a
  a.restores.foldl (fun (a : TAcc) (r : Nat × Nat × Nat) =>
    let entries := (a.union.filter (fun u => u.1 == r.1 && u.2.1 ≤ r.2.1)).map (·.2)
    let sorted := (entries.map (·.1)).foldl (fun acc i => insertAsc i acc) []
    let chain := sorted.foldl (fun c i =>
      match entries.find? (·.1 == i) with
      | some e => chainStep c e.1 e.2
      | none => c) 0
    if chain ≠ r.2.2 then a.fail "restore-not-the-applied-prefix" else a) a

def c12Step (_ : Unit) (op impl : String) : Unit × String × String :=
  match fields op with
  | ["sched", _, _, _] =>
    let toks := fields impl
    let a := toks.foldl (fun (a : TAcc) tok =>
      if tok.startsWith "T" then
        (if tok.endsWith ":Eopen" then a.fail "restart-failed"
         else match parseT tok with
          | some (k, ev) => accT a k ev
          | none => a.fail "unparseable-output")
      else a) {}
    let a := finish a
    let a := toks.foldl (fun (a : TAcc) tok => if tok.startsWith "F" then accF a tok else a) a
    let a := if a.union.isEmpty && toks.length > 0 then a.fail "nothing-applied" else a
    ((), "-", a.verdict)
  | _ => ((), "bad-op", "ok")

def main : IO Unit := Drv.main { init := (), step := c12Step }

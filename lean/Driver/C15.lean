import WK.Prelude.Drv
import WK.Spec.C15
import WK.Model.C15
/-
  C15 driver.  One fresh meta store per case; rows are keyed by `<id>/<type>`.

  candidate = 17 fields:  ce le rg R I ld mi st ft ls rs ra tk fv fr fu dg
     (R, I = `+`-separated uint64 lists or `-`; tk = ascii fence token or `-`)
  ops                                            impl / model output
  up  ID TYPE <candidate>                        `<applied|stale|conflict|invalid> <row>`     Shard.UpsertChannelRuntimeMeta
  bt  <sub>;<sub>;…   sub = u|c,ID,TYPE,<cand>   `<stage flags> <ok|conflict> <created flags> <key>=<row> …`  one MetaDB.NewBatch()
  adv ID TYPE ece ele eld els rs ra              `<ok|notfound|conflict|invalid> <row>`       Shard.AdvanceChannelRetentionThroughSeq
  del ID TYPE                                    `<ok|notfound|invalid> <row>`                Shard.DeleteChannelRuntimeMeta
  get ID TYPE                                    `<row>`
  row = `ce=..,le=..,rg=..,R=..,I=..,ld=..,mi=..,st=..,ft=..,ls=..,rs=..,ra=..,tk=..,fv=..,fr=..,fu=..,dg=..` or `-`

  The judge keeps its OWN copy of the rows the implementation reported (it does
  not use the model state) and evaluates `WK.C15.judgeFwd` old → new across every op.
-/
open WK WK.C15

abbrev Store := List (String × Meta)

def sget (s : Store) (k : String) : Option Meta :=
  match s with
  | [] => none
  | (k', m) :: rest => if k' = k then some m else sget rest k

def sset (s : Store) (k : String) (v : Option Meta) : Store :=
  let s' := s.filter (fun kv => kv.1 ≠ k)
  match v with
  | none => s'
  | some m => (k, m) :: s'

structure St where
  model : Store
  seen : Store     -- rows as the implementation last reported them

def listStr (l : List Nat) : String := if l.isEmpty then "-" else "+".intercalate (l.map toString)

def rowStr : Option Meta → String
  | none => "-"
  | some m =>
    s!"ce={m.chEpoch},le={m.leEpoch},rg={m.routeGen},R={listStr m.replicas},I={listStr m.isr},ld={m.leader},mi={m.minISR},st={m.status},ft={m.features},ls={m.lease},rs={m.retSeq},ra={m.retAt},tk={if m.fenceToken.isEmpty then "-" else m.fenceToken},fv={m.fenceVer},fr={m.fenceReason},fu={m.fenceUntil},dg={m.dirGen}"

def u64? (s : String) : Option Nat := s.toNat?.bind (fun n => if n < 2 ^ 64 then some n else none)
def u8? (s : String) : Option Nat := s.toNat?.bind (fun n => if n < 256 then some n else none)
def i64? (s : String) : Option Int :=
  s.toInt?.bind (fun n => if -(2 : Int) ^ 63 ≤ n ∧ n < (2 : Int) ^ 63 then some n else none)

def list? (s : String) : Option (List Nat) :=
  if s == "-" then some [] else (s.splitOn "+").mapM u64?

def tok (s : String) : String := if s == "-" then "" else s

/-- 17 candidate fields -/
def cand? (ty : Int) (f : List String) : Option Meta :=
  match f with
  | [ce, le, rg, r, i, ld, mi, st, ft, ls, rs, ra, tk, fv, fr, fu, dg] => do
    let ce ← u64? ce; let le ← u64? le; let rg ← u64? rg; let r ← list? r; let i ← list? i
    let ld ← u64? ld; let mi ← i64? mi; let st ← u8? st; let ft ← u64? ft; let ls ← i64? ls
    let rs ← u64? rs; let ra ← i64? ra; let fv ← u64? fv; let fr ← u8? fr; let fu ← i64? fu
    let dg ← u64? dg
    pure ⟨ty, ce, le, rg, r, i, ld, mi, st, ft, ls, rs, ra, tok tk, fv, fr, fu, dg⟩
  | _ => none

def stripKey (s : String) : String :=
  match s.splitOn "=" with
  | _ :: v :: _ => v
  | _ => ""

/-- parse a row dump the implementation printed -/
def row? (ty : Int) (s : String) : Option (Option Meta) :=
  if s == "-" then some none else
  match cand? ty ((s.splitOn ",").map stripKey) with
  | some m => some (some m)
  | none => none

def idLen (id : String) : Nat := if id == "-" then 0 else id.length

def keyOf (id ty : String) : String := id ++ "/" ++ ty

def rejected (out : String) : Bool :=
  out == "stale" ∨ out == "conflict" ∨ out == "invalid" ∨ out == "notfound" ∨ out == "exists"

/-- the property judged across one op on one row: `old` = what the implementation
    reported before, `new` = what it reports now -/
def judgeRow (isDelete : Bool) (out : String) (old new : Option Meta) : String :=
  if rejected out ∧ new ≠ old then "viol:rejected-write-changed-row"
  else match old, new with
    | some o, some n => judgeFwd o n
    | some _, none => if isDelete ∧ out == "ok" then "ok" else "viol:row-vanished"
    | none, some _ => if isDelete then "viol:delete-created-row" else "ok"
    | none, none => "ok"

def firstBad (vs : List String) : String :=
  match vs.find? (· ≠ "ok") with
  | some v => v
  | none => "ok"

structure BSub where
  isCreate : Bool
  id : String
  ty : String
  tyI : Int
  cand : Meta

def sub? (s : String) : Option BSub :=
  match s.splitOn "," with
  | kind :: id :: ty :: rest =>
    match i64? ty with
    | none => none
    | some tyI =>
      match cand? tyI rest with
      | none => none
      | some c =>
        if kind == "u" then some ⟨false, id, ty, tyI, c⟩
        else if kind == "c" then some ⟨true, id, ty, tyI, c⟩
        else none
  | _ => none

/-- model of one batch: staged ops run in order over an overlay; a conflict fails the commit -/
def runBatch (store : Store) (subs : List BSub) : String × Option (Store × String) :=
  -- staging
  let staged := subs.map (fun s =>
    let ok := if s.isCreate then validate (idLen s.id) (normalize s.cand) else validate (idLen s.id) s.cand
    (s, ok))
  let flags := String.ofList (staged.map (fun p => if p.2 then 's' else 'i'))
  let go := staged.foldl (fun (acc : Option (Store × List Char)) p =>
    match acc with
    | none => none
    | some (ov, cr) =>
      if ¬ p.2 then some (ov, cr) else
      let s := p.1
      let k := keyOf s.id s.ty
      if s.isCreate then
        match create (idLen s.id) (sget ov k) s.cand with
        | (row, .created) => some (sset ov k row, cr ++ ['1'])
        | (_, _) => some (ov, cr ++ ['0'])
      else
        match upsert (idLen s.id) (sget ov k) s.cand with
        | (_, .conflict) => none
        | (row, .applied) => some (sset ov k row, cr)
        | (_, _) => some (ov, cr)) (some (store, []))
  match go with
  | none => (flags, none)
  | some (ov, cr) => (flags, some (ov, if cr.isEmpty then "-" else String.ofList cr))

def distinctKeys (subs : List BSub) : List (String × Int) :=
  subs.foldl (fun acc s => if acc.any (fun p => p.1 == keyOf s.id s.ty) then acc else acc ++ [(keyOf s.id s.ty, s.tyI)]) []

def c15Step (st : St) (op impl : String) : St × String × String :=
  let bad := (st, "bad-op", "ok")
  match fields op with
  | "up" :: id :: ty :: rest =>
    match i64? ty with
    | none => bad
    | some tyI =>
      match cand? tyI rest with
      | none => bad
      | some c =>
        let k := keyOf id ty
        let (row, out) := upsert (idLen id) (sget st.model k) c
        let m := out.name ++ " " ++ rowStr row
        match fields impl with
        | [o, r] =>
          match row? tyI r with
          | some new =>
            let v := if o ≠ "applied" ∧ ¬ rejected o then "viol:unexpected-result:" ++ o
              else judgeRow false o (sget st.seen k) new
            (⟨sset st.model k row, sset st.seen k new⟩, m, v)
          | none => (⟨sset st.model k row, st.seen⟩, m, "viol:unparseable-output")
        | _ => (⟨sset st.model k row, st.seen⟩, m, "viol:unparseable-output")
  | ["bt", body] =>
    match (body.splitOn ";").mapM sub? with
    | none => bad
    | some subs =>
      let keys := distinctKeys subs
      let (flags, res) := runBatch st.model subs
      let (model', commit, created) := match res with
        | none => (st.model, "conflict", "-")
        | some (ov, cr) => (ov, "ok", cr)
      let m := flags ++ " " ++ commit ++ " " ++ created ++ " " ++
        " ".intercalate (keys.map (fun k => k.1 ++ "=" ++ rowStr (sget model' k.1)))
      match fields impl with
      | _ :: c :: _ :: rows =>
        if rows.length ≠ keys.length then (⟨model', st.seen⟩, m, "viol:unparseable-output") else
        let parsed := (keys.zip rows).map (fun (k, r) =>
          match r.splitOn "=" with
          | kk :: _ => if kk ≠ k.1 then none else row? k.2 ((r.drop (kk.length + 1)).toString) |>.map (fun x => (k.1, x))
          | _ => none)
        if parsed.any Option.isNone then (⟨model', st.seen⟩, m, "viol:unparseable-output") else
        let ps := parsed.filterMap id
        let out := if c == "ok" then "applied" else if c == "conflict" then "conflict" else "other"
        let v := if out == "other" then "viol:unexpected-result:" ++ c
          else firstBad (ps.map (fun (k, new) => judgeRow false out (sget st.seen k) new))
        let seen' := ps.foldl (fun s (k, new) => sset s k new) st.seen
        (⟨model', seen'⟩, m, v)
      | _ => (⟨model', st.seen⟩, m, "viol:unparseable-output")
  | ["adv", id, ty, ece, ele, eld, els, rs, ra] =>
    match i64? ty, u64? ece, u64? ele, u64? eld, i64? els, u64? rs, i64? ra with
    | some tyI, some ece, some ele, some eld, some els, some rs, some ra =>
      let k := keyOf id ty
      let (row, out) := advance (idLen id) (sget st.model k) ⟨ece, ele, eld, els, rs, ra⟩
      let m := out.name ++ " " ++ rowStr row
      match fields impl with
      | [o, r] =>
        match row? tyI r with
        | some new =>
          let v := if o ≠ "ok" ∧ ¬ rejected o then "viol:unexpected-result:" ++ o
            else judgeRow false o (sget st.seen k) new
          (⟨sset st.model k row, sset st.seen k new⟩, m, v)
        | none => (⟨sset st.model k row, st.seen⟩, m, "viol:unparseable-output")
      | _ => (⟨sset st.model k row, st.seen⟩, m, "viol:unparseable-output")
    | _, _, _, _, _, _, _ => bad
  | ["del", id, ty] =>
    match i64? ty with
    | none => bad
    | some tyI =>
      let k := keyOf id ty
      let (row, out) := delete (idLen id) (sget st.model k)
      let m := out.name ++ " " ++ rowStr row
      match fields impl with
      | [o, r] =>
        match row? tyI r with
        | some new =>
          let v := if o ≠ "ok" ∧ ¬ rejected o then "viol:unexpected-result:" ++ o
            else judgeRow true o (sget st.seen k) new
          (⟨sset st.model k row, sset st.seen k new⟩, m, v)
        | none => (⟨sset st.model k row, st.seen⟩, m, "viol:unparseable-output")
      | _ => (⟨sset st.model k row, st.seen⟩, m, "viol:unparseable-output")
  | ["get", id, ty] =>
    match i64? ty with
    | none => bad
    | some tyI =>
      let k := keyOf id ty
      let m := rowStr (sget st.model k)
      match row? tyI impl with
      | some new =>
        -- a read must show what the last write reported
        let v := if idLen id ≠ 0 ∧ new ≠ sget st.seen k then "viol:read-differs-from-last-write" else "ok"
        (st, m, v)
      | none => if impl == "invalid" ∧ idLen id = 0 then (st, "invalid", "ok") else (st, m, "viol:unparseable-output")
  | _ => bad

/-! ### compat WriteBatch and slot-FSM op kinds -/

inductive WSub where
  | up (id ty : String) (tyI : Int) (c : Meta)
  | cr (id ty : String) (tyI : Int) (c : Meta)
  | del (id ty : String) (tyI : Int)
  | adv (id ty : String) (tyI : Int) (r : Advance)

def WSub.key : WSub → String × Int
  | .up id ty tyI _ => (keyOf id ty, tyI)
  | .cr id ty tyI _ => (keyOf id ty, tyI)
  | .del id ty tyI => (keyOf id ty, tyI)
  | .adv id ty tyI _ => (keyOf id ty, tyI)

def WSub.id : WSub → String
  | .up id _ _ _ => id | .cr id _ _ _ => id | .del id _ _ => id | .adv id _ _ _ => id

def wsub? (s : String) : Option WSub :=
  match s.splitOn "," with
  | kind :: id :: ty :: rest =>
    match i64? ty with
    | none => none
    | some tyI =>
      if kind == "u" then (cand? tyI rest).map (WSub.up id ty tyI)
      else if kind == "c" then (cand? tyI rest).map (WSub.cr id ty tyI)
      else if kind == "d" then (if rest.isEmpty then some (WSub.del id ty tyI) else none)
      else if kind == "a" then
        match rest with
        | [ece, ele, eld, els, rs, ra] =>
          match u64? ece, u64? ele, u64? eld, i64? els, u64? rs, i64? ra with
          | some ece, some ele, some eld, some els, some rs, some ra => some (WSub.adv id ty tyI ⟨ece, ele, eld, els, rs, ra⟩)
          | _, _, _, _, _, _ => none
        | _ => none
      else none
  | _ => none

def wkeys (subs : List WSub) : List (String × Int) :=
  subs.foldl (fun acc s => if acc.any (fun p => p.1 == s.key.1) then acc else acc ++ [s.key]) []

/-- one compat WriteBatch: staging validates upsert/create/delete arguments; commit runs the staged ops
    in order over an overlay; the first conflict / not-found fails the whole commit -/
def runWBatch (store : Store) (subs : List WSub) : String × String × String × Store :=
  let staged := subs.map (fun s =>
    let ok : Bool := match s with
      | .up id _ _ c => validate (idLen id) c
      | .cr id _ _ c => validate (idLen id) (normalize c)
      | .del id _ _ => decide (¬ (idLen id = 0 ∨ idLen id > 65535))
      | .adv _ _ _ _ => true
    (s, ok))
  let flags := String.ofList (staged.map (fun p => if p.2 then 's' else 'i'))
  let go := staged.foldl (fun (acc : Except String (Store × List Char)) p =>
    match acc with
    | .error e => .error e
    | .ok (ov, cr) =>
      if ¬ p.2 then .ok (ov, cr) else
      let k := p.1.key.1
      match p.1 with
      | .up id _ _ c =>
        match upsert (idLen id) (sget ov k) c with
        | (_, .conflict) => .error "conflict"
        | (row, .applied) => .ok (sset ov k row, cr)
        | (_, _) => .ok (ov, cr)
      | .cr id _ _ c =>
        match create (idLen id) (sget ov k) c with
        | (row, .created) => .ok (sset ov k row, cr ++ ['1'])
        | (_, _) => .ok (ov, cr ++ ['0'])
      | .del id _ _ => .ok (sset ov k (wdelete (idLen id) (sget ov k)).1, cr)
      | .adv _ _ _ r =>
        match wadvance (sget ov k) r with
        | (_, .notfound) => .error "notfound"
        | (_, .conflict) => .error "conflict"
        | (row, _) => .ok (sset ov k row, cr)) (.ok (store, []))
  match go with
  | .error e => (flags, e, "-", store)
  | .ok (ov, cr) => (flags, "ok", if cr.isEmpty then "-" else String.ofList cr, ov)

/-- one slot-FSM command (ApplyBatch of a single multiraft.Command) -/
def runFsm (store : Store) (subs : List WSub) : String × String × Store :=
  match subs with
  | [.up id ty _ c] =>
    let k := keyOf id ty
    match upsert (idLen id) (sget store k) (fsmCand c) with
    | (_, .invalid) => ("invalid", "-", store)
    | (_, .conflict) => ("stale_meta", "-", store)   -- ErrStaleMeta is ErrConflict: reported as a stale no-op
    | (row, .applied) => ("ok", "-", sset store k row)
    | (_, _) => ("ok", "-", store)
  | [.del id ty _] =>
    let k := keyOf id ty
    match wdelete (idLen id) (sget store k) with
    | (_, .invalid) => ("invalid", "-", store)
    | (row, _) => ("ok", "-", sset store k row)
  | [.adv id ty _ r] =>
    let k := keyOf id ty
    match wadvance (sget store k) r with
    | (_, .notfound) => ("stale_meta", "-", store)
    | (_, .conflict) => ("stale_meta", "-", store)   -- ErrStaleMeta is ErrConflict: reported as a stale no-op
    | (row, _) => ("ok", "-", sset store k row)
  | _ =>
    -- create batch: canonical = normalized items, non-empty id and non-zero type, no duplicate (type, id),
    -- sorted by (type, id)
    let items := subs.filterMap (fun s => match s with | .cr id ty tyI c => some (id, ty, tyI, c) | _ => none)
    if items.length ≠ subs.length ∨ items.isEmpty then ("bad-op", "-", store) else
    if items.any (fun (id, _, tyI, _) => idLen id = 0 ∨ tyI = 0) then ("encerr", "-", store) else
    let dup := (wkeys subs).length ≠ subs.length
    if dup then ("encerr", "-", store) else
    let sorted := items.mergeSort (fun (a b : String × String × Int × Meta) =>
      if a.2.2.1 ≠ b.2.2.1 then a.2.2.1 < b.2.2.1 else decide (a.1 ≤ b.1))
    let go := sorted.foldl (fun (acc : Option (Store × List Char)) it =>
      match acc with
      | none => none
      | some (ov, cr) =>
        let (id, ty, _, c) := it
        let k := keyOf id ty
        match create (idLen id) (sget ov k) (fsmCand c) with
        | (_, .invalid) => none
        | (row, .created) => some (sset ov k row, cr ++ ['1'])
        | (_, _) => some (ov, cr ++ ['0'])) (some (store, []))
    match go with
    | none => ("invalid", "-", store)
    | some (ov, cr) => ("ok", String.ofList cr, ov)

/-- judge + bookkeeping shared by the multi-row ops: `rows` = the `key=row` tokens the implementation printed -/
def judgeRows (st : St) (model' : Store) (keys : List (String × Int)) (out : String) (delKeys : List String)
    (rows : List String) (m : String) : St × String × String :=
  if rows.length ≠ keys.length then (⟨model', st.seen⟩, m, "viol:unparseable-output") else
  let parsed := (keys.zip rows).map (fun (k, r) =>
    match r.splitOn "=" with
    | kk :: _ => if kk ≠ k.1 then none else row? k.2 ((r.drop (kk.length + 1)).toString) |>.map (fun x => (k.1, x))
    | _ => none)
  if parsed.any Option.isNone then (⟨model', st.seen⟩, m, "viol:unparseable-output") else
  let ps := parsed.filterMap id
  let v := firstBad (ps.map (fun (k, new) =>
    if delKeys.contains k ∧ ¬ rejected out then
      -- a delete was part of the committed op: the row may vanish or restart a new incarnation
      "ok"
    else judgeRow false out (sget st.seen k) new))
  let seen' := ps.foldl (fun s (k, new) => sset s k new) st.seen
  (⟨model', seen'⟩, m, v)

def kv' (key : String) (s : String) : Option String :=
  if s.startsWith (key ++ "=") then some ((s.drop (key.length + 1)).toString) else none

/-! ### concurrent op: linearizable monotonicity of the trace -/

inductive CEv where
  | up (ack : Nat) (res : String) (ce le : Nat)
  | adv (ack : Nat) (res : String) (rs : Nat)
  | rd (start : Nat) (row : Option Meta)

def cev? (ty : Int) (s : String) : Option CEv :=
  match s.splitOn ":" with
  | ["U", ack, res, ce, le] =>
    match ack.toNat?, u64? ce, u64? le with
    | some a, some ce, some le => some (.up a res ce le)
    | _, _, _ => none
  | ["A", ack, res, rs] =>
    match ack.toNat?, u64? rs with
    | some a, some rs => some (.adv a res rs)
    | _, _ => none
  | ["R", start, row] =>
    match start.toNat?, row? ty row with
    | some t, some r => some (.rd t r)
    | _, _ => none
  | _ => none

/-- every read that STARTED after a write was ACKNOWLEDGED must not be behind that write:
    epochs at least those of an applied upsert, retention at least that of an accepted advance -/
def judgeTrace (evs : List CEv) : String :=
  firstBad (evs.map (fun e =>
    match e with
    | .rd t row =>
      firstBad (evs.map (fun w =>
        match w with
        | .up ack res ce le =>
          if res == "applied" ∧ ack < t then
            match row with
            | none => "viol:conc-row-vanished-after-acknowledged-write"
            | some m => if m.chEpoch < ce ∨ (m.chEpoch = ce ∧ m.leEpoch < le) then "viol:conc-acknowledged-upsert-lost" else "ok"
          else "ok"
        | .adv ack res rs =>
          if res == "ok" ∧ ack < t then
            match row with
            | none => "viol:conc-row-vanished-after-acknowledged-write"
            | some m => if m.retSeq < rs then "viol:conc-acknowledged-retention-lost" else "ok"
          else "ok"
        | _ => "ok"))
    | _ => "ok"))

def c15StepW (st : St) (op impl : String) : St × String × String :=
  let bad := (st, "bad-op", "ok")
  match fields op with
  | ["wbt", body] =>
    match (body.splitOn ";").mapM wsub? with
    | none => bad
    | some subs =>
      let keys := wkeys subs
      let (flags, commit, created, model') := runWBatch st.model subs
      let m := flags ++ " " ++ commit ++ " " ++ created ++ " " ++
        " ".intercalate (keys.map (fun k => k.1 ++ "=" ++ rowStr (sget model' k.1)))
      let delKeys := subs.filterMap (fun s => match s with | .del id ty _ => some (keyOf id ty) | _ => none)
      match fields impl with
      | _ :: c :: _ :: rows =>
        let out := if c == "ok" then "applied" else if c == "conflict" then "conflict" else if c == "notfound" then "notfound" else "other"
        if out == "other" then (⟨model', st.seen⟩, m, "viol:unexpected-result:" ++ c)
        else judgeRows st model' keys out delKeys rows m
      | _ => (⟨model', st.seen⟩, m, "viol:unparseable-output")
  | ["fsm", body] =>
    match (body.splitOn "|").mapM wsub? with
    | none => bad
    | some subs =>
      let keys := wkeys subs
      let (res, created, model') := runFsm st.model subs
      if res == "bad-op" then bad else
      let m := res ++ " " ++ created ++ " " ++
        " ".intercalate (keys.map (fun k => k.1 ++ "=" ++ rowStr (sget model' k.1)))
      let delKeys := subs.filterMap (fun s => match s with | .del id ty _ => some (keyOf id ty) | _ => none)
      match fields impl with
      | r :: _ :: rows =>
        let out := if r == "ok" then "applied" else if r == "conflict" then "conflict" else if r == "invalid" then "invalid"
          else if r == "stale_meta" then "notfound" else if r == "encerr" then "invalid" else "other"
        if out == "other" then (⟨model', st.seen⟩, m, "viol:unexpected-result:" ++ r)
        else judgeRows st model' keys out delKeys rows m
      | _ => (⟨model', st.seen⟩, m, "viol:unparseable-output")
  | ["conc", id, ty, n] =>
    match i64? ty, n.toNat? with
    | some tyI, some n =>
      if n > 16 ∨ idLen id = 0 then bad else
      let k := keyOf id ty
      match fields impl with
      | [fpre, fpost, fe] =>
        match (kv' "pre" fpre).bind (row? tyI), (kv' "post" fpost).bind (row? tyI), kv' "E" fe with
        | some pre, some post, some es =>
          let evs? := if es == "-" then some [] else (es.splitOn ";").mapM (cev? tyI)
          match evs? with
          | none => (st, "-", "viol:unparseable-output")
          | some evs =>
            let v1 := if pre ≠ sget st.seen k then "viol:read-differs-from-last-write" else "ok"
            let v2 := match pre, post with
              | some a, some b => judgeFwd a b
              | some _, none => "viol:row-vanished"
              | none, _ => "ok"
            let v := firstBad [v1, v2, judgeTrace evs]
            -- the schedule decides the outcome: model and judge state resynchronise on the final row
            (⟨sset st.model k post, sset st.seen k post⟩, "-", v)
        | _, _, _ => (st, "-", "viol:unparseable-output")
      | _ => (st, "-", "viol:unparseable-output")
    | _, _ => bad
  | _ => c15Step st op impl

def main : IO Unit := Drv.main { init := ⟨[], []⟩, step := c15StepW }

import WK.Prelude.Drv
import WK.Model.C09_Drv
/-
  C09 driver.  Ops: see harness/C09/c09.go.  Per op
    impl/model out :  `<result> # <dump>`  [ ` | t=<0|1> D <crash dump>` ]
  Judge (verdict), evaluated on the IMPLEMENTATION's output:
    * the live dump and the post-crash dump parse into a typed store that
      satisfies `storeInvB` (rows ⇔ indexes, retention ordering, hw ≤ recovered
      LEO, proposal pairs/entries, frontier loads) and whose `L.c` / `F.3` lines
      equal the LEO / frontier recomputed from the dumped rows;
    * the post-crash dump equals the model store BEFORE the wrapped mutation or
      AFTER it (a prefix of the issued batches) and, when the mutation had
      returned (t=0), AFTER it (acknowledged ⇒ durable).
-/
open WK WK.C09

def main : IO Unit := Drv.main { init := ({} : C09D.M), step := C09D.stepOp }

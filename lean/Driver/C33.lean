import WK.Prelude.Drv
import WK.Spec.C33
import WK.Model.C33
/-
  C33 driver.  Op and output formats: see /verif/harness/C33/c33.go and
  /verif/hooks/C33/internal__runtime__presence/dump.go.

  modelOut = `<result> || <dump of the model state>` + the implementation's own
  ` || H …` segment (the concrete container/heap array is not modelled; it is
  judged: valid min-heap over exactly the buckets, heapIndex = position).

  verdict  = the property judged on the IMPLEMENTATION's output: the dump is
  parsed back into a `Dir` and the fencing / tombstone / expiry / ordering
  predicates of WK.Spec.C33 are evaluated on it and on the previous dump.
-/
open WK WK.C33

namespace C33Drv

/-! ### rendering -/

def hexS (s : Str) : String := hexEncode s

def renderTarget (t : Target) : String :=
  s!"{t.hs},{t.slotID},{t.leader},{t.term},{t.epoch},{t.rev},{t.aepoch}"

def renderKey (k : Key) : String := s!"{hexS k.uid},{k.node},{k.boot},{k.sess}"

def renderRoute (r : Route) : String :=
  s!"{hexS r.uid},{r.node},{r.boot},{r.seq},{r.sess},{hexS r.dev},{r.flag},{r.level},{hexS r.listener},{r.conn},{r.seen}"

def renderKeys (ks : List Key) : String :=
  if ks.isEmpty then "-" else "/".intercalate (ks.map renderKey)

def sect (tag : String) (items : List String) : String :=
  " ".intercalate (tag :: items)

/-- insertion sort of (key, payload) pairs by `keyLess` -/
def insertKV {ν : Type} (p : Key × ν) : List (Key × ν) → List (Key × ν)
  | [] => [p]
  | x :: xs => if keyLess p.1 x.1 then p :: x :: xs else x :: insertKV p xs

def sortKV {ν : Type} : List (Key × ν) → List (Key × ν)
  | [] => []
  | x :: xs => insertKV x (sortKV xs)

/-- group ascending keys by uid -/
def groupUID : List Key → List (Str × List Key)
  | [] => []
  | k :: ks =>
    match groupUID ks with
    | (u, g) :: rest => if u = k.uid then (u, k :: g) :: rest else (k.uid, [k]) :: (u, g) :: rest
    | [] => [(k.uid, [k])]

def renderSlot (hs : Nat) (s : Slot) : String :=
  let act := sortRoutes s.active
  let uidx := groupUID (act.map Route.key)
  " | ".intercalate [
    s!"S {hs} {renderTarget s.target} {s.nextID}",
    sect "A" (act.map renderRoute),
    sect "U" (uidx.map (fun g => s!"{hexS g.1}:{renderKeys g.2}")),
    sect "P" (s.pending.map (fun p => s!"{p.token}:{renderRoute p.route}:{renderKeys p.conflicts}")),
    sect "O" ((sortKV s.ownerSeq).map (fun kv => s!"{renderKey kv.1}={kv.2}")),
    sect "X" ((sortKV s.tomb).map (fun kv => s!"{renderKey kv.1}={kv.2}")),
    sect "B" (s.buckets.map (fun b => s!"{b.1}:{renderKeys (sortKeys b.2)}")),
    sect "K" ((sortKV s.byKey).map (fun kv => s!"{renderKey kv.1}={kv.2}"))]

def renderDir (d : Dir) : String :=
  " || ".intercalate (s!"D L={d.localNode} T={d.touchTotal} E={d.expiredTotal}" ::
    (sortHS d.slots).map (fun p => renderSlot p.1 p.2))

def renderErr : Err → String
  | .notLeader => "err:notleader"
  | .stale => "err:stale"
  | .notReady => "err:notready"

def renderRoutes (rs : List Route) : String := " ".intercalate ("ok" :: rs.map renderRoute)

def renderAction (a : Action) : String :=
  let kind := if a.kickThenClose then "kick_then_close" else "close"
  s!"{hexS a.uid},{a.node},{a.boot},{a.sess},{kind},presence_conflict,0"

def renderOut : Out → String
  | .ok => "ok"
  | .err e => renderErr e
  | .registered tok acts =>
    let t := tok.getD "-"
    let a := if acts.isEmpty then "-" else ";".intercalate (acts.map renderAction)
    s!"ok {t} {a}"
  | .expired r => s!"exp {r.expired} {r.due} {r.examined} {r.idxRoutes} {r.idxBuckets}"
  | .routes rs => renderRoutes rs
  | .groups gs =>
    if gs.isEmpty then "none"
    else " / ".intercalate (gs.map (fun g => match g with
      | .ok rs => renderRoutes rs
      | .error e => renderErr e))
  | .snapshot s =>
    let byh := if s.byHS.isEmpty then "-" else ",".intercalate (s.byHS.map (fun p => s!"{p.1}:{p.2}"))
    s!"snap {s.active} {byh} {s.touch} {s.expired} {s.idxRoutes} {s.idxBuckets}"

/-! ### parsing -/

def pStr (s : String) : Option Str := (hexDecode s).map (fun bs => bs)

def pNats (s : String) : Option (List Nat) := (s.splitOn ",").mapM String.toNat?

def pTarget (s : String) : Option Target :=
  match pNats s with
  | some [a, b, c, d, e, f, g] => some ⟨a, b, c, d, e, f, g⟩
  | _ => none

def pKey (s : String) : Option Key :=
  match s.splitOn "," with
  | [u, n, b, ss] => do
    let u ← pStr u; let n ← n.toNat?; let b ← b.toNat?; let ss ← ss.toNat?
    pure ⟨u, n, b, ss⟩
  | _ => none

def pRoute (s : String) : Option Route :=
  match s.splitOn "," with
  | [u, n, b, q, ss, dv, fl, lv, li, cn, sn] => do
    let u ← pStr u; let n ← n.toNat?; let b ← b.toNat?; let q ← q.toNat?; let ss ← ss.toNat?
    let dv ← pStr dv; let fl ← fl.toNat?; let lv ← lv.toNat?; let li ← pStr li
    let cn ← cn.toInt?; let sn ← sn.toInt?
    pure ⟨u, n, b, q, ss, dv, fl, lv, li, cn, sn⟩
  | _ => none

def pKeys (s : String) : Option (List Key) :=
  if s == "-" then some [] else (s.splitOn "/").mapM pKey

def pGroup (s : String) : Option (Target × List Str) :=
  match s.splitOn "/" with
  | t :: us => do
    let t ← pTarget t
    let us ← us.mapM pStr
    pure (t, us)
  | [] => none

inductive POp
  | new (l : Nat)
  | op (o : Op)

def uintOK (bits : Nat) (n : Nat) : Bool := n < 2 ^ bits

def targetOK (t : Target) : Bool :=
  uintOK 16 t.hs && uintOK 32 t.slotID && uintOK 64 t.leader && uintOK 64 t.term && uintOK 64 t.epoch &&
  uintOK 64 t.rev && uintOK 64 t.aepoch

def int64OK (i : Int) : Bool := decide (-(2:Int)^63 ≤ i) && decide (i < (2:Int)^63)

def routeOK (r : Route) : Bool :=
  uintOK 64 r.node && uintOK 64 r.boot && uintOK 64 r.seq && uintOK 64 r.sess && uintOK 8 r.flag && uintOK 8 r.level &&
  int64OK r.conn && int64OK r.seen

def keyOK (k : Key) : Bool := uintOK 64 k.node && uintOK 64 k.boot && uintOK 64 k.sess

def parseOp (line : String) : Option POp :=
  let f := line.splitOn " "
  if f.any (· == "") then none else
  match f with
  | ["new", l, s] => do
    let l ← l.toNat?; let s ← s.toNat?
    if uintOK 64 l && uintOK 16 s then pure (.new l) else none
  | ["become", t] => do
    let t ← pTarget t
    if targetOK t then pure (.op (.become t)) else none
  | ["lose", hs] => do
    let hs ← hs.toNat?
    if uintOK 16 hs then pure (.op (.lose hs)) else none
  | ["reg", t, r] => do
    let t ← pTarget t; let r ← pRoute r
    if targetOK t && routeOK r then pure (.op (.reg t r)) else none
  | ["commit", t, tok] => do
    let t ← pTarget t
    if targetOK t then pure (.op (.commit t tok)) else none
  | ["abort", t, tok] => do
    let t ← pTarget t
    if targetOK t then pure (.op (.abort t tok)) else none
  | ["unreg", t, k, q] => do
    let t ← pTarget t; let k ← pKey k; let q ← q.toNat?
    if targetOK t && keyOK k && uintOK 64 q then pure (.op (.unreg t k q)) else none
  | "touch" :: t :: rs => do
    let t ← pTarget t; let rs ← rs.mapM pRoute
    if targetOK t && rs.all routeOK then pure (.op (.touch t rs)) else none
  | ["expire", now, ttl] => do
    let ttl ← ttl.toInt?
    if !int64OK ttl then none
    else if now == "z" then pure (.op (.expire true 0 ttl))
    else do
      let n ← now.toInt?
      if int64OK n then pure (.op (.expire false n ttl)) else none
  | ["ep", t, u] => do
    let t ← pTarget t; let u ← pStr u
    if targetOK t then pure (.op (.ep t u)) else none
  | "eps" :: t :: us => do
    let t ← pTarget t; let us ← us.mapM pStr
    if targetOK t then pure (.op (.eps t us)) else none
  | "ept" :: gs => do
    let gs ← gs.mapM pGroup
    if gs.all (fun g => targetOK g.1) then pure (.op (.ept gs)) else none
  | ["snap"] => pure (.op .snap)
  | _ => none

/-- `tag a b c` → items after the tag -/
def pSect (tag : String) (s : String) : Option (List String) :=
  match s.splitOn " " with
  | t :: items => if t == tag && items.all (· ≠ "") then some items else none
  | [] => none

def pKV {ν : Type} (pv : String → Option ν) (s : String) : Option (Key × ν) :=
  match s.splitOn "=" with
  | [k, v] => do
    let k ← pKey k; let v ← pv v
    pure (k, v)
  | _ => none

def pSlot (s : String) : Option (Nat × Slot × List (Str × List Key)) :=
  match s.splitOn " | " with
  | [hd, a, u, p, o, x, b, k] => do
    let (hs, tgt, next) ← match hd.splitOn " " with
      | ["S", hs, t, n] => do
        let hs ← hs.toNat?; let t ← pTarget t; let n ← n.toNat?
        pure (hs, t, n)
      | _ => none
    let act ← (← pSect "A" a).mapM pRoute
    let uidx ← (← pSect "U" u).mapM (fun it => match it.splitOn ":" with
      | [uid, ks] => do
        let uid ← pStr uid; let ks ← pKeys ks
        pure (uid, ks)
      | _ => none)
    let pend ← (← pSect "P" p).mapM (fun it => match it.splitOn ":" with
      | [tok, r, ks] => do
        let r ← pRoute r; let ks ← pKeys ks
        pure (⟨tok, r, ks⟩ : Pending)
      | _ => none)
    let oseq ← (← pSect "O" o).mapM (pKV String.toNat?)
    let tomb ← (← pSect "X" x).mapM (pKV String.toNat?)
    let bkts ← (← pSect "B" b).mapM (fun it => match it.splitOn ":" with
      | [seen, ks] => do
        let seen ← seen.toInt?; let ks ← pKeys ks
        pure (seen, ks)
      | _ => none)
    let byk ← (← pSect "K" k).mapM (pKV String.toInt?)
    pure (hs, { target := tgt, active := act, pending := pend, ownerSeq := oseq, tomb := tomb,
                buckets := bkts, byKey := byk, nextID := next }, uidx)
  | _ => none

structure HeapEnt where
  seen : Int
  idx : Int
  same : Nat
  n : Nat

def pHeapEnt (s : String) : Option HeapEnt :=
  match s.splitOn "@" with
  | [a, b, c, d] => do
    let a ← a.toInt?; let b ← b.toInt?; let c ← c.toNat?; let d ← d.toNat?
    pure ⟨a, b, c, d⟩
  | _ => none

def pHeaps (s : String) : Option (List (Nat × List HeapEnt)) := do
  let items ← pSect "H" s
  items.mapM (fun it => match it.splitOn "=" with
    | [hs, es] => do
      let hs ← hs.toNat?
      let es ← if es == "-" then some [] else (es.splitOn ";").mapM pHeapEnt
      pure (hs, es)
    | _ => none)

structure ImplState where
  dir : Dir
  uidx : List (Nat × List (Str × List Key))
  heaps : List (Nat × List HeapEnt)

/-- `D L=.. T=.. E=.. || S … || S … || H …` -/
def pDump (segs : List String) : Option ImplState :=
  match segs with
  | hd :: rest =>
    match hd.splitOn " ", rest.reverse with
    | ["D", l, t, e], h :: slotsRev => do
      let l ← (l.dropPrefix? "L=").bind (fun x => x.toString.toNat?)
      let t ← (t.dropPrefix? "T=").bind (fun x => x.toString.toNat?)
      let e ← (e.dropPrefix? "E=").bind (fun x => x.toString.toNat?)
      let slots ← slotsRev.reverse.mapM pSlot
      let heaps ← pHeaps h
      pure { dir := { localNode := l, slots := slots.map (fun s => (s.1, s.2.1)), touchTotal := t, expiredTotal := e },
             uidx := slots.map (fun s => (s.1, s.2.2)), heaps := heaps }
    | _, _ => none
  | [] => none

/-! ### the judge -/

def heapOK (s : Slot) (es : List HeapEnt) : Bool :=
  let arr := es.toArray
  (List.range es.length).all (fun i =>
    match arr[i]? with
    | none => false
    | some e =>
      e.idx == (i : Int) && e.same == 1 &&
      (match aget e.seen s.buckets with
       | some ks => ks.length == e.n && e.n > 0
       | none => false) &&
      (i == 0 || match arr[(i - 1) / 2]? with
        | some p => decide (p.seen < e.seen)
        | none => false)) &&
  es.length == s.buckets.length

def uidxOK (s : Slot) (u : List (Str × List Key)) : Bool :=
  u == groupUID ((sortRoutes s.active).map Route.key)

def sameSlotExceptExpiry (a b : Slot) : Bool :=
  a.target == b.target && a.pending == b.pending && a.ownerSeq == b.ownerSeq && a.tomb == b.tomb && a.nextID == b.nextID

structure St where
  model : Dir := {}
  prevRaw : String := "D L=0 T=0 E=0 || H"
  prev : Dir := {}
  /-- (hash slot, identity, unregister sequence) accepted by the implementation in the
      current authority incarnation of that hash slot -/
  fences : List (Nat × Key × Nat) := []

def readOnly : Op → Bool
  | .ep .. | .eps .. | .ept .. | .snap => true
  | _ => false

def expectedLookup (d : Dir) (t : Target) (uids : List Str) : String :=
  match aget t.hs d.slots with
  | some s => renderRoutes (uids.flatMap s.endpoints)
  | none => "?"

/-- verdict for one op; `res`/`raw`/`im` = implementation result, raw dump text, parsed dump -/
def judge (st : St) (op : Op) (res raw : String) (im : ImplState) : String × List (Nat × Key × Nat) :=
  let prev := st.prev
  let d := im.dir
  -- (1) fencing by exact authority target
  let v1 :=
    match op.target with
    | some t =>
      if !accepts prev t then
        (if res != "err:notleader" then "viol:stale-target-accepted"
         else if raw != st.prevRaw then "viol:stale-target-changed-state" else "ok")
      else if res == "err:notleader" then "viol:current-target-rejected" else "ok"
    | none =>
      match op with
      | .ept gs =>
        let rs := if gs.isEmpty then [] else res.splitOn " / "
        if rs.length != gs.length then "viol:lookup-groups-misaligned"
        else if (gs.zip rs).any (fun (g, r) => (!accepts prev g.1) != (r == "err:notleader")) then "viol:stale-target-accepted"
        else "ok"
      | _ => "ok"
  -- (2) lookups: deterministic order and exact content, no side effects
  let v2 :=
    if readOnly op && raw != st.prevRaw then "viol:lookup-mutates-state" else
    match op with
    | .ep t u => if accepts prev t && res != expectedLookup prev t [u] then "viol:lookup-order-or-content" else "ok"
    | .eps t us => if accepts prev t && res != expectedLookup prev t us then "viol:lookup-order-or-content" else "ok"
    | .ept gs =>
      let rs := if gs.isEmpty then [] else res.splitOn " / "
      if (gs.zip rs).any (fun (g, r) => accepts prev g.1 && r != expectedLookup prev g.1 g.2) then "viol:lookup-order-or-content" else "ok"
    | _ => "ok"
  -- (3) expiry removes exactly the routes idle > ttl
  let v3 :=
    match op with
    | .expire nz now ttl =>
      let okSlots := prev.slots.all (fun (hs, ps) =>
        match aget hs d.slots with
        | none => false
        | some ns =>
          (sortRoutes ns.active).map renderRoute == (sortRoutes (expireSpec nz now ttl ps.active)).map renderRoute &&
          sameSlotExceptExpiry ps ns)
      let removed := (prev.slots.map (fun (_, ps) => ps.active.length - (expireSpec nz now ttl ps.active).length)).sum
      if !okSlots || d.slots.length != prev.slots.length then "viol:expire-inexact"
      else if !(res.startsWith s!"exp {removed} ") then "viol:expire-count"
      else if d.expiredTotal != prev.expiredTotal + removed then "viol:expire-count"
      else "ok"
    | _ => "ok"
  -- (4) tombstones: fences of this incarnation
  let fences : List (Nat × Key × Nat) :=
    match op with
    | .lose hs => st.fences.filter (fun f => f.1 != hs)
    | .become t =>
      (match aget t.hs prev.slots with
       | some s => if sameAuth s.target t then st.fences else st.fences.filter (fun f => f.1 != t.hs)
       | none => st.fences.filter (fun f => f.1 != t.hs))
    | .unreg t k q => if res == "ok" then (t.hs, k, q) :: st.fences.filter (fun f => !(f.1 == t.hs && f.2.1 == k && f.2.2 ≤ q)) else st.fences
    | _ => st.fences
  let broken := fences.filter (fun f => match aget f.1 d.slots with
    | some s => !fenced s f.2.1 f.2.2
    | none => false)
  let v4 :=
    if broken.any (fun f => f.2.2 > 0) then "viol:tombstone-reappeared"
    else if !broken.isEmpty then "viol:tombstone-seq0-reappeared"
    else if d.slots.any (fun p => !tombOK p.2) then "viol:tombstone-invariant"
    else "ok"
  -- (5) the expiry index is exactly the schedule of the active routes; heap array well formed
  let v5 :=
    if d.slots.any (fun p => !indexOK p.2) then "viol:expiry-index"
    else if d.slots.any (fun p => match aget p.1 im.heaps with
      | some es => !heapOK p.2 es
      | none => true) then "viol:heap-shape"
    else if d.slots.any (fun p => match aget p.1 im.uidx with
      | some u => !uidxOK p.2 u
      | none => true) then "viol:uid-index"
    else "ok"
  -- (6) owner-sequence / activity fencing between consecutive dumps of one incarnation:
  --     the active route of an identity never goes back to an older owner sequence, and a
  --     touch never lowers its recorded activity second
  let isTouch := match op with
    | .touch .. => true
    | _ => false
  let v6 :=
    if d.slots.any (fun p => match aget p.1 prev.slots with
      | none => false
      | some ps => sameAuth ps.target p.2.target && p.2.active.any (fun r => match findA r.key ps.active with
          | some o => decide (r.seq < o.seq)
          | none => false)) then "viol:owner-seq-regressed"
    else if isTouch && d.slots.any (fun p => match aget p.1 prev.slots with
      | none => false
      | some ps => p.2.active.any (fun r => match findA r.key ps.active with
          | some o => decide (routeSeen r < routeSeen o) && r.seq == o.seq
          | none => false)) then "viol:touch-activity-regressed"
    else "ok"
  let v := [v1, v2, v3, v4, v5, v6].find? (· != "ok")
  -- a broken fence is reported once
  (v.getD "ok", fences.filter (fun f => !broken.contains f))

def splitImpl (impl : String) : Option (String × String × List String) :=
  match impl.splitOn " || " with
  | res :: segs =>
    if segs.isEmpty then none
    else some (res, " || ".intercalate segs, segs)
  | [] => none

def stepDrv (st : St) (opLine impl : String) : St × String × String :=
  match parseOp opLine with
  | none => (st, "bad-op", "ok")
  | some pop =>
    -- model side
    let (model', mres) : Dir × String :=
      match pop with
      | .new l => (({ localNode := l } : Dir), "ok")
      | .op o => let (d, out) := step st.model o; (d, renderOut out)
    match splitImpl impl with
    | none => ({ st with model := model' }, mres ++ " || " ++ renderDir model' ++ " || H", "viol:unparseable-output")
    | some (res, raw, segs) =>
      let hseg := (segs.getLast?).getD "H"
      let mout := mres ++ " || " ++ renderDir model' ++ " || " ++ hseg
      match pDump segs with
      | none => ({ st with model := model' }, mout, "viol:unparseable-output")
      | some im =>
        let (v, fences) :=
          match pop with
          | .new _ => ("ok", [])
          | .op o => judge st o res raw im
        -- invariants also right after `new`
        ({ model := model', prevRaw := raw, prev := im.dir, fences := fences }, mout, v)

end C33Drv

def main : IO Unit := Drv.main { init := ({} : C33Drv.St), step := C33Drv.stepDrv }

import WK.Prelude.Drv
import WK.Spec.C35
/-
  C35 driver.  ops (all byte strings hex, `-` = empty):
    enc   A B   -> `<Encode(A,B)> <Encode(B,A)> <Decode(Encode(A,B))>`
    dec   C     -> `<Decode(C)>`
    norm  S C   -> `<Normalize(S,C)> <Normalize(S, that)>`      (second = `-` when the first failed)
    cmd   X     -> `<Is(X)> <To(X)> <To(To(X))> <From(To(X))> <From(X)>`
    agent U A   -> `<EncodeAgent(U,A)> <DecodeAgent(that)>`
  result encodings:  decode = `ok:<l>:<r>` | `err`;  normalize = `ok:<c>` | `err`;
                     from = `<hex>:<0|1>`.
-/
open WK WK.C35

def showDec : Dec → String
  | some (l, r) => s!"ok:{hexEncode l}:{hexEncode r}"
  | none => "err"

def showNorm : Option Bytes → String
  | some c => s!"ok:{hexEncode c}"
  | none => "err"

def showFrom (p : Bytes × Bool) : String := s!"{hexEncode p.1}:{boolStr p.2}"

/-- parse failure is `none`; a parsed decode result is `some d` -/
def parseDec (s : String) : Option Dec :=
  match s.splitOn ":" with
  | ["err"] => some none
  | ["ok", l, r] => do
    let l ← hexDecode l
    let r ← hexDecode r
    pure (some (l, r))
  | _ => none

def parseNorm (s : String) : Option (Option Bytes) :=
  match s.splitOn ":" with
  | ["err"] => some none
  | ["ok", c] => do
    let c ← hexDecode c
    pure (some c)
  | _ => none

def parseBool (s : String) : Option Bool :=
  if s == "1" then some true else if s == "0" then some false else none

def parseFrom (s : String) : Option (Bytes × Bool) :=
  match s.splitOn ":" with
  | [c, f] => do
    let c ← hexDecode c
    let f ← parseBool f
    pure (c, f)
  | _ => none

def unparse : String := "viol:unparseable-output"

def c35Step (_ : Unit) (op impl : String) : Unit × String × String :=
  let bad : Unit × String × String := ((), "bad-op", "ok")
  match fields op with
  | ["enc", a, b] =>
    match hexDecode a, hexDecode b with
    | some a, some b =>
      let e1 := encodePerson a b
      let m := s!"{hexEncode e1} {hexEncode (encodePerson b a)} {showDec (decodePerson e1)}"
      let v := match fields impl with
        | [i1, i2, d] =>
          match hexDecode i1, hexDecode i2, parseDec d with
          | some i1, some i2, some d => judgeEnc a b i1 i2 d
          | _, _, _ => unparse
        | _ => unparse
      ((), m, v)
    | _, _ => bad
  | ["dec", c] =>
    match hexDecode c with
    | some c =>
      let v := match parseDec impl with
        | some d => judgeDec c d
        | none => unparse
      ((), showDec (decodePerson c), v)
    | none => bad
  | ["norm", s, c] =>
    match hexDecode s, hexDecode c with
    | some s, some c =>
      let n1 := normalizePerson s c
      let m2 := match n1 with
        | some c' => showNorm (normalizePerson s c')
        | none => "-"
      let v := match fields impl with
        | [i1, i2] =>
          match parseNorm i1 with
          | some n1i =>
            let n2i : Option (Option (Option Bytes)) :=
              if i2 == "-" then some none else (parseNorm i2).map some
            match n2i with
            | some n2i => judgeNorm s c n1i n2i
            | none => unparse
          | none => unparse
        | _ => unparse
      ((), s!"{showNorm n1} {m2}", v)
    | _, _ => bad
  | ["cmd", x] =>
    match hexDecode x with
    | some x =>
      let t := toCmd x
      let m := s!"{boolStr (isCmd x)} {hexEncode t} {hexEncode (toCmd t)} {showFrom (fromCmd t)} {showFrom (fromCmd x)}"
      let v := match fields impl with
        | [i, t, tt, f1, f0] =>
          match parseBool i, hexDecode t, hexDecode tt, parseFrom f1, parseFrom f0 with
          | some i, some t, some tt, some f1, some f0 => judgeCmd x i t tt f1 f0
          | _, _, _, _, _ => unparse
        | _ => unparse
      ((), m, v)
    | none => bad
  | ["agent", u, a] =>
    match hexDecode u, hexDecode a with
    | some u, some a =>
      let e := encodeAgent u a
      let v := match fields impl with
        | [ei, d] =>
          match hexDecode ei, parseDec d with
          | some ei, some d => judgeAgent u a ei d
          | _, _ => unparse
        | _ => unparse
      ((), s!"{hexEncode e} {showDec (decodeAgent e)}", v)
    | _, _ => bad
  | _ => bad

def main : IO Unit := Drv.main { init := (), step := c35Step }

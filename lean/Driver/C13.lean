import WK.Prelude.Drv
import WK.Model.C13
/-
  C13 driver.

  ops    c <index> <slot> <hashSlot> <hexdata> <kind>      one command of the log
         run <plan>       plan = comma list of  <n> (one ApplyBatch of n commands) | R (reopen) | S (snapshot+restore)
  impl   c   → ok
         run → tokens:  I@a:d   start state (durable applied index : digest of the exported meta snapshot)
                        i:r@a:d           a single command, result token r (ok|stale|fenced|r<hash>|e<class>)
                        i:r,j:r,…@a:d     one successful batch
                        Bi-j:e<class>@a:d a refused batch (then the harness resumes one at a time above a)
                        R@a:d  S@a:d
  The FIRST run of a case is one-at-a-time: it defines `one` (the per-command
  function along this log) and is judged directly (refusals without side
  effects, ownership, malformed payloads refused, applied-index bookkeeping).
  Every later run is PREDICTED by the model's `applyBatch`/`snapshot`/`restore`
  from that table and compared token for token.
-/
open WK WK.C13

structure Tab where
  index : Nat
  tok : String
  applied : Nat
  digest : String
deriving Inhabited

structure DSt where
  cmds : List Cmd := []
  init : Option (Nat × String) := none
  table : Option (List Tab) := none
  foreignSeen : Bool := false      -- a known finding fired in this case: its later runs are not predicted

def cfg : Cfg := { slot := 1, owned := [1, 2, 3], legacyDefault := false }

def errStr : Err → String
  | .invalid => "einvalid" | .corrupt => "ecorrupt" | .stale => "estale"
  | .notFound => "enotfound" | .exists => "eexists" | .other => "eother"

def parseErr (s : String) : Option Err :=
  if s == "einvalid" then some .invalid else if s == "ecorrupt" then some .corrupt
  else if s == "estale" then some .stale else if s == "enotfound" then some .notFound
  else if s == "eexists" then some .exists else if s.startsWith "e" then some .other else none

def be64 (v : Bytes) : Nat := v.foldl (fun acc b => acc * 256 + b.toNat) 0

/-- the hash slot an ApplyDelta payload names (`decodeApplyDelta`) -/
def deltaHS (d : Bytes) : Except Err Nat :=
  match header d with
  | .error e => .error e
  | .ok (_, body) =>
    match walkTLV body with
    | .error e => .error e
    | .ok fs =>
      let bad := fs.any (fun f => (f.1 = 1 ∨ f.1 = 2 ∨ f.1 = 3) ∧ f.2.length ≠ 8) ||
                 fs.any (fun f => f.1 = 3 ∧ be64 f.2 > 65535)
      let has (t : Nat) := fs.any (fun f => f.1 = t)
      if bad ∨ !(has 1 && has 2 && has 3 && has 4) then .error .corrupt
      else match (fs.filter (fun f => f.1 = 3)).getLast? with
        | some f => .ok (be64 f.2)
        | none => .error .corrupt

/-- `one` read off the one-at-a-time run -/
def oneOf (tab : List Tab) : C13.One String := fun _ _ (c : Cmd) =>
  match tab.find? (fun t => t.index = c.index) with
  | none => .error .other
  | some t =>
    match parseErr t.tok with
    | some e => .error e
    | none => if t.applied = c.index then .done t.digest t.tok else .commitStale

def stStr (st : St String) : String := s!"@{st.applied}:{st.kv}"

/-- parse `…@a:d` -/
def parseState (s : String) : Option (String × Nat × String) :=
  match s.splitOn "@" with
  | [pre, ad] =>
    match ad.splitOn ":" with
    | [a, d] => a.toNat?.map (fun a => (pre, a, d))
    | _ => none
  | _ => none

/-- front-end refusals the model decides itself: wrong slot id, unowned hash slot, ApplyDelta envelope -/
def frontErr (c : Cmd) : Option Err :=
  if c.slot ≠ cfg.slot then some .invalid else
  match resolveHashSlot cfg deltaHS c with
  | .error e => some e
  | .ok _ => none

/-- judge the one-at-a-time run and build the table -/
def judgeFirst (cmds : List Cmd) (toks : List String) : Option (Nat × String) × List Tab × String :=
  match toks with
  | [] => (none, [], "viol:unparseable-output")
  | i :: rest =>
    match parseState i with
    | some ("I", a0, d0) =>
      let rec go (cs : List Cmd) (ts : List String) (a : Nat) (d : String) (acc : List Tab) (v : String) :
          List Tab × String :=
        match cs, ts with
        | [], [] => (acc.reverse, v)
        | c :: cs', t :: ts' =>
          match parseState t with
          | none => (acc.reverse, "viol:unparseable-output")
          | some (pre, a', d') =>
            match pre.splitOn ":" with
            | [idx, tok] =>
              if idx.toNat? ≠ some c.index then (acc.reverse, "viol:unparseable-output") else
              let isErr := (parseErr tok).isSome
              let v1 :=
                if v ≠ "ok" then v
                else if isErr ∧ (a' ≠ a ∨ d' ≠ d) then "viol:refused-with-side-effect"
                else match frontErr c with
                  | some e =>
                    if tok ≠ errStr e then
                      (if unowned cfg c then "viol:unowned-not-refused" else "viol:envelope-check-differs")
                    else "ok"
                  | none =>
                    match skeletonVerdict c.data with
                    | some _ => if isErr then "ok" else "viol:malformed-accepted"
                    | none =>
                      if !isErr ∧ a' ≠ c.index ∧ !(a' = a ∧ d' = d ∧ tok = "stale") then "viol:applied-index-bookkeeping"
                      else "ok"
              go cs' ts' a' d' ({ index := c.index, tok := tok, applied := a', digest := d' } :: acc) v1
            | _ => (acc.reverse, "viol:unparseable-output")
        | _, _ => (acc.reverse, "viol:unparseable-output")
      let (tab, v) := go cmds rest a0 d0 [] "ok"
      (some (a0, d0), tab, v)
    | _ => (none, [], "viol:unparseable-output")

def resTok (c : Cmd) (r : String) : String := s!"{c.index}:{r}"

/-- the model's prediction of one run; `impl` tokens are consulted only for the
    state after a refused batch (any sequential prefix state is legal there) -/
partial def predict (tab : List Tab) (cmds : List Cmd) (plan : List String) (st0 : St String)
    (impl : List String) : List String × String :=
  let one := oneOf tab
  let single (st : St String) (c : Cmd) : St String × String :=
    match stepOne cfg deltaHS one st c with
    | .error e => (st, s!"{c.index}:{errStr e}{stStr st}")
    | .ok (st', r) => (st', s!"{c.index}:{r}{stStr st'}")
  let singles (st : St String) (cs : List Cmd) : St String × List String :=
    cs.foldl (fun (acc : St String × List String) c =>
      let (st', t) := single acc.1 c
      (st', acc.2 ++ [t])) (st, [])
  let rec go (plan : List String) (pos : Nat) (st : St String) (out : List String) (v : String) :
      List String × String :=
    match plan with
    | [] =>
      let (_, ts) := singles st (cmds.drop pos)
      (out ++ ts, v)
    | item :: plan' =>
      if item == "R" then go plan' pos st (out ++ ["R" ++ stStr st]) v
      else if item == "S" ∨ item.startsWith "X" then
        -- snapshot, restore (into a fresh store, or — X<j> — onto a replica holding another prefix):
        -- the model says identity either way (c13_snapshot_any_prefix: Restore REPLACES the state)
        let tag := if item == "S" then "S" else "X"
        match restore (fun b => some (String.fromUTF8! ⟨b.toArray⟩)) { kv := "stale", applied := 0 }
                (snapshot (fun (s : String) => s.toUTF8.toList) st) with
        | some st' => go plan' pos (if st.applied = 0 then st else st') (out ++ [tag ++ stStr (if st.applied = 0 then st else st')]) v
        | none => (out ++ [tag ++ ":restoreerr"], v)
      else if item == "S" then
        -- snapshot, restore into a fresh store: the model says identity
        match restore (fun b => some (String.fromUTF8! ⟨b.toArray⟩)) { kv := "", applied := 0 }
                (snapshot (fun (s : String) => s.toUTF8.toList) st) with
        | some st' => go plan' pos st' (out ++ ["S" ++ stStr st']) v
        | none => (out ++ ["S:restoreerr"], v)
      else
        match item.toNat? with
        | none => (out ++ ["bad-plan"], v)
        | some n =>
          let batch := (cmds.drop pos).take n
          let pos' := pos + batch.length
          if batch.isEmpty then go plan' pos' st out v
          else if batch.length == 1 then
            let (st', ts) := singles st batch
            go plan' pos' st' (out ++ ts) v
          else
            match applyBatch cfg deltaHS one st batch with
            | (st', rs, none) =>
              let tok := ",".intercalate ((batch.zip rs).map (fun p => resTok p.1 p.2)) ++ stStr st'
              go plan' pos' st' (out ++ [tok]) v
            | (st', _, some e) =>
              -- refused batch: the durable state must be a sequential prefix state of this batch
              let first := (batch.headD default).index
              let last := (batch.getLast?.getD default).index
              let implTok := impl.getD out.length ""
              let prefixes : List (St String) :=
                (List.range (batch.length + 1)).filterMap (fun j =>
                  let (s, _, e') := seqRun cfg deltaHS one st (batch.take j)
                  if e'.isNone then some s else none)
              let (stAfter, v') :=
                match parseState implTok with
                | some (_, a, d) =>
                  if prefixes.any (fun s => s.applied = a ∧ s.kv = d) then (({ kv := d, applied := a } : St String), v)
                  else (st', if v == "ok" then "viol:refused-batch-side-effect" else v)
                | none => (st', v)
              let tok := s!"B{first}-{last}:{errStr e}{stStr stAfter}"
              let rest := batch.filter (fun c => c.index > stAfter.applied)
              let (st'', ts) := singles stAfter rest
              go plan' pos' st'' (out ++ [tok] ++ ts) v'
  go plan 0 st0 ["I" ++ stStr st0] "ok"

def classify (m i : List String) : String :=
  let rec go : List String → List String → String
    | [], [] => "ok"
    | a :: as, b :: bs =>
      if a == b then go as bs
      else if a.startsWith "S" ∨ a.startsWith "X" then "viol:snapshot-restore-differs"
      else if a.startsWith "R" then "viol:restart-differs"
      else if a.startsWith "I" then "viol:fresh-store-differs"
      else "viol:batch-not-transparent"
    | _, _ => "viol:batch-not-transparent"
  go m i

/-- the known way to write into a hash slot the slot does not own: an ApplyDelta whose
    original command is a CreateChannelRuntimeMeta batch (type 59, which has no
    per-hash-slot filter) carrying an item of another hash slot -/
def deltaCmd59Foreign (c : Cmd) : Bool :=
  isApplyDelta c.data &&
  (match deltaHS c.data, header c.data with
   | .ok hs, .ok (_, body) =>
     (match walkTLV body with
      | .ok fs =>
        fs.any (fun f => f.1 = 4 &&
          (match header f.2 with
           | .ok (59, inner) =>
             (match walkTLV inner with
              | .ok items => items.any (fun it =>
                  match it.2 with
                  | a :: b :: _ => a.toNat * 256 + b.toNat ≠ hs
                  | _ => false)
              | .error _ => false)
           | _ => false))
      | .error _ => false)
   | _, _ => false)

/-- an ApplyDelta naming a hash slot that is neither owned (1-3) nor registered as incoming (4):
    `resolveHashSlot` accepts it (no ownership / incoming check on the delta path) -/
def deltaUnregistered (c : Cmd) : Bool :=
  isApplyDelta c.data &&
  (match deltaHS c.data with
   | .ok hs => !([1, 2, 3, 4] : List Nat).contains hs
   | .error _ => false)

/-- the trailing `U=<index|->` token: did the run write into the unowned hash slot? -/
def foreignVerdict (cmds : List Cmd) (toks : List String) : List String × Option String :=
  match toks.getLast? with
  | some u =>
    if u.startsWith "U=" then
      let body := toks.dropLast
      if u == "U=-" then (body, none)
      else if cmds.any deltaCmd59Foreign then (body, some "viol:unowned-write:delta-cmd59-unfiltered")
      else if cmds.any deltaUnregistered then (body, some "viol:unowned-write:delta-to-unregistered-hash-slot")
      else (body, some "viol:unowned-write")
    else (toks, some "viol:unparseable-output")
  | none => (toks, some "viol:unparseable-output")

/-- the model's abstraction of a command for the fence overlay (WK.C13.FCmd) -/
def toFCmd (c : Cmd) : FCmd :=
  { kind := if cmdType c.data == some 21 then .fence else if cmdType c.data == some 22 then .ack
            else if cmdType c.data == some 23 then .cleanup else .normal,
    hs := c.hashSlot }

/-- KNOWN FINDING pattern: inside ONE successful batch a CleanupMigrationOutbox (type 23)
    is followed by a command of the same hash slot that the implementation answers
    `fenced` although one at a time (after the cleanup removed the migration state) it is
    not fenced: `applyMigrationOutboxCleanup` deletes the entry from the batch's pending
    map instead of recording the deletion, so `isHashSlotFenced` falls back to the
    COMMITTED (pre-batch) state. -/
def staleFencePattern (tab : List Tab) (cmds : List Cmd) (toks : List String) : Bool :=
  toks.any (fun tok =>
    match tok.splitOn "@" with
    | [pre, _] =>
      let pairs := (pre.splitOn ",").filterMap (fun p =>
        match p.splitOn ":" with
        | [i, r] => i.toNat?.map (fun i => (i, r))
        | _ => none)
      -- the batch must be one the model's exception covers (c13_fence_overlay_transparent does not apply)
      cleanupThenSameSlot (pairs.filterMap (fun p => (cmds.find? (fun c => c.index = p.1)).map toFCmd)) &&
      pairs.length ≥ 2 &&
      (List.range pairs.length).any (fun j =>
        let pj := pairs.getD j (0, "")
        pj.2 == "fenced" &&
        ((tab.find? (fun t => t.index = pj.1)).map (·.tok)) ≠ some "fenced" &&
        (List.range j).any (fun i =>
          let pi := pairs.getD i (0, "")
          pi.2 == "ok" &&
          (match cmds.find? (fun c => c.index = pi.1), cmds.find? (fun c => c.index = pj.1) with
           | some ci, some cj => cmdType ci.data == some 23 && ci.hashSlot == cj.hashSlot
           | _, _ => false)))
    | _ => false)

def c13Step (st : DSt) (op impl : String) : DSt × String × String :=
  match fields op with
  | ["c", i, s, h, d, _] =>
    match i.toNat?, s.toNat?, h.toNat?, hexDecode d with
    | some i, some s, some h, some d =>
      ({ st with cmds := st.cmds ++ [{ slot := s, hashSlot := h, index := i, data := d }] }, "ok", "ok")
    | _, _, _, _ => (st, "bad-op", "ok")
  | ["run", plan] =>
    let (toks, fv) := foreignVerdict st.cmds (fields impl)
    let utok := ((fields impl).getLast?).getD ""
    if st.foreignSeen then (st, "-", fv.getD "ok") else
    match st.table, st.init with
    | some tab, some (a0, d0) =>
      match fv with
      | some v => ({ st with foreignSeen := true }, "-", v)
      | none =>
        let (m, v) := predict tab st.cmds (plan.splitOn ",") { kv := d0, applied := a0 } toks
        let v := if v ≠ "ok" then v else classify m toks
        if v ≠ "ok" ∧ staleFencePattern tab st.cmds toks then
          ({ st with foreignSeen := true }, "-", "viol:batch-not-transparent:stale-fence-after-outbox-cleanup")
        else (st, " ".intercalate (m ++ [utok]), v)
    | _, _ =>
      let (init, tab, v) := judgeFirst st.cmds toks
      match fv with
      | some fvv => ({ st with init := init, table := some tab, foreignSeen := true }, "-", if v ≠ "ok" then v else fvv)
      | none => ({ st with init := init, table := some tab }, "-", v)
  | _ => (st, "bad-op", "ok")

def main : IO Unit := Drv.main { init := ({} : DSt), step := c13Step }

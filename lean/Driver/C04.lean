import WK.Spec.C04
open WK WK.Repl
/-
  C04 driver: model output (compared with the implementation) + the C04 judge on the
  implementation's observation.  ops/output: see harness/C04/repl_core.go.
-/
def main : IO Unit := Drv.main { init := ({} : DS), step := replStep WK.C04.judge }

import WK.Spec.C04
import WK.Gen.C04
open WK WK.Repl
/-
  C04 driver: model output (compared with the implementation) + the C04 judge on the
  implementation's observation.  ops/output: see harness/C04/repl_core.go.
  Extra op `vmeta se sle sl km im me mle ml minisr isrlen`: the real
  ChannelState.ValidateMeta against its regenerated translation WK.Gen.C04.validateMeta
  (the definition c04_machine_meta is about); judge: a regression must never be accepted.
-/
def c04Step (st : DS) (op impl : String) : DS × String × String :=
  match fields op with
  | "vmeta" :: args =>
    (match args.mapM natTok with
     | some [se, sle, sl, km, im, me, mle, ml, mi, il] =>
       if km > 1 ∨ im > 1 then (st, "bad-op", "ok") else
       let out := WK.Gen.C04.validateMeta ⟨se, sle, sl⟩ ⟨km == 1, im == 1, me, mle, ml, (mi : Int), il⟩
       let regress := me < se ∨ (me = se ∧ mle < sle) ∨ (me = se ∧ mle = sle ∧ ml ≠ sl)
       (st, out, if impl == "ok" ∧ regress then "viol:meta-regression-accepted" else "ok")
     | _ => (st, "bad-op", "ok"))
  | _ => replStep WK.C04.judge st op impl

def main : IO Unit := Drv.main { init := ({} : DS), step := c04Step }

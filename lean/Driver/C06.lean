import WK.Prelude.Drv
import WK.Spec.C06
import WK.Model.C06_Reactor
/-
  C06 driver.  ops (see harness/C06/c06.go):
    init <local> <leo> <hw> <ckpt>
    meta <key> <id> <epoch> <lepoch> <leader> <replicas> <isr> <minisr> <status>
    prop <batchOp> <op:mode:nrec;...|->        prop1 <op> <mode> <nrec>
    stored <fence> <op|cur> <base|n> <last|n> <err>
    qc <fence> <op|cur> <first|n> <last|n|f> <hw|n> <err>
    ack <cur|k,e,le> <follower> <match>       sack <cur|k,e,le> <follower> <match|leo> <lv> <av>
    pack <follower> <ackOffset>               cancel <op>          abort <op|cur>
    install <fence> <op|pend> <auth 0|1|2> <leo> <hw> <err>      (handleQuorumInstallResult)
    ckres <fence> <withResult 0|1> <value> <err>                 (handleStoreCheckpointResult)
      values: number, or l|h|c|m (LEO, HW, CheckpointHW, max HW seen in this fence) with optional +K / -K
  output line:  e=<err> r=<replies> t=<task> s=<signals> <state>
  The model output must equal the implementation's line; the verdict is the
  property judged on the IMPLEMENTATION's line (and its previous line).
-/
open WK WK.C06

namespace C06Drv

def csvNat (xs : List Nat) : String :=
  if xs.isEmpty then "-" else ",".intercalate (xs.map toString)

def errName : Err → String
  | .ok => "ok" | .stale => "stale" | .invalid => "invalid" | .notfound => "notfound"
  | .notleader => "notleader" | .notready => "notready" | .conflict => "conflict" | .other => "other"

def errOfCode : Nat → Err
  | 0 => .ok | 1 => .stale | 2 => .conflict | 3 => .other | _ => .notleader

def insertBy {α : Type} (k : α → Nat) (x : α) : List α → List α
  | [] => [x]
  | y :: ys => if k x ≤ k y then x :: y :: ys else y :: insertBy k x ys

def sortBy {α : Type} (k : α → Nat) (l : List α) : List α := l.foldr (insertBy k) []

def renderState (s : State) : String :=
  let cr := if s.commitReady then "1" else "0"
  let pr := (sortBy (fun e : Nat × Nat => e.1) s.progress).map (fun e => s!"{e.1}:{e.2}")
  let pw := (sortBy (fun w : Waiter => w.op) s.pending).map
    (fun w => s!"{w.op}:{w.target}:{w.mode}:{w.recs.length}")
  let infl := match s.inflight with
    | none => "-"
    | some i =>
      let pairs := (List.range i.ops.length).map (fun (k : Nat) =>
        let c : String := match (i.counts[k]? : Option Nat) with
          | some c => toString c
          | none => "-1"
        s!"{i.ops[k]?.getD 0}/{c}")
      let ps := if pairs.isEmpty then "-" else ",".intercalate pairs
      s!"{i.op}:{i.recs.length}:{ps}"
  s!"w={s.leo},{s.hw},{s.ckpt} m={s.epoch},{s.lepoch},{s.leader},{s.role},{s.status},{cr},{s.minISR},{s.id}" ++
  s!" rp={csvNat s.replicas} isr={csvNat s.isr}" ++
  s!" pr={if pr.isEmpty then "-" else ",".intercalate pr}" ++
  s!" p={if pw.isEmpty then "-" else ";".intercalate pw}" ++
  s!" o={csvNat s.order} i={infl}"

def renderReplies (rs : List Reply) : String :=
  if rs.isEmpty then "-" else
  ";".intercalate (rs.map (fun r => s!"{r.op}:{errName r.err}:{csvNat r.seqs}"))

def renderDecision (d : Decision) (s : State) : String :=
  let t := match d.task with
    | none => "-"
    | some (f, n) => s!"1:{f.op}:{n}:{f.key},{f.gen},{f.epoch},{f.lepoch}"
  s!"e={errName d.err} r={renderReplies d.replies} t={t} s={d.signals} {renderState s}"

def renderPlain (e : String) (d : Decision) (s : State) : String :=
  s!"e={e} r={renderReplies d.replies} t=- s=0 {renderState s}"

-- ------------------------------------------------------------------ parsing --

def parseNats (s : String) : Option (List Nat) :=
  if s == "-" then some [] else (s.splitOn ",").mapM String.toNat?

def parseReply (s : String) : Option ObsReply :=
  match s.splitOn ":" with
  | [op, e, seqs] => do
    let o ← op.toNat?
    let q ← parseNats seqs
    pure { op := o, err := e, seqs := q }
  | _ => none

def parseWaiter (s : String) : Option ObsWaiter :=
  match (s.splitOn ":").map String.toNat? with
  | [some op, some t, some m, some n] => some { op := op, target := t, mode := m, nrec := n }
  | _ => none

def parsePair (s : String) : Option (Nat × Nat) :=
  match (s.splitOn ":").map String.toNat? with
  | [some a, some b] => some (a, b)
  | _ => none

def kv (key : String) (field : String) : Option String :=
  if field.startsWith (key ++ "=") then some ((field.drop (key.length + 1)).toString) else none

/-- parse one harness line into an observation -/
def parseObs (line : String) : Option Obs :=
  match fields line with
  | [fe, fr, _ft, _fs, fw, fm, frp, fisr, fpr, fp, fo, fi] => do
    let e ← kv "e" fe
    let r ← kv "r" fr
    let replies ← if r == "-" then some [] else (r.splitOn ";").mapM parseReply
    let w ← kv "w" fw
    let ws ← parseNats w
    let m ← kv "m" fm
    let msParts := m.splitOn ","
    let pr ← kv "pr" fpr
    let progress ← if pr == "-" then some [] else (pr.splitOn ",").mapM parsePair
    let p ← kv "p" fp
    let pending ← if p == "-" then some [] else (p.splitOn ";").mapM parseWaiter
    let o ← kv "o" fo
    let order ← parseNats o
    let i ← kv "i" fi
    let (iop, iops, inum) ←
      if i == "-" then some (none, [], 0)
      else match i.splitOn ":" with
        | [op, n, pairs] => do
          let opn ← op.toNat?
          let nn ← n.toNat?
          let ops ← if pairs == "-" then some []
                    else (pairs.splitOn ",").mapM (fun pr => ((pr.splitOn "/").headD "").toNat?)
          pure (some opn, ops, nn)
        | _ => none
    let isrS ← kv "isr" fisr
    let isr ← parseNats isrS
    let minisr ← (msParts[6]?).bind String.toInt?
    match ws, msParts.map String.toNat? with
    | [leo, hw, ck], (some ep :: some le :: some ld :: some role :: _) =>
      pure { isr := isr, minISR := minisr, err := e, replies := replies, leo := leo, hw := hw, ckpt := ck, epoch := ep, lepoch := le,
             leader := ld, role := role, progress := progress, pending := pending, order := order,
             inflightOp := iop, inflightOps := iops, inflightN := inum,
             stateText := " ".intercalate [fw, fm, frp, fisr, fpr, fp, fo, fi] }
    | _, _ => none
  | _ => none

def parseFence3 (s : State) (tok : String) : Option (Nat × Nat × Nat) :=
  if tok == "cur" then some (s.key, s.epoch, s.lepoch) else
  match (tok.splitOn ",").map String.toNat? with
  | [some k, some e, some le] => some (k, e, le)
  | _ => none

def parseFence (s : State) (tok opTok : String) : Option Fence := do
  let (k, g, e, le) ←
    if tok == "cur" then some (s.key, s.gen, s.epoch, s.lepoch) else
    match (tok.splitOn ",").map String.toNat? with
    | [some k, some g, some e, some le] => some (k, g, e, le)
    | _ => none
  let op ←
    if opTok == "cur" then some (match s.inflight with | some i => i.op | none => 0)
    else opTok.toNat?
  pure { key := k, gen := g, epoch := e, lepoch := le, op := op }

def inflightCount (s : State) : Nat :=
  match s.inflight with
  | some i => i.recs.length
  | none => 0

def parseWaiterCmd (s : String) : Option WaiterCmd :=
  match (s.splitOn ":").map String.toNat? with
  | [some op, some m, some n] => if m > 255 || n > 64 then none else some { op := op, mode := m, nrec := n }
  | _ => none

/-- what an op line denotes, given the model state for the relative tokens -/
inductive Parsed where
  | bad
  | init (localNode leo hw ckpt : Nat)
  | ev (e : Event)
  | plainEv (e : Event)      -- ack family / cancel / abort: printed with `renderPlain`
  | rev (e : REvent)         -- reactor-level watermark writers

/-- `l` `h` `c` `m` with optional +K / -K, or a number -/
def parseVal (s : State) (maxHW : Nat) (tok : String) : Option Nat :=
  match tok.toList with
  | [] => none
  | c :: rest =>
    let base? : Option Nat :=
      if c == 'l' then some s.leo else if c == 'h' then some s.hw
      else if c == 'c' then some s.ckpt else if c == 'm' then some maxHW else none
    match base? with
    | none => tok.toNat?
    | some b =>
      match rest with
      | [] => some b
      | sg :: ds =>
        match (String.ofList ds).toNat? with
        | none => none
        | some k => if sg == '+' then some (b + k) else if sg == '-' then some (b - k) else none

def parseOp (s : State) (maxHW : Nat) (op : String) : Parsed :=
  match fields op with
  | ["install", f, o, a, leo, hw, e] =>
    if o == "cur" then .bad else
    match parseFence s f (if o == "pend" then toString installOp else o), a.toNat?, parseVal s maxHW leo,
          parseVal s maxHW hw, e.toNat? with
    | some f, some a, some leo, some hw, some e =>
      if a > 2 then .bad else .rev (.install f a leo hw (errOfCode e))
    | _, _, _, _, _ => .bad
  | ["ckres", f, w, v, e] =>
    match parseFence s f "77", w.toNat?, parseVal s maxHW v, e.toNat? with
    | some f, some w, some v, some e =>
      if w > 1 then .bad else .rev (.ckptResult f (w == 1) v (errOfCode e))
    | _, _, _, _ => .bad
  | ["init", a, b, c, d] =>
    match a.toNat?, b.toNat?, c.toNat?, d.toNat? with
    | some a, some b, some c, some d => .init a b c d
    | _, _, _, _ => .bad
  | ["meta", k, id, e, le, ld, rp, isr, mi, st] =>
    match k.toNat?, id.toNat?, e.toNat?, le.toNat?, ld.toNat?, parseNats rp, parseNats isr, mi.toInt?, st.toNat? with
    | some k, some id, some e, some le, some ld, some rp, some isr, some mi, some st =>
      if st > 255 then .bad else
      let m : Meta := ⟨k, id, e, le, ld, rp, isr, mi, st⟩
      .ev (.setMeta m)
    | _, _, _, _, _, _, _, _, _ => .bad
  | ["prop1", o, m, n] =>
    match o.toNat?, m.toNat?, n.toNat? with
    | some o, some m, some n =>
      if m > 255 || n > 64 then .bad else .ev (.propose o [{ op := o, mode := m, nrec := n }])
    | _, _, _ => .bad
  | ["prop", b, ws] =>
    match b.toNat?, (if ws == "-" then some [] else (ws.splitOn ";").mapM parseWaiterCmd) with
    | some b, some ws => .ev (.propose b ws)
    | _, _ => .bad
  | ["stored", f, o, base, last, e] =>
    match parseFence s f o, e.toNat? with
    | some f, some e =>
      let base? := if base == "n" then some (s.leo + 1) else base.toNat?
      let last? := if last == "n" then some (s.leo + inflightCount s) else last.toNat?
      match base?, last? with
      | some b, some l => .ev (.stored f b l (errOfCode e))
      | _, _ => .bad
    | _, _ => .bad
  | ["qc", f, o, first, last, hw, e] =>
    match parseFence s f o, e.toNat? with
    | some f, some e =>
      match (if first == "n" then some (s.leo + 1) else first.toNat?) with
      | none => .bad
      | some fst =>
        let last? := if last == "n" then some (s.leo + inflightCount s)
                     else if last == "f" then some (fst + inflightCount s - 1)
                     else last.toNat?
        match last? with
        | none => .bad
        | some l =>
          match (if hw == "n" then some l else hw.toNat?) with
          | none => .bad
          | some h => .ev (.quorum f fst l h (errOfCode e))
    | _, _ => .bad
  | ["ack", f, fo, m] =>
    match parseFence3 s f, fo.toNat?, m.toNat? with
    | some (k, e, le), some fo, some m => .plainEv (.ack k e le fo m)
    | _, _, _ => .bad
  | ["sack", f, fo, m, lv, av] =>
    match parseFence3 s f, fo.toNat?, (if m == "leo" then some s.leo else m.toNat?), lv.toNat?, av.toNat? with
    | some (k, e, le), some fo, some m, some lv, some av => .plainEv (.stoppedAck k e le fo m lv av)
    | _, _, _, _, _ => .bad
  | ["pack", fo, off] =>
    match fo.toNat?, off.toNat? with
    | some fo, some off => .plainEv (.pullAck fo off)
    | _, _ => .bad
  | ["cancel", o] =>
    match o.toNat? with
    | some o => .plainEv (.cancel o)
    | none => .bad
  | ["abort", o] =>
    match (if o == "cur" then some (match s.inflight with | some i => i.op | none => 0) else o.toNat?) with
    | some o => .plainEv (.abort o)
    | none => .bad
  | _ => .bad

-- -------------------------------------------------------------------- judge --

/-- the property evaluated on the implementation's line `cur` (previous line `prev`).
    The state predicates are judged as PRESERVED (prev good ⇒ cur good), so a break is
    reported once, at the event that causes it.  `lowered` = an accepted quorum install
    has lowered HW earlier in the current metadata fence; `maxHW` = the highest HW the
    implementation showed in this fence. -/
def judge (ev : Option REvent) (prev cur : Obs) (lowered : Bool) (maxHW : Nat) : String :=
  -- preservation from GOOD states (the shape of the theorems): once a state predicate is
  -- broken it has been reported at the event that broke it, and consequences of an
  -- already broken state (e.g. AdvanceHW over a match that an install left above the LEO)
  -- are not reported again
  let good := judgeWatermarks prev && judgeMatches prev && judgeConsistent prev
  let wmBad := good && !judgeWatermarks cur
  let mBad := good && !judgeMatches cur
  let hwBad := !judgeHWMono prev cur
  let unchanged := cur.stateText == prev.stateText && cur.replies.isEmpty
  let fenceNow (f : Fence) : Bool :=
    f.key == 1 && f.gen == 7 && f.epoch == prev.epoch && f.lepoch == prev.lepoch
  -- the two reactor-level writers first: their known way of breaking the property gets
  -- its own narrow class, everything else falls through to the general verdicts
  let special : Option String :=
    match ev with
    | some (.install f _ leo hw _) =>
      if !(fenceNow f && f.op == installOp) then
        (if !(unchanged && cur.err == "ignored") then some "viol:stale-install-had-effect" else none)
      else if cur.err == "ok" && cur.leo == leo && cur.hw == hw then
        (if wmBad && cur.hw ≤ cur.leo && cur.ckpt == prev.ckpt && hw < prev.ckpt then
           some "viol:install-regresses:checkpoint-above-hw"
         else if hwBad && hw < prev.hw then some "viol:install-regresses:hw-decreased"
         else if mBad && leo < prev.leo then some "viol:install-regresses:match-exceeds-leo"
         else none)
      else none
    | some (.ckptResult f _ v _) =>
      if !fenceNow f then
        (if !unchanged then some "viol:stale-checkpoint-had-effect" else none)
      else if wmBad && lowered && cur.hw == prev.hw && cur.leo == prev.leo && cur.ckpt == v && v ≤ maxHW then
        some "viol:checkpoint-above-hw:checkpoint-result-after-install-lowered-hw"
      else none
    | _ => none
  match special with
  | some v => v
  | none =>
  if wmBad then "viol:watermark-order" else
  if mBad then "viol:match-exceeds-leo" else
  if hwBad then "viol:hw-decreased-within-fence" else
  if good && !judgeConsistent cur then "viol:pending-order-inconsistent" else
  let exempt := match ev with
    | some (.machine (.quorum ..)) => true
    | some (.install ..) => true
    | _ => false
  if !judgeHWQuorum exempt prev cur then "viol:hw-advanced-beyond-quorum-match" else
  let rv := judgeReplies prev cur
  if rv != "ok" then rv else
  match ev with
  | some (.machine (.stored f _ _ _)) | some (.machine (.quorum f _ _ _ _)) =>
    let fenceOk := fenceNow f && prev.inflightOp == some f.op
    if !fenceOk && !unchanged then "viol:stale-fence-result-had-effect" else "ok"
  | some (.machine (.setMeta m)) =>
    let mustReject := m.epoch < prev.epoch || (m.epoch == prev.epoch && m.lepoch < prev.lepoch) ||
      (m.epoch == prev.epoch && m.lepoch == prev.lepoch && m.leader != prev.leader)
    if mustReject && !(cur.err == "stale" && unchanged) then "viol:regressing-meta-not-rejected" else "ok"
  | some (.machine (.ack _ _ _ _ m)) | some (.machine (.pullAck _ m)) =>
    if m > prev.leo && !(unchanged && (cur.err == "stale")) then "viol:ack-beyond-leo-accepted" else "ok"
  | some (.machine (.stoppedAck _ _ _ _ m _ _)) =>
    if m != prev.leo && !(unchanged && (cur.err == "stale")) then "viol:stopped-ack-not-at-leo-accepted" else "ok"
  | _ => "ok"

/-- the part of the implementation's previous observation that the relative op tokens
    (`cur`, `n`, `f`, `leo`) refer to, as a model state: the judge reads every op the way
    the IMPLEMENTATION saw it, never through the model's state -/
def stateOfObs (o : Obs) : State :=
  { epoch := o.epoch, lepoch := o.lepoch, leader := o.leader, role := o.role, leo := o.leo, hw := o.hw,
    ckpt := o.ckpt,
    inflight := o.inflightOp.map (fun op => { op := op, recs := List.replicate o.inflightN 0,
                                               ops := o.inflightOps, counts := [] }) }

def eventOf : Parsed → Option REvent
  | .ev e => some (.machine e)
  | .plainEv e => some (.machine e)
  | .rev e => some e
  | _ => none

structure DState where
  s : State := {}
  fresh : Bool := true
  prev : Option Obs := none
  -- model side: highest HW since the fence last changed (what the runner tracks for `m`)
  mMax : Nat := 0
  mE : Nat := 0
  mL : Nat := 0
  -- judge side: the same from the implementation's lines, and "an install lowered HW in this fence"
  jMax : Nat := 0
  jE : Nat := 0
  jL : Nat := 0
  jLowered : Bool := false

def obsOfModel (s : State) : Obs :=
  (parseObs ("e=ok r=- t=- s=0 " ++ renderState s)).getD {}

def c06Step (d : DState) (op impl : String) : DState × String × String :=
  let prev := d.prev.getD (obsOfModel d.s)
  -- bookkeeping shared by every outcome: model-side and judge-side fence maxima
  let track (d0 : DState) (s' : State) (cur? : Option Obs) (ev : Option REvent) : DState :=
    let (mMax, mE, mL) :=
      if s'.epoch != d0.mE || s'.lepoch != d0.mL then (s'.hw, s'.epoch, s'.lepoch)
      else (max d0.mMax s'.hw, d0.mE, d0.mL)
    match cur? with
    | none => { d0 with s := s', fresh := false, mMax := mMax, mE := mE, mL := mL }
    | some cur =>
      let fenceChanged := cur.epoch != d0.jE || cur.lepoch != d0.jL
      let loweredNow := match ev with
        | some (.install ..) => cur.hw < prev.hw && !fenceChanged
        | _ => false
      { d0 with s := s', fresh := false, prev := some cur, mMax := mMax, mE := mE, mL := mL,
                jMax := if fenceChanged then cur.hw else max d0.jMax cur.hw,
                jE := cur.epoch, jL := cur.lepoch,
                jLowered := if fenceChanged then false else (d0.jLowered || loweredNow) }
  let finish (s' : State) (m : String) : DState × String × String :=
    match parseObs impl with
    | some cur =>
      let ev := eventOf (parseOp (stateOfObs prev) d.jMax op)
      (track d s' (some cur) ev, m, judge ev prev cur d.jLowered d.jMax)
    | none => (track { d with prev := some (obsOfModel s') } s' none none, m, "viol:unparseable-output")
  match parseOp d.s d.mMax op with
  | .bad => (track d d.s none none, "bad-op", "ok")
  | .init l leo hw ck =>
    if !d.fresh then finish d.s (renderPlain "late-init" {} d.s)
    else if ck > hw || hw > leo then finish d.s (renderPlain "bad-init" {} d.s)
    else
      let s' := initState l leo hw ck
      -- the first observation has no predecessor: judge it against itself
      match parseObs impl with
      | some cur => (track { d with prev := some cur } s' (some cur) none, renderPlain "ok" {} s',
                     if judgeWatermarks cur && judgeMatches cur && judgeConsistent cur then "ok"
                     else "viol:bad-initial-state")
      | none => (track d s' none none, renderPlain "ok" {} s', "viol:unparseable-output")
  | .ev e =>
    let r := step d.s e
    finish r.1 (renderDecision r.2 r.1)
  | .plainEv e =>
    let r := step d.s e
    let tag := match e with
      | .cancel _ => if r.2.cancelled then "true" else "false"
      | _ => errName r.2.err
    finish r.1 (renderPlain tag r.2 r.1)
  | .rev e =>
    let r := rstep d.s e
    let tag := match e with
      | .install .. => if r.2.cancelled then "ignored" else errName r.2.err
      | _ => "-"
    finish r.1 (renderPlain tag r.2 r.1)

end C06Drv

def main : IO Unit := Drv.main { init := ({} : C06Drv.DState), step := C06Drv.c06Step }

import WK.Prelude.Drv
import WK.Spec.C06
/-
  C06 driver.  ops (see harness/C06/c06.go):
    init <local> <leo> <hw> <ckpt>
    meta <key> <id> <epoch> <lepoch> <leader> <replicas> <isr> <minisr> <status>
    prop <batchOp> <op:mode:nrec;...|->        prop1 <op> <mode> <nrec>
    stored <fence> <op|cur> <base|n> <last|n> <err>
    qc <fence> <op|cur> <first|n> <last|n|f> <hw|n> <err>
    ack <cur|k,e,le> <follower> <match>       sack <cur|k,e,le> <follower> <match|leo> <lv> <av>
    pack <follower> <ackOffset>               cancel <op>          abort <op|cur>
  output line:  e=<err> r=<replies> t=<task> s=<signals> <state>
  The model output must equal the implementation's line; the verdict is the
  property judged on the IMPLEMENTATION's line (and its previous line).
-/
open WK WK.C06

namespace C06Drv

def csvNat (xs : List Nat) : String :=
  if xs.isEmpty then "-" else ",".intercalate (xs.map toString)

def errName : Err → String
  | .ok => "ok" | .stale => "stale" | .invalid => "invalid" | .notfound => "notfound"
  | .notleader => "notleader" | .notready => "notready" | .conflict => "conflict" | .other => "other"

def errOfCode : Nat → Err
  | 0 => .ok | 1 => .stale | 2 => .conflict | 3 => .other | _ => .notleader

def insertBy {α : Type} (k : α → Nat) (x : α) : List α → List α
  | [] => [x]
  | y :: ys => if k x ≤ k y then x :: y :: ys else y :: insertBy k x ys

def sortBy {α : Type} (k : α → Nat) (l : List α) : List α := l.foldr (insertBy k) []

def renderState (s : State) : String :=
  let cr := if s.commitReady then "1" else "0"
  let pr := (sortBy (fun e : Nat × Nat => e.1) s.progress).map (fun e => s!"{e.1}:{e.2}")
  let pw := (sortBy (fun w : Waiter => w.op) s.pending).map
    (fun w => s!"{w.op}:{w.target}:{w.mode}:{w.recs.length}")
  let infl := match s.inflight with
    | none => "-"
    | some i =>
      let pairs := (List.range i.ops.length).map (fun (k : Nat) =>
        let c : String := match (i.counts[k]? : Option Nat) with
          | some c => toString c
          | none => "-1"
        s!"{i.ops[k]?.getD 0}/{c}")
      let ps := if pairs.isEmpty then "-" else ",".intercalate pairs
      s!"{i.op}:{i.recs.length}:{ps}"
  s!"w={s.leo},{s.hw},{s.ckpt} m={s.epoch},{s.lepoch},{s.leader},{s.role},{s.status},{cr},{s.minISR},{s.id}" ++
  s!" rp={csvNat s.replicas} isr={csvNat s.isr}" ++
  s!" pr={if pr.isEmpty then "-" else ",".intercalate pr}" ++
  s!" p={if pw.isEmpty then "-" else ";".intercalate pw}" ++
  s!" o={csvNat s.order} i={infl}"

def renderReplies (rs : List Reply) : String :=
  if rs.isEmpty then "-" else
  ";".intercalate (rs.map (fun r => s!"{r.op}:{errName r.err}:{csvNat r.seqs}"))

def renderDecision (d : Decision) (s : State) : String :=
  let t := match d.task with
    | none => "-"
    | some (f, n) => s!"1:{f.op}:{n}:{f.key},{f.gen},{f.epoch},{f.lepoch}"
  s!"e={errName d.err} r={renderReplies d.replies} t={t} s={d.signals} {renderState s}"

def renderPlain (e : String) (d : Decision) (s : State) : String :=
  s!"e={e} r={renderReplies d.replies} t=- s=0 {renderState s}"

-- ------------------------------------------------------------------ parsing --

def parseNats (s : String) : Option (List Nat) :=
  if s == "-" then some [] else (s.splitOn ",").mapM String.toNat?

def parseReply (s : String) : Option ObsReply :=
  match s.splitOn ":" with
  | [op, e, seqs] => do
    let o ← op.toNat?
    let q ← parseNats seqs
    pure { op := o, err := e, seqs := q }
  | _ => none

def parseWaiter (s : String) : Option ObsWaiter :=
  match (s.splitOn ":").map String.toNat? with
  | [some op, some t, some m, some n] => some { op := op, target := t, mode := m, nrec := n }
  | _ => none

def parsePair (s : String) : Option (Nat × Nat) :=
  match (s.splitOn ":").map String.toNat? with
  | [some a, some b] => some (a, b)
  | _ => none

def kv (key : String) (field : String) : Option String :=
  if field.startsWith (key ++ "=") then some ((field.drop (key.length + 1)).toString) else none

/-- parse one harness line into an observation -/
def parseObs (line : String) : Option Obs :=
  match fields line with
  | [fe, fr, _ft, _fs, fw, fm, frp, fisr, fpr, fp, fo, fi] => do
    let e ← kv "e" fe
    let r ← kv "r" fr
    let replies ← if r == "-" then some [] else (r.splitOn ";").mapM parseReply
    let w ← kv "w" fw
    let ws ← parseNats w
    let m ← kv "m" fm
    let msParts := m.splitOn ","
    let pr ← kv "pr" fpr
    let progress ← if pr == "-" then some [] else (pr.splitOn ",").mapM parsePair
    let p ← kv "p" fp
    let pending ← if p == "-" then some [] else (p.splitOn ";").mapM parseWaiter
    let o ← kv "o" fo
    let order ← parseNats o
    let i ← kv "i" fi
    let (iop, iops, inum) ←
      if i == "-" then some (none, [], 0)
      else match i.splitOn ":" with
        | [op, n, pairs] => do
          let opn ← op.toNat?
          let nn ← n.toNat?
          let ops ← if pairs == "-" then some []
                    else (pairs.splitOn ",").mapM (fun pr => ((pr.splitOn "/").headD "").toNat?)
          pure (some opn, ops, nn)
        | _ => none
    let isrS ← kv "isr" fisr
    let isr ← parseNats isrS
    let minisr ← (msParts[6]?).bind String.toInt?
    match ws, msParts.map String.toNat? with
    | [leo, hw, ck], (some ep :: some le :: some ld :: some role :: _) =>
      pure { isr := isr, minISR := minisr, err := e, replies := replies, leo := leo, hw := hw, ckpt := ck, epoch := ep, lepoch := le,
             leader := ld, role := role, progress := progress, pending := pending, order := order,
             inflightOp := iop, inflightOps := iops, inflightN := inum,
             stateText := " ".intercalate [fw, fm, frp, fisr, fpr, fp, fo, fi] }
    | _, _ => none
  | _ => none

def parseFence3 (s : State) (tok : String) : Option (Nat × Nat × Nat) :=
  if tok == "cur" then some (s.key, s.epoch, s.lepoch) else
  match (tok.splitOn ",").map String.toNat? with
  | [some k, some e, some le] => some (k, e, le)
  | _ => none

def parseFence (s : State) (tok opTok : String) : Option Fence := do
  let (k, g, e, le) ←
    if tok == "cur" then some (s.key, s.gen, s.epoch, s.lepoch) else
    match (tok.splitOn ",").map String.toNat? with
    | [some k, some g, some e, some le] => some (k, g, e, le)
    | _ => none
  let op ←
    if opTok == "cur" then some (match s.inflight with | some i => i.op | none => 0)
    else opTok.toNat?
  pure { key := k, gen := g, epoch := e, lepoch := le, op := op }

def inflightCount (s : State) : Nat :=
  match s.inflight with
  | some i => i.recs.length
  | none => 0

def parseWaiterCmd (s : String) : Option WaiterCmd :=
  match (s.splitOn ":").map String.toNat? with
  | [some op, some m, some n] => if m > 255 || n > 64 then none else some { op := op, mode := m, nrec := n }
  | _ => none

/-- what an op line denotes, given the model state for the relative tokens -/
inductive Parsed where
  | bad
  | init (localNode leo hw ckpt : Nat)
  | ev (e : Event)
  | plainEv (e : Event)      -- ack family / cancel / abort: printed with `renderPlain`

def parseOp (s : State) (op : String) : Parsed :=
  match fields op with
  | ["init", a, b, c, d] =>
    match a.toNat?, b.toNat?, c.toNat?, d.toNat? with
    | some a, some b, some c, some d => .init a b c d
    | _, _, _, _ => .bad
  | ["meta", k, id, e, le, ld, rp, isr, mi, st] =>
    match k.toNat?, id.toNat?, e.toNat?, le.toNat?, ld.toNat?, parseNats rp, parseNats isr, mi.toInt?, st.toNat? with
    | some k, some id, some e, some le, some ld, some rp, some isr, some mi, some st =>
      if st > 255 then .bad else
      let m : Meta := ⟨k, id, e, le, ld, rp, isr, mi, st⟩
      .ev (.setMeta m)
    | _, _, _, _, _, _, _, _, _ => .bad
  | ["prop1", o, m, n] =>
    match o.toNat?, m.toNat?, n.toNat? with
    | some o, some m, some n =>
      if m > 255 || n > 64 then .bad else .ev (.propose o [{ op := o, mode := m, nrec := n }])
    | _, _, _ => .bad
  | ["prop", b, ws] =>
    match b.toNat?, (if ws == "-" then some [] else (ws.splitOn ";").mapM parseWaiterCmd) with
    | some b, some ws => .ev (.propose b ws)
    | _, _ => .bad
  | ["stored", f, o, base, last, e] =>
    match parseFence s f o, e.toNat? with
    | some f, some e =>
      let base? := if base == "n" then some (s.leo + 1) else base.toNat?
      let last? := if last == "n" then some (s.leo + inflightCount s) else last.toNat?
      match base?, last? with
      | some b, some l => .ev (.stored f b l (errOfCode e))
      | _, _ => .bad
    | _, _ => .bad
  | ["qc", f, o, first, last, hw, e] =>
    match parseFence s f o, e.toNat? with
    | some f, some e =>
      match (if first == "n" then some (s.leo + 1) else first.toNat?) with
      | none => .bad
      | some fst =>
        let last? := if last == "n" then some (s.leo + inflightCount s)
                     else if last == "f" then some (fst + inflightCount s - 1)
                     else last.toNat?
        match last? with
        | none => .bad
        | some l =>
          match (if hw == "n" then some l else hw.toNat?) with
          | none => .bad
          | some h => .ev (.quorum f fst l h (errOfCode e))
    | _, _ => .bad
  | ["ack", f, fo, m] =>
    match parseFence3 s f, fo.toNat?, m.toNat? with
    | some (k, e, le), some fo, some m => .plainEv (.ack k e le fo m)
    | _, _, _ => .bad
  | ["sack", f, fo, m, lv, av] =>
    match parseFence3 s f, fo.toNat?, (if m == "leo" then some s.leo else m.toNat?), lv.toNat?, av.toNat? with
    | some (k, e, le), some fo, some m, some lv, some av => .plainEv (.stoppedAck k e le fo m lv av)
    | _, _, _, _, _ => .bad
  | ["pack", fo, off] =>
    match fo.toNat?, off.toNat? with
    | some fo, some off => .plainEv (.pullAck fo off)
    | _, _ => .bad
  | ["cancel", o] =>
    match o.toNat? with
    | some o => .plainEv (.cancel o)
    | none => .bad
  | ["abort", o] =>
    match (if o == "cur" then some (match s.inflight with | some i => i.op | none => 0) else o.toNat?) with
    | some o => .plainEv (.abort o)
    | none => .bad
  | _ => .bad

-- -------------------------------------------------------------------- judge --

/-- the property evaluated on the implementation's line `cur` (previous line `prev`) -/
def judge (ev : Option Event) (prev cur : Obs) : String :=
  if !judgeWatermarks cur then "viol:watermark-order" else
  if !judgeMatches cur then "viol:match-exceeds-leo" else
  if !judgeHWMono prev cur then "viol:hw-decreased-within-fence" else
  if !judgeConsistent cur then "viol:pending-order-inconsistent" else
  let isQC := match ev with
    | some (.quorum ..) => true
    | _ => false
  if !judgeHWQuorum isQC prev cur then "viol:hw-advanced-beyond-quorum-match" else
  let rv := judgeReplies prev cur
  if rv != "ok" then rv else
  let unchanged := cur.stateText == prev.stateText && cur.replies.isEmpty
  match ev with
  | some (.stored f _ _ _) | some (.quorum f _ _ _ _) =>
    let fenceOk := f.key == 1 && f.gen == 7 && f.epoch == prev.epoch && f.lepoch == prev.lepoch &&
      prev.inflightOp == some f.op
    if !fenceOk && !unchanged then "viol:stale-fence-result-had-effect" else "ok"
  | some (.setMeta m) =>
    let mustReject := m.epoch < prev.epoch || (m.epoch == prev.epoch && m.lepoch < prev.lepoch) ||
      (m.epoch == prev.epoch && m.lepoch == prev.lepoch && m.leader != prev.leader)
    if mustReject && !(cur.err == "stale" && unchanged) then "viol:regressing-meta-not-rejected" else "ok"
  | some (.ack _ _ _ _ m) | some (.pullAck _ m) =>
    if m > prev.leo && !(unchanged && (cur.err == "stale")) then "viol:ack-beyond-leo-accepted" else "ok"
  | some (.stoppedAck _ _ _ _ m _ _) =>
    if m != prev.leo && !(unchanged && (cur.err == "stale")) then "viol:stopped-ack-not-at-leo-accepted" else "ok"
  | _ => "ok"

/-- the part of the implementation's previous observation that the relative op tokens
    (`cur`, `n`, `f`, `leo`) refer to, as a model state: the judge reads every op the way
    the IMPLEMENTATION saw it, never through the model's state -/
def stateOfObs (o : Obs) : State :=
  { epoch := o.epoch, lepoch := o.lepoch, leader := o.leader, role := o.role, leo := o.leo, hw := o.hw,
    ckpt := o.ckpt,
    inflight := o.inflightOp.map (fun op => { op := op, recs := List.replicate o.inflightN 0,
                                               ops := o.inflightOps, counts := [] }) }

def eventOf : Parsed → Option Event
  | .ev e => some e
  | .plainEv e => some e
  | _ => none

structure DState where
  s : State := {}
  fresh : Bool := true
  prev : Option Obs := none

def obsOfModel (s : State) : Obs :=
  (parseObs ("e=ok r=- t=- s=0 " ++ renderState s)).getD {}

def c06Step (d : DState) (op impl : String) : DState × String × String :=
  let prev := d.prev.getD (obsOfModel d.s)
  let finish (s' : State) (m : String) (_ : Option Event) : DState × String × String :=
    match parseObs impl with
    | some cur => ({ s := s', fresh := false, prev := some cur }, m,
                   judge (eventOf (parseOp (stateOfObs prev) op)) prev cur)
    | none => ({ s := s', fresh := false, prev := some (obsOfModel s') }, m, "viol:unparseable-output")
  match parseOp d.s op with
  | .bad => ({ d with fresh := false }, "bad-op", "ok")
  | .init l leo hw ck =>
    if !d.fresh then finish d.s (renderPlain "late-init" {} d.s) none
    else if ck > hw || hw > leo then finish d.s (renderPlain "bad-init" {} d.s) none
    else
      let s' := initState l leo hw ck
      -- the first observation has no predecessor: judge it against itself
      match parseObs impl with
      | some cur => ({ s := s', fresh := false, prev := some cur }, renderPlain "ok" {} s', judge none cur cur)
      | none => ({ s := s', fresh := false, prev := none }, renderPlain "ok" {} s', "viol:unparseable-output")
  | .ev e =>
    let r := step d.s e
    finish r.1 (renderDecision r.2 r.1) (some e)
  | .plainEv e =>
    let r := step d.s e
    let tag := match e with
      | .cancel _ => if r.2.cancelled then "true" else "false"
      | _ => errName r.2.err
    finish r.1 (renderPlain tag r.2 r.1) (some e)

end C06Drv

def main : IO Unit := Drv.main { init := ({} : C06Drv.DState), step := C06Drv.c06Step }

import WK.Prelude.Drv
import WK.Spec.C24
/-
  C24 driver.  See harness/C24/c24.go for the op grammar.
  `out`/`in`: the model predicts the decoded message / the frame exactly; any difference in a carried field is the
  property's violation (`viol:bridge:<key>`).  `det`/`doc`: determineMessageType and Decode's dispatch.
  `fuzz`: JSON text is abstract — no prediction; the judge demands a well-formed message or an error, never PANIC.
-/
open WK WK.C24

namespace C24Drv

def kv (fs : List String) : List (String × String) :=
  fs.filterMap fun f =>
    match f.splitOn "=" with
    | [k, v] => some (k, v)
    | _ => none

def look (m : List (String × String)) (k : String) : Option String := (m.find? (·.1 == k)).map (·.2)
def gs (m : List (String × String)) (k : String) : Option Bytes := (look m k).bind hexDecode
def gn (m : List (String × String)) (k : String) : Option Nat := (look m k).bind String.toNat?
def gi (m : List (String × String)) (k : String) : Option Int := (look m k).bind String.toInt?

def gflags (m : List (String × String)) : Option Flags :=
  match (look m "fl").map String.toList with
  | some [a, b, c, d, e] =>
    if [a, b, c, d, e].all (fun x => x == '0' || x == '1') then
      some { noPersist := a == '1', redDot := b == '1', syncOnce := c == '1', dup := d == '1', end_ := e == '1' }
    else none
  | _ => none

def parseOutFrame (m : List (String × String)) : Option Frame := do
  let t ← look m "t"
  let fl ← gflags m
  if t == "connack" then
    let hsv ← look m "hsv"
    let sv ← gn m "sv"; let rc ← gn m "rc"; let node ← gn m "node"; let td ← gi m "td"
    if sv ≥ 256 ∨ rc ≥ 256 ∨ node ≥ 2 ^ 64 ∨ ¬ int64 td then none else
    pure (.connack { fl, hasServerVersion := hsv == "1", serverVersion := sv, serverKey := ← gs m "skey", salt := ← gs m "salt",
                     timeDiff := td, reasonCode := rc, nodeId := node })
  else if t == "sendack" then
    let mid ← gi m "mid"; let mseq ← gn m "mseq"; let cseq ← gn m "cseq"; let rc ← gn m "rc"
    if ¬ int64 mid ∨ mseq ≥ 2 ^ 64 ∨ cseq ≥ 2 ^ 64 ∨ rc ≥ 256 then none else
    pure (.sendack { fl, messageID := mid, messageSeq := mseq, clientSeq := cseq, clientMsgNo := ← gs m "no", reasonCode := rc })
  else if t == "recv" then
    let set ← gn m "set"; let exp ← gn m "exp"; let mid ← gi m "mid"; let mseq ← gn m "mseq"; let sid ← gn m "sid"
    let sflag ← gn m "sflag"; let ts ← gi m "ts"; let ct ← gn m "ct"; let cseq ← gn m "cseq"
    if set ≥ 256 ∨ exp ≥ 2 ^ 32 ∨ ¬ int64 mid ∨ mseq ≥ 2 ^ 64 ∨ sid ≥ 2 ^ 64 ∨ sflag ≥ 256 ∨ ts < -(2 ^ 31 : Int) ∨ ts ≥ 2 ^ 31 ∨ ct ≥ 256 ∨ cseq ≥ 2 ^ 64 then none else
    pure (.recv { fl, setting := set, msgKey := ← gs m "mk", expire := exp, messageID := mid, messageSeq := mseq, clientMsgNo := ← gs m "no",
                  streamNo := ← gs m "sno", streamId := sid, streamFlag := sflag, timestamp := ts, channelID := ← gs m "ch", channelType := ct,
                  topic := ← gs m "top", fromUID := ← gs m "from", payload := ← gs m "pl", clientSeq := cseq })
  else if t == "event" then
    let ts ← gi m "ts"
    if ¬ int64 ts then none else
    pure (.event { fl, id := ← gs m "id", type := ← gs m "type", timestamp := ts, data := ← gs m "data" })
  else if t == "disconnect" then
    let rc ← gn m "rc"
    if rc ≥ 256 then none else pure (.disconnect { fl, reasonCode := rc, reason := ← gs m "reason" })
  else if t == "pong" then pure (.pong fl)
  else none

def parseInMsg (m : List (String × String)) : Option Msg := do
  let t ← look m "t"
  let rid ← gs m "rid"
  if t == "connect" then
    let ts ← gi m "ts"
    if ¬ int64 ts then none else
    pure (.connectReq rid { header := ← gflags m, version := ← gi m "ver", clientKey := ← gs m "ckey", deviceID := ← gs m "dev",
                            deviceFlag := ← gi m "dflag", clientTimestamp := ts, uid := ← gs m "uid", token := ← gs m "tok" })
  else if t == "send" then
    let exp ← gn m "exp"
    if exp ≥ 2 ^ 32 then none else
    let st ← (look m "set").map String.toList
    match st with
    | [a, b, c, d] =>
      if ![a, b, c, d].all (fun x => x == '0' || x == '1') then none else
      pure (.sendReq rid { header := ← gflags m, setting := { receipt := a == '1', signal := b == '1', stream := c == '1', topic := d == '1' },
                           msgKey := ← gs m "mk", expire := exp, clientMsgNo := ← gs m "no", streamNo := ← gs m "sno", channelID := ← gs m "ch",
                           channelType := ← gi m "ct", topic := ← gs m "top", payload := ← gs m "pl" })
    | _ => none
  else if t == "ping" then pure (.pingReq rid)
  else if t == "disconnect" then pure (.disconnectReq rid { reasonCode := ← gi m "rc", reason := ← gs m "reason" })
  else if t == "recvack" then
    let mseq ← gn m "mseq"
    if mseq ≥ 2 ^ 64 then none else
    pure (.recvAckNotif { header := ← gflags m, messageID := ← gs m "mid", messageSeq := mseq })
  else if t == "subscribe" then pure (.subscribeReq rid)
  else if t == "unsubscribe" then pure (.unsubscribeReq rid)
  else none

/-- first key on which two k=v renderings differ -/
def firstDiff (a b : String) : String :=
  let fa := fields a
  let fb := fields b
  match (List.zip fa fb).find? (fun (x, y) => x != y) with
  | some (x, _) => (x.splitOn "=").headD "?"
  | none => if fa.length != fb.length then "shape" else "none"

def stepOut (m : List (String × String)) (impl : String) : String × String :=
  match gs m "rid", parseOutFrame m with
  | some rid, some f =>
    match fromFrame rid f with
    | .error _ => ("err:fromframe", if impl == "err:fromframe" then "ok" else "viol:bridge:fromframe")
    | .ok msg =>
      match reDecode msg with
      | .error e =>
        -- only an empty reply token (no request to answer) makes a response undecodable
        let mo := s!"undecodable:{e.str} gw=1"
        (mo, if impl != mo then "viol:bridge:" ++ firstDiff impl mo else if rid != [] then "viol:undecodable-response" else "ok")
      | .ok dm =>
        let back := match toFrame dm with
          | .ok _ => "frame"
          | .error e => "err:" ++ e.str
        let mo := s!"{msgStr dm} back={back} gw=1"
        let v := if impl == mo then "ok"
          else match f with
            | .pong _ => if impl.startsWith "undecodable" then "viol:pong-response-undecodable" else "viol:bridge:" ++ firstDiff impl mo
            | _ => "viol:bridge:" ++ firstDiff impl mo
        (mo, v)
  | _, _ => ("bad-op", "ok")

def stepIn (m : List (String × String)) (impl : String) : String × String :=
  match parseInMsg m with
  | none => ("bad-op", "ok")
  | some msg =>
    match reDecode msg with
    | .error e =>
      -- a request without an id is not a request: nothing to bridge
      let mo := s!"undecodable:{e.str} gw={hexEncode "err || err".toUTF8.toList}"
      (mo, if impl == mo then "ok" else "viol:bridge:" ++ firstDiff impl mo)
    | .ok dm =>
      let mo := match toFrame dm with
        | .ok (f, id) => s!"{frameStr f} rid={hexEncode id} gw=1"
        | .error e => s!"err:{e.str} gw=1"
      (mo, if impl == mo then "ok" else "viol:bridge:" ++ firstDiff impl mo)

def parseJV (s : String) : Option JV :=
  if s == "absent" then some .absent else if s == "v2" then some (.str v20) else if s == "v1" then some (.str "1.0".toUTF8.toList)
  else if s == "num" then some .nonString else if s == "null" then some (.str []) else none

def stepDet (m : List (String × String)) (impl : String) : String × String :=
  let idRaw : Option (Option Str) := match look m "id" with
    | some "absent" => some none
    | some "empty" => some (some [])
    | some "null" => some (some "null".toUTF8.toList)
    | some "str" => some (some "\"abc\"".toUTF8.toList)
    | some "num" => some (some "7".toUTF8.toList)
    | _ => none
  match (look m "jv").bind parseJV, idRaw, look m "m", look m "r", look m "e" with
  | some jv, some idRaw, some meth, some r, some e =>
    let p : Probe := { jv, idRaw, method := if meth == "none" then [] else meth.toUTF8.toList, result := r == "1", error := e == "1" }
    let (t, err) := determine p
    let ver := match err with
      | some .field => "-"     -- version stays the default until parsed; on a parse error the default "2.0" was already assigned
      | _ => hexEncode v20
    -- Go assigns version = "2.0" before parsing, so it is "2.0" on every path
    let _ := ver
    let mo := s!"type={t.num} ver={hexEncode v20} err={match err with | none => "none" | some x => x.str}"
    -- judge: determine_total — a type 1..3 without error, or an error; never (unknown, no error)
    let v := match look (kv (fields impl)) "type", look (kv (fields impl)) "err" with
      | some ty, some er => if ty == "0" && er == "none" then "viol:unknown-type-without-error"
                            else if (ty == "1" || ty == "2") && er != "none" then "viol:typed-with-error" else "ok"
      | _, _ => "viol:unparseable-output"
    (mo, v)
  | _, _, _, _, _ => ("bad-op", "ok")

def stepDoc (m : List (String × String)) (impl : String) : String × String :=
  let id : Option IdSpec := match look m "id" with
    | some "absent" => some .absent | some "null" => some .null | some "str" => some .str | some "num" => some .num
    | some "emptystr" => some .emptystr | some "obj" => some .obj | _ => none
  let ps : Option ParamSpec := match look m "p" with
    | some "absent" => some .absent | some "null" => some .null | some "good" => some .good | some "badtype" => some .badtype
    | some "arr" => some .arr | some "str" => some .str | some "emptyobj" => some .emptyobj | _ => none
  let es : Option ErrSpec := match look m "e" with
    | some "absent" => some .absent | some "null" => some .null | some "obj" => some .obj | some "str" => some .str | _ => none
  let rs : Option Bool := match look m "r" with
    | some "absent" => some false | some "null" => some true | some "obj" => some true | _ => none
  let known := ["absent", "connect", "send", "recvack", "subscribe", "unsubscribe", "ping", "pong", "disconnect", "recv", "event", "foo", "num", "emptystr"]
  match (look m "jv").bind parseJV, id, look m "m", ps, rs, es with
  | some jv, some id, some meth, some params, some result, some error =>
    if !known.contains meth then ("bad-op", "ok") else
    let d : DocSpec := { jv, id, methodIsNumber := meth == "num", method := if meth == "absent" || meth == "num" || meth == "emptystr" then [] else meth.toUTF8.toList,
                         params, result, error }
    let mo := match decodeSpec d with
      | .error e => s!"err:{e.str} gwj=err gww=err"
      | .ok (k, rid) =>
        match k.frameKind with
        | some fk => s!"ok:{k.str} frame={fk} rid={hexEncode rid} gwj=frame:{fk} gww=frame:{fk}"
        | none => s!"ok:{k.str} frame=err:unknownpacket gwj=err gww=err"
    (mo, if impl.startsWith "MALFORMED" then "viol:malformed-decode-result" else "ok")
  | _, _, _, _, _, _ => ("bad-op", "ok")

/-- several messages coalesced in one buffer: the adapter decodes ONE message per call and reports exactly the bytes of that
    message (plus the whitespace before it) as consumed; the gateway advances and calls again -/
def stepMulti (m : List (String × String)) (impl : String) : String × String :=
  let sepLen : Option Nat := match look m "sep" with
    | some "none" => some 0 | some "sp" => some 1 | some "nl" => some 1 | some "crlf" => some 2 | _ => none
  match sepLen, (look m "trail"), (look m "cut").bind String.toInt?, look m "m" with
  | some sl, some trail, some cut, some ms =>
    let parts := (ms.splitOn ",").map (fun p => p.splitOn ":")
    let parsed : List (Option (String × String × Nat)) := parts.map fun q =>
      match q with
      | [_, kind, rid, len] => len.toNat?.map (fun l => (kind, rid, l))
      | _ => none
    if parsed.any Option.isNone || parsed.isEmpty then ("bad-op", "ok") else
    let msgs := parsed.filterMap id
    let full := if cut ≥ 0 then msgs.dropLast else msgs
    let items := (List.range full.length).zip full |>.map fun (i, (kind, rid, len)) =>
      s!"{kind}:{rid}:{if i = 0 then len else sl + len}"
    let rest : Nat :=
      if cut ≥ 0 then (if msgs.length > 1 then sl else 0) + cut.toNat
      else if trail == "1" then sl else 0
    let one := s!"[{"|".intercalate items}] rest={rest}"
    let mo := s!"j={one} w={one}"
    (mo, if impl == mo then "ok" else "viol:coalesced-messages:" ++ firstDiff impl mo)
  | _, _, _, _ => ("bad-op", "ok")

def step (_ : Unit) (op impl : String) : Unit × String × String :=
  let r : String × String :=
    match fields op with
    | "out" :: rest => stepOut (kv rest) impl
    | "in" :: rest => stepIn (kv rest) impl
    | "det" :: rest => stepDet (kv rest) impl
    | "doc" :: rest => stepDoc (kv rest) impl
    | "multi" :: rest => stepMulti (kv rest) impl
    | ["fuzz", h] =>
      match hexDecode h with
      | none => ("bad-op", "ok")
      | some _ =>
        -- well-formed message or an error
        ("-", if impl.startsWith "ok:" || impl.startsWith "err:" then "ok"
              else if impl.startsWith "MALFORMED" then "viol:malformed-decode-result" else "viol:unparseable-output")
    | _ => ("bad-op", "ok")
  ((), r.1, r.2)

end C24Drv

def main : IO Unit := Drv.main { init := (), step := C24Drv.step }

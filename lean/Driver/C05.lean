import WK.Prelude.Drv
import WK.Spec.C05
/-
  C05 driver (ops: see harness/C05/c05.go).

  model out  = what the Lean model computes with `H := sha256` on the preimage
               DEFINED from the generated field list (so `sha256 (preimage …)`
               is compared with the real digest on every sealed / perturbed /
               golden pair);
  verdict    = the property judged on the IMPLEMENTATION's output:
    * a sealed entry verifies with its own record                (viol:sealed-content-rejected)
    * VerifyEntry accepts a perturbed pair iff it still is the sealed content
                                                                  (viol:perturbed-content-accepted)
    * over the whole history, equal real digests ⇒ equal hashed content, and equal
      content ⇒ equal digest                                      (viol:equal-digest-different-content, viol:same-content-different-digest)
    * the sealed entries form a chain from the manifest, tail digest = manifest digest
                                                                  (viol:chain-broken, viol:manifest-digest-not-tail)
    * an identity sealed by the pinned v1 format still verifies   (viol:v1-identity-rejected)
-/
open WK WK.C05

structure C05St where
  model : Option (List Entry) := none
  impl : Option (List Entry) := none
  recs : List Rec := []
  seen : List (Sem × Bytes) := []

def pNat (bound : Nat) (s : String) : Option Nat :=
  if s.isEmpty || !s.all Char.isDigit then none else
  match s.toNat? with
  | some n => if n < bound then some n else none
  | none => none

def pU64 := pNat two64

def pI64 (s : String) : Option Int :=
  if s.startsWith "-" then
    match pNat (9223372036854775808 + 1) (s.drop 1).toString with
    | some n => some (-(n : Int))
    | none => none
  else (pNat 9223372036854775808 s).map (fun n => (n : Int))

def pArr32 (s : String) : Option Bytes :=
  if s == "-" then none else
  match hexDecode s with
  | some b => if b.length == 32 then some b else none
  | none => none

def pBool (s : String) : Option Bool :=
  if s == "1" then some true else if s == "0" then some false else none

def pRec : List String → Option Rec
  | [id, idx, ep, st, fr, cm, ts, sy, pl] => do
    let id ← pU64 id; let idx ← pU64 idx; let ep ← pU64 ep; let st ← pNat 256 st
    let fr ← hexDecode fr; let cm ← hexDecode cm; let ts ← pI64 ts; let sy ← pBool sy; let pl ← hexDecode pl
    pure { id := id, index := idx, epoch := ep, setting := st, frm := fr, cmn := cm, ts := ts, sync := sy, payload := pl }
  | _ => none

def pEntry : List String → Option Entry
  | [v, ep, tm, fe, ix, pt, pi, cmd, pd, dg] => do
    let v ← pNat 65536 v; let ep ← pU64 ep; let tm ← pU64 tm; let fe ← pU64 fe; let ix ← pU64 ix
    let pt ← pU64 pt; let pi ← pU64 pi; let cmd ← pArr32 cmd; let pd ← pArr32 pd; let dg ← pArr32 dg
    pure { version := v, epoch := ep, term := tm, fence := fe, index := ix, pterm := pt, pidx := pi, cmd := cmd, pdig := pd, dig := dg }
  | _ => none

def pRecs : Nat → List String → Option (List Rec)
  | 0, [] => some []
  | 0, _ => none
  | n+1, fs => do
    let r ← pRec (fs.take 9)
    let rest ← pRecs n (fs.drop 9)
    pure (r :: rest)

def entryStr (e : Entry) : String :=
  s!"{e.version}/{e.epoch}/{e.term}/{e.fence}/{e.index}/{e.pterm}/{e.pidx}/{hexEncode e.cmd}/{hexEncode e.pdig}/{hexEncode e.dig}"

def flipBit (bs : Bytes) (k : Nat) : Bytes :=
  let k := k % (8 * bs.length)
  bs.mapIdx (fun i b => if i == k / 8 then b ^^^ (UInt8.ofNat (1 <<< (k % 8))) else b)

/-- apply one `<field>=<op>` -/
def applySpec (e : Entry) (r : Rec) (spec : String) : Option (Entry × Rec) :=
  match spec.splitOn "=" with
  | [name, op] =>
    match op.splitOn ":" with
    | [kind, val] =>
      let setU (k : Nat → Entry × Rec) : Option (Entry × Rec) :=
        if kind == "set" then (pU64 val).map k else none
      let setA (old : Bytes) (k : Bytes → Entry × Rec) : Option (Entry × Rec) :=
        if kind == "set" then (pArr32 val).map k
        else if kind == "flip" then (pU64 val).map (fun n => k (flipBit old n))
        else none
      let setS (old : Bytes) (k : Bytes → Entry × Rec) : Option (Entry × Rec) :=
        if kind == "set" then (hexDecode val).map k
        else if kind == "flip" then
          if old.isEmpty then none else (pU64 val).map (fun n => k (flipBit old n))
        else none
      match name with
      | "ever" => if kind == "set" then (pNat 65536 val).map (fun v => ({ e with version := v }, r)) else none
      | "eepoch" => setU (fun v => ({ e with epoch := v }, r))
      | "eterm" => setU (fun v => ({ e with term := v }, r))
      | "efence" => setU (fun v => ({ e with fence := v }, r))
      | "eidx" => setU (fun v => ({ e with index := v }, r))
      | "epterm" => setU (fun v => ({ e with pterm := v }, r))
      | "epidx" => setU (fun v => ({ e with pidx := v }, r))
      | "ecmd" => setA e.cmd (fun v => ({ e with cmd := v }, r))
      | "epdig" => setA e.pdig (fun v => ({ e with pdig := v }, r))
      | "edig" => setA e.dig (fun v => ({ e with dig := v }, r))
      | "rid" => setU (fun v => (e, { r with id := v }))
      | "ridx" => setU (fun v => (e, { r with index := v }))
      | "repoch" => setU (fun v => (e, { r with epoch := v }))
      | "rset" => if kind == "set" then (pNat 256 val).map (fun v => (e, { r with setting := v })) else none
      | "rfrom" => setS r.frm (fun v => (e, { r with frm := v }))
      | "rcmn" => setS r.cmn (fun v => (e, { r with cmn := v }))
      | "rpay" => setS r.payload (fun v => (e, { r with payload := v }))
      | "rts" => if kind == "set" then (pI64 val).map (fun v => (e, { r with ts := v })) else none
      | "rsync" => if kind == "set" then (pBool val).map (fun v => (e, { r with sync := v })) else none
      | _ => none
    | _ => none
  | _ => none

def applySpecs (e : Entry) (r : Rec) : List String → Option (Entry × Rec)
  | [] => some (e, r)
  | s :: ss => match applySpec e r s with
    | some (e', r') => applySpecs e' r' ss
    | none => none

/-- record (content, real digest); report a digest shared by different contents -/
def note (seen : List (Sem × Bytes)) (s : Sem) (d : Bytes) : List (Sem × Bytes) × String :=
  if seen.any (fun p => p.2 == d && decide (p.1 ≠ s)) then (seen, "viol:equal-digest-different-content")
  else if seen.any (fun p => p.2 != d && decide (p.1 = s)) then (seen, "viol:same-content-different-digest")
  else if seen.any (fun p => p.2 == d) then (seen, "ok")
  else ((s, d) :: seen, "ok")

def worst (a b : String) : String := if a != "ok" then a else b

/-- the sealed entries printed by the implementation form the chain the manifest describes -/
def chainOK (m : Manifest) : Nat → Nat → Nat → Bytes → List Entry → Bool
  | _, _, _, _, [] => true
  | index, pt, pi, pd, e :: es =>
    e.version == 1 && e.epoch == m.epoch && e.term == m.term && e.fence == m.fence && e.cmd == m.cmd &&
    e.index == index && e.pterm == pt && e.pidx == pi && e.pdig == pd &&
    chainOK m (index + 1) e.term e.index e.dig es

def bitStr (b : Bool) : String := if b then "1" else "0"

def vd (e : Entry) (r : Rec) : String :=
  s!"{bitStr (verify sha256 e r)} {hexEncode (digest sha256 e r)}"

def c05Step (st : C05St) (op impl : String) : C05St × String × String :=
  let bad : C05St × String × String := (st, "bad-op", "ok")
  match fields op with
  | ["sha", h] =>
    match hexDecode h with
    | some b => (st, hexEncode (sha256 b), "ok")
    | none => bad
  | "seal" :: api :: v :: ep :: tm :: fe :: cmd :: ba :: la :: pt :: pi :: pd :: n :: rest =>
    let st0 : C05St := { st with model := none, impl := none, recs := [] }
    match pNat 65536 v, pU64 ep, pU64 tm, pU64 fe, pArr32 cmd, pU64 ba, pU64 la, pU64 pt, pU64 pi, pArr32 pd, pNat 1000000 n with
    | some v, some ep, some tm, some fe, some cmd, some ba, some la, some pt, some pi, some pd, some n =>
      if api != "q" && api != "c" && api != "d" then (st0, "bad-op", "ok") else
      match pRecs n rest with
      | none => (st0, "bad-op", "ok")
      | some recs =>
        let m : Manifest := { version := v, epoch := ep, term := tm, fence := fe, cmd := cmd, base := ba, last := la,
                              pterm := pt, pidx := pi, pdig := pd, dig := [] }
        let (mo, mstate) : String × Option (List Entry) :=
          match sealManifest sha256 m recs with
          | none => ("rej", none)
          | some (m', es) => (s!"ok {hexEncode m'.dig} {",".intercalate (es.map entryStr)}", some es)
        -- judge the implementation's own output
        match fields impl with
        | ["rej"] => ({ st0 with model := mstate, recs := recs }, mo, "ok")
        | ["ok", md, ents] =>
          let parsed := (ents.splitOn ",").map (fun s => pEntry (s.splitOn "/"))
          if parsed.any Option.isNone || parsed.length != recs.length || recs.isEmpty then
            ({ st0 with model := mstate, recs := recs }, mo, "viol:unparseable-output")
          else
            let es := parsed.filterMap id
            let v1 := if chainOK m (ba + 1) pt pi pd es then "ok" else "viol:chain-broken"
            let v2 := match es.getLast?, pArr32 md with
              | some l, some d => if l.dig == d then "ok" else "viol:manifest-digest-not-tail"
              | _, _ => "viol:unparseable-output"
            let (seen, v3) := (es.zip recs).foldl (fun (acc : List (Sem × Bytes) × String) (p : Entry × Rec) =>
              let (sn, w) := note acc.1 (semOf p.1 p.2) p.1.dig
              (sn, worst acc.2 w)) (st.seen, "ok")
            ({ model := mstate, impl := some es, recs := recs, seen := seen }, mo, worst v1 (worst v2 v3))
        | _ => ({ st0 with model := mstate, recs := recs }, mo, "viol:unparseable-output")
    | _, _, _, _, _, _, _, _, _, _, _ => (st0, "bad-op", "ok")
  | ["ver", i] =>
    match pNat 1000000 i with
    | none => bad
    | some i =>
      let mo := match st.model with
        | some es => match es[i]?, st.recs[i]? with
          | some e, some r => bitStr (verify sha256 e r)
          | _, _ => "none"
        | none => "none"
      let verdict :=
        if impl == "1" || impl == "none" then "ok"
        else if impl == "0" then "viol:sealed-content-rejected"
        else "viol:unparseable-output"
      (st, mo, verdict)
  | "pert" :: i :: specs =>
    if specs.isEmpty then bad else
    match pNat 1000000 i with
    | none => bad
    | some i =>
      -- syntactic validity of the specs is state independent except `flip` on an empty string
      let mo := match st.model with
        | some es => match es[i]?, st.recs[i]? with
          | some e, some r => match applySpecs e r specs with
            | some (e', r') => vd e' r'
            | none => "bad-op"
          | _, _ => "none"
        | none => "none"
      match st.impl with
      | none => (st, mo, if impl == "none" || impl == "bad-op" then "ok" else "viol:unparseable-output")
      | some es =>
        match es[i]?, st.recs[i]? with
        | some e, some r =>
          match applySpecs e r specs with
          | none => (st, mo, "ok")
          | some (e', r') =>
            match fields impl with
            | [b, d] =>
              match pBool b, pArr32 d with
              | some b, some d =>
                let legit := sameSealedContent e r e' r'
                let v1 := if b && !legit then "viol:perturbed-content-accepted"
                          else if !b && legit then "viol:sealed-content-rejected" else "ok"
                let (seen, v2) := note st.seen (semOf e' r') d
                ({ st with seen := seen }, mo, worst v1 v2)
              | _, _ => (st, mo, "viol:unparseable-output")
            | _ => (st, mo, "viol:unparseable-output")
        | _, _ => (st, mo, if impl == "none" then "ok" else "viol:unparseable-output")
  | "golden" :: rest =>
    match pEntry (rest.take 10), pRec (rest.drop 10) with
    | some e, some r =>
      let verdict := match fields impl with
        | ["1", _] => "ok"
        | ["0", _] => "viol:v1-identity-rejected"
        | _ => "viol:unparseable-output"
      (st, vd e r, verdict)
    | _, _ => bad
  | _ => bad

def main : IO Unit := Drv.main { init := ({} : C05St), step := c05Step }

import WK.Prelude.Drv
import WK.Spec.C41
/-
  C41 driver.  op `stop …` (see harness/C41/c41.go); impl out `ev=<tokens>`; modelOut `-`
  (schedules are not reproducible); verdict = WK.C41.judge on the implementation's log.
-/
open WK WK.C41

def parseTok (t : String) : Option Ev := do
  match t.splitOn "." with
  | k :: rest =>
    let vs ← rest.mapM String.toNat?
    match k, vs with
    | "b", [c] => pure (.subBeg c)
    | "a", [c] => pure (.adm c)
    | "j", [c] => pure (.rej c)
    | "f", [c, kd] => pure (.term c kd)
    | "p", [c] => pure (.pending c)
    | "l", [c] => pure (.lost c)
    | "S", [n] => pure (.stopBeg n)
    | "T", [n, r] => pure (.stopRet n r)
    | "gf", [a, b] => pure (.gfeed a b)
    | "gh", [a, b] => pure (.ghandled a b)
    | "gx", [a, b] => pure (.gabandoned a b)
    | "qe", [n] => pure (.quiesceRet n)
    | "qh", [] => pure .quiesceHung
    | "qn", [] => pure .note
    | "qb", [] => pure .note
    | "qw", [] => pure .note
    | "qa", [] => pure .note
    | _, _ => none
  | [] => none

def opShapeOk : List String → Bool
  | "stop" :: fs => fs.length == 11 && fs.all (fun f => f.toNat?.isSome)
  | "longkey" :: fs => fs.length == 2 && fs.all (fun f => f.toNat?.isSome) && (fs.head?.bind String.toNat?).any (· ≤ 64)
  | "quiesce" :: fs =>
    match fs.mapM String.toNat? with
    | some [d, _] => 1 ≤ d && d ≤ 200
    | _ => false
  | "gwstop" :: fs =>
    match fs.mapM String.toNat? with
    | some [w, b, bud, _] => 1 ≤ w && w ≤ 4 && b ≤ 6 && 1 ≤ bud && bud ≤ 1000
    | _ => false
  | _ => false

def c41Step (_ : Unit) (op impl : String) : Unit × String × String :=
  match fields op with
  | k :: fs =>
    if !(opShapeOk (k :: fs)) then ((), "bad-op", "ok") else
    if impl == "bad-op" then ((), "-", "ok") else
    if impl == "ev=-" then ((), "-", "ok") else
    match (if impl.startsWith "ev=" then ((impl.drop 3).toString.splitOn ",").mapM parseTok else none) with
    | some l => ((), "-", judge l)
    | none => ((), "-", "viol:unparseable-output")
  | _ => ((), "bad-op", "ok")

def main : IO Unit := Drv.main { init := (), step := c41Step }

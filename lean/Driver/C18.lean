import WK.Prelude.Drv
import WK.Spec.C18
import WK.Gen.C18
/-
  C18 driver.

  The model side runs the PROVED batch loop `WK.C18.applyBatch WK.Gen.C18.loopFacts`
  (replay guard, applied-index bump, result fields, save/publish, restart) with the
  command handlers replaced by an ORACLE learned from the implementation's
  one-entry-at-a-time run of the same log: key (logical digest, revision, log
  position) ↦ (outcome, reason, new digest).  From that it predicts every
  batched / restarted / replayed run of the log, token by token.

  judge (on the implementation's outputs only):
    * every run that covers the log ends in the state of the first such run, and
      every entry's first result equals its result there (batch transparency);
    * Changed ⇒ revision + 1, Updated ⇒ revision kept, Noop/Rejected ⇒ logical
      state and revision untouched (checked where before/after are observable);
    * an initialised published state validates and equals the decoded state file.
-/
open WK WK.C18 WK.Gen.C18

structure OrEntry where
  o : String
  reason : String
  ld : String
  deriving Inhabited

structure C18St where
  log : Array (Nat × Bool) := #[]
  oracle : List (String × OrEntry) := []
  tts : List (Nat × String) := []              -- task-transition digest of a position's Changed result
  init : Option (String × Nat × Nat) := none   -- the state of a fresh machine
  refRes : List (Nat × String) := []           -- first result of each position in the first run covering it
  refFinal : Option String := none             -- final ld/rev/applied of the first run covering the log

def okey (ld : String) (rev pos : Nat) : String := s!"{ld}/{rev}/{pos}"

def missReason : String := "?oracle-miss"

def oracleHandler (orc : List (String × OrEntry)) (s : State String) (_ : Nat) (pos : Nat) : Proposal String :=
  match orc.lookup (okey s.body s.rev pos) with
  | none => .reject missReason
  | some e =>
    match e.o with
    | "C" => if s.rev = 0 then .init e.ld else .change e.ld
    | "U" => .update e.ld
    | "N" => .noop e.reason
    | _ => .reject e.reason

def outcomeStr : Outcome → String × String
  | .changed => ("C", "-")
  | .updated => ("U", "-")
  | .noop r => ("N", r)
  | .rejected r => ("R", r)

def stStr (s : State String) (hasFile : Bool) : String :=
  s!"{s.body}/{s.rev}/{s.applied}/{if hasFile then "1" else "-"}/{if s.rev ≠ 0 then "1" else "-"}"

/-- `ld/rev/applied/F/V` -/
def parseSt (t : String) : Option (String × Nat × Nat × String × String) :=
  match t.splitOn "/" with
  | [ld, r, a, f, v] =>
    match r.toNat?, a.toNat? with
    | some r, some a => some (ld, r, a, f, v)
    | _, _ => none
  | _ => none

/-- `O:reason:rev:applied:tt` -/
def parseRes (t : String) : Option (String × String × Nat × Nat × String) :=
  match t.splitOn ":" with
  | [o, reason, r, a, tt] =>
    match r.toNat?, a.toNat? with
    | some r, some a => some (o, reason, r, a, tt)
    | _, _ => none
  | _ => none

/-- implementation token `B[r;r;...]=st` → (results, st, trailing marker) -/
def parseBatchTok (t : String) : Option (List String × String) :=
  if !t.startsWith "B[" then none else
  match (t.drop 2).toString.splitOn "]=" with
  | [rs, st] => some (if rs.isEmpty then [] else rs.splitOn ";", st)
  | _ => none

def parseRange (t : String) : Option (Nat × Nat) :=
  match t.splitOn "-" with
  | [a, b] =>
    match a.toNat?, b.toNat? with
    | some a, some b => if a ≤ b then some (a, b) else none
    | _, _ => none
  | _ => none

structure RunAcc where
  st : C18St
  sm : SM String
  out : List String := []
  verdict : String := "ok"
  firstSeen : List Nat := []          -- positions in order of first occurrence
  firstRes : List (Nat × String) := []
  fence : Nat := 0                    -- applied index of the newest installed snapshot payload
  snap : Bool := false                -- a snapshot was installed in this run
  inexact : Bool := false             -- ... whose payload was BEHIND its metadata index (entries are lost by design)

def setV (a : RunAcc) (v : String) : RunAcc := if a.verdict == "ok" then { a with verdict := v } else a

def strictLog (log : Array (Nat × Bool)) : Bool :=
  let l := log.toList.map (·.1)
  (l.zip (l.drop 1)).all (fun (a, b) => a < b)

/-- one batch token -/
def doBatch (acc : RunAcc) (a b : Nat) (implTok : String) : RunAcc :=
  let positions := (List.range (b - a)).map (· + a)
  let entries : List (Entry Nat) := positions.map fun p => ⟨(acc.st.log[p]!).1, p⟩
  match parseBatchTok implTok with
  | none => setV { acc with out := acc.out ++ ["B?"] } "viol:apply-error"
  | some (implRes, implStRaw) =>
    let implSt := (implStRaw.splitOn "!").head!
    let acc := if implStRaw.endsWith "!final" then setV acc "viol:final-state-is-not-the-published-state" else acc
    -- entries covered by an installed snapshot payload must be skipped
    let acc := (positions.zip implRes).foldl (fun acc (p, res) =>
      if (acc.st.log[p]!).1 ≤ acc.fence && acc.fence ≠ 0 && !res.startsWith "N:already_applied:" then
        setV acc "viol:entry-covered-by-installed-snapshot-applied-again" else acc) acc
    let before := acc.sm.published
    -- learn from a one-entry batch whose mutate call the oracle has not seen
    let try1 := applyBatch loopFacts (oracleHandler acc.st.oracle) (fun _ => true) acc.sm entries
    let missed := try1.2.any (fun r => r.outcome == .rejected missReason)
    let acc :=
      if !missed then acc
      else if entries.length == 1 then
        match implRes.head?.bind parseRes, parseSt implSt with
        | some (o, reason, r', _, tt), some (ld', _, _, _, _) =>
          let p := a
          let acc := { acc with st := { acc.st with
            oracle := (okey before.body before.rev p, { o := o, reason := reason, ld := ld' }) :: acc.st.oracle,
            tts := if o == "C" && (acc.st.tts.lookup p).isNone then (p, tt) :: acc.st.tts else acc.st.tts } }
          -- the revision discipline, judged where before/after are observable
          let acc :=
            if o == "C" then (if r' == before.rev + 1 then acc else setV acc "viol:changed-without-revision-plus-one")
            else if o == "U" then (if r' == before.rev then acc else setV acc "viol:updated-changed-the-revision")
            else if o == "N" || o == "R" then
              (if r' == before.rev && ld' == before.body then acc else setV acc "viol:noop-or-reject-changed-the-state")
            else setV acc "viol:malformed-result"
          -- a second, batched run must not call a handler on a state the sequential run never saw
          if acc.st.refFinal.isSome && strictLog acc.st.log && !acc.inexact then setV acc "viol:batch-diverges-from-sequential" else acc
        | _, _ => setV acc "viol:malformed-result"
      else if acc.inexact || acc.st.refFinal.isNone then acc else setV acc "viol:batch-diverges-from-sequential"
    let r := applyBatch loopFacts (oracleHandler acc.st.oracle) (fun _ => true) acc.sm entries
    let stillMissed := r.2.any (fun x => x.outcome == .rejected missReason)
    if stillMissed then
      -- cannot predict: resynchronise on the implementation's state
      match parseSt implSt with
      | some (ld, rv, ap, _, _) =>
        let s : State String := ⟨rv, ap, ld⟩
        { acc with sm := { published := s, file := if rv ≠ 0 then some s else acc.sm.file }, out := acc.out ++ ["B?"] }
      | none => setV { acc with out := acc.out ++ ["B?"] } "viol:apply-error"
    else
      let resStrs := (positions.zip r.2).map fun (p, x) =>
        let (o, reason) := outcomeStr x.outcome
        let tt := if o == "C" then (acc.st.tts.lookup p).getD "-" else "-"
        s!"{o}:{reason}:{x.rev}:{x.applied}:{tt}"
      let tok := "B[" ++ ";".intercalate resStrs ++ "]=" ++ stStr r.1.published r.1.file.isSome
      -- judge the implementation's flags
      let acc := match parseSt implSt with
        | some (_, rv, _, f, v) =>
          if rv ≠ 0 && f ≠ "1" then setV acc "viol:state-file-differs-from-published-state"
          else if rv ≠ 0 && v ≠ "1" then setV acc "viol:published-state-fails-validation"
          else acc
        | none => setV acc "viol:apply-error"
      -- first occurrences (implementation's results)
      let acc := (positions.zip implRes).foldl (fun acc (p, res) =>
        if acc.firstSeen.contains p then acc
        else { acc with firstSeen := acc.firstSeen ++ [p], firstRes := acc.firstRes ++ [(p, res)] }) acc
      { acc with sm := r.1, out := acc.out ++ [tok] }

/-- the state the one-at-a-time run reaches after the first `k` entries, from the oracle -/
def seqState (st : C18St) (empty : State String) (k : Nat) : Option (State String) :=
  (List.range k).foldl (fun (acc : Option (SM String)) p =>
    match acc with
    | none => none
    | some sm =>
      let r := applyBatch loopFacts (oracleHandler st.oracle) (fun _ => true) sm [⟨(st.log[p]!).1, p⟩]
      if r.2.any (fun x => x.outcome == .rejected missReason) then none else some r.1)
    (some { published := empty, file := none }) |>.map (·.published)

/-- snapshot token `s<k>@<m>` -/
def doSnapshot (acc : RunAcc) (empty : State String) (k m : Nat) (implTok : String) : RunAcc :=
  let metaIdx := if m = 0 then 0 else (acc.st.log[m - 1]!).1
  match seqState acc.st empty k with
  | none =>
    match (if implTok.startsWith "S=" then parseSt (implTok.drop 2).toString else none) with
    | some (ld, rv, ap, _, _) =>
      let s : State String := ⟨rv, ap, ld⟩
      { acc with sm := { published := s, file := if rv ≠ 0 then some s else acc.sm.file }, out := acc.out ++ ["S?"], snap := true, inexact := true }
    | none => { acc with out := acc.out ++ ["S?"], snap := true, inexact := true }
  | some payload =>
    if payload.rev = 0 then { acc with out := acc.out ++ ["S=nosnap"], snap := true, inexact := true }
    else
      let sm' := restoreSnapshot restoreFacts acc.sm payload metaIdx
      let acc := if implTok.startsWith "ERR" then setV acc "viol:apply-error" else acc
      -- judge: the installed state must not claim less than its payload contains
      let acc := match (if implTok.startsWith "S=" then parseSt (implTok.drop 2).toString else none) with
        | some (_, _, ap, _, _) => if ap < payload.applied then setV acc "viol:installed-snapshot-applied-index-below-its-payload" else acc
        | none => acc
      { acc with sm := sm', out := acc.out ++ ["S=" ++ stStr sm'.published sm'.file.isSome], fence := max acc.fence payload.applied,
                 snap := true, inexact := acc.inexact || payload.applied < metaIdx }

def c18Step (st : C18St) (op impl : String) : C18St × String × String :=
  match fields op with
  | ["e", idx, term, _hex] =>
    match idx.toNat?, term.toNat? with
    | some i, some _ =>
      let ok := !impl.endsWith "undecodable"
      ({ st with log := st.log.push (i, ok) }, "-", if impl.startsWith s!"e{st.log.size} " then "ok" else "viol:entry-echo")
    | _, _ => (st, "bad-op", "ok")
  | "run" :: toks =>
    if toks.isEmpty then (st, "bad-op", "ok") else
    let parsed : List (Option (Option (Nat × Nat × Bool))) := toks.map fun t =>
      if t == "r" then some none
      else if t.startsWith "s" then
        match (t.drop 1).toString.splitOn "@" with
        | [k, m] =>
          match k.toNat?, m.toNat? with
          | some k, some m => some (some (k, m, true))
          | _, _ => none
        | _ => none
      else (parseRange t).map fun (a, b) => some (a, b, false)
    let n := st.log.size
    let wellFormed := parsed.all fun p =>
      match p with
      | none => false
      | some none => true
      | some (some (a, b, false)) => b ≤ n && ((List.range (b - a)).all fun k => (st.log[a + k]!).2)
      | some (some (k, m, true)) => k ≤ n && m ≤ n && ((List.range k).all fun i => (st.log[i]!).2)
    if !wellFormed then (st, "bad-op", "ok") else
    let itoks := fields impl
    match itoks with
    | [] => (st, "-", "viol:apply-error")
    | itok0 :: irest =>
      if !itok0.startsWith "I=" then (st, "-", "viol:apply-error") else
      match parseSt (itok0.drop 2).toString with
      | none => (st, "-", "viol:apply-error")
      | some (ld0, r0, a0, _, _) =>
        let st := if st.init.isNone then { st with init := some (ld0, r0, a0) } else st
        let (ild, irv, iap) := st.init.getD (ld0, r0, a0)
        let empty : State String := ⟨irv, iap, ild⟩
        let acc0 : RunAcc := { st := st, sm := { published := empty, file := none }, out := ["I=" ++ stStr empty false] }
        if irest.length ≠ parsed.length then
          (st, "-", "viol:apply-error")
        else
        let acc := (parsed.zip irest).foldl (fun acc (p, itok) =>
          match p with
          | some (some (a, b, false)) => doBatch acc a b itok
          | some (some (k, m, true)) => doSnapshot acc empty k m itok
          | _ =>
            let sm' := restart empty acc.sm
            { acc with sm := sm', out := acc.out ++ ["R=" ++ stStr sm'.published sm'.file.isSome] }) acc0
        -- batch transparency, judged on the implementation's own outputs
        let contiguous := acc.firstSeen == List.range acc.firstSeen.length
        let strict := strictLog st.log
        let finalImpl : Option String := (irest.getLast?.bind fun t =>
          let stpart := (t.splitOn "=").getLast!
          (parseSt ((stpart.splitOn "!").head!)).map fun (ld, r, a, _, _) => s!"{ld}/{r}/{a}")
        let acc :=
          if !(contiguous && strict) || acc.snap then acc else
          -- results of first occurrences against the reference
          let bad := acc.firstRes.any fun (p, res) =>
            match acc.st.refRes.lookup p with
            | some ref => ref ≠ res
            | none => false
          let acc := if bad then setV acc "viol:batch-partition-changes-a-result" else acc
          let newRef := acc.firstRes.filter fun (p, _) => (acc.st.refRes.lookup p).isNone
          let acc := { acc with st := { acc.st with refRes := acc.st.refRes ++ newRef } }
          if acc.firstSeen.length == n && n > 0 then
            match acc.st.refFinal, finalImpl with
            | none, some f => { acc with st := { acc.st with refFinal := some f } }
            | some rf, some f => if rf == f then acc else setV acc "viol:batch-partition-changes-the-state"
            | _, none => setV acc "viol:apply-error"
          else acc
        -- after a snapshot whose payload is BEHIND its metadata index the log's entries in between are
        -- lost by design: later batches run on states the one-at-a-time run never saw — not predicted
        let line := if acc.inexact || (acc.st.refFinal.isNone && (acc.out.contains "B?" || acc.out.contains "S?")) then "-" else " ".intercalate acc.out
        (acc.st, line, acc.verdict)
  | ["contract"] =>
    -- the handlers' contract (`WK.C18.MutateContract`), judged per command on the real handlers:
    -- token = kind:outcome:reason:(kept|CHANGED|-):(indep|DEP)
    let bad := (fields impl).findSome? fun t =>
      match t.splitOn ":" with
      | [kind, o, _, kept, indep] =>
        if (o == "N" || o == "R") && kept ≠ "kept" then some s!"viol:handler-contract:{kind}:noop-or-reject-changed-the-candidate"
        else if indep ≠ "indep" then some s!"viol:handler-contract:{kind}:outcome-depends-on-the-published-state"
        else if !(["C", "U", "N", "R"].contains o) then some s!"viol:handler-contract:{kind}:malformed-result"
        else none
      | ["undecodable"] => none
      | ["empty"] => none
      | _ => some "viol:handler-contract:unparseable"
    (st, "-", bad.getD "ok")
  | _ => (st, "bad-op", "ok")

def main : IO Unit := Drv.main { init := ({} : C18St), step := c18Step }

import WK.Spec.C02
open WK WK.Repl
/-
  C02 driver: model output (compared with the implementation) + the C02 judge on the
  implementation's observation.  ops/output: see harness/C02/repl_core.go.
-/
def main : IO Unit := Drv.main { init := ({} : DS), step := replStep WK.C02.judge }

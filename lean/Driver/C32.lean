import WK.Prelude.Drv
import WK.Spec.C32
import WK.Model.C32
/-
  C32 driver.  Formats: /verif/harness/C32/c32.go and
  /verif/hooks/C32/internal__runtime__delivery/dump.go.

  sequential ops : modelOut = `<result> || <dump of the model state>` (exact diff);
  `conc` windows : modelOut = `-`; the per-thread results observed on the real tracker are
                   checked for linearizability against the model (some interleaving of the
                   threads reproduces every result and the final dump, tokens up to renaming);
                   the model then continues from the implementation's dumped state.
  verdict        : the property's predicates evaluated on the IMPLEMENTATION's dumps.
-/
open WK WK.C32

namespace C32Drv

/-! ### rendering -/

def hexS (s : Str) : String := hexEncode s

def renderPend (p : Pend) : String :=
  s!"{hexS p.uid},{p.sess},{p.msg},{p.seq},{hexS p.chan},{p.ctype},{p.dat}"

def renderKey (k : MKey) : String := s!"{hexS k.uid},{k.sess},{k.msg}"

def keyLt (a b : MKey) : Bool :=
  if a.uid ≠ b.uid then decide (a.uid < b.uid)
  else if a.sess ≠ b.sess then decide (a.sess < b.sess)
  else decide (a.msg < b.msg)

def insertBy {α : Type} (lt : α → α → Bool) (x : α) : List α → List α
  | [] => [x]
  | y :: ys => if lt x y then x :: y :: ys else y :: insertBy lt x ys

def sortBy {α : Type} (lt : α → α → Bool) : List α → List α
  | [] => []
  | x :: xs => insertBy lt x (sortBy lt xs)

def renderEntry (ke : MKey × Entry) : String :=
  let e := ke.2
  let ex := if e.extras.isEmpty then "-" else ";".intercalate (e.extras.map (fun a => s!"{a.1}@{renderPend a.2}"))
  s!"{renderKey ke.1}:{if e.committed then 1 else 0}:{e.primary}:{renderPend e.pending}:{ex}"

/-- derived bySession index: ascending (uid, session), message ids ascending -/
def sessionIndex : List MKey → List ((Str × Nat) × List Nat)
  | [] => []
  | k :: ks =>
    match sessionIndex ks with
    | ((u, s), ms) :: rest => if u = k.uid ∧ s = k.sess then ((u, s), k.msg :: ms) :: rest else ((k.uid, k.sess), [k.msg]) :: ((u, s), ms) :: rest
    | [] => [((k.uid, k.sess), [k.msg])]

def renderSessions (ix : List ((Str × Nat) × List Nat)) : List String :=
  ix.map (fun g => s!"{hexS g.1.1},{g.1.2}:" ++ (if g.2.isEmpty then "-" else "/".intercalate (g.2.map toString)))

def renderState (s : St) : String :=
  let es := sortBy (fun a b => keyLt a.1 b.1) s.entries
  s!"C={s.count} N={s.nextTok} | " ++ " ".intercalate ("E" :: es.map renderEntry) ++ " | " ++
    " ".intercalate ("S" :: renderSessions (sessionIndex (es.map (·.1))))

def b01 (b : Bool) : String := if b then "1" else "0"

def renderPends (ps : List Pend) : String :=
  " ".intercalate ("r" :: (sortBy (fun a b => keyLt a.key b.key) ps).map renderPend)

def renderOut (out : Out) (batchLen : Nat := 0) : String :=
  match out with
  | .unit => "ok"
  | .bound r => s!"b {b01 r.bound} {b01 r.added} {r.tok} {r.count}"
  | .bool b => b01 b
  | .batch r =>
    let ts := if batchLen == 0 then "-" else ",".intercalate (r.toks.map toString)
    s!"bb {ts} {r.bound} {r.added} {r.shards} {r.count}"
  | .num n => s!"n {n}"
  | .canceled r => s!"c {b01 r.canceled} {b01 r.removed} {r.count}"
  | .acked none => "a -"
  | .acked (some p) => s!"a {renderPend p}"
  | .removed ps => renderPends ps

/-! ### parsing -/

def u64 (n : Nat) : Bool := n < 2 ^ 64
def i64 (i : Int) : Bool := decide (-(2:Int)^63 ≤ i) && decide (i < (2:Int)^63)

def pPend (s : String) : Option Pend :=
  match s.splitOn "," with
  | [u, ss, m, q, c, t, a] => do
    let u ← hexDecode u; let ss ← ss.toNat?; let m ← m.toNat?; let q ← q.toNat?
    let c ← hexDecode c; let t ← t.toNat?; let a ← a.toInt?
    if u64 ss && u64 m && u64 q && t < 256 && i64 a then pure ⟨u, ss, m, q, c, t, a⟩ else none
  | _ => none

def pKey (s : String) : Option MKey :=
  match s.splitOn "," with
  | [u, ss, m] => do
    let u ← hexDecode u; let ss ← ss.toNat?; let m ← m.toNat?
    pure ⟨u, ss, m⟩
  | _ => none

inductive TokRef
  | lit (n : Nat)
  | own (j : Nat)

def pTokRef (s : String) : Option TokRef :=
  if s.startsWith "$" then ((s.drop 1).toString.toNat?).map TokRef.own
  else (s.toNat?).bind (fun n => if u64 n then some (TokRef.lit n) else none)

/-- ops allowed inside a concurrent window (single shard, single critical section) -/
inductive COp
  | bind (p : Pend)
  | finish (p : Pend) (t : TokRef)
  | cancel (p : Pend) (t : TokRef)
  | ack (k : MKey)
  | closed (u : Str) (s : Nat)
  | count

def pCOp (s : String) : Option COp :=
  match s.splitOn "~" with
  | ["bind", p] => (pPend p).map COp.bind
  | ["finish", p, t] => do let p ← pPend p; let t ← pTokRef t; pure (.finish p t)
  | ["cancel", p, t] => do let p ← pPend p; let t ← pTokRef t; pure (.cancel p t)
  | ["ack", u, ss, m] => do
    let u ← hexDecode u; let ss ← ss.toNat?; let m ← m.toNat?
    if u64 ss && u64 m then pure (.ack ⟨u, ss, m⟩) else none
  | ["closed", u, ss] => do
    let u ← hexDecode u; let ss ← ss.toNat?
    if u64 ss then pure (.closed u ss) else none
  | ["count"] => some .count
  | _ => none

inductive POp
  | new (shards : Nat) (max : Nat)
  | op (o : Op) (batchLen : Nat)
  | conc (threads : List (List COp))

def pList {α : Type} (sep : String) (f : String → Option α) (s : String) : Option (List α) :=
  if s == "-" then some [] else (s.splitOn sep).mapM f

/-- a sequential token: a literal id, or `^n` = the n-th most recently issued token -/
def pTok (next mark : Nat) (s : String) : Option Nat :=
  if s.startsWith "%" then ((s.drop 1).toString.toNat?).bind (fun n => if u64 n then some (mark - n) else none)
  else if s.startsWith "^" then ((s.drop 1).toString.toNat?).bind (fun n => if u64 n then some (next - n) else none)
  else (s.toNat?).bind (fun n => if u64 n then some n else none)

def parseOp (next mark : Nat) (line : String) : Option POp :=
  let f := line.splitOn " "
  if f.any (· == "") then none else
  match f with
  | ["new", s, m] => do
    let s ← s.toNat?; let m ← m.toNat?
    if s < 65536 && m < 65536 then pure (.new s m) else none
  | ["now", n] => do
    let n ← n.toInt?
    if i64 n then pure (.op (.setNow n) 0) else none
  | ["bind", p] => (pPend p).map (fun p => .op (.bind p) 0)
  | ["bindc", p] => (pPend p).map (fun p => .op (.bindCompat p) 0)
  | "bindb" :: ps => do
    let ps ← ps.mapM pPend
    pure (.op (.bindBatch ps) ps.length)
  | ["finish", p, t] => do
    let p ← pPend p; let t ← pTok next mark t
    pure (.op (.finish p t) 0)
  | ["cancel", p, t] => do
    let p ← pPend p; let t ← pTok next mark t
    pure (.op (.cancel p t) 0)
  | ["finishb", ps, ts, is] => do
    let ps ← pList ";" pPend ps
    let ts ← pList "," (pTok next mark) ts
    let is ← pList "," (fun x => (x.toInt?).bind (fun n => if i64 n then some n else none)) is
    pure (.op (.finishBatch ps ts is) 0)
  | ["ack", u, ss, m] => do
    let u ← hexDecode u; let ss ← ss.toNat?; let m ← m.toNat?
    if u64 ss && u64 m then pure (.op (.ack ⟨u, ss, m⟩) 0) else none
  | ["closed", u, ss] => do
    let u ← hexDecode u; let ss ← ss.toNat?
    if u64 ss then pure (.op (.closed u ss) 0) else none
  | ["expire", t] => do
    let t ← t.toInt?
    if i64 t then pure (.op (.expire t) 0) else none
  | ["count"] => pure (.op .count 0)
  | ["reset"] => pure (.op .reset 0)
  | "conc" :: ths => do
    if ths.isEmpty || ths.length > 4 then none else
    let ths ← ths.mapM (fun th => (th.splitOn "+").mapM pCOp)
    if ths.any (fun t => t.length > 4) then none else pure (.conc ths)
  | _ => none

def pSect (tag : String) (s : String) : Option (List String) :=
  match s.splitOn " " with
  | t :: items => if t == tag && items.all (· ≠ "") then some items else none
  | [] => none

def pEntry (s : String) : Option (MKey × Entry) :=
  match s.splitOn ":" with
  | [k, c, pr, p, ex] => do
    let k ← pKey k; let c ← c.toNat?; let pr ← pr.toNat?; let p ← pPend p
    let ex ← pList ";" (fun a => match a.splitOn "@" with
      | [t, q] => do let t ← t.toNat?; let q ← pPend q; pure (t, q)
      | _ => none) ex
    pure (k, { pending := p, committed := c == 1, primary := pr, extras := ex })
  | _ => none

structure Impl where
  entries : List (MKey × Entry)
  count : Int
  next : Nat
  sessions : List String

def pDump (raw : String) : Option Impl :=
  match raw.splitOn " | " with
  | [hd, e, s] =>
    match hd.splitOn " " with
    | [c, n] => do
      let c ← (c.dropPrefix? "C=").bind (fun x => x.toString.toInt?)
      let n ← (n.dropPrefix? "N=").bind (fun x => x.toString.toNat?)
      let es ← (← pSect "E" e).mapM pEntry
      let ss ← pSect "S" s
      pure { entries := es, count := c, next := n, sessions := ss }
    | _ => none
  | _ => none

/-! ### judge -/

def implSt (cfg : St) (im : Impl) : St :=
  { cfg with entries := im.entries, count := im.count, nextTok := im.next }

/-- entries of keys not selected by `aff` are identical before and after -/
def othersSame (prev cur : List (MKey × Entry)) (aff : MKey → Bool) : Bool :=
  prev.all (fun ke => aff ke.1 || aget ke.1 cur == some ke.2) &&
  cur.all (fun ke => aff ke.1 || aget ke.1 prev == some ke.2)

def invariants (s : St) (im : Impl) : String :=
  if !countExact s then "viol:count-not-outstanding"
  else if !s.entries.all (entryOK s.nextTok) then "viol:entry-unjustified"
  else if s.maxPer > 0 && (sessionIndex ((sortBy (fun a b => keyLt a.1 b.1) s.entries).map (·.1))).any (fun g => decide ((g.2.length : Int) > s.maxPer)) then "viol:session-limit-exceeded"
  else if im.sessions != renderSessions (sessionIndex ((sortBy (fun a b => keyLt a.1 b.1) s.entries).map (·.1))) then "viol:session-index"
  else "ok"

def sameSet (a b : List (MKey × Entry)) : Bool :=
  a.length == b.length && a.all (fun ke => aget ke.1 b == some ke.2)

/-- sequential op: the exactness predicates of the property on (previous dump, op, result, dump) -/
def judgeOp (stale : Nat) (prev cur : St) (op : Op) (res : String) : String :=
  let one (k : MKey) : MKey → Bool := fun x => x == k
  -- a token issued before the last Reset owns nothing any more: an op carrying only such tokens
  -- must not remove, commit or alter any delivery (all of them were created after the Reset)
  let isStale (t : Nat) : Bool := t != 0 && t ≤ stale
  let staleOp : Bool := match op with
    | .finish _ t | .cancel _ t => isStale t
    | .finishBatch _ ts _ => ts.any isStale && ts.all (fun t => t == 0 || isStale t)
    | _ => false
  if staleOp && !(sameSet prev.entries cur.entries && prev.count == cur.count) then "viol:stale-token-affected-new-delivery" else
  match op with
  | .ack k =>
    let before := aget k prev.entries
    if !othersSame prev.entries cur.entries (one k) then "viol:ack-touched-other-delivery"
    else if (aget k cur.entries).isSome then "viol:ack-did-not-remove"
    else if res != renderOut (.acked (before.map (·.pending))) then "viol:ack-wrong-result"
    else "ok"
  | .closed u ss =>
    let gone := if u = [] ∨ ss = 0 then [] else prev.entries.filter (fun ke => inSession u ss ke.1)
    if !sameSet cur.entries (prev.entries.filter (fun ke => !gone.any (fun g => g.1 == ke.1))) then "viol:session-close-inexact"
    else if res != renderPends (gone.map (·.2.pending)) then "viol:session-close-wrong-result"
    else "ok"
  | .expire ttl =>
    let cutoff := prev.now - ttlSeconds ttl
    let gone := if ttl ≤ 0 then [] else prev.entries.filter (fun ke => !ke.2.freshAfter cutoff)
    if !sameSet cur.entries (prev.entries.filter (fun ke => !gone.any (fun g => g.1 == ke.1))) then "viol:expire-inexact"
    else if res != renderPends (gone.map (·.2.pending)) then "viol:expire-wrong-result"
    else "ok"
  | .cancel p _ =>
    let k := p.key
    if !othersSame prev.entries cur.entries (one k) then "viol:cancel-touched-other-delivery"
    else match aget k prev.entries with
      | some e =>
        if e.committed then
          (match aget k cur.entries with
           | some e' => if e'.committed && e'.pending == e.pending then "ok" else "viol:cancel-changed-committed-delivery"
           | none => "viol:cancel-dropped-committed-delivery")
        else "ok"
      | none => if (aget k cur.entries).isSome then "viol:cancel-created-delivery" else "ok"
  | .bind p | .bindCompat p =>
    let k := p.key
    if !othersSame prev.entries cur.entries (one k) then "viol:bind-touched-other-delivery"
    else if (aget k prev.entries).isSome && (aget k cur.entries).isNone then "viol:bind-removed-delivery"
    else "ok"
  | .bindBatch ps =>
    if !othersSame prev.entries cur.entries (fun x => ps.any (fun p => p.key == x)) then "viol:bind-touched-other-delivery" else "ok"
  | .finish p _ =>
    let k := p.key
    if !othersSame prev.entries cur.entries (one k) then "viol:finish-touched-other-delivery"
    else if (aget k prev.entries).isSome != (aget k cur.entries).isSome then "viol:finish-changed-outstanding-set"
    else "ok"
  | .finishBatch ps _ _ =>
    if !othersSame prev.entries cur.entries (fun x => ps.any (fun p => p.key == x)) then "viol:finish-touched-other-delivery"
    else if (outstanding prev).length != (outstanding cur).length then "viol:finish-changed-outstanding-set"
    else "ok"
  | .reset => if cur.entries.isEmpty && cur.count == 0 then "ok" else "viol:reset-not-empty"
  | .count => if res == s!"n {prev.entries.length}" && sameSet prev.entries cur.entries then "ok" else "viol:count-not-outstanding"
  | .setNow _ => if sameSet prev.entries cur.entries then "ok" else "viol:clock-changed-state"

/-! ### linearizability of one concurrent window -/

structure Th where
  ops : List COp
  res : List String
  own : List (Nat × Nat) := []   -- op index ↦ model token
  idx : Nat := 0

structure Search where
  st : St
  ths : List Th
  tokMap : List (Nat × Nat) := []  -- model token ↦ implementation token

def mapTok (m : List (Nat × Nat)) (t : Nat) : Nat := (aget t m).getD t

def mapEntry (m : List (Nat × Nat)) (e : Entry) : Entry :=
  { e with primary := if e.primary = 0 then 0 else mapTok m e.primary, extras := e.extras.map (fun a => (mapTok m a.1, a.2)) }

/-- model token meant by a token reference of a window op -/
def resolveTok (startNext : Nat) (sr : Search) (th : Th) : TokRef → Nat
  | .own j => (aget j th.own).getD 0
  | .lit n =>
    if n ≤ startNext then n
    else match sr.tokMap.find? (fun p => p.2 == n) with
      | some p => p.1
      | none => 2 ^ 64 + n   -- names no token of the model state

/-- run thread `i`'s next op on the model; `none` if its result differs from the observed one -/
def advance (startNext : Nat) (sr : Search) (i : Nat) : Option Search :=
  match sr.ths[i]? with
  | none => none
  | some th =>
    match th.ops, th.res with
    | op :: ops', r :: res' =>
      let fin (st : St) (own : List (Nat × Nat)) (tm : List (Nat × Nat)) : Search :=
        { st := st, tokMap := tm, ths := sr.ths.set i { ops := ops', res := res', own := own, idx := th.idx + 1 } }
      match op with
      | .bind p =>
        let (st', br) := bind sr.st p
        -- observed: b~bound~added~tok~count
        match r.splitOn "~" with
        | ["b", bo, ad, tk, cn] =>
          match tk.toNat? with
          | some it =>
            if bo == b01 br.bound && ad == b01 br.added && cn == toString br.count && ((it == 0) == (br.tok == 0)) then
              if br.tok == 0 then some (fin st' th.own sr.tokMap)
              else if sr.tokMap.any (fun p => p.2 == it) then none
              else some (fin st' ((th.idx, br.tok) :: th.own) ((br.tok, it) :: sr.tokMap))
            else none
          | none => none
        | _ => none
      | .finish p t =>
        let (st', b) := finish sr.st p (resolveTok startNext sr th t)
        if r == b01 b then some (fin st' th.own sr.tokMap) else none
      | .cancel p t =>
        let (st', c) := cancel sr.st p (resolveTok startNext sr th t)
        if r == s!"c~{b01 c.canceled}~{b01 c.removed}~{c.count}" then some (fin st' th.own sr.tokMap) else none
      | .ack k =>
        let (st', a) := ack sr.st k
        if r == (renderOut (.acked a)).replace " " "~" then some (fin st' th.own sr.tokMap) else none
      | .closed u ss =>
        let (st', ps) := sessionClosed sr.st u ss
        if r == (renderPends ps).replace " " "~" then some (fin st' th.own sr.tokMap) else none
      | .count => if r == s!"n~{sr.st.count}" then some (fin sr.st th.own sr.tokMap) else none
    | _, _ => none

/-- depth-first search over interleavings; `fuel` ≥ total number of ops -/
def linearize (startNext : Nat) (target : String) : Nat → Search → Bool
  | 0, sr => sr.ths.all (fun t => t.ops.isEmpty) &&
      renderState { sr.st with entries := sr.st.entries.map (fun ke => (ke.1, mapEntry sr.tokMap ke.2)) } == target
  | fuel + 1, sr =>
    if sr.ths.all (fun t => t.ops.isEmpty) then linearize startNext target 0 sr
    else (List.range sr.ths.length).any (fun i =>
      match advance startNext sr i with
      | some sr' => linearize startNext target fuel sr'
      | none => false)

/-! ### driver step -/

structure DSt where
  model : St := {}
  prev : St := {}     -- the implementation's previous dumped state (config and clock from the ops)
  mark : Nat := 0     -- model allocator value at the last Reset (resolves `%k` token references)
  stale : Nat := 0    -- implementation allocator value at the last Reset: tokens ≤ stale predate it

def splitImpl (impl : String) : Option (String × String) :=
  match impl.splitOn " || " with
  | [res, raw] => some (res, raw)
  | _ => none

def stepDrv (st : DSt) (opLine impl : String) : DSt × String × String :=
  match parseOp st.model.nextTok st.mark opLine with
  | none => (st, "bad-op", "ok")
  | some pop =>
    match pop with
    | .conc ths =>
      (match splitImpl impl with
       | none => (st, "-", "viol:unparseable-output")
       | some (res, raw) =>
         match pDump raw, res.splitOn " " with
         | some im, "conc" :: rs =>
           let cur := implSt st.model im
           let inv := invariants cur im
           if rs.length != ths.length then ({ st with model := cur, prev := cur }, "-", "viol:unparseable-output") else
           let threads := (ths.zip rs).map (fun (ops, r) => ({ ops := ops, res := r.splitOn "+" } : Th))
           if threads.any (fun t => t.ops.length != t.res.length) then ({ st with model := cur, prev := cur }, "-", "viol:unparseable-output") else
           let total := (ths.map List.length).sum
           -- start from the implementation's own previous dump, so an earlier divergence is not blamed on the window
           let ok := linearize st.prev.nextTok raw (total + 1) { st := st.prev, ths := threads }
           let v := if !ok then "viol:not-linearizable" else inv
           ({ st with model := cur, prev := cur }, "-", v)
         | _, _ => (st, "-", "viol:unparseable-output"))
    | .new shards maxp =>
      let m : St := { shards := if shards == 0 then 32 else shards, maxPer := maxp }
      let mout := "ok || " ++ renderState m
      (match splitImpl impl with
       | some (_, raw) =>
         match pDump raw with
         | some im => ({ model := m, prev := implSt m im }, mout, invariants (implSt m im) im)
         | none => ({ model := m, prev := m }, mout, "viol:unparseable-output")
       | none => ({ model := m, prev := m }, mout, "viol:unparseable-output"))
    | .op o blen =>
      let (m', out) := step st.model o
      let mout := renderOut out blen ++ " || " ++ renderState m'
      match splitImpl impl with
      | none => ({ st with model := m' }, mout, "viol:unparseable-output")
      | some (res, raw) =>
        match pDump raw with
        | none => ({ st with model := m' }, mout, "viol:unparseable-output")
        | some im =>
          -- config and clock are inputs: take them from the model side
          let cur := implSt m' im
          let inv := invariants cur im
          let v := if inv != "ok" then inv else judgeOp st.stale st.prev cur o res
          let isReset := match o with
            | .reset => true
            | _ => false
          ({ model := m', prev := cur, mark := if isReset then st.model.nextTok else st.mark,
             stale := if isReset then max st.stale st.prev.nextTok else st.stale }, mout, v)

end C32Drv

def main : IO Unit := Drv.main { init := ({} : C32Drv.DSt), step := C32Drv.stepDrv }

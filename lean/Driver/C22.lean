import WK.Prelude.Drv
import WK.Model.C22_Text
import WK.Spec.C22
/-
  C22 driver.  Ops and outputs: see harness/C22/c22.go.
  model out = the Lean codec model on the same op;
  verdict   = the property judged on the IMPLEMENTATION's output:
    enc, frame within protocol limits:  encode must succeed, size == len, the
         decoder must return `norm v f` and consume exactly len bytes (trailing
         `rest` untouched), and the Framer's RemainingLength must be consistent;
    enc, any frame that encoded:        size == len;
    dec:  consumed ≤ input length, ≥ 1, header arithmetic consistent;
    var:  0 < n < 2^28 ⇒ decodeLength(encode n ++ rest) = (n, len), size == len;
    hdr:  type 1..12 ⇒ the byte decodes to the same type and the normalised flags.
-/
open WK WK.C22

def tokNat (toks : List String) (key : String) : Option Nat :=
  match toks.find? (fun t => t.startsWith (key ++ "=")) with
  | some t => (valOf t).toNat?
  | none => none

/-- split the decode part `dec <frame…> n=.. rl=.. fs=..` into (frame text, n, rl, fs) -/
def splitDec (s : String) : Option (String × Nat × Nat × Nat) :=
  let toks := fields s
  match toks with
  | "dec" :: rest =>
    let k := rest.length
    if k < 4 then none else
    let fr := rest.take (k - 3)
    match (rest.drop (k - 3)) with
    | [a, b, c] =>
      if a.startsWith "n=" ∧ b.startsWith "rl=" ∧ c.startsWith "fs=" then
        match (valOf a).toNat?, (valOf b).toNat?, (valOf c).toNat? with
        | some n, some rl, some fs => some (" ".intercalate fr, n, rl, fs)
        | _, _, _ => none
      else none
    | _ => none
  | _ => none

def judgeEnc (v : Nat) (f : Frame) (impl : String) : String :=
  let parts := impl.splitOn " ; "
  let head := fields (parts.headD "")
  let within := decide (WithinLimits v f)
  match head with
  | "ok" :: l :: s :: _ =>
    match (valOf l).toNat?, (valOf s).toNat? with
    | some len, some sz =>
      if len ≠ sz then "viol:size-mismatch"
      else if !within then "ok"
      else
        match parts with
        | [_, d] =>
          match splitDec d with
          | none => "viol:decode-failed-within-limits"
          | some (fr, n, rl, _) =>
            if n ≠ len then "viol:consumed-mismatch"
            else if fr ≠ showFrame (norm v f) then "viol:roundtrip-mismatch"
            else if f.typeNo ≠ 7 ∧ f.typeNo ≠ 8 ∧ 1 + varSize rl + rl ≠ n then "viol:remaining-length-mismatch"
            else "ok"
        | _ => "viol:unparseable-output"
    | _, _ => "viol:unparseable-output"
  | _ => if within then "viol:encode-failed-within-limits" else "ok"

/-- model side of the re-encode probe of a `dec` op -/
def showReencode (v : Nat) (data : Bytes) : String :=
  match decodeFrame v data with
  | .ok f _ =>
    match encodeFrame v f with
    | .error .err => " ; re=encerr"
    | .error .panic => " ; re=encpanic"
    | .ok bs => s!" ; re=ok len={bs.length} ; " ++ showDec v bs
  | _ => ""

/-- `dec` on arbitrary bytes, judged on the implementation's output: consumed bounds, and
    — whenever the frame the implementation decoded is within the protocol limits (it is
    parsed back from the implementation's own text) — the round trip of THAT frame:
    it must re-encode, to at most the bytes consumed, and decode again to its normal form. -/
def judgeDec (v : Nat) (data : Bytes) (impl : String) : String :=
  if impl = "need" ∨ impl = "err" then "ok" else
  let parts := impl.splitOn " ; "
  match splitDec (parts.headD "") with
  | none => "viol:unparseable-output"
  | some (frText, n, _, _) =>
    if n = 0 then "viol:no-progress-with-frame"
    else if n > data.length then "viol:consumed-more-than-given"
    else
      match parseFrame (fields frText) with
      | none => "ok"                       -- long fields are shown as digests: not re-parsable, not judged
      | some f =>
        if !decide (WithinLimits v f) then "ok" else
        match parts with
        | [_, re, d2] =>
          match fields re with
          | ["re=ok", l] =>
            match (valOf l).toNat?, splitDec d2 with
            | some len, some (fr2, n2, _, _) =>
              if len > n then "viol:reencode-longer-than-consumed"
              else if n2 ≠ len then "viol:reencode-consumed-mismatch"
              else if fr2 ≠ showFrame (norm v f) then "viol:reencode-roundtrip-mismatch"
              else "ok"
            | _, _ => "viol:reencode-decode-failed"
          | _ => "viol:reencode-failed-within-limits"
        | _ => "viol:reencode-failed-within-limits"

def c22Step (_ : Unit) (op impl : String) : Unit × String × String :=
  let bad := ((), "bad-op", "ok")
  match fields op with
  | "enc" :: vs :: rs :: ftoks =>
    if !rs.startsWith "rest=" then bad else
    match vs.toNat?, parseBytes (valOf rs), parseFrame ftoks with
    | some v, some rest, some f =>
      if v > 255 then bad else
      let m := match encodeFrame v f with
        | .error .err => s!"encerr size={encodedSize v f}"
        | .error .panic => "encpanic"
        | .ok bs => s!"ok len={bs.length} size={encodedSize v f} bytes={showBytes bs} ; " ++ showDec v (bs ++ rest)
      ((), m, judgeEnc v f impl)
    | _, _, _ => bad
  | ["dec", vs, hs] =>
    match vs.toNat?, parseBytes hs with
    | some v, some data =>
      if v > 255 ∨ data.isEmpty then bad else
      ((), showDec v data ++ showReencode v data, judgeDec v data impl)
    | _, _ => bad
  | ["var", ns, rs] =>
    if !rs.startsWith "rest=" then bad else
    match ns.toNat?, parseBytes (valOf rs) with
    | some n, some rest =>
      if n ≥ 4294967296 then bad else
      let bs := encVar n
      let d := match decLen (bs ++ rest) with
        | none => "errlen"
        | some (rl, c) => s!"{rl},{c}"
      let m := s!"bytes={showBytes bs} size={varSize n} dec={d}"
      -- judge on the implementation's output
      let itoks := fields impl
      let verdict :=
        match itoks with
        | [ib, isz, idec] =>
          match parseBytes (valOf ib), (valOf isz).toNat? with
          | some ibs, some sz =>
            if sz ≠ ibs.length then "viol:varint-size-mismatch"
            else if 0 < n ∧ n < 268435456 ∧ valOf idec ≠ s!"{n},{ibs.length}" then "viol:varint-roundtrip"
            else "ok"
          | _, _ => "viol:unparseable-output"
        | _ => "viol:unparseable-output"
      ((), m, verdict)
    | _, _ => bad
  | ["dlen", hs] =>
    match parseBytes hs with
    | some data =>
      let m := match decLen data with
        | none => "errlen"
        | some (rl, c) => s!"{rl},{c}"
      -- never claims to have consumed more than one byte past the data it looked at
      let verdict :=
        if impl = "errlen" then "ok" else
        match (impl.splitOn ",").map String.toNat? with
        | [some _, some c] => if c > data.length + 1 ∨ c > 5 then "viol:varint-overread" else "ok"
        | _ => "viol:unparseable-output"
      ((), m, verdict)
    | none => bad
  | ["hdr", fts, fls] =>
    match fts.toNat?, fls.toNat? with
    | some ft, some fl =>
      if ft > 15 ∨ fl > 63 then bad else
      let h := flagsOfNat fl
      let b := hdrByte ft h
      let back := flagsOfByte b
      let m := s!"byte={b.toNat} ft={typeOfByte b} fl={flagsToNat back}"
      let want := if ft = 2 then normConnackFlags h else normFlags h
      let verdict :=
        if tokNat (fields impl) "ft" ≠ some ft then "viol:header-type"
        else if tokNat (fields impl) "fl" ≠ some (flagsToNat want) then "viol:header-flags"
        else "ok"
      ((), m, verdict)
    | _, _ => bad
  | ["fhdr", bs] =>
    match bs.toNat? with
    | some b =>
      if b > 255 then bad else
      let u := UInt8.ofNat b
      ((), s!"ft={typeOfByte u} fl={flagsToNat (flagsOfByte u)}", "ok")
    | none => bad
  | _ => bad

def main : IO Unit := Drv.main { init := (), step := c22Step }

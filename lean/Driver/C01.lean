import WK.Spec.C01
open WK WK.Repl
/-
  C01 driver: model output (compared with the implementation) + the C01 judge on the
  implementation's observation.  ops/output: see harness/C01/repl_core.go.
-/
def main : IO Unit := Drv.main { init := ({} : DS), step := replStep WK.C01.judge }

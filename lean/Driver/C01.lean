import WK.Model.ReplDrv
open WK WK.Repl

structure DS where
  sys : Sys := Sys.default
  tbl : List Dig := []

def c01Step (st : DS) (op impl : String) : DS × String × String :=
  match parseOp op with
  | none => (st, "bad-op", "ok")
  | some o =>
    let (sys, res) := step st.sys o
    let (tbl, out) := renderAll st.tbl sys res
    ({ sys := sys, tbl := tbl }, out, "ok")

def main : IO Unit := Drv.main { init := {}, step := c01Step }

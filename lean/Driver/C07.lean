import WK.Prelude.Drv
import WK.Spec.C07
/-
  C07 driver.  Ops: see harness/C07/c07.go.  For every op the driver runs
    * the MODEL (WK.C07.step: explicit indexes + LEO cache, mirrors the code) → modelOut,
      compared textually with the implementation;
    * the REFERENCE sequential log (WK.C07.specStep) → the judge: the
      implementation's output must be what the simple log returns.
  Verdict classes:
    ok
    viol:<op>-differs-from-sequential-log          (the property is false on this history)
    viol:empty-payload-row-unreadable              (a defect that was repaired in /repo: an accepted empty-payload
                                                    row made every read over it fail ErrCorruptState; reported if it returns)
    viol:leo-resurrects-after-truncate-below-retained-max   (known behaviour of the unchanged code, reproduced by the
                                                    model: only when impl = model and the case holds a raw TruncateFrom
                                                    below the durable RetainedMaxSeq left by an earlier prefix trim)
  A caller-contract breach (see Spec) makes the rest of the case unspecified.
-/
open WK WK.C07

namespace C07Drv

def maxNum : Nat := 4294967296

def num? (s : String) : Option Nat :=
  if s.isEmpty ∨ !(s.all Char.isDigit) then none
  else match s.toNat? with
    | some n => if n < maxNum then some n else none
    | none => none

def hex? (s : String) : Option Bytes :=
  if s == "-" then some []
  else if s.all (fun c => ('0' ≤ c ∧ c ≤ '9') ∨ ('a' ≤ c ∧ c ≤ 'f')) then hexDecodeChars s.toList
  else none

def rec? (s : String) : Option Rec :=
  match s.splitOn ":" with
  | [a, b, c, d, e] => do
    let id ← num? a
    let frm ← hex? b
    let cmn ← hex? c
    let pay ← hex? d
    let ts ← num? e
    if ts = 0 then none else pure { id := id, frm := frm, cmn := cmn, payload := pay, ts := ts }
  | _ => none

def recs? : List String → Option (List Rec)
  | [] => some []
  | s :: t => do
    let r ← rec? s
    let rs ← recs? t
    pure (r :: rs)

def nums? : List String → Option (List Nat)
  | [] => some []
  | s :: t => do
    let r ← num? s
    let rs ← nums? t
    pure (r :: rs)

def ck? (s : String) : Option (Option Ckpt) :=
  if s == "-" then some none
  else match s.splitOn ":" with
    | [a, b, c] => do
      let e ← num? a
      let l ← num? b
      let h ← num? c
      pure (some ⟨e, l, h⟩)
    | _ => none

inductive Cmd
  | op (o : Op)
  | dump (c : Nat)

def chan? (s : String) : Option Nat := do
  let c ← num? s
  if c < numChan then pure c else none

def parse (line : String) : Option Cmd :=
  match fields line with
  | ["reopen"] => some (.op .reopen)
  | "app" :: c :: mode :: base :: rest => do
    let c ← chan? c
    let mode ← num? mode
    let base ← num? base
    if mode > 3 then none
    let rs ← recs? rest
    pure (.op (.app c mode base rs))
  | "fetch" :: c :: base :: ck :: rest => do
    let c ← chan? c
    let base ← num? base
    let ck ← ck? ck
    let rs ← recs? rest
    pure (.op (.fetch c base ck rs))
  | ["trunc", c, f] => do pure (.op (.trunc (← chan? c) (← num? f)))
  | ["trim", c, t, mm, mb] => do pure (.op (.trim (← chan? c) (← num? t) (← num? mm) (← num? mb)))
  | ["ckpt", c, e, l, h] => do pure (.op (.ckpt (← chan? c) ⟨← num? e, ← num? l, ← num? h⟩))
  | ["ckptm", c, e, l, h, v, leo] => do
    pure (.op (.ckptm (← chan? c) ⟨← num? e, ← num? l, ← num? h⟩ (← num? v) (← num? leo)))
  | ["close", c] => do pure (.op (.close (← chan? c)))
  | ["leo", c] => do pure (.op (.leo (← chan? c)))
  | ["lret", c] => do pure (.op (.lret (← chan? c)))
  | ["lckpt", c] => do pure (.op (.lckpt (← chan? c)))
  | ["read", c, f, l, b] => do pure (.op (.read (← chan? c) (← num? f) (← num? l) (← num? b)))
  | ["rread", c, f, l, b] => do pure (.op (.rread (← chan? c) (← num? f) (← num? l) (← num? b)))
  | ["get", c, s] => do pure (.op (.get (← chan? c) (← num? s)))
  | ["byid", c, s] => do pure (.op (.byid (← chan? c) (← num? s)))
  | ["lastvis", c, s] => do pure (.op (.lastvis (← chan? c) (← num? s)))
  | ["bycmn", c, cmn, b, l] => do pure (.op (.bycmn (← chan? c) (← hex? cmn) (← num? b) (← num? l)))
  | ["idem", c, f, m] => do pure (.op (.idem (← chan? c) (← hex? f) (← hex? m)))
  | ["lss", c, f, t] => do pure (.op (.lss (← chan? c) (← hex? f) (← num? t)))
  | ["dump", c] => do pure (.dump (← chan? c))
  | _ => none

/-! rendering -/
def errStr : Err → String
  | .invalid => "err:invalid"
  | .conflict => "err:conflict"
  | .corruptstate => "err:corruptstate"
  | .corruptvalue => "err:corruptvalue"

def rowStr (r : Row) : String :=
  s!"{r.seq}:{r.id}:{hexEncode r.frm}:{hexEncode r.cmn}:{hexEncode r.payload}:{r.ts}:{r.hash}"

def rowsStr (l : List Row) : String := l.foldl (fun s r => s ++ " " ++ rowStr r) ""

def render : Out → String
  | .ok => "ok"
  | .none => "none"
  | .err e => errStr e
  | .app b l n => s!"ok {b} {l} {n}"
  | .trim t d m => s!"ok {t} {d} {boolStr m}"
  | .num n => s!"ok {n}"
  | .ret r => s!"ok {r.loc} {r.phys} {r.max}"
  | .ck k => s!"ok {k.epoch} {k.lso} {k.hw}"
  | .msgs l => "ok" ++ rowsStr l
  | .msg r => "ok " ++ rowStr r
  | .page m n l => s!"ok {boolStr m} {n}" ++ rowsStr l
  | .hit s i o h => s!"ok {s} {i} {o} {h}"
  | .bad => "bad-op"

/-! key universe of a case (what `dump` iterates over) -/
def bytesLt : List UInt8 → List UInt8 → Bool
  | [], [] => false
  | [], _ :: _ => true
  | _ :: _, [] => false
  | a :: x, b :: y => if a < b then true else if b < a then false else bytesLt x y

def insSorted {α} (lt : α → α → Bool) (x : α) : List α → List α
  | [] => [x]
  | y :: t => if lt x y then x :: y :: t else if lt y x then y :: insSorted lt x t else y :: t

structure Univ where
  ids : List Nat := []
  froms : List Bytes := []
  cmns : List Bytes := []

def Univ.add (u : Univ) (recs : List Rec) : Univ :=
  recs.foldl (fun u r => { ids := insSorted (fun a b => decide (a < b)) r.id u.ids,
                           froms := insSorted bytesLt r.frm u.froms,
                           cmns := insSorted bytesLt r.cmn u.cmns }) u

def commas (s : String) : String := s.replace " " ","

/-- the dump, generic in the transition function (model or reference) -/
def dumpWith {σ} (stepf : σ → Op → σ × Out) (st : σ) (c : Nat) (u : Univ) : σ × String :=
  let (st, oLeo) := stepf st (.leo c)
  let (st, oF) := stepf st (.read c 0 0 0)
  let (st, oR) := stepf st (.rread c 0 0 0)
  let leo := match oLeo with | .num n => n | _ => 0
  let upper := if leo + 1 > 200 then 200 else leo + 1
  let gets := (List.range upper).foldl (fun s i =>
    s ++ " " ++ (match (stepf st (.get c (i + 1))).2 with
      | .msg r => rowStr r
      | o => render o)) "get"
  let oRet := (stepf st (.lret c)).2
  let oCk := (stepf st (.lckpt c)).2
  let oLv := (stepf st (.lastvis c 0)).2
  let byid := u.ids.foldl (fun s id =>
    s ++ s!" {id}=" ++ (match (stepf st (.byid c id)).2 with
      | .msg r => toString r.seq
      | o => render o)) "byid"
  let idem := u.froms.foldl (fun s f => u.cmns.foldl (fun s m =>
    s ++ " " ++ hexEncode f ++ "/" ++ hexEncode m ++ "=" ++ commas (render (stepf st (.idem c f m)).2)) s) "idem"
  let bycmn := u.cmns.foldl (fun s m =>
    s ++ " " ++ hexEncode m ++ "=" ++ (match (stepf st (.bycmn c m 0 1000)).2 with
      | .page _ _ l => l.foldl (fun s r => s ++ "," ++ toString r.seq) "ok"
      | o => render o)) "bycmn"
  let lss := u.froms.foldl (fun s f =>
    s ++ " " ++ hexEncode f ++ "=" ++ commas (render (stepf st (.lss c f (maxNum - 1))).2)) "lss"
  (st, " | ".intercalate ["leo " ++ render oLeo, "fwd " ++ render oF, "rev " ++ render oR, gets,
    "ret " ++ render oRet, "ck " ++ render oCk, "lastvis " ++ render oLv, byid, idem, bycmn, lss])

structure St where
  m : Store := Store.init
  s : SStore := SStore.init
  u : Univ := {}
  breach : Bool := false      -- rest of the case is unspecified (contract breach, or a known divergence was reported)
  emptyP : List Nat := []     -- channels holding an accepted empty-payload row
  truncA : List Nat := []     -- channels truncated (raw TruncateFrom) below the durable RetainedMaxSeq of an earlier trim
  truncR : List Nat := []     -- ... and the whole DB was reopened afterwards (recoverLEO ran on that state)

def kindOf (line : String) : String := (fields line).headD "op"

/-- first differing section of two dumps -/
def firstDiff (a b : String) : String :=
  let rec go : List String → List String → String
    | x :: xs, y :: ys => if x = y then go xs ys else (fields x).headD "dump"
    | _, _ => "dump"
  go (a.splitOn " | ") (b.splitOn " | ")

def hasSub (s sub : String) : Bool := (s.splitOn sub).length > 1

def stepDrv (st : St) (line impl : String) : St × String × String :=
  match parse line with
  | none => (st, "bad-op", "ok")
  | some cmd =>
    -- run model and reference
    let (m', mStr, s', sStr, chan, u', brk, emp, trn) : Store × String × SStore × String × Option Nat × Univ × Bool × Bool × Bool :=
      match cmd with
      | .dump c =>
        let (m', ms) := dumpWith step st.m c st.u
        let (s', ss) := dumpWith specStep st.s c st.u
        (m', ms, s', ss, some c, st.u, false, false, false)
      | .op o =>
        let (m', mo) := step st.m o
        let (s', so) := specStep st.s o
        let accepted := match so with | .app _ _ n => n > 0 | _ => false
        let u' := match o with
          | .app _ _ _ recs => st.u.add recs
          | .fetch _ _ _ recs => st.u.add recs
          | _ => st.u
        (m', render mo, s', render so, o.chanOf, u',
          accepted && breachOf st.s o, accepted && emptyPayloadOf o, truncBelowRetained st.s o)
    let onChan (l : List Nat) : Bool := match chan with | some c => l.contains c | none => false
    let addChan (b : Bool) (l : List Nat) : List Nat :=
      match chan with | some c => if b ∧ !l.contains c then c :: l else l | none => l
    let st1 : St := { st with m := m', s := s', u := u', breach := st.breach || brk,
                              emptyP := addChan emp st.emptyP, truncA := addChan trn st.truncA,
                              truncR := match cmd with
                                | .op .reopen => st.truncA.foldl (fun l c => if l.contains c then l else c :: l) st.truncR
                                | _ => st.truncR }
    if impl = sStr then (st1, mStr, "ok")
    else if st1.breach then (st1, mStr, "ok")
    else if onChan st1.emptyP ∧ hasSub impl "err:corruptstate" then
      ({ st1 with breach := true }, mStr, "viol:empty-payload-row-unreadable")
    else if impl = mStr ∧ onChan st1.truncR then
      ({ st1 with breach := true }, mStr, "viol:leo-resurrects-after-truncate-below-retained-max")
    else
      let k := match cmd with | .dump _ => "dump-" ++ firstDiff impl sStr | .op _ => kindOf line
      (st1, mStr, s!"viol:{k}-differs-from-sequential-log")

end C07Drv

def main : IO Unit := Drv.main { init := ({} : C07Drv.St), step := C07Drv.stepDrv }

import WK.Prelude.Drv
import WK.Spec.C31
/-
  C31 driver.  ops (see harness/C31/c31.go):
    cfg <workers> <queue> <batch> <ownerbatch> <ownerconc> <retrymax> <nusers> <wseed>
         impl/model out: `ok <world>` — the presence world is recomputed here from wseed (splitmix64) and compared
    phase ...   impl out: event trace (not compared)         fin   impl out: event trace
  Judge: `WK.C31.stepJ` folded over the whole trace, `finalJ` at fin.
-/
open WK WK.C31

structure C31St where
  started : Bool := false
  finished : Bool := false
  violated : Bool := false
  j : J := {}

/-- harness/C31/c31.go c31Rng (a private splitmix64, independent of harness/common) -/
def smNew (seed : UInt64) : UInt64 := seed * 0x9E3779B97F4A7C15 + 0x1234567
def smNext (s : UInt64) : UInt64 × UInt64 :=
  let s := s + 0x9E3779B97F4A7C15
  let z := s
  let z := (z ^^^ (z >>> 30)) * 0xBF58476D1CE4E5B9
  let z := (z ^^^ (z >>> 27)) * 0x94D049BB133111EB
  (s, z ^^^ (z >>> 31))

def genRoutes (u : Nat) : Nat → Nat → UInt64 → List (Nat × Nat) × UInt64
  | 0, _, s => ([], s)
  | n+1, j, s =>
    let (s, x) := smNext s
    let node := [1, 1, 2, 3].getD (x.toNat % 4) 1
    let (rest, s) := genRoutes u n (j+1) s
    ((node, u * 10 + j + 1) :: rest, s)

def genWorld : Nat → Nat → UInt64 → World
  | 0, _, _ => []
  | k+1, u, s =>
    let (s, x) := smNext s
    let n := [0, 0, 0, 1, 1, 1, 1, 2, 2, 2].getD (x.toNat % 10) 0
    let (rs, s) := genRoutes u n 0 s
    (u, rs) :: genWorld k (u+1) s

def showWorld (w : World) : String :=
  ",".intercalate (w.map (fun (u, rs) => toString u ++ "=" ++ "+".intercalate (rs.map (fun r => toString r.1 ++ "." ++ toString r.2))))

def c31Ints (xs : List String) : Option (List Nat) := xs.mapM String.toNat?

def c31Feed (st : C31St) (impl : String) (final : Bool) : C31St × String × String :=
  if impl == "bad-op" then (st, "trace", "ok") else
  match parseTrace impl with
  | none => (st, "-", "viol:unparseable-trace")
  | some evs =>
    if st.violated then (st, "-", "ok") else
    match runJ st.j evs with
    | .error e => ({ st with violated := true }, "-", "viol:" ++ e)
    | .ok j =>
      let st := { st with j := j }
      if final then
        match finalJ j with
        | .error e => ({ st with violated := true }, "-", "viol:" ++ e)
        | .ok _ => (st, "-", "ok")
      else (st, "-", "ok")

def c31Step (st : C31St) (op impl : String) : C31St × String × String :=
  match fields op with
  | "cfg" :: args =>
    match c31Ints args with
    | some [w, q, b, ob, oc, rm, nu, seed] =>
      if st.started ∨ w < 1 ∨ w > 16 ∨ q < 1 ∨ b < 1 ∨ ob < 1 ∨ oc < 1 ∨ rm < 1 ∨ rm > 8 ∨ nu < 1 ∨ nu > 64 then (st, "bad-op", "ok") else
      let world := genWorld nu 1 (smNew (UInt64.ofNat seed))
      ({ st with started := true, j := { world := world, retryMax := rm } }, "ok " ++ showWorld world, "ok")
    | _ => (st, "bad-op", "ok")
  | "phase" :: args =>
    match c31Ints args with
    | some [_, nch, nmsg, fan, _, _, _, _, _, act] =>
      if ¬ st.started ∨ st.finished ∨ nch < 1 ∨ nch > 16 ∨ nmsg < 1 ∨ nmsg > 200 ∨ fan < 1 ∨ act > 1 then (st, "bad-op", "ok")
      else c31Feed st impl false
    | _ => (st, "bad-op", "ok")
  | ["longid", mb] =>
    match mb.toNat? with
    | some n => if ¬ st.started ∨ st.finished ∨ n < 1 ∨ n > 256 then (st, "bad-op", "ok") else c31Feed st impl false
    | none => (st, "bad-op", "ok")
  | ["fin"] =>
    if ¬ st.started ∨ st.finished then (st, "bad-op", "ok") else
    let st := { st with finished := true }
    if impl == "inconclusive" then (st, "-", "ok")
    else if impl.startsWith "STUCK" then (st, "-", "viol:stop-never-completes")
    else c31Feed st impl true
  | _ => (st, "bad-op", "ok")

def main : IO Unit := Drv.main { init := {}, step := c31Step }

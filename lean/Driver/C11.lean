import WK.Prelude.Drv
import WK.Model.C09_Drv
import WK.Model.C11
/-
  C11 driver.  Ops: see harness/C11/c11.go.
    m <C09 mutation>      model = C09's plan/step on the source store (result only)
    export c:hw ...       model = exportAll; out `ok ch= msgs= maxid= crcok=true` | err
    import|retry mode     model = importStream into a fresh / the same target; out `ok … same=true # <dump>`
  Judge (on the implementation's output):
    * import/retry: re-export of the restored store is byte-identical (`same=true`); the restored dump
      satisfies the store invariant; no row above the exported hw; recovered LEO of every cut channel
      ≤ its hw (`viol:restored-leo-above-hw` otherwise);
    * corrupt / sweep: every single-byte flip, truncation, extension is rejected and leaves nothing behind;
      CRC-fixed corruptions are rejected without leaving anything behind, or accepted as a whole;
    * metadata: restored raw dump = source raw dump of the exported spans, re-export identical, nothing else written.
-/
open WK WK.C09 WK.C11

namespace C11D

structure M where
  src : C09D.M := {}
  stream : Option (List ChanRec) := none
  cuts : List Cut := []
  dst : Option Store := none

def parseCut (s : Store) (a : String) : Option Cut :=
  match (a.splitOn ":").map C09D.num with
  | [some c, some hw] =>
    if 1 ≤ c ∧ c ≤ 3 then
      let (e, st, _, _) := curCkpt s c
      some ⟨c, e, st, hw⟩
    else none
  | _ => none

def kv (impl key : String) : Option String :=
  ((impl.splitOn " ").filterMap (fun t => match t.splitOn "=" with
    | [k, v] => if k == key then some v else none
    | _ => none)).head?

def natOf (impl key : String) : Option Nat := (kv impl key).bind String.toNat?

/-- restored-store judge: invariant, nothing above hw, recovered LEO ≤ hw for every cut channel -/
def judgeRestored (cuts : List Cut) (d : String) : String :=
  let ents := d.splitOn ";"
  let (api, kvs) := ents.partition (fun e => e.startsWith "L." || e.startsWith "F.")
  match kvs.mapM C09D.parseEntry with
  | none => "viol:dump-unparseable"
  | some s =>
    if cuts.any (fun c => (rowSeqs s c.ch).any (fun q => q > c.hw)) then "viol:row-above-exported-hw"
    else if cuts.any (fun c => leo s c.ch > c.hw) then "viol:restored-leo-above-hw"
    else if cuts.any (fun c => !api.contains s!"L.{c.ch}={leo s c.ch}") then "viol:recovered-leo-or-frontier"
    else C09D.judgeDump d

def stepOp (m : M) (op impl : String) : M × String × String :=
  let f := fields op
  let (implRes, implDump) := C09D.splitAt impl " # "
  match f with
  | "m" :: rest =>
    let (m1, res, s', _) := C09D.exec m.src rest
    ({ m with src := { m1 with store := s' } }, res, "ok")
  | "export" :: cs =>
    match cs.mapM (parseCut m.src.store) with
    | none => (m, "bad-op", "ok")
    | some cuts =>
      -- normalizeBackupChannelCuts: sorted by key, duplicates rejected
      let sorted := (cuts.toArray.qsort (fun a b => a.ch < b.ch)).toList
      let dup := (sorted.map (·.ch)).eraseDups.length ≠ sorted.length
      if cuts.any (fun c => c.hw < (curRet m.src.store c.ch).1) then
        ({ m with stream := none, cuts := [] }, "guard:cut-below-retention", "ok") else
      if dup then ({ m with stream := none, cuts := [] }, "err:invalid", "ok") else
      if sorted.any (fun c => c.st > c.hw) then ({ m with stream := none, cuts := [] }, "err:corrupt", "ok") else
      match exportAll m.src.store sorted with
      | none => ({ m with stream := none, cuts := [] }, "err:corrupt", "ok")
      | some recs =>
        ({ m with stream := some recs, cuts := sorted },
          s!"ok ch={recs.length} msgs={msgCount recs} maxid={maxId recs} crcok=true", "ok")
  | ["pimport"] =>
    -- probe every channel on the fresh target, restore, then LEO + one strict append on the same instance
    match m.stream with
    | none => (m, "no-stream", "ok")
    | some recs =>
      match importStream [] recs with
      | none => (m, "err:corrupt # " ++ C09D.dump [], "ok")
      | some t' =>
        let leos := m.cuts.map (fun c => s!"{c.ch}:{leo t' c.ch}")
        let (t2, apps) := m.cuts.foldl (fun (acc : Store × List String) c =>
          if c.ch == 3 then acc else
          let (r, s2) := step acc.1 (.app c.ch 0 [⟨900000 + c.ch, 0, 0, 0, 1⟩])
          (s2, acc.2 ++ [s!"{c.ch}:" ++ (match r with | .ok [b] => toString b | _ => r.str)])) (t', [])
        let out := s!"ok leo={",".intercalate leos} app={",".intercalate apps} # " ++ C09D.dump t2
        let verdict :=
          if kv implRes "leo" ≠ some (",".intercalate leos) then "viol:restored-leo-stale-on-same-instance"
          else if kv implRes "app" ≠ some (",".intercalate apps) then "viol:append-after-restore-at-wrong-seq"
          else match implDump with
            | some d => C09D.judgeDump d
            | none => "viol:no-dump"
        (m, out, verdict)
  | ["interrupt", pm] =>
    -- a restore interrupted in the install pass, store reopened, retried: must converge to the clean restore
    match C09D.num pm, m.stream with
    | none, _ => (m, "bad-op", "ok")
    | some p, none => (m, if p > 1000 then "bad-op" else "no-stream", "ok")
    | some p, some recs =>
      if p > 1000 then (m, "bad-op", "ok") else
      match importStream [] recs with
      | none => (m, "-", "ok")
      | some t' =>
        let first := if implRes.startsWith "int=err" then "int=err" else "int=ok"
        let out := s!"{first} retry=ok ch={recs.length} msgs={msgCount recs} maxid={maxId recs} # " ++ C09D.dump t'
        let verdict :=
          if !(implRes.startsWith "int=err retry=ok " ∨ implRes.startsWith "int=ok retry=ok ") then "viol:retry-after-interrupted-restore-failed"
          else match implDump with
            | some d =>
              let implRows := ((d.splitOn ";").filterMap C09D.parseEntry).filter (fun e => match e.1 with | .row _ _ => true | _ => false)
              let wantRows := t'.filter (fun e => match e.1 with | .row _ _ => true | _ => false)
              if wantRows.any (fun e => !implRows.contains e) then "viol:retry-loses-committed-rows"
              else if implRows.any (fun e => !wantRows.contains e) then "viol:restored-row-not-committed-in-source"
              else if d ≠ C09D.dump t' then "viol:retry-does-not-converge"
              else "ok"
            | none => "viol:no-dump"
        (m, out, verdict)
  | ["intsweep", _] =>
    if m.stream.isNone then (m, "no-stream", "ok") else
    let v := match natOf impl "n", natOf impl "retryok", natOf impl "eqclean" with
      | some n, some r, some e => if r ≠ n then "viol:retry-after-interrupted-restore-failed" else if e ≠ n then "viol:retry-does-not-converge" else "ok"
      | _, _, _ => "viol:sweep-output-malformed"
    (m, "-", v)
  | [kind, mode] =>
    if kind == "import" ∨ kind == "retry" then
      if mode ≠ "reader" ∧ mode ≠ "bytes" then (m, "bad-op", "ok") else
      match m.stream with
      | none => (m, "no-stream", "ok")
      | some recs =>
        let t := if kind == "import" then [] else m.dst.getD []
        match importStream t recs with
        | none => ({ m with dst := some t }, "err:corrupt # " ++ C09D.dump t, "ok")
        | some t' =>
          let out := s!"ok ch={recs.length} msgs={msgCount recs} maxid={maxId recs} same=true # " ++ C09D.dump t'
          let verdict :=
            if kv implRes "same" ≠ some "true" then "viol:reexport-differs"
            else match implDump with
              | some d =>
                -- the restored rows are exactly the committed rows of the (model-tracked) source
                let implRows := ((d.splitOn ";").filterMap C09D.parseEntry).filter (fun e => match e.1 with | .row _ _ => true | _ => false)
                let wantRows := t'.filter (fun e => match e.1 with | .row _ _ => true | _ => false)
                if wantRows.any (fun e => !implRows.contains e) then "viol:committed-row-missing-after-restore"
                else if implRows.any (fun e => !wantRows.contains e) then "viol:restored-row-not-committed-in-source"
                else judgeRestored m.cuts d
              | none => "viol:no-dump"
          ({ m with dst := some t' }, out, verdict)
    else if kind == "sweep" then
      if m.stream.isNone then (m, "no-stream", "ok") else
      let v :=
        match natOf impl "flips", (impl.splitOn " ").filterMap (fun t => match t.splitOn "=" with | ["rejected", v] => v.toNat? | _ => none),
              natOf impl "truncs", natOf impl "partial" with
        | some fl, [r1, r2], some tr, some p =>
          if p ≠ 0 then (if mode == "bytes" then "viol:partial-apply-bytes-path" else "viol:partial-apply")
          else if r1 ≠ fl then "viol:corrupt-byte-accepted"
          else if r2 ≠ tr then "viol:truncation-accepted"
          else "ok"
        | _, _, _, _ => "viol:sweep-output-malformed"
      (m, "-", v)
    else if kind == "xsweep" then
      let v := match natOf impl "n", natOf impl "rejected", natOf impl "partial" with
        | some n, some r, some p => if p ≠ 0 then "viol:meta-partial-apply" else if r ≠ n then "viol:meta-corrupt-accepted" else "ok"
        | _, _, _ => if impl == "no-stream" ∨ impl == "bad-op" then "ok" else "viol:sweep-output-malformed"
      (m, "-", v)
    else if kind == "ximport" ∨ kind == "xretry" then
      let v := if impl == "no-stream" ∨ impl == "bad-op" then "ok"
        else if !impl.startsWith "ok " then "viol:meta-import-failed"
        else if kv impl "eq" ≠ some "true" then "viol:meta-restored-differs"
        else if kv impl "same" ≠ some "true" then "viol:meta-reexport-differs"
        else if kv impl "extra" ≠ some "0" then "viol:meta-extra-keys"
        else "ok"
      (m, "-", v)
    else (m, "-", if f.head?.any (·.startsWith "x") then "ok" else "viol:unknown-op")
  | ["sweepfix", mode, _] =>
    if m.stream.isNone then (m, "no-stream", "ok") else
    let v := match natOf impl "partial", natOf impl "panics" with
      | some 0, some 0 => "ok"
      | some _, some 0 => if mode == "bytes" then "viol:partial-apply-bytes-path-crcfixed" else "viol:partial-apply"
      | some _, some _ => if mode == "bytes" then "viol:panic-bytes-path-crcfixed" else "viol:panic"
      | _, _ => "viol:sweep-output-malformed"
    (m, "-", v)
  | ["xforeign", _, _, _] =>
    -- a checksum-valid stream carrying a foreign-slot key must be rejected and leave the target untouched
    let v :=
      if impl.startsWith "rejected same=true" then "ok"
      else if impl.startsWith "rejected same=false" then "viol:meta-partial-apply"
      else if impl.startsWith "accepted" then "viol:meta-foreign-slot-key-accepted"
      else if impl.startsWith "guard:" ∨ impl == "no-stream" ∨ impl == "bad-op" then "ok"
      else "viol:meta-foreign-output-malformed"
    (m, "-", v)
  | ["xsweepfix", _, _] =>
    let v := match natOf impl "partial" with
      | some 0 => "ok"
      | some _ => "viol:meta-partial-apply"
      | none => if impl == "no-stream" ∨ impl == "bad-op" then "ok" else "viol:sweep-output-malformed"
    (m, "-", v)
  | ["corrupt", mode, kind, _, _] =>
    if m.stream.isNone then (m, "no-stream", "ok") else
    let v :=
      if impl.startsWith "rejected left=" then
        if impl == "rejected left=0" then "ok"
        else if kind == "fixflip" ∧ mode == "bytes" then "viol:partial-apply-bytes-path-crcfixed"
        else "viol:partial-apply"
      else if impl == "panic" then (if kind == "fixflip" ∧ mode == "bytes" then "viol:panic-bytes-path-crcfixed" else "viol:panic")
      else if impl.startsWith "accepted" then (if kind == "fixflip" then "ok" else "viol:corrupt-stream-accepted")
      else "viol:corrupt-output-malformed"
    (m, "-", v)
  | _ =>
    if f.head?.any (·.startsWith "x") then (m, "-", "ok") else (m, "bad-op", "ok")

end C11D

def main : IO Unit := Drv.main { init := ({} : C11D.M), step := C11D.stepOp }

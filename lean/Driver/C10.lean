import WK.Prelude.Drv
import WK.Spec.C10
/-
  C10 driver.  Ops: see harness/C10/c10.go.  model = WK.C10 functions over the
  C07 channel state; judge = read bounds / no barrier record / floor monotone /
  physical ≤ logical / trim gate, evaluated on the implementation's output.
-/
open WK WK.C07 WK.C10

namespace C10Drv

def maxNum : Nat := 4294967296
def nChan : Nat := 3

def digits (s : String) : Bool := !s.isEmpty ∧ s.all Char.isDigit
def num? (s : String) : Option Nat :=
  if !digits s then none else match s.toNat? with
    | some n => if n < maxNum then some n else none
    | none => none
def big? (s : String) : Option Nat :=
  if !digits s then none else match s.toNat? with
    | some n => if n ≤ maxU64 then some n else none
    | none => none

def chan? (s : String) : Option Nat := do
  let c ← num? s
  if c < nChan then pure c else none

def nodes? (s : String) : Option (List Nat) :=
  if s == "-" then some []
  else (s.splitOn ",").mapM (fun p => do let v ← num? p; if v = 0 then none else pure v)

def prog? (s : String) : Option (List (Nat × Nat)) :=
  if s == "-" then some []
  else (s.splitOn ",").foldlM (fun acc p =>
    match p.splitOn ":" with
    | [a, b] => do
      let k ← num? a
      let v ← num? b
      if k = 0 ∨ (alookup k acc).isSome then none else pure (acc ++ [(k, v)])
    | _ => none) []

structure CState where
  ch : Chan := {}
  sync : List Nat := []
  seenLoc : Nat := 0       -- highest logical / physical boundary the implementation has reported
  seenPhys : Nat := 0
  rtsSeen : Nat := 0       -- rc.state.RetentionThroughSeq of the loaded runtime channel (lost at reopen)
deriving Inhabited

structure St where
  chans : List CState := [{}, {}, {}]

def St.get (st : St) (c : Nat) : CState := st.chans.getD c {}
def St.set (st : St) (c : Nat) (x : CState) : St := { st with chans := st.chans.set c x }

def errStr : Err → String
  | .invalid => "err:invalid"
  | .conflict => "err:conflict"
  | .corruptstate => "err:corruptstate"
  | .corruptvalue => "err:corruptvalue"

def seqsStr (sync : List Nat) (l : List Row) : String :=
  l.foldl (fun s r => s ++ " " ++ toString r.seq ++ (if sync.contains r.seq then "s" else "")) ""

/-- seqs of `ok <x> <seq>[s] ...` after dropping `skip` leading fields -/
def parseSeqs (impl : String) (skip : Nat) : Option (List Nat) :=
  match fields impl with
  | "ok" :: rest => (rest.drop skip).mapM (fun t =>
      let t := if t.endsWith "s" then (t.dropEnd 1).toString else t
      if digits t then t.toNat? else none)
  | _ => none

def ranges (seqs : List Nat) : String :=
  let rec go : List Nat → Option (Nat × Nat) → List String → List String
    | [], none, acc => acc.reverse
    | [], some (a, b), acc => (s!"{a}-{b}" :: acc).reverse
    | s :: t, none, acc => go t (some (s, s)) acc
    | s :: t, some (a, b), acc => if s = b + 1 then go t (some (a, s)) acc else go t (some (s, s)) (s!"{a}-{b}" :: acc)
  let parts := go seqs none []
  if parts.isEmpty then "-" else ",".intercalate parts

def parseRanges (s : String) : Option (List Nat) :=
  if s == "-" then some []
  else (s.splitOn ",").foldlM (fun acc p =>
    match p.splitOn "-" with
    | [a, b] => do
      let a ← big? a
      let b ← big? b
      if b < a ∨ b - a > 100000 then none else pure (acc ++ (List.range (b - a + 1)).map (· + a))
    | _ => none) []

def mkRecs (idbase n : Nat) : List Rec :=
  (List.range n).map (fun i =>
    let id := idbase + i
    { id := id, frm := [117], cmn := [], payload := [UInt8.ofNat (id % 251), UInt8.ofNat (i % 256)], ts := 1 + id })

def boolOf (s : String) : Option Bool := if s == "1" then some true else if s == "0" then some false else none

/-- judge of the gate on a runtime view -/
def gateVerdict (st : RState) (t : Nat) (allowed : Bool) : String :=
  if !allowed ∨ gateOK st t then "ok"
  else if gateOKRecorded st t then "viol:trim-allowed-with-unrecorded-isr-progress"
  else if t ≤ st.hw ∧ t ≤ st.ckhw ∧ t ≤ st.leo then "viol:trim-allowed-beyond-isr-progress"
  else "viol:trim-allowed-above-safe-watermark"

def monoVerdict (cs : CState) (loc phys : Nat) : CState × String :=
  let v := if loc < cs.seenLoc ∨ phys < cs.seenPhys then "viol:retention-boundary-regressed"
           else if phys > loc then "viol:physical-above-logical" else "ok"
  ({ cs with seenLoc := Nat.max cs.seenLoc loc, seenPhys := Nat.max cs.seenPhys phys }, v)

def stepDrv (st : St) (line impl : String) : St × String × String :=
  let bad : St × String × String := (st, "bad-op", "ok")
  match fields line with
  | ["reopen"] =>
    ({ st with chans := st.chans.map (fun cs => { cs with ch := { cs.ch with leoC := none }, rtsSeen := 0 }) }, "ok", "ok")
  | ["gate", role, loc, isr, prog, hw, ck, leo, phys, rts, through] =>
    match num? role, num? loc, nodes? isr, prog? prog, num? hw, num? ck, num? leo, num? phys, num? rts, num? through with
    | some role, some loc, some isr, some prog, some hw, some ck, some leo, some phys, some rts, some t =>
      if role ≠ 1 ∧ role ≠ 2 then bad else
      let rs : RState := ⟨role, loc, isr, prog, hw, ck, leo, phys, rts⟩
      let (a, r) := trimDecision rs t
      let m := s!"{boolStr a} {if r.isEmpty then "-" else r} {minISRMatch rs}"
      let verdict := match fields impl with
        | [ia, _, _] => match boolOf ia with
          | some ia => gateVerdict rs t ia
          | none => "viol:unparseable-output"
        | _ => "viol:unparseable-output"
      (st, m, verdict)
    | _, _, _, _, _, _, _, _, _, _ => bad
  | ["fapply", c, base, idbase, n, hw, flags] =>
    match chan? c, num? base, num? idbase, num? n, num? hw with
    | some c, some base, some idbase, some n, some hw =>
      let flags := if n = 0 then (if flags == "-" then some "" else none) else some flags
      match flags with
      | none => bad
      | some flags =>
        if n > 64 ∨ base = 0 ∨ idbase = 0 ∨ flags.length ≠ n ∨ !(flags.all (fun ch => ch = '0' ∨ ch = '1')) then bad else
        let cs := st.get c
        let (ch', res) := applyFollower cs.ch base (mkRecs idbase n) hw
        match res with
        | .error e => (st.set c { cs with ch := ch' }, errStr e, "ok")
        | .ok (leo, ckhw) =>
          let first := leo + 1 - n
          let newSync := ((List.range n).zip flags.toList).filterMap (fun (i, f) => if f = '1' then some (first + i) else none)
          (st.set c { cs with ch := ch', sync := cs.sync ++ newSync }, s!"ok {leo} {ckhw}", "ok")
    | _, _, _, _, _ => bad
  | ["ckpt", c, hw] =>
    match chan? c, num? hw with
    | some c, some hw =>
      let cs := st.get c
      let (ch', res) := storeCkptHW cs.ch hw
      (st.set c { cs with ch := ch' }, (match res with | .ok () => "ok" | .error e => errStr e), "ok")
    | _, _ => bad
  | ["load", c] =>
    match chan? c with
    | some c =>
      let cs := st.get c
      let (leo, ch') := loadLEO cs.ch
      let hw := Nat.min (match ch'.ck with | some k => k.hw | none => 0) leo
      (st.set c { cs with ch := ch' }, s!"ok {leo} {hw} {hw}", "ok")
    | none => bad
  | ["lret", c] =>
    match chan? c with
    | some c =>
      let cs := st.get c
      let r := retOrZero cs.ch
      let (cs', v) := match (fields impl).map String.toNat? with
        | [none, some l, some p, some _] => monoVerdict cs l p
        | _ => (cs, "viol:unparseable-output")
      (st.set c cs', s!"ok {r.loc} {r.phys} {r.max}", v)
    | none => bad
  | ["close", c] => match chan? c with | some _ => (st, "ok", "ok") | none => bad
  | ["read", c, rev, from_, max, min, limit, maxBytes, rts, minISR] =>
    match chan? c, num? rev, big? from_, big? max, big? min, num? limit, num? maxBytes, num? rts, num? minISR with
    | some c, some rev, some from_, some max, some min, some limit, some maxBytes, some rts, some minISR =>
      if rev > 1 then bad else
      let cs := st.get c
      let req : Req := ⟨from_, max, min, limit, maxBytes, rev = 1⟩
      let (ch', res) := readLocal cs.ch req rts minISR
      let mStr := match res with | .error e => errStr e | .ok r => s!"ok {r.next}" ++ seqsStr cs.sync r.msgs
      let (leo, _) := loadLEO cs.ch
      let committed := committedOf leo cs.ch.ck minISR
      let floor := Nat.max rts (localRet cs.ch)
      let verdict := match parseSeqs impl 1 with
        | none => if impl.startsWith "err:" then "ok" else "viol:unparseable-output"
        | some seqs =>
          if readBoundsOK seqs floor committed then "ok"
          else if rev = 0 ∧ from_ = 0 ∧ committed = 0 ∧ seqs.all (fun s => floor < s) then
            "viol:forward-read-from-zero-ignores-zero-committed"
          else if seqs.any (fun s => s > committed) then "viol:read-above-committed"
          else "viol:read-at-or-below-retention-floor"
      (st.set c { cs with ch := ch' }, mStr, verdict)
    | _, _, _, _, _, _, _, _, _ => bad
  | ["sync", c, mode, start, end_, min, limit, rts, minISR] =>
    match chan? c, num? mode, big? start, big? end_, big? min, num? limit, num? rts, num? minISR with
    | some c, some mode, some start, some end_, some min, some limit, some rts, some minISR =>
      if mode > 1 then bad else
      let cs := st.get c
      let q : Query := ⟨start, end_, min, limit, mode⟩
      let lim := if limit = 0 then 1 else limit
      let (ch', res) := readLocal cs.ch (syncReq q lim) rts minISR
      let mStr := match res with
        | .error e => errStr e
        | .ok r => let (msgs, more) := syncPage q lim cs.sync r; s!"ok {boolStr more}" ++ seqsStr [] msgs
      let (leo, _) := loadLEO cs.ch
      let committed := committedOf leo cs.ch.ck minISR
      let floor := Nat.max rts (localRet cs.ch)
      let verdict := match parseSeqs impl 1 with
        | none => if impl.startsWith "err:" then "ok" else "viol:unparseable-output"
        | some seqs =>
          if !noBarrier seqs cs.sync then "viol:sync-returned-barrier-record"
          else if seqs.any (fun s => s > committed) then "viol:sync-above-committed"
          else if seqs.any (fun s => s ≤ floor) then "viol:sync-at-or-below-retention-floor"
          else if min > 0 ∧ seqs.any (fun s => s < min) then "viol:sync-below-member-min-seq"
          else if seqs.length > lim then "viol:sync-page-over-limit"
          else "ok"
      (st.set c { cs with ch := ch' }, mStr, verdict)
    | _, _, _, _, _, _, _, _ => bad
  | ["retain", c, through, rts, role, loc, isr, prog, hwlead, maxMsgs, maxBytes, failck] =>
    match chan? c, num? through, num? rts, num? role, num? loc, nodes? isr, prog? prog, num? hwlead, num? maxMsgs, num? maxBytes with
    | some c, some through, some rts, some role, some loc, some isr, some prog, some hwlead, some maxMsgs, some maxBytes =>
      if (role ≠ 1 ∧ role ≠ 2) ∨ through = 0 ∨ (failck ≠ "0" ∧ failck ≠ "1") then bad else
      let cs := st.get c
      -- adapter.Load + LoadRetentionState + applyLoadedRetentionState
      let (leo0, ch1) := loadLEO cs.ch
      let ckhw := Nat.min (match ch1.ck with | some k => k.hw | none => 0) leo0
      let r0 := retOrZero ch1
      let rtsNow := Nat.max (Nat.max cs.rtsSeen rts) through
      let rs : RState := ⟨role, loc, isr, prog, Nat.min (ckhw + hwlead) leo0, ckhw,
                          (if r0.max > leo0 then r0.max else leo0), r0.phys, rtsNow⟩
      let cs := { cs with rtsSeen := rtsNow }
      let (allowed, reason) := trimDecision rs through
      let head := s!"allowed={boolStr allowed} reason={if reason.isEmpty then "-" else reason} gate={rs.hw}/{rs.ckhw}/{rs.leo}/{minISRMatch rs}"
      let before := ch1.rows.map (·.seq)
      -- handleApplyRetentionBoundary: no-op when the boundary is already adopted and trimmed
      let (ch2, body) : Chan × String :=
        if through ≤ r0.loc ∧ through ≤ r0.phys then
          (ch1, s!"ok {r0.loc} {r0.phys} {through} 0 0 0 -")
        else
          -- trySubmitRetentionCheckpoint (only when blocked by checkpoint lag, and HW / LEO cover the boundary)
          let chk := if reason = "checkpoint_lag" ∧ failck = "0" ∧ ¬(through ≤ rs.ckhw ∨ through > rs.hw ∨ through > rs.leo)
                     then (storeCkptHW ch1 through).1 else ch1
          let (ch2, res) := storeRetention chk through allowed maxMsgs maxBytes
          (ch2, match res with
            | .error e => errStr e
            | .ok o => s!"ok {o.loc} {o.phys} {through} {o.delThrough} {o.deleted} {boolStr o.more} {if reason.isEmpty then "-" else reason}")
      let ckAfter := Nat.min (match ch2.ck with | some k => k.hw | none => 0) (loadLEO ch2).1
      let mStr := s!"{head} {body} ck={ckAfter} rows={ranges (ch2.rows.map (·.seq))}"
        -- judge on the implementation's output
        let (cs', verdict) : CState × String :=
          match (if impl = "noop" then ["noop"] else impl.splitOn " rows=") with
          | ["noop"] => (cs, "ok")      -- the implementation trimmed nothing in this op (state divergence shows as a disagreement)
          | [ihead, irows] =>
            match parseRanges irows with
            | none => (cs, if irows.startsWith "err:" then "ok" else "viol:unparseable-output")
            | some remaining =>
              let deleted := before.filter (fun s => !remaining.contains s)
              let (cs1, mono) := match (fields ihead).drop 3 with
                | "ok" :: l :: p :: _ => match l.toNat?, p.toNat? with
                  | some l, some p => monoVerdict cs l p
                  | _, _ => (cs, "viol:unparseable-output")
                | _ => (cs, "ok")
              let v :=
                if deleted.any (fun s => s > through) then "viol:trimmed-above-requested-boundary"
                else match deleted.getLast? with
                  | none => mono
                  | some top =>
                    let g := gateVerdict rs top true
                    if g ≠ "ok" then g.replace "trim-allowed" "trimmed" else mono
              (cs1, v)
          | _ => (cs, "viol:unparseable-output")
        (st.set c { cs' with ch := ch2 }, mStr, verdict)
    | _, _, _, _, _, _, _, _, _, _ => bad
  | ["fread", c, mode, rev, from_, max, min, limit, rts, em, mm, mrts] =>
    match chan? c, num? mode, num? rev, big? from_, big? max, big? min, num? limit, num? rts, num? em, num? mm, num? mrts with
    | some c, some mode, some rev, some from_, some max, some min, some limit, some rts, some em, some mm, some mrts =>
      if rev > 1 ∨ mode > 6 then bad else
      let cs := st.get c
      match fwdDecision mode rts em mm mrts with
      | .inl e => (st, e, if impl.startsWith "ok" then "viol:forwarded-read-served-despite-fence" else "ok")
      | .inr (floorIn, minISR) =>
        let req : Req := ⟨from_, max, min, limit, 0, rev = 1⟩
        let (ch', res) := readLocal cs.ch req floorIn minISR
        let mStr := match res with | .error e => errStr e | .ok r => s!"ok {r.next}" ++ seqsStr cs.sync r.msgs
        let (leo, _) := loadLEO cs.ch
        let committed := committedOf leo cs.ch.ck minISR
        let floor := Nat.max floorIn (localRet cs.ch)
        let verdict := match parseSeqs impl 1 with
          | none => if impl.startsWith "err:" then "ok" else "viol:unparseable-output"
          | some seqs =>
            if readBoundsOK seqs floor committed then "ok"
            else if seqs.any (fun s => s > committed) then "viol:forwarded-read-above-committed"
            else "viol:forwarded-read-at-or-below-retention-floor"
        (st.set c { cs with ch := ch' }, mStr, verdict)
    | _, _, _, _, _, _, _, _, _, _, _ => bad
  | ["fsync", c, mode, start, end_, min, limit, rts, minISR] =>
    match chan? c, num? mode, big? start, big? end_, big? min, num? limit, num? rts, num? minISR with
    | some c, some mode, some start, some end_, some min, some limit, some rts, some minISR =>
      if mode > 1 then bad else
      let cs := st.get c
      let q : Query := ⟨start, end_, min, limit, mode⟩
      let lim := if limit = 0 then 1 else limit
      let (ch', res) := readLocal cs.ch (syncReq q lim) rts minISR
      -- the RPC codec of the forwarded response drops Message.SyncOnce: the origin cannot filter barrier records
      let mStr := match res with
        | .error e => errStr e
        | .ok r => let (msgs, more) := syncPage q lim [] r; s!"ok {boolStr more}" ++ seqsStr [] msgs
      let (leo, _) := loadLEO cs.ch
      let committed := committedOf leo cs.ch.ck minISR
      let floor := Nat.max rts (localRet cs.ch)
      let verdict := match parseSeqs impl 1 with
        | none => if impl.startsWith "err:" then "ok" else "viol:unparseable-output"
        | some seqs =>
          if seqs.any (fun s => s > committed) then "viol:sync-above-committed"
          else if seqs.any (fun s => s ≤ floor) then "viol:sync-at-or-below-retention-floor"
          else if !noBarrier seqs cs.sync then
            (if impl = mStr then "viol:sync-page-contains-barrier:forwarded-read-drops-synconce" else "viol:sync-returned-barrier-record")
          else "ok"
      (st.set c { cs with ch := ch' }, mStr, verdict)
    | _, _, _, _, _, _, _, _ => bad
  | _ => bad

end C10Drv

def main : IO Unit := Drv.main { init := ({} : C10Drv.St), step := C10Drv.stepDrv }

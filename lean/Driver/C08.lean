import WK.Prelude.Drv
import WK.Model.C08
import WK.Spec.C07
import WK.Spec.C08
/-
  C08 driver.  Ops: see harness/C08/c08.go.
  model  = C07 store model + the two-layer bloom filter model (C08), fed with the
           real maphash pairs the implementation reports (`h=`), predicting the
           result AND the filter counters (`s=` skips, `r=` point reads);
  judge  = the property on the implementation's own output:
             * an append the reference log rejects as a duplicate must not be accepted
               (viol:duplicate-admitted), and vice versa (viol:spurious-conflict);
             * `scan` output: no two live rows of a channel share a non-empty
               (sender, clientMsgNo); no message id occurs twice on the node.
-/
open WK WK.C07 WK.C08

namespace C08Drv

def maxNum : Nat := 4294967296
def nChan : Nat := 2

def num? (s : String) : Option Nat :=
  if s.isEmpty ∨ !(s.all Char.isDigit) then none
  else match s.toNat? with
    | some n => if n < maxNum then some n else none
    | none => none

def big? (s : String) : Option Nat :=
  if s.isEmpty ∨ !(s.all Char.isDigit) then none else s.toNat?

def hex? (s : String) : Option Bytes :=
  if s == "-" then some []
  else if s.all (fun c => ('0' ≤ c ∧ c ≤ '9') ∨ ('a' ≤ c ∧ c ≤ 'f')) then hexDecodeChars s.toList
  else none

def rec? (s : String) : Option Rec :=
  match s.splitOn ":" with
  | [a, b, c] => do
    let id ← num? a
    let frm ← hex? b
    let cmn ← hex? c
    pure { id := id, frm := frm, cmn := cmn, payload := [UInt8.ofNat (id % 251)], ts := 1 + id % 1000 }
  | _ => none

def recs? : List String → Option (List Rec)
  | [] => some []
  | s :: t => do
    let r ← rec? s
    let rs ← recs? t
    pure (r :: rs)

def chan? (s : String) : Option Nat := do
  let c ← num? s
  if c < nChan then pure c else none

inductive Cmd
  | app (c mode base : Nat) (recs : List Rec) (cancellable : Bool)
  | op (o : Op)
  | scan

def parse (line : String) : Option Cmd :=
  match fields line with
  | ["reopen"] => some (.op .reopen)
  | ["scan"] => some .scan
  | "app" :: c :: mode :: base :: rest => do
    let c ← chan? c
    let mode ← num? mode
    let base ← num? base
    if mode > 3 then none
    pure (.app c mode base (← recs? rest) false)
  | "appc" :: c :: mode :: base :: k :: rest => do
    let c ← chan? c
    let mode ← num? mode
    let base ← num? base
    let k ← num? k
    if mode > 1 ∨ k = 0 then none
    pure (.app c mode base (← recs? rest) true)
  | "fetch" :: c :: base :: rest => do
    pure (.app (← chan? c) 2 (← num? base) (← recs? rest) false)
  | ["trunc", c, f] => do pure (.op (.trunc (← chan? c) (← num? f)))
  | ["trim", c, t] => do pure (.op (.trim (← chan? c) (← num? t) 0 0))
  | ["close", c] => do pure (.op (.close (← chan? c)))
  | ["idem", c, f, m] => do pure (.op (.idem (← chan? c) (← hex? f) (← hex? m)))
  | ["byid", c, s] => do pure (.op (.byid (← chan? c) (← num? s)))
  | _ => none

def errStr : Err → String
  | .invalid => "err:invalid"
  | .conflict => "err:conflict"
  | .corruptstate => "err:corruptstate"
  | .corruptvalue => "err:corruptvalue"

def shortRow (r : Row) : String := s!"{r.seq}:{r.id}:{hexEncode r.frm}:{hexEncode r.cmn}"

def render : Out → String
  | .ok => "ok"
  | .none => "none"
  | .err e => errStr e
  | .app b l n => s!"ok {b} {l} {n}"
  | .trim t d m => s!"ok {t} {d} {boolStr m}"
  | .num n => s!"ok {n}"
  | .msgs l => l.foldl (fun s r => s ++ " " ++ shortRow r) "ok"
  | .msg r => "ok " ++ shortRow r
  | .hit s i o h => s!"ok {s} {i} {o} {h}"
  | _ => "unexpected"

/-- hash pairs learned from the implementation: (chan, from, cmn) ↦ (h1, h2) -/
abbrev HMap := List ((Nat × Bytes × Bytes) × (Nat × Nat))

def hashOf (hm : HMap) (c : Nat) : Hash := fun frm cmn => (alookup (c, frm, cmn) hm).getD (0, 1)

/-- parse `<head> s=<n> r=<n> h=<list>` -/
def splitImpl (impl : String) : Option (String × Nat × Nat × String) :=
  match impl.splitOn " s=" with
  | [head, rest] =>
    match rest.splitOn " r=" with
    | [s, rest2] =>
      match rest2.splitOn " h=" with
      | [r, h] => do pure (head, ← big? s, ← big? r, h)
      | _ => none
    | _ => none
  | _ => none

def learn (hm : HMap) (c : Nat) (recs : List Rec) (h : String) : Option HMap :=
  let parts := if h == "-" ∧ recs.isEmpty then [] else h.splitOn ","
  if parts.length ≠ recs.length then none
  else (recs.zip parts).foldlM (fun hm (r, p) =>
    if r.frm = [] ∨ r.cmn = [] then (if p == "-" then some hm else none)
    else match p.splitOn ":" with
      | [a, b] => do
        let h1 ← big? a
        let h2 ← big? b
        -- the second hash is forced odd by the code; a key must always hash to the same pair
        match alookup (c, r.frm, r.cmn) hm with
        | some old => if old = (h1, h2) then some hm else none
        | none => some (((c, r.frm, r.cmn), (h1, h2)) :: hm)
      | _ => none) hm

structure St where
  m : Store := Store.init
  fl : List Filter := [{}, {}]
  s : SStore := SStore.init
  hm : HMap := []
  unspecified : Bool := false
  fuzzy : List Nat := []      -- channels whose filter state is unknown (an append was cancelled mid-way); counters not predicted until reopen

def scanWith (rowsOf : Nat → Except Err (List Row)) : String :=
  " | ".intercalate ((List.range nChan).map (fun c =>
    match rowsOf c with
    | .error e => errStr e
    | .ok l => render (.msgs l)))

/-- parse the implementation's scan output back into rows (seq, id, from, cmn) per channel -/
def parseScan (impl : String) : Option (List (List (Nat × Nat × String × String))) :=
  (impl.splitOn " | ").mapM (fun part =>
    match fields part with
    | "ok" :: rows => rows.mapM (fun r =>
        match r.splitOn ":" with
        | [a, b, c, d] => do pure (← big? a, ← big? b, c, d)
        | _ => none)
    | _ => none)

def stepDrv (st : St) (line impl : String) : St × String × String :=
  match parse line with
  | none => (st, "bad-op", "ok")
  | some (.app c mode base recs cancellable) =>
    match splitImpl impl with
    | none => (st, "unparseable-impl-output", "viol:unparseable-output")
    | some (head, is, ir, h) =>
      match learn st.hm c recs h with
      | none => (st, "inconsistent-hashes", "viol:inconsistent-hashes")
      | some hm =>
        if cancellable ∧ head = "err:cancelled" then
          -- the context was cancelled at one of its polls: nothing is committed (the batch commit is after the last poll);
          -- where the filter stands is not modelled
          ({ st with hm := hm, fuzzy := if st.fuzzy.contains c then st.fuzzy else c :: st.fuzzy }, impl, "ok")
        else if st.fuzzy.contains c then
          let (m', out) := doAppend st.m c mode base recs
          let (s', sout) := specAppend st.s c mode base recs
          let accepted := match sout with | .app _ _ k => k > 0 | _ => false
          let brk := accepted && breachOf st.s (.app c mode base recs)
          let st1 : St := { st with m := m', s := s', hm := hm, unspecified := st.unspecified || brk }
          let verdict :=
            if head = render sout ∨ st1.unspecified then "ok"
            else if head.startsWith "ok" ∧ (render sout = "err:conflict") then "viol:duplicate-admitted"
            else if head = "err:conflict" ∧ (render sout).startsWith "ok" then "viol:spurious-conflict"
            else "viol:append-differs-from-reference"
          (st1, s!"{render out} s={is} r={ir} h={h}", verdict)
        else
        let f := st.fl.getD c {}
        let (m', f', n, out) := appendF (hashOf hm c) st.m f c mode base recs
        let mStr := s!"{render out} s={n.skips} r={n.reads} h={h}"
        let (s', sout) := specAppend st.s c mode base recs
        let accepted := match sout with | .app _ _ k => k > 0 | _ => false
        let brk := accepted && breachOf st.s (.app c mode base recs)
        let st1 : St := { st with m := m', fl := st.fl.set c f', s := s', hm := hm, unspecified := st.unspecified || brk }
        let verdict :=
          if head = render sout ∨ st1.unspecified then "ok"
          else if head.startsWith "ok" ∧ (render sout = "err:conflict") then "viol:duplicate-admitted"
          else if head = "err:conflict" ∧ (render sout).startsWith "ok" then "viol:spurious-conflict"
          else "viol:append-differs-from-reference"
        (st1, mStr, verdict)
  | some .scan =>
    let mStr := scanWith (fun c => readForward (st.m.chan c).rows 1 0 0 0)
    let sStr := scanWith (fun c => readForward (st.s.chan c).rows 1 0 0 0)
    let verdict :=
      if st.unspecified then "ok"
      else match parseScan impl with
        | none => "viol:unparseable-output"
        | some chans =>
          if chans.any (fun rows => dupKey rows) then "viol:scan-duplicate-idempotency-key"
          else if dupId chans.flatten then "viol:scan-duplicate-message-id"
          else if impl ≠ sStr then "viol:scan-differs-from-reference"
          else "ok"
    (st, mStr, verdict)
  | some (.op o) =>
    let (m', mo) := step st.m o
    let (s', so) := specStep st.s o
    let fl' := match o with | .reopen => st.fl.map (fun _ => ({} : Filter)) | _ => st.fl
    let fz := match o with | .reopen => [] | _ => st.fuzzy
    let st1 : St := { st with m := m', s := s', fl := fl', fuzzy := fz, unspecified := st.unspecified || truncBelowRetained st.s o }
    let verdict :=
      if impl = render so ∨ st1.unspecified then "ok"
      else s!"viol:{(fields line).headD "op"}-differs-from-reference"
    (st1, render mo, verdict)

end C08Drv

def main : IO Unit := Drv.main { init := ({} : C08Drv.St), step := C08Drv.stepDrv }

import WK.Prelude.Drv
import WK.Spec.C21
/-
  C21 driver.  op:  `hs <hexkey> <count>`
  impl/model out:   `<router> <table> <bench> <node> <crcRouter> <crcStd>`
  judge (the property itself): the four mappings agree, are below the count
  (count ≥ 1), and the two checksums agree.
-/
open WK WK.C21

def c21Step (_ : Unit) (op impl : String) : Unit × String × String :=
  match fields op with
  | ["hs", k, c] =>
    match hexDecode k, c.toNat? with
    | some key, some cnt =>
      if cnt > 65535 then ((), "bad-op", "ok") else
      let bs := key.map (fun b => BitVec.ofNat 8 b.toNat)
      let crc := specCrc32 bs
      let h := (specHashSlot bs (BitVec.ofNat 16 cnt)).toNat
      let m := s!"{h} {h} {h} {h} {crc.toNat} {crc.toNat}"
      let verdict :=
        match (fields impl).map String.toNat? with
        | [some r, some t, some b, some n, some c1, some c2] =>
          if r ≠ t ∨ r ≠ b ∨ r ≠ n then "viol:mappings-disagree"
          else if cnt > 0 ∧ ¬ (r < cnt) then "viol:not-below-count"
          else if c1 ≠ c2 then "viol:checksums-disagree"
          else "ok"
        | _ => "viol:unparseable-output"
      ((), m, verdict)
    | _, _ => ((), "bad-op", "ok")
  | _ => ((), "bad-op", "ok")

def main : IO Unit := Drv.main { init := (), step := c21Step }

import WK.Prelude.Drv
import WK.Spec.C21
/-
  C21 driver.  op:  `hs <hexkey> <count>`
  impl/model out:   `<router> <table> <bench> <node> <crcRouter> <crcStd> <lifecycleBench> <slotProxy(node)>`
  judge (the property itself): the four mappings agree, are below the count
  (count ≥ 1), and the two checksums agree.
-/
open WK WK.C21

/-- `rt <count> <deadmask> <hexkey>...`: slot of hash slot h is h%4+1, leaderless iff its bit is set. -/
def c21Route (cnt dead : Nat) (keys : List Bytes) : String :=
  let hs := keys.map (fun k => (specHashSlot (k.map (fun b => BitVec.ofNat 8 b.toNat)) (BitVec.ofNat 16 cnt)).toNat)
  let one := hs.map (fun h => if (dead >>> (h % 4)) % 2 == 1 then "e" else toString h)
  let part := ",".intercalate one
  let all := if one.any (· == "e") then "E" else part
  s!"{part};{part};{part};{all}"

def c21Step (_ : Unit) (op impl : String) : Unit × String × String :=
  match fields op with
  | "rt" :: c :: d :: ks =>
    match c.toNat?, d.toNat?, ks.mapM hexDecode with
    | some cnt, some dead, some keys =>
      if cnt < 1 ∨ cnt > 65535 ∨ dead > 15 ∨ keys.isEmpty then ((), "bad-op", "ok") else
      let m := c21Route cnt dead keys
      -- judge: every routed (non-error) entry of every list is the spec hash slot of ITS OWN key
      let hs := keys.map (fun k => (specHashSlot (k.map (fun b => BitVec.ofNat 8 b.toNat)) (BitVec.ofNat 16 cnt)).toNat)
      let lists := (impl.splitOn ";").map (fun l => l.splitOn ",")
      let bad := lists.any (fun l =>
        l != ["E"] ∧ (l.length != hs.length ∨ (l.zip hs).any (fun (x, h) => x != "e" ∧ x.toNat? != some h)))
      ((), m, if bad then "viol:batch-key-routed-to-wrong-hash-slot" else "ok")
    | _, _, _ => ((), "bad-op", "ok")
  | ["hs", k, c] =>
    match hexDecode k, c.toNat? with
    | some key, some cnt =>
      if cnt > 65535 then ((), "bad-op", "ok") else
      let bs := key.map (fun b => BitVec.ofNat 8 b.toNat)
      let crc := specCrc32 bs
      let h := (specHashSlot bs (BitVec.ofNat 16 cnt)).toNat
      let m := s!"{h} {h} {h} {h} {crc.toNat} {crc.toNat} {h} {h}"
      let verdict :=
        match (fields impl).map String.toNat? with
        | [some r, some t, some b, some n, some c1, some c2, some lc, some px] =>
          if r ≠ t ∨ r ≠ b ∨ r ≠ n ∨ r ≠ lc ∨ r ≠ px then "viol:mappings-disagree"
          else if cnt > 0 ∧ ¬ (r < cnt) then "viol:not-below-count"
          else if c1 ≠ c2 then "viol:checksums-disagree"
          else "ok"
        | _ => "viol:unparseable-output"
      ((), m, verdict)
    | _, _ => ((), "bad-op", "ok")
  | _ => ((), "bad-op", "ok")

def main : IO Unit := Drv.main { init := (), step := c21Step }

import WK.Spec.C03
open WK WK.Repl
/-
  C03 driver: model output (compared with the implementation) + the C03 judge on the
  implementation's observation.  ops/output: see harness/C03/repl_core.go.
-/
def main : IO Unit := Drv.main { init := ({} : DS), step := replStep WK.C03.judge }

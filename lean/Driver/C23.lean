import WK.Prelude.Drv
import WK.Model.C22_Text
import WK.Spec.C22
import WK.Model.C23
/-
  C23 driver.  Ops and outputs: see harness/C23/c23.go.
  model out = adapter/feed model on the same bytes (for `seq` the bytes come from
              the MODEL encoder, so the encoders are compared as well);
  verdict (on the implementation's output):
    always : det=1 (SEND payload detached), pfx=1 (no over-read), consumed ≤ len,
             err ⇒ no frames ∧ consumed = 0, frames ⇒ progress, no progress ⇒ no frames,
             feed leftover ≤ len;
    seq of frames within protocol limits:
             whole decode returns exactly `norm` of the complete frames, in order,
             consumed = length of the complete frames, no error;
             an incomplete last frame is never reported and never consumed;
             the chunked feed dispatches the same frames (same hash), leaves exactly
             the incomplete tail, does not close; with `cuts=all` every split point
             and the byte-by-byte delivery agree with the single-chunk delivery;
             the REAL gateway (`gw=`/`gwall=`: core.Server.onData behind a fake
             transport connection) dispatches the same frames, keeps exactly the
             incomplete tail in its inbound buffer and does not close.
-/
open WK WK.C22 WK.C23

def joinFrames (fs : List Frame) : String := " ;; ".intercalate (fs.map showFrame)

def feedSig (st : Inbound) : String :=
  s!"{st.out.length},{st.buf.length},{boolStr st.closed},{hashStr (joinFrames st.out)}"

/-- the gateway's signature: bytes left are not observable once the session is closed -/
def gwSig (st : Inbound) : String :=
  if st.closed then s!"{st.out.length},0,1,0"   -- contents of in-flight SENDs are timing dependent after a close
  else s!"{st.out.length},{st.buf.length},0,{hashStr (joinFrames st.out)}"

def canonCuts (raw : List Nat) (l : Nat) : List Nat :=
  let xs := (raw.map (· % (l + 1))).filter (fun c => 0 < c ∧ c < l)
  let sorted := xs.mergeSort (· ≤ ·)
  sorted.eraseDups

def bytesEach (bs : Bytes) : List Bytes := bs.map (fun b => [b])

/-- (model output, verdict-relevant facts are recomputed from impl separately) -/
def observe (sv : Nat) (cutsTok : String) (data : Bytes) : Option String :=
  let l := data.length
  let whole := adapterDecode sv data
  let (wk, wc, we, wfs) := match whole with
    | .ok fs c => (fs.length, c, false, fs)
    | _ => (0, 0, true, [])
  let pfx := match whole with
    | .ok fs c => if c > 0 ∧ c ≤ l then decide (adapterDecode sv (data.take c) = .ok fs c) else true
    | _ => true
  let single := feed sv [data]
  let res : Option (String × Nat × Nat × String × Nat × Nat) :=
    if cutsTok = "all" then
      let ref := feedSig single
      let agree2 := (List.range l).foldl (fun acc i =>
        if i = 0 then acc
        else if feedSig (feed sv [data.take i, data.drop i]) = ref then acc + 1 else acc) 0
      let agree1 := if feedSig (feed sv (bytesEach data)) = ref then 1 else 0
      -- the gateway is driven on the single chunk, a few split points and byte-by-byte
      let gref := gwSig single
      let stride := l / 8 + 1
      let pts := (List.range l).filter (fun i => i > 0 ∧ i % stride = 0)
      let gagree := pts.foldl (fun acc i =>
        if gwSig (feed sv [data.take i, data.drop i]) = gref then acc + 1 else acc) 0
      let gagree1 := if gwSig (feed sv (bytesEach data)) = gref then 1 else 0
      some (ref, agree2 + agree1, (l - 1) + 1, gref, gagree + gagree1, pts.length + 1)
    else
      let raw : Option (List Nat) :=
        if cutsTok = "-" then some [] else (cutsTok.splitOn ",").mapM String.toNat?
      raw.map fun r =>
        let st := feed sv (splitAt data (canonCuts r l))
        (feedSig st, 0, 0, gwSig st, 0, 0)
  res.map fun (fsig, agree, tried, gsig, gagree, gtried) =>
    let panicked := whole == .panic
    if panicked then "panic" else
    s!"len={l} whole={wk},{wc},{boolStr we} wh={hashStr (joinFrames wfs)} det=1 pfx={boolStr pfx} feed={fsig} all={agree}/{tried} gw={gsig} gwall={gagree}/{gtried} :: {joinFrames wfs}"

structure ImplOut where
  len : Nat
  wk : Nat
  wc : Nat
  werr : Bool
  wh : Nat
  det : Bool
  pfx : Bool
  fk : Nat
  fleft : Nat
  fclosed : Bool
  fh : Nat
  agree : Nat
  tried : Nat
  gk : Nat
  gleft : Nat
  gclosed : Bool
  gh : Nat
  gagree : Nat
  gtried : Nat
  frames : String

def nats (s : String) (sep : String) : Option (List Nat) := (s.splitOn sep).mapM String.toNat?

def parseImpl (impl : String) : Option ImplOut :=
  match impl.splitOn " :: " with
  | head :: tl =>
    let frames := " :: ".intercalate tl
    match fields head with
    | [a, b, c, d, e, f, g, gw, gwa] =>
      match (valOf a).toNat?, nats (valOf b) ",", (valOf c).toNat?, (valOf d).toNat?, (valOf e).toNat?,
            nats (valOf f) ",", nats (valOf g) "/", nats (valOf gw) ",", nats (valOf gwa) "/" with
      | some len, some [wk, wc, we], some wh, some det, some pfx, some [fk, fl, fc, fh], some [ag, tr],
        some [gk, gl, gc, gh], some [gag, gtr] =>
        if a.startsWith "len=" ∧ b.startsWith "whole=" ∧ f.startsWith "feed=" ∧ gw.startsWith "gw=" ∧
           gwa.startsWith "gwall=" then
          some { len, wk, wc, werr := we = 1, wh, det := det = 1, pfx := pfx = 1, fk, fleft := fl,
                 fclosed := fc = 1, fh, agree := ag, tried := tr, gk, gleft := gl, gclosed := gc = 1, gh,
                 gagree := gag, gtried := gtr, frames := if tl.isEmpty then "" else frames }
        else none
      | _, _, _, _, _, _, _, _, _ => none
    | _ => none
  | [] => none

/-- totality / framing sanity that must hold for ANY input -/
def judgeAny (o : ImplOut) : String :=
  if !o.det then "viol:send-payload-not-detached"
  else if !o.pfx then "viol:decode-depends-on-bytes-past-consumed"
  else if o.wc > o.len then "viol:consumed-more-than-given"
  else if o.werr ∧ (o.wk ≠ 0 ∨ o.wc ≠ 0) then "viol:error-with-progress"
  else if o.wk > 0 ∧ o.wc < o.wk then "viol:frames-without-progress"
  else if o.wc = 0 ∧ o.wk ≠ 0 then "viol:frames-without-progress"
  else if o.fleft > o.len then "viol:feed-leftover-exceeds-input"
  else if o.gleft > o.len then "viol:gateway-leftover-exceeds-input"
  else "ok"

/-- the stream property for a sequence of in-limit frames; `sizes` = encoded sizes -/
def judgeSeq (v : Nat) (fs : List Frame) (drop : Nat) (isAll : Bool) (o : ImplOut) : String :=
  let complete := if drop = 0 then fs else fs.dropLast
  let total := (fs.map (encodedSize v)).foldl (· + ·) 0
  let lastLen := match fs.getLast? with | some f => encodedSize v f | none => 0
  let tail := if drop = 0 then 0 else lastLen - drop
  let want := joinFrames (complete.map (norm v))
  if o.len ≠ total - drop then "viol:stream-length"
  else if o.werr then "viol:valid-stream-rejected"
  else if o.wk ≠ complete.length ∨ o.frames ≠ want then
    (if o.wk > complete.length then "viol:progress-on-partial-frame" else "viol:stream-frames-mismatch")
  else if o.wc ≠ o.len - tail then "viol:stream-consumed-mismatch"
  else if o.fclosed then "viol:chunked-valid-stream-closed"
  else if o.fk ≠ complete.length ∨ o.fh ≠ o.wh then "viol:split-changes-frames"
  else if o.fleft ≠ tail then "viol:split-leftover-mismatch"
  else if isAll ∧ o.agree ≠ o.tried then "viol:split-point-changes-result"
  -- the same, observed on the real gateway (core.Server.onData)
  else if o.gclosed then "viol:gateway-closed-on-valid-stream"
  else if o.gk ≠ complete.length ∨ o.gh ≠ o.wh then "viol:gateway-split-changes-frames"
  else if o.gleft ≠ tail then "viol:gateway-leftover-mismatch"
  else if isAll ∧ o.gagree ≠ o.gtried then "viol:gateway-split-point-changes-result"
  else "ok"

def splitFrames (toks : List String) : List (List String) :=
  let rec go (cur : List String) (acc : List (List String)) : List String → List (List String)
    | [] => (cur.reverse :: acc).reverse
    | t :: ts => if t = ";;" then go [] (cur.reverse :: acc) ts else go (t :: cur) acc ts
  go [] [] toks

def c23Step (_ : Unit) (op impl : String) : Unit × String × String :=
  let bad := ((), "bad-op", "ok")
  match fields op with
  | ["raw", svs, cs, hs] =>
    if !cs.startsWith "cuts=" then bad else
    match svs.toNat?, parseBytes hs with
    | some sv, some data =>
      if sv > 255 then bad else
      match observe sv (valOf cs) data with
      | none => bad
      | some m =>
        let verdict := match parseImpl impl with
          | none => if impl.startsWith "PANIC" then "viol:panic" else "viol:unparseable-output"
          | some o => if o.len ≠ data.length then "viol:unparseable-output" else judgeAny o
        ((), m, verdict)
    | _, _ => bad
  | "seq" :: svs :: cs :: ts :: ftoks =>
    if !cs.startsWith "cuts=" ∨ !ts.startsWith "trunc=" then bad else
    match svs.toNat?, (valOf ts).toNat?, (splitFrames ftoks).mapM parseFrame with
    | some sv, some trunc, some fs =>
      if sv > 255 ∨ fs.isEmpty then bad else
      let v := effVersion sv
      -- encode with the MODEL encoder
      match fs.mapM (fun f => match encodeFrame v f with | .ok b => some b | .error _ => none) with
      | none => ((), "encfail", "ok")
      | some encs =>
        let stream := encs.flatten
        let lastLen := match encs.getLast? with | some b => b.length | none => 0
        let drop := if trunc = 0 then 0 else 1 + (trunc - 1) % lastLen
        let data := stream.take (stream.length - drop)
        match observe sv (valOf cs) data with
        | none => bad
        | some m =>
          let verdict := match parseImpl impl with
            | none => if impl = "encfail" then
                        (if fs.all (fun f => decide (WithinLimits v f)) then "viol:encode-failed-within-limits" else "ok")
                      else "viol:unparseable-output"
            | some o =>
              let a := judgeAny o
              if a ≠ "ok" then a
              else if fs.all (fun f => decide (WithinLimits v f)) then judgeSeq v fs drop (valOf cs = "all") o
              else "ok"
          ((), m, verdict)
    | _, _, _ => bad
  | _ => bad

def main : IO Unit := Drv.main { init := (), step := c23Step }

import WK.Prelude.Drv
import WK.Spec.C37
/-
  C37 driver.  op: `run <kind> <steer> <cancel> …` (see harness/C37/c37.go)
  impl out: `ev=<tok>,<tok>,…`  the linearised event log of one concurrent scenario on a
  real queue.  modelOut is `-` (schedules are not reproducible); the verdict is the
  trace acceptor `WK.C37.judge` on the implementation's log.
-/
open WK WK.C37

def parseTok (tok : String) : Option Ev :=
  match tok.toList with
  | [] => none
  | c :: rest =>
    let body := String.ofList rest
    let num : Option Nat := body.toNat?
    match c with
    | 'S' => match body.splitOn ":" with
      | [a, b] => do let t ← a.toNat?; let s ← b.toNat?; pure (.sub t s)
      | _ => none
    | 'A' => num.map .acc
    | 'F' => num.map .rej
    | 'X' => num.map .rej
    | 'E' => num.map .rej
    | 'Q' => num.map .rej
    | 'R' => num.map .run
    | 'D' => num.map .done
    | 'K' => num.map .cancel
    | 'B' => num.map .bbeg
    | 'b' => num.map .bend
    | 'U' => num.map .wup
    | 'V' => num.map .wdn
    | 'W' => num.map .wend
    | 'C' => if rest.isEmpty then some .closeBeg else none
    | 'Z' => num.map .closeEnd
    | 'H' => if rest.isEmpty then some .note else none
    | 'T' => if rest.isEmpty then some .note else none
    | _ => none

def parseLog (s : String) : Option (List Ev) :=
  if s == "-" then some [] else (s.splitOn ",").mapM parseTok

def parseKind : String → Option Kind
  | "bp" => some .bp | "bbp" => some .bbp | "wq" => some .wq | "mb" => some .mb | _ => none

def steerOk (k : Kind) (st : String) : Bool :=
  match k with
  | .bp | .bbp => st == "none" || st == "sc" || st == "sn" || st == "sl"
  | .wq => st == "none"
  | .mb => st == "none" || st == "wc" || st == "wn" || st == "dd" || st == "dn" || st == "ws"

def c37Step (_ : Unit) (op impl : String) : Unit × String × String :=
  match fields op with
  | "run" :: kind :: steer :: cancel :: rest =>
    match parseKind kind, cancel.toNat?, rest.length == 12 && rest.all (fun f => f == "try" || f == "wait" || f.toNat?.isSome) with
    | some k, some cc, true =>
      if !steerOk k steer then ((), "bad-op", "ok") else
      if impl == "bad-op" then ((), "-", "ok") else
      match (if impl.startsWith "ev=" then parseLog (impl.drop 3).toString else none) with
      | some l => ((), "-", judge k cc l)
      | none => ((), "-", "viol:unparseable-output")
    | _, _, _ => ((), "bad-op", "ok")
  | _ => ((), "bad-op", "ok")

def main : IO Unit := Drv.main { init := (), step := c37Step }

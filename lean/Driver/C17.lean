import WK.Prelude.Drv
import WK.Model.C17
/-
  C17 driver.  One line = one ApplyBatch on the real slot FSM (`batch a ; b`
  = several commands in one call) or the environment step `setmeta`.
  Symbolic fields (`*` current, `^` current+1, `~` current-1) are resolved against the state
  before the line (model state for the model run, implementation state for the
  judge).  Output: `<results> # <dump>`; the judge parses the implementation's
  dump and evaluates the five C17 predicates on (previous impl state, this
  impl state, resolved commands).
-/
open WK WK.C17

namespace WK.C17.Drv

abbrev P := StateT (List String) Option

def tok : P String := do
  match (← get) with
  | [] => failure
  | x :: xs => set xs; pure x

def numOf (s : String) : Option Nat :=
  match s.toNat? with
  | some n => if n < 2147483648 then some n else none
  | none => none

def lit : P Nat := do
  match numOf (← tok) with
  | some n => pure n
  | none => failure

def lit8 : P Nat := do
  let n ← lit
  if n ≤ 255 then pure n else failure

def val (cur : Nat) : P Nat := do
  let t ← tok
  if t == "*" then pure cur
  else if t == "^" then pure (cur + 1)
  else if t == "~" then pure (cur - 1)
  else match numOf t with
    | some n => pure n
    | none => failure

def val8 (cur : Nat) : P Nat := do
  let n ← val cur
  if n ≤ 255 then pure n else failure

def chanP : P Nat := do
  let c ← lit
  if c == 1 || c == 2 then pure c else failure

def idP : P Nat := do
  let i ← lit
  if 1 ≤ i && i ≤ 9 then pure i else failure

def listP : P (List Nat) := do
  let t ← tok
  if t == "-" then pure []
  else
    let parts := t.splitOn ","
    let ns := parts.filterMap numOf
    if ns.length == parts.length then pure ns else failure

def done : P Unit := do
  match (← get) with
  | [] => pure ()
  | _ => failure

def taskLit : P Task := do
  let c ← chanP; let i ← idP
  let kind ← lit8; let status ← lit8; let phase ← lit8
  let src ← lit; let tgt ← lit; let des ← lit
  let ftok ← lit; let fver ← lit; let funtil ← lit
  let emb ← lit; let embdes ← lit; let owner ← lit; let olease ← lit
  let leo ← lit; let hw ← lit; let dnode ← lit; let drgen ← lit; let dcep ← lit; let dlep ← lit; let dfv ← lit
  let upd ← lit; let comp ← lit
  pure { chan := c, id := i, kind, status, phase, src, tgt, des, ftok, fver, funtil, emb := emb != 0, embdes, owner, olease,
         leo, hw, dnode, drgen, dcep, dlep, dfv, upd, comp }

def curTask (s : State) (c i : Nat) : Task := (s.task? c i).getD { (default : Task) with emb := false }
def curMeta (s : State) (c : Nat) : Meta := (s.meta? c).getD default

def guardP (s : State) (c i : Nat) : P Guard := do
  let t := curTask s c i
  let est ← val8 t.status; let eph ← val8 t.phase; let eown ← val t.owner; let eolease ← val t.olease; let eupd ← val t.upd
  pure { chan := c, id := i, est, eph, eown, eolease, eupd }

def rtguardP (s : State) : P RtGuard := do
  let rc ← chanP
  let m := curMeta s rc
  let ecep ← val m.cep; let elep ← val m.lep; let eld ← val m.leader; let etok ← val m.ftok
  let efver ← val m.fver; let ergen ← val m.rgen
  pure { chan := rc, ecep, elep, eld, etok, efver, ergen }

def cmdP (s : State) : P Cmd := do
  let k ← tok
  let c ←
    match k with
    | "create" => do
      let t ← taskLit
      pure ({ kind := .create, task := t, g := { (default : Guard) with chan := t.chan, id := t.id } } : Cmd)
    | "createg" => do
      let t ← taskLit
      let rg ← rtguardP s
      pure { kind := .createg, task := t, rg, g := { (default : Guard) with chan := t.chan, id := t.id } }
    | "claim" => do
      let c ← chanP; let i ← idP
      let t := curTask s c i
      let g ← guardP s c i
      let st ← val8 t.status; let ph ← val8 t.phase; let owner ← lit; let olease ← lit; let now ← lit; let upd ← val t.upd
      pure { kind := .claim, g, st, ph, owner, olease, now, upd }
    | "advance" => do
      let c ← chanP; let i ← idP
      let t := curTask s c i
      let m := curMeta s c
      let g ← guardP s c i
      let st ← val8 t.status; let ph ← val8 t.phase; let upd ← val t.upd; let comp ← val t.comp
      let leo ← lit; let hw ← lit
      let dnode ← val m.leader; let drgen ← val m.rgen; let dcep ← val m.cep; let dlep ← val m.lep; let dfv ← val m.fver
      let embdes ← lit
      pure { kind := .advance, g, st, ph, upd, comp, leo, hw, dnode, drgen, dcep, dlep, dfv, embdes }
    | "setfence" => do
      let c ← chanP; let i ← idP
      let t := curTask s c i
      let g ← guardP s c i; let rg ← rtguardP s
      let st ← val8 t.status; let ph ← val8 t.phase; let reason ← lit8; let funtil ← lit; let upd ← val t.upd
      pure { kind := .setfence, g, rg, st, ph, reason, funtil, upd }
    | "resetfence" => do
      let c ← chanP; let i ← idP
      let t := curTask s c i
      let g ← guardP s c i; let rg ← rtguardP s
      let st ← val8 t.status; let ph ← val8 t.phase; let now ← lit; let upd ← val t.upd
      pure { kind := .resetfence, g, rg, st, ph, now, upd }
    | "commit" => do
      let c ← chanP; let i ← idP
      let t := curTask s c i
      let g ← guardP s c i; let rg ← rtguardP s
      let m := curMeta s rg.chan
      let st ← val8 t.status; let ph ← val8 t.phase
      let desired ← val (taskDesiredLeader t); let nle ← val m.lep; let lease ← lit; let now ← lit; let upd ← val t.upd
      pure { kind := .commit, g, rg, st, ph, desired, nle, lease, now, upd }
    | "addlearner" => do
      let c ← chanP; let i ← idP
      let t := curTask s c i
      let g ← guardP s c i; let rg ← rtguardP s
      let st ← val8 t.status; let ph ← val8 t.phase; let target ← val t.tgt; let upd ← val t.upd
      pure { kind := .addlearner, g, rg, st, ph, target, upd }
    | "promote" => do
      let c ← chanP; let i ← idP
      let t := curTask s c i
      let g ← guardP s c i; let rg ← rtguardP s
      let st ← val8 t.status; let ph ← val8 t.phase; let source ← val t.src; let target ← val t.tgt; let now ← lit; let upd ← val t.upd
      pure { kind := .promote, g, rg, st, ph, source, target, now, upd }
    | "clearfence" => do
      let c ← chanP; let i ← idP
      let t := curTask s c i
      let g ← guardP s c i; let rg ← rtguardP s
      let st ← val8 t.status; let ph ← val8 t.phase; let upd ← val t.upd; let comp ← val t.comp
      pure { kind := .clearfence, g, rg, st, ph, upd, comp }
    | "abort" => do
      let c ← chanP; let i ← idP
      let t := curTask s c i
      let g ← guardP s c i; let rg ← rtguardP s
      let st ← val8 t.status; let ph ← val8 t.phase; let upd ← val t.upd; let comp ← val t.comp
      pure { kind := .abort, g, rg, st, ph, upd, comp }
    | "gc" => do
      let before ← lit; let limit ← lit
      pure { kind := .gc, before, limit }
    | _ => failure
  done
  pure c

def setMetaP (s : State) : P (Nat × Meta) := do
  let c ← chanP
  let cur := curMeta s c
  let cep ← val cur.cep; let lep ← val cur.lep; let leader ← val cur.leader; let minisr ← val cur.minisr; let lease ← val cur.lease
  let replicas ← listP; let isr ← listP
  let ftok ← val cur.ftok; let fver ← val cur.fver; let freason ← val8 cur.freason; let funtil ← val cur.funtil
  done
  pure (c, { cep, lep, rgen := 0, leader, minisr, lease, replicas, isr, ftok, fver, freason, funtil })

/-- split `a ; b ; c` token lists -/
def splitSemi (xs : List String) : List (List String) :=
  let (cur, acc) := xs.foldl (fun (p : List String × List (List String)) x =>
    if x == ";" then ([], p.2 ++ [p.1]) else (p.1 ++ [x], p.2)) ([], [])
  acc ++ [cur]

def parseLine (s : State) (op : String) : Option Line :=
  match fields op with
  | [] => none
  | "setmeta" :: rest => ((setMetaP s).run rest).map (fun r => Line.setmeta r.1.1 r.1.2)
  | "batch" :: rest =>
    let groups := splitSemi rest
    let cmds := groups.filterMap (fun g => (cmdP s |>.run g).map (·.1))
    if cmds.length == groups.length then some (Line.batch cmds) else none
  | fs => ((cmdP s).run fs).map (fun r => Line.batch [r.1])

/-! ### dump formatting / parsing -/

def plusList (xs : List Nat) : String := if xs.isEmpty then "-" else "+".intercalate (xs.map toString)

def fmtMeta (m : Meta) : String :=
  s!"{m.cep},{m.lep},{m.rgen},{m.leader},{m.minisr},{m.lease},{plusList m.replicas},{plusList m.isr},{m.ftok},{m.fver},{m.freason},{m.funtil}"

def fmtTask (t : Task) : String :=
  s!"{t.kind},{t.status},{t.phase},{t.src},{t.tgt},{t.des},{t.ftok},{t.fver},{t.funtil},{boolStr t.emb},{t.embdes},{t.owner},{t.olease},{t.leo},{t.hw},{t.dnode},{t.drgen},{t.dcep},{t.dlep},{t.dfv},{t.upd},{t.comp}"

def dump (s : State) : String :=
  let chans := [1, 2].map (fun c =>
    let m := match s.meta? c with | some m => fmtMeta m | none => "-"
    let a := match s.activeIdx? c with | some i => toString i | none => "0"
    s!" M{c}:{m} A{c}:{a}")
  let ts := (sortTasks s.tasks).map (fun t => s!" T{t.chan}.{t.id}:{fmtTask t}")
  String.join (chans ++ ts)

def parsePlus (s : String) : Option (List Nat) :=
  if s == "-" then some []
  else
    let parts := s.splitOn "+"
    let ns := parts.filterMap String.toNat?
    if ns.length == parts.length then some ns else none

def parseMeta (s : String) : Option Meta :=
  match s.splitOn "," with
  | [a, b, c, d, e, f, r, i, g, h, j, k] => do
    let replicas ← parsePlus r
    let isr ← parsePlus i
    pure { cep := ← a.toNat?, lep := ← b.toNat?, rgen := ← c.toNat?, leader := ← d.toNat?, minisr := ← e.toNat?, lease := ← f.toNat?,
           replicas, isr, ftok := ← g.toNat?, fver := ← h.toNat?, freason := ← j.toNat?, funtil := ← k.toNat? }
  | _ => none

def parseTask (c i : Nat) (s : String) : Option Task :=
  match (s.splitOn ",").map String.toNat? with
  | [some kind, some status, some phase, some src, some tgt, some des, some ftok, some fver, some funtil, some emb, some embdes,
     some owner, some olease, some leo, some hw, some dnode, some drgen, some dcep, some dlep, some dfv, some upd, some comp] =>
    some { chan := c, id := i, kind, status, phase, src, tgt, des, ftok, fver, funtil, emb := emb != 0, embdes, owner, olease,
           leo, hw, dnode, drgen, dcep, dlep, dfv, upd, comp }
  | _ => none

/-- parse the implementation's dump into a `State` -/
def parseDump (d : String) : Option State :=
  (fields d).foldlM (fun (s : State) (t : String) =>
    match t.splitOn ":" with
    | [k, v] =>
      if k.startsWith "M" then
        match (k.drop 1).toString.toNat? with
        | some c => if v == "-" then some s else (parseMeta v).map (fun m => { s with metas := putKV c m s.metas })
        | none => none
      else if k.startsWith "A" then
        match (k.drop 1).toString.toNat?, v.toNat? with
        | some c, some i => if i == 0 then some s else some { s with active := putKV c i s.active }
        | _, _ => none
      else if k.startsWith "T" then
        match ((k.drop 1).toString.splitOn ".").map String.toNat? with
        | [some c, some i] => (parseTask c i v).map (fun t => { s with tasks := putTaskRow t s.tasks })
        | _ => none
      else none
    | _ => none) State.empty

def splitOut (impl : String) : String × String :=
  match impl.splitOn " #" with
  | [a, b] => (a, b)
  | [a] => (a, "")
  | a :: rest => (a, " #".intercalate rest)
  | [] => ("", "")

/-! ### judge -/

structure Ghost where
  /-- (chan, id, embedded?) tasks on which a cutover commit was observed -/
  committed : List (Nat × Nat × Bool) := []
  /-- (chan, id, cause) committed tasks later moved back into an abortable state -/
  tainted : List (Nat × Nat × String) := []
  /-- the case already contains the known same-batch re-activation: the active index no longer covers every
      active row, so the precondition of `c17_one_active*` is gone for the rest of this case -/
  reactTainted : Bool := false

structure DState where
  /-- number of ops seen in this case (the `chmode` op is honoured only as the first) -/
  nops : Nat := 0
  model : State := State.empty
  impl : State := State.empty
  ghost : Ghost := {}

def cmdTargets (c : Cmd) (ch i : Nat) : Bool := c.g.chan == ch && c.g.id == i

def judgeLine (g : Ghost) (pre post : State) (isSetMeta : Bool) (cmds : List Cmd) : String × Ghost :=
  -- J1 at most one active task per channel
  -- the known same-batch class is exactly: the batch re-activates a TERMINAL task by a free-form
  -- advance/claim (the active-index check reads the committed store); every other double activation is plain
  let reactivates := cmds.any (fun c =>
    (c.kind == .advance || c.kind == .claim) &&
    (match pre.task? c.g.chan c.g.id, post.task? c.g.chan c.g.id with
     | some t, some t' => t.terminal && t'.isActive
     | _, _ => false))
  let v1 := if pre.oneActive && !post.oneActive then
              (if cmds.length ≥ 2 && reactivates then "viol:two-active:same-batch:reactivate"
               else if g.reactTainted then "viol:two-active:after-same-batch-reactivate"
               else if (cmds.filter (fun c => c.kind == .create || c.kind == .createg)).length ≥ 2 then "viol:two-active:same-batch:create"
               else "viol:two-active") else "ok"
  -- J2 stored metadata valid
  let v2 := if !post.metasValid then "viol:meta-invalid" else "ok"
  -- J3 leadership / ISR change only by a cutover whose stored proof matches the current meta (singleton lines)
  let v3 :=
    if isSetMeta || cmds.length != 1 then "ok" else
    [1, 2].foldl (fun acc x =>
      if acc != "ok" then acc else
      match pre.meta? x, post.meta? x with
      | some m, some m' =>
        if m.authority == m'.authority then "ok" else
        match cmds with
        | [c] =>
          if !(c.kind == .commit || c.kind == .promote) || c.rg.chan != x then "viol:commit-without-proof"
          else match pre.task? c.g.chan c.g.id with
            | none => "viol:commit-without-proof"
            | some t =>
              if !proofMatches t m then "viol:commit-without-proof"
              else if c.g.chan != x then "viol:commit-without-proof:cross-channel-guard"
              else "ok"
        | _ => "ok"
      | _, _ => "ok") "ok"
  -- J4 a committed / promoted task is never aborted
  let v4 := g.committed.foldl (fun acc (p : Nat × Nat × Bool) =>
      if acc != "ok" then acc else
      match pre.task? p.1 p.2.1, post.task? p.1 p.2.1 with
      | some t, some t' =>
        if t.status != 6 && t'.status == 6 then
          let byAbort := cmds.any (fun c => c.kind == .abort && cmdTargets c p.1 p.2.1)
          if !byAbort then "viol:abort-after-commit:via-advance"
          else match g.tainted.find? (fun q => q.1 == p.1 && q.2.1 == p.2.1) with
            | some q => "viol:abort-after-commit:" ++ q.2.2
            | none => "viol:abort-after-commit"
        else "ok"
      | _, _ => "ok") "ok"
  -- J5 no command changes or clears a fence owned by another task
  let v5 :=
    if isSetMeta then "ok" else
    [1, 2].foldl (fun acc x =>
      if acc != "ok" then acc else
      match pre.meta? x with
      | some m =>
        if m.ftok == 0 || (post.meta? x).map Meta.fence == some m.fence then "ok"
        else if cmds.any (fun c => cmdTargets c x m.ftok && c.rg.chan == x) then "ok"
        else if cmds.any (fun c => c.rg.chan == x && c.g.id == m.ftok && c.g.chan != x) then "viol:foreign-fence:cross-channel-guard"
        else "viol:foreign-fence"
      | none => "ok") "ok"
  let verdict := [v1, v2, v3, v4, v5].foldl (fun acc v => if acc != "ok" then acc else v) "ok"
  -- ghost updates
  let committed1 := g.committed.filter (fun p =>
    match post.task? p.1 p.2.1 with
    | none => false
    | some t' =>
      -- the designed hand-off closes an embedded transfer
      !(p.2.2 && cmds.any (fun c => c.kind == .clearfence && cmdTargets c p.1 p.2.1) && !t'.emb && t'.phase == 20))
  let newly := cmds.filterMap (fun c =>
    if c.kind == .commit || c.kind == .promote then
      match pre.task? c.g.chan c.g.id, post.task? c.g.chan c.g.id with
      | some t, some t' =>
        let want := if c.kind == .commit then 7 else 26
        if t.phase != want && t'.phase == want && (pre.meta? c.rg.chan).map Meta.authority != (post.meta? c.rg.chan).map Meta.authority
        then some (c.g.chan, c.g.id, c.kind == .commit && t.kind == 2) else none
      | _, _ => none
    else none)
  let committed2 := committed1 ++ newly.filter (fun n => !committed1.any (fun p => p.1 == n.1 && p.2.1 == n.2.1))
  let tainted1 := g.tainted.filter (fun q => committed1.any (fun p => p.1 == q.1 && p.2.1 == q.2.1))
  let newTaint := committed1.filterMap (fun p =>
    match pre.task? p.1 p.2.1, post.task? p.1 p.2.1 with
    | some t, some t' =>
      if !t.abortable && t'.abortable && !tainted1.any (fun q => q.1 == p.1 && q.2.1 == p.2.1) then
        let cause :=
          if cmds.any (fun c => (c.kind == .advance || c.kind == .claim) && cmdTargets c p.1 p.2.1) then "via-advance"
          else if cmds.any (fun c => c.kind == .resetfence && cmdTargets c p.1 p.2.1) then "via-resetfence"
          else "via-other"
        some (p.1, p.2.1, cause)
      else none
    | _, _ => none)
  (verdict, { committed := committed2, tainted := tainted1 ++ newTaint,
              reactTainted := g.reactTainted || v1 == "viol:two-active:same-batch:reactivate" })

def resStr : Except Err (List String) → String
  | .ok rs => ",".intercalate rs
  | .error e => e.str

def step (d0 : DState) (op impl : String) : DState × String × String :=
  let d := { d0 with nops := d0.nops + 1 }
  -- `chmode k`: how the harness maps the two model channels to real (id,type) channels; no model effect
  if op == "chmode 0" || op == "chmode 1" || op == "chmode 2" then
    (d, (if d.nops == 1 then "ok" else "skip") ++ " #" ++ dump d.model, "ok")
  else
  match parseLine d.model op with
  | none => (d, "bad-op", "ok")
  | some line =>
    -- model
    let model' := stepLine d.model line
    let mres :=
      match line with
      | .setmeta c m => (setMeta d.model c m).2
      | .batch cmds => resStr (applyBatch d.model cmds).2
    let mout := mres ++ " #" ++ dump model'
    -- judge on the implementation's output
    let (_, idump) := splitOut impl
    match parseDump idump with
    | none => ({ d with model := model' }, mout, "viol:unparseable-output")
    | some post =>
      let pre := d.impl
      let (isSet, cmds) :=
        match parseLine pre op with
        | some (.batch cs) => (false, cs)
        | _ => (true, [])
      let (verdict, ghost') := judgeLine d.ghost pre post isSet cmds
      ({ d with model := model', impl := post, ghost := ghost' }, mout, verdict)

end WK.C17.Drv

def main : IO Unit := WK.Drv.main { init := ({} : WK.C17.Drv.DState), step := WK.C17.Drv.step }

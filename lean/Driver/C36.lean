import WK.Prelude.Drv
import WK.Spec.C36
/-
  C36 driver.  One op = one fact record and 1..n commands evaluated on it:

    perm cfg=<P><B><W>/<systemDeviceHex> sys=nil|<hex>,<hex>… ch=<id>/<ty>/<state>;…
         ct=<k>/<id>/<ty>/<uid>/<v>;… ha=<k>/<id>/<ty>/<v>;… cmd=<from>/<dev>/<id>/<ty>/<N><R>/<scoped>;…

      P,B,W   : PermissionStore set, PermissionBatchStore set, PersonWhitelistEnabled   (0|1)
      state   : `nf` | `err` | 4 digits ban,disband,sendBan,allowStranger
      k       : m (members) | d (deny list) | a (allow list);  v : 0 | 1 | e (read fails)
      N,R     : NormalizePersonChannel, RequestScoped;  scoped = len(MessageScopedUIDs)
    absent facts: channel not found, lookups false.  First occurrence of a key wins.

  output, one token per command:  `<send>~<batch>`, each `<reason>/<err>/<delivered>`,
      err ∈ nil|store|invp|inva,  delivered = hex channel id handed to the submitter | `x`.
-/
open WK WK.C35 WK.C36

def splitNonEmpty (s : String) (sep : String) : List String :=
  (s.splitOn sep).filter (· ≠ "")

def parseBit (c : Char) : Option Bool :=
  if c == '1' then some true else if c == '0' then some false else none

def parseChanState (s : String) : Option ChanRes :=
  if s == "nf" then some .notFound
  else if s == "err" then some .err
  else match s.toList with
    | [a, b, c, d] => do
      let a ← parseBit a; let b ← parseBit b; let c ← parseBit c; let d ← parseBit d
      pure (.found a b c d)
    | _ => none

def parseBoolRes (s : String) : Option BoolRes :=
  if s == "e" then some .err else if s == "1" then some (.val true) else if s == "0" then some (.val false) else none

def parseKind (s : String) : Option ListKind :=
  if s == "m" then some .members else if s == "d" then some .deny else if s == "a" then some .allow else none

def parseList {α} (s : String) (f : List String → Option α) : Option (List α) :=
  (splitNonEmpty s ";").mapM (fun e => f (e.splitOn "/"))

def kv (tok key : String) : Option String :=
  if tok.startsWith (key ++ "=") then some (tok.drop (key.length + 1)).toString else none

def parseCfg (s sysS : String) : Option Cfg :=
  match s.splitOn "/" with
  | [bits, dev] =>
    match bits.toList with
    | [p, b, w] => do
      let p ← parseBit p; let b ← parseBit b; let w ← parseBit w
      let dev ← hexDecode dev
      let sys ← (if sysS == "nil" then some none
                 else ((splitNonEmpty sysS ",").mapM hexDecode).map some)
      pure { hasPerm := p, hasBatch := b, sys := sys, systemDevice := dev, whitelist := w }
    | _ => none
  | _ => none

def parseCmd : List String → Option Cmd
  | [f, d, i, t, nr, sc] => do
    let f ← hexDecode f; let d ← hexDecode d; let i ← hexDecode i
    let t ← t.toNat?
    let sc ← sc.toNat?
    match nr.toList with
    | [n, r] => do
      let n ← parseBit n; let r ← parseBit r
      pure { sender := f, device := d, chanId := i, chanType := t, normalize := n, requestScoped := r, scopedN := sc }
    | _ => none
  | _ => none

def mkStore (chs : List (Bytes × Nat × ChanRes)) (cts : List (ListKind × Bytes × Nat × Bytes × BoolRes))
    (has : List (ListKind × Bytes × Nat × BoolRes)) : Store where
  chan id ty := match chs.find? (fun e => e.1 == id && e.2.1 == ty) with
    | some e => e.2.2
    | none => .notFound
  contains k id ty uid := match cts.find? (fun e => e.1 == k && e.2.1 == id && e.2.2.1 == ty && e.2.2.2.1 == uid) with
    | some e => e.2.2.2.2
    | none => .val false
  hasAny k id ty := match has.find? (fun e => e.1 == k && e.2.1 == id && e.2.2.1 == ty) with
    | some e => e.2.2.2
    | none => .val false

def showErr : ErrClass → String
  | .none => "nil" | .store => "store" | .invalidPerson => "invp" | .invalidAgent => "inva"

def parseErr (s : String) : Option ErrClass :=
  if s == "nil" then some .none else if s == "store" then some .store
  else if s == "invp" then some .invalidPerson else if s == "inva" then some .invalidAgent else none

def showOutcome (o : Outcome) : String :=
  s!"{o.reason}/{showErr o.err}/" ++ (match o.delivered with | some d => hexEncode d | none => "x")

def parseOutcome (s : String) : Option Outcome :=
  match s.splitOn "/" with
  | [r, e, d] => do
    let r ← r.toNat?
    let e ← parseErr e
    let d ← (if d == "x" then some none else (hexDecode d).map some)
    pure ⟨r, e, d⟩
  | _ => none

def parsePair (s : String) : Option (Outcome × Outcome) :=
  match s.splitOn "~" with
  | [a, b] => do
    let a ← parseOutcome a
    let b ← parseOutcome b
    pure (a, b)
  | _ => none

def c36Step (_ : Unit) (op impl : String) : Unit × String × String :=
  let bad : Unit × String × String := ((), "bad-op", "ok")
  match fields op with
  | ["perm", c, s, ch, ct, ha, cm] =>
    let parsed : Option (Cfg × Store × List Cmd) := do
      let c ← kv c "cfg"; let s ← kv s "sys"; let ch ← kv ch "ch"; let ct ← kv ct "ct"
      let ha ← kv ha "ha"; let cm ← kv cm "cmd"
      let cfg ← parseCfg c s
      let chs ← parseList ch (fun
        | [i, t, st] => do pure ((← hexDecode i), (← t.toNat?), (← parseChanState st))
        | _ => none)
      let cts ← parseList ct (fun
        | [k, i, t, u, v] => do pure ((← parseKind k), (← hexDecode i), (← t.toNat?), (← hexDecode u), (← parseBoolRes v))
        | _ => none)
      let has ← parseList ha (fun
        | [k, i, t, v] => do pure ((← parseKind k), (← hexDecode i), (← t.toNat?), (← parseBoolRes v))
        | _ => none)
      let cmds ← parseList cm parseCmd
      if cmds.isEmpty then none else pure (cfg, mkStore chs cts has, cmds)
    match parsed with
    | none => bad
    | some (cfg, st, cmds) =>
      let m := " ".intercalate (cmds.map (fun cmd => showOutcome (perSend cfg st cmd) ++ "~" ++ showOutcome (batch cfg st cmd)))
      let outs := (fields impl).map parsePair
      let v :=
        if outs.length != cmds.length then "viol:unparseable-output"
        else combine ((cmds.zip outs).map (fun (cmd, o) =>
          match o with
          | some (a, b) => judgeOne cfg st cmd a b
          | none => "viol:unparseable-output"))
      ((), m, v)
  | _ => bad

def main : IO Unit := Drv.main { init := (), step := c36Step }

import WK.Prelude.Drv
import WK.Spec.C20
import WK.Model.C20
/-
  C20 driver.  One table per case (`none` = a nil *HashSlotTable).

  ops                                   impl / model output
  new H P                               dump
  dump                                  dump   = `v=<ver> h=<H> a=<slot*run,…|-> m=<hs:src:tgt:phase;…|->` or `nil`
  lookup HS                             <slot>
  reassign HS SLOT | start HS SRC TGT | advance HS PHASE | finalize HS | abort HS
                                        `v=<ver> l=<Lookup(HS)> g=<src:tgt:phase of GetMigration(HS) | ->`
  enc                                   hex of Encode()
  rt                                    `same` when Decode(Encode(t)) has the dump of t, else `diff`/`err`
  dec HEX                               `err` (table kept) or the dump of the decoded table (table replaced)
  plan add|rm|reb SLOT n|r|m            `p=<hs:from>to,…|-> v=<ver>`; n = plan only, r = applied with Reassign,
                                        m = applied with Start/Advance/Advance/Finalize per move

  The verdict judges the IMPLEMENTATION's output of the op against the property
  (WK.Spec.C20), with the table before the op taken from the model state (which
  the correspondence has pinned to the implementation's table up to this op).
-/
open WK WK.C20

def u16? (s : String) : Option Nat := s.toNat?.bind (fun n => if n < 65536 then some n else none)
def u64? (s : String) : Option Nat := s.toNat?.bind (fun n => if n < 2 ^ 64 then some n else none)

def rle : List Nat → List (Nat × Nat)
  | [] => []
  | x :: xs =>
    match rle xs with
    | (y, n) :: rest => if x = y then (y, n + 1) :: rest else (x, 1) :: (y, n) :: rest
    | [] => [(x, 1)]

def joinOr (sep : String) (xs : List String) : String :=
  if xs.isEmpty then "-" else sep.intercalate xs

def dumpTable : Option Table → String
  | none => "nil"
  | some t =>
    let a := joinOr "," ((rle t.asg).map (fun (s, n) => s!"{s}*{n}"))
    let m := joinOr ";" (t.migs.map (fun m => s!"{m.hs}:{m.src}:{m.tgt}:{m.phase}"))
    s!"v={t.version} h={t.asg.length} a={a} m={m}"

def oLookup (t : Option Table) (hs : Nat) : Nat := match t with | none => 0 | some t => lookup t hs
def oVersion (t : Option Table) : Nat := match t with | none => 0 | some t => t.version
def oMig (t : Option Table) (hs : Nat) : Option Mig := match t with | none => none | some t => migGet t.migs hs

def migStr : Option Mig → String
  | none => "-"
  | some m => s!"{m.src}:{m.tgt}:{m.phase}"

def mutOut (t : Option Table) (hs : Nat) : String :=
  s!"v={oVersion t} l={oLookup t hs} g={migStr (oMig t hs)}"

def moveStr (m : Move) : String := s!"{m.hs}:{m.src}>{m.dst}"

def planOut (p : List Move) (v : Nat) : String :=
  "p=" ++ joinOr "," (p.map moveStr) ++ s!" v={v}"

/-- `key=value` → value -/
def kv (key : String) (s : String) : Option String :=
  if s.startsWith (key ++ "=") then some ((s.drop (key.length + 1)).toString) else none

def parseMove (s : String) : Option Move :=
  match s.splitOn ":" with
  | [hs, r] =>
    match r.splitOn ">" with
    | [f, t] =>
      match hs.toNat?, f.toNat?, t.toNat? with
      | some a, some b, some c => some ⟨a, b, c⟩
      | _, _, _ => none
    | _ => none
  | _ => none

def parsePlan (s : String) : Option (List Move) :=
  if s == "-" then some [] else (s.splitOn ",").mapM parseMove

def parseRun (run : String) : Option (List Nat) :=
  match run.splitOn "*" with
  | [a, n] =>
    match a.toNat?, n.toNat? with
    | some a, some n => some (List.replicate n a)
    | _, _ => none
  | _ => none

def parseRle (s : String) : Option (List Nat) :=
  if s == "-" then some [] else ((s.splitOn ",").mapM parseRun).map List.flatten

def oFull (t : Option Table) : Bool := match t with | none => false | some t => fullyAssigned t.asg

/-- verdict for a mutating table op: version strictness + totality, on the implementation's report -/
def judgeMut (pre : Option Table) (hs : Nat) (slotArgsNonZero : Bool) (impl : String) : String :=
  match fields impl with
  | [fv, fl, fg] =>
    match (kv "v" fv).bind String.toNat?, (kv "l" fl).bind String.toNat?, kv "g" fg with
    | some v', some l', some g' =>
      let v := oVersion pre
      let changed := l' ≠ oLookup pre hs ∨ g' ≠ migStr (oMig pre hs)
      if changed ∧ v < 2 ^ 64 - 1 ∧ ¬ (v' > v) then "viol:version-not-increased"
      else if ¬ changed ∧ v' ≠ v then "viol:version-changed-without-effect"
      else if oFull pre ∧ slotArgsNonZero ∧ hs < (match pre with | some t => t.asg.length | none => 0) ∧ l' = 0
        then "viol:hash-slot-unassigned-after-op"
      else "ok"
    | _, _, _ => "viol:unparseable-output"
  | _ => "viol:unparseable-output"

def judgeNew (h : Nat) (p : Int) (impl : String) : String :=
  match fields impl with
  | [fv, fh, fa, _] =>
    match (kv "v" fv).bind String.toNat?, (kv "h" fh).bind String.toNat?, (kv "a" fa).bind parseRle with
    | some _, some h', some a =>
      if h' ≠ h ∨ a.length ≠ h then "viol:new-table-wrong-size"
      else if p ≥ 1 ∧ ¬ fullyAssigned a then "viol:new-table-not-total"
      else if p ≥ 1 ∧ ¬ balanced a then "viol:new-table-unbalanced"
      else "ok"
    | _, _, _ => "viol:unparseable-output"
  | _ => "viol:unparseable-output"

def applyMode (t : Table) (p : List Move) (mode : String) : Table :=
  if mode == "r" then applyPlanReassign t p
  else if mode == "m" then applyPlanMigrate t p
  else t

def c20Step (st : Option Table) (op impl : String) : Option Table × String × String :=
  let bad := (st, "bad-op", "ok")
  match fields op with
  | ["new", h, p] =>
    match h.toNat?, p.toInt? with
    | some h, some p =>
      if h > 65535 ∨ p < -2147483648 ∨ p > 2147483647 then bad else
      let t := newTable h p
      (some t, dumpTable (some t), judgeNew h p impl)
    | _, _ => bad
  | ["dump"] => (st, dumpTable st, "ok")
  | ["lookup", hs] =>
    match u16? hs with
    | some hs =>
      let v := match impl.toNat?, st with
        | some r, some t => if fullyAssigned t.asg ∧ hs < t.asg.length ∧ r = 0 then "viol:lookup-unassigned" else "ok"
        | none, _ => "viol:unparseable-output"
        | _, _ => "ok"
      (st, toString (oLookup st hs), v)
    | none => bad
  | ["reassign", hs, s] =>
    match u16? hs, u64? s with
    | some hs, some s =>
      let st' := st.map (fun t => reassign t hs s)
      (st', mutOut st' hs, judgeMut st hs (s ≠ 0) impl)
    | _, _ => bad
  | ["start", hs, a, b] =>
    match u16? hs, u64? a, u64? b with
    | some hs, some a, some b =>
      let st' := st.map (fun t => startMigration t hs a b)
      (st', mutOut st' hs, judgeMut st hs true impl)
    | _, _, _ => bad
  | ["advance", hs, ph] =>
    match u16? hs, ph.toNat? with
    | some hs, some ph =>
      if ph > 255 then bad else
      let st' := st.map (fun t => advanceMigration t hs ph)
      (st', mutOut st' hs, judgeMut st hs true impl)
    | _, _ => bad
  | ["finalize", hs] =>
    match u16? hs with
    | some hs =>
      let st' := st.map (fun t => finalizeMigration t hs)
      -- the target of a migration started through StartMigration is non-zero; one loaded by Decode may be zero
      let tgtOk := match oMig st hs with | some m => m.tgt ≠ 0 | none => true
      (st', mutOut st' hs, judgeMut st hs tgtOk impl)
    | none => bad
  | ["abort", hs] =>
    match u16? hs with
    | some hs =>
      let st' := st.map (fun t => abortMigration t hs)
      (st', mutOut st' hs, judgeMut st hs true impl)
    | none => bad
  | ["enc"] =>
    let m := match st with | none => "-" | some t => hexEncode (encode t)
    let v := match st with
      | none => if impl == "-" then "ok" else "viol:encode-of-nil"
      | some t =>
        match hexDecode impl with
        | none => "viol:unparseable-output"
        | some bs => if decode bs = some t then "ok" else "viol:encoding-does-not-decode-to-table"
    (st, m, v)
  | ["rt"] =>
    let m := match st with
      | none => "nil"
      | some t =>
        match decode (encode t) with
        | none => "err"
        | some t' => if t' = t then "same" else "diff"
    (st, m, if impl == "same" ∨ (st.isNone ∧ impl == "nil") then "ok" else "viol:roundtrip-changed-table")
  | ["dec", hx] =>
    match hexDecode hx with
    | none => bad
    | some bs =>
      match decode bs with
      | none => (st, "err", "ok")
      | some t => (some t, dumpTable (some t), "ok")
  | ["plan", kind, s, mode] =>
    match u64? s with
    | none => bad
    | some s =>
      if mode ≠ "n" ∧ mode ≠ "r" ∧ mode ≠ "m" then bad else
      let k? : Option PlanKind := if kind == "add" then some .add else if kind == "rm" then some .remove
        else if kind == "reb" then some .rebalance else none
      match k? with
      | none => bad
      | some k =>
        let p := match st with
          | none => []
          | some t => match k with
            | .add => computeAdd t s
            | .remove => computeRemove t s
            | .rebalance => computeRebalance t
        let st' := st.map (fun t => applyMode t p mode)
        let m := planOut p (oVersion st')
        let verdict :=
          match fields impl with
          | [fp, fv] =>
            match (kv "p" fp).bind parsePlan, (kv "v" fv).bind String.toNat? with
            | some ip, some v' =>
              match st with
              | none => if ip.isEmpty then "ok" else "viol:plan-for-nil-table"
              | some t =>
                let j := judgePlan k t.asg s ip
                if j ≠ "ok" then j
                else if mode == "n" ∧ v' ≠ t.version then "viol:version-changed-without-effect"
                else if mode ≠ "n" ∧ ¬ ip.isEmpty ∧ t.version + 4 * ip.length < 2 ^ 64 ∧ ¬ (v' > t.version)
                  then "viol:version-not-increased"
                else "ok"
            | _, _ => "viol:unparseable-output"
          | _ => "viol:unparseable-output"
        (st', m, verdict)
  | _ => bad

def main : IO Unit := Drv.main { init := none, step := c20Step }

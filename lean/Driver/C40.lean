import WK.Prelude.Drv
import WK.Spec.C40
/-
  C40 driver.  Ops (hex fields; `-` = empty):

    ev <ch> <ct> <no> <id> <key> <type> <vis> <occ> <payload> <upd>   Shard.AppendMessageEvent
    bt ev … ; ev … ; …                                                   one meta.Batch of appends, committed once
    nd <ch> <ct> <no> <id> <key> <type> <vis> <occ> <payload> <upd>   Node.AppendMessageEvent on the slot leader
                                                                         (real stream cache; durable writes through the real slot FSM)
    lose                                                                 the leader restarts (empty stream cache)
    cap <n>                                                              set the stream cache's session capacity (maxSessions)
    rt <l1> <l2> <owners>                                                real route-table change: leaders of Slot 1 / Slot 2 (node 1|2),
                                                                         owners = one digit (1|2) per hash slot, e.g. 1121
    q <ch> <ct> <no>                                                     read cursor and lanes

  payload descriptor:  -            empty
                       x<hex>       non-JSON bytes (must start with `!`)
                       j<n>         {"k":n}
                       d<hex>       {"kind":"text","delta":"…"}      (alphanumeric text only)
                       s<hex>       {"kind":"text","text":"…"}
                       t<r>.<hexerr>.<n|s<hex>|j<n>>   {"snapshot":…,"end_reason":r,"error":"…"}

  output:  ok <key> <seq> <st> <lane> cur=<n> <key>=<lane> …   |  invalid  |  cachemiss
  lane  :  st,seq,lastId,type,vis,occ,snap,endReason,err,upd     (snap = N | T<hex> | R<hex>)
-/
open WK WK.C40

def pInt64 (s : String) : Option Int :=
  match s.toInt? with
  | some n => if -9223372036854775808 ≤ n ∧ n ≤ 9223372036854775807 then some n else none
  | none => none

def alnum (b : UInt8) : Bool := (48 ≤ b && b ≤ 57) || (65 ≤ b && b ≤ 90) || (97 ≤ b && b ≤ 122)

def pText (s : String) : Option Bytes :=
  match hexDecode s with
  | some bs => if bs.all alnum then some bs else none
  | none => none

def natBytes (n : Nat) : Bytes := str (toString n)

def jBytes (n : Nat) : Bytes := str "{\"k\":" ++ natBytes n ++ str "}"

def sBytes (t : Bytes) : Bytes := str "{\"kind\":\"text\",\"text\":\"" ++ t ++ str "\"}"

/-- snapshot part of a terminal payload: (raw JSON bytes, view) -/
def pSnapPart (s : String) : Option (Bytes × Snap) :=
  if s == "n" then some (str "null", .none)
  else if s.startsWith "s" then (pText (s.drop 1).toString).map fun t => (sBytes t, .text t)
  else if s.startsWith "j" then ((s.drop 1).toString.toNat?).map fun n => (jBytes n, .raw (jBytes n))
  else none

def pPayload (s : String) : Option Payload :=
  if s == "-" then some {}
  else if s == "null" then
    some { delta := none, view := .raw [110, 117, 108, 108], term := some (.none, 0, []), empty := false, isNull := true }
  else if s.startsWith "x" then
    match hexDecode (s.drop 1).toString with
    | some (33 :: r) => some { delta := none, view := .raw (33 :: r), term := none, empty := false }
    | _ => none
  else if s.startsWith "j" then
    ((s.drop 1).toString.toNat?).map fun n =>
      { delta := none, view := .raw (jBytes n), term := some (.none, 0, []), empty := false }
  else if s.startsWith "d" then
    (pText (s.drop 1).toString).map fun t =>
      { delta := some t, view := .text [], term := some (.none, 0, []), empty := false }
  else if s.startsWith "s" then
    (pText (s.drop 1).toString).map fun t =>
      { delta := some [], view := .text t, term := some (.none, 0, []), empty := false }
  else if s.startsWith "t" then
    match (s.drop 1).toString.splitOn "." with
    | [r, e, sn] =>
      match r.toNat?, pText e, pSnapPart sn with
      | some r, some e, some (sb, sv) =>
        if r > 255 then none else
        let raw := str "{\"snapshot\":" ++ sb ++ str ",\"end_reason\":" ++ natBytes r ++ str ",\"error\":\"" ++ e ++ str "\"}"
        some { delta := none, view := .raw raw, term := some (sv, r, e), empty := false }
      | _, _, _ => none
    | _ => none
  else none

def pRaw : List String → Option RawEvent
  | [ch, ct, no, id, key, ty, vis, occ, pl, upd] => do
    pure ⟨← hexDecode ch, ← pInt64 ct, ← hexDecode no, ← hexDecode id, ← hexDecode key, ← hexDecode ty,
          ← hexDecode vis, ← pInt64 occ, ← pPayload pl, ← pInt64 upd⟩
  | _ => none

def stStr : Status → String
  | .open_ => "o" | .closed => "c" | .error => "e" | .cancelled => "x"

def pSt (s : String) : Option Status :=
  if s == "o" then some .open_ else if s == "c" then some .closed
  else if s == "e" then some .error else if s == "x" then some .cancelled else none

def tyIdx : EType → Nat
  | .open_ => 0 | .delta => 1 | .close => 2 | .error => 3 | .cancel => 4 | .snapshot => 5 | .finish => 6

def tyOf : Nat → Option EType
  | 0 => some .open_ | 1 => some .delta | 2 => some .close | 3 => some .error
  | 4 => some .cancel | 5 => some .snapshot | 6 => some .finish | _ => none

def snapStr : Snap → String
  | .none => "N"
  | .text t => "T" ++ hexEncode t
  | .raw b => "R" ++ hexEncode b

def pSnapStr (s : String) : Option Snap :=
  if s == "N" then some .none
  else if s.startsWith "T" then (hexDecode (s.drop 1).toString).map .text
  else if s.startsWith "R" then (hexDecode (s.drop 1).toString).map .raw
  else none

def laneStr (l : Lane) : String :=
  let ty := match l.lastTy with | some t => toString (tyIdx t) | none => "-"
  s!"{stStr l.status},{l.seq},{hexEncode l.lastId},{ty},{hexEncode l.vis},{l.occ},{snapStr l.snap},{l.endReason},{hexEncode l.err},{l.upd}"

def pLane (s : String) : Option Lane :=
  match s.splitOn "," with
  | [st, sq, id, ty, vis, occ, sn, er, e, upd] => do
    let ty ← if ty == "-" then some none else (ty.toNat?.bind tyOf).map some
    pure ⟨← pSt st, ← sq.toNat?, ← hexDecode id, ty, ← hexDecode vis, ← pInt64 occ, ← pSnapStr sn, ← er.toNat?,
          ← hexDecode e, ← pInt64 upd⟩
  | _ => none

def sortLanes (ls : List (Bytes × Lane)) : List (Bytes × Lane) := ls.foldl (fun acc x => insertByKey x acc) []

def obsOf (db : DB) (mk : MsgKey) : Obs :=
  { cur := ((aget mk db.cursors).map (·.1)).getD 0,
    lanes := sortLanes ((db.lanes.filter fun kl => kl.1.1 = mk).map fun kl => (kl.1.2, kl.2)) }

def obsStr (o : Obs) : String :=
  " ".intercalate (s!"cur={o.cur}" :: o.lanes.map fun kl => hexEncode kl.1 ++ "=" ++ laneStr kl.2)

def resStr (r : Result) : String := s!"{hexEncode r.key} {r.seq} {stStr r.status} {laneStr r.state}"

def pObs (fs : List String) : Option Obs :=
  match fs with
  | c :: ls =>
    if !c.startsWith "cur=" then none else do
      let cur ← (c.drop 4).toString.toNat?
      let lanes ← ls.mapM fun s => match s.splitOn "=" with
        | [k, l] => do pure (← hexDecode k, ← pLane l)
        | _ => none
      pure { cur := cur, lanes := lanes }
  | [] => none

structure JSt where
  n : Node := {}
  obs : List (MsgKey × Obs) := []                 -- last observation of each message on the implementation
  firsts : List ((MsgKey × Bytes) × Triple) := [] -- result of the first durable application of an event id
  pending : List (MsgKey × List Bytes) := []      -- lanes open in the leader cache, per the implementation's acknowledgements
  sess : List MsgKey := []                        -- messages with a cache session since the last loss / finish
  unsure : List MsgKey := []                      -- sessions with no open lane that an admission at capacity may have evicted
  acked : List ((MsgKey × Bytes) × Snap) := []    -- last acknowledged cached content of each pending lane
  cfirst : List ((MsgKey × Bytes) × (Bytes × Snap × Status)) := []  -- first cache-level result of each event id of a live session
  tainted : List (MsgKey × Bytes) := []           -- pending lanes whose acknowledged content was silently dropped
  fuzzy : List MsgKey := []                       -- messages with an acknowledgement the judge could not interpret: the cache may hold open lanes it does not know of
  seen : List (MsgKey × Bytes) := []              -- event ids acknowledged at node level since the message's session (re)started

def worst (a b : String) : String := if a == "ok" then b else a

/-- the checks common to every op that reports an observation of message `mk` -/
def judgeObs (j : JSt) (mk : MsgKey) (new : Obs) : String :=
  let prev := (aget mk j.obs).getD {}
  if !seqOk prev new then "viol:seq-regressed"
  else if !terminalKept prev new then "viol:terminal-lane-changed"
  else "ok"

/-- judge one single-event op (table or node level) from the implementation's output -/
def judgeEvent (j : JSt) (raw : RawEvent) (node : Bool) (impl : String) : JSt × String :=
  match normalize raw with
  | none => (j, if impl == "invalid" then "ok" else "viol:invalid-event-accepted")
  | some ev =>
    let fs := fields impl
    match fs with
    | ["invalid"] => (j, "ok")     -- refusing is always fail-closed; the model diff reports the disagreement
    | ["cachemiss"] => (j, "ok")
    | ["notleader"] => (j, "ok")
    | ["backpressure"] => (j, "ok")
    | ["panic"] => (j, "viol:panic-null-terminal-payload")
    | "ok" :: k :: sq :: st :: ls :: rest =>
      match hexDecode k, sq.toNat?, pSt st, pObs rest, pLane ls with
      | some k, some sq, some st, some new, some rl =>
        let prev := (aget ev.msg j.obs).getD {}
        let v0 := judgeObs j ev.msg new
        let trip : Triple := (k, sq, st)
        let durable := !node || !(ev.ty == .open_ || ev.ty == .delta || ev.ty == .snapshot)
        let v1 := match aget (ev.msg, ev.id) j.firsts with
          | some f => if replayOk ev.id f new durable (some trip) then "ok"
                      else if !replayOk ev.id f new false none then "viol:replay-applied-twice" else "viol:replay-result-differs"
          | none => "ok"
        -- record the first durable application (the cursor moved and the result carries the new seq)
        let firsts := if durable && (aget (ev.msg, ev.id) j.firsts).isNone && prev.cur < new.cur && sq == new.cur
          then aput (ev.msg, ev.id) trip j.firsts else j.firsts
        let j := { j with obs := aput ev.msg new j.obs, firsts := firsts }
        let m := ev.msg
        let pend := (aget m j.pending).getD []
        let unsure := j.unsure.contains m
        let addK := if pend.contains k then pend else k :: pend
        let (j2, v2) : JSt × String :=
          if !node then (j, "ok")
          else if !durable then
            -- an acknowledged cache-only event
            let known := j.sess.contains m && !unsure
            -- a session with an open (pending) lane is never evicted: only then is the cache's memory certain
            let alive := known && !pend.isEmpty
            let wasSeen := j.seen.contains (m, ev.id)
            let j := if wasSeen then j else { j with seen := (m, ev.id) :: j.seen }
            match (if alive then aget (m, ev.id) j.cfirst else none) with
            | some f =>
              -- replayed event id inside a live session: the stored result, nothing applied again
              (j, if f == (k, rl.snap, st) then "ok" else "viol:replay-applied-twice")
            | none =>
              -- an id acknowledged before whose first result the judge no longer holds may be answered
              -- from the cache's memory (a stale result, possibly of another lane): it says nothing
              -- about the lane's present content, so it is not used as evidence
              if wasSeen then
                -- ... and the judge no longer knows the content of the lanes it may have touched
                let unk := fun (x : MsgKey × Bytes) => x == (m, k) || x == (m, ev.key)
                ({ j with acked := j.acked.filter (fun x => !unk x.1), tainted := j.tainted.filter (fun x => !unk x),
                          fuzzy := if j.fuzzy.contains m then j.fuzzy else m :: j.fuzzy }, "ok") else
              -- new id (or a session the cache may have forgotten: start over for this message)
              let j := if alive then j else
                { j with cfirst := j.cfirst.filter (fun x => x.1.1 != m), acked := j.acked.filter (fun x => x.1.1 != m),
                         tainted := j.tainted.filter (fun x => x.1 != m) }
              -- admitting a NEW session may evict any session whose lanes are all terminal
              let j := if known then j else
                let victims := j.sess.filter fun x => x != m && ((aget x j.pending).getD []).isEmpty
                { j with sess := m :: j.sess.filter (fun x => x != m && !victims.contains x),
                         unsure := (victims ++ j.unsure).filter (· != m) }
              if st.terminal then
                -- the lane is terminal in the cache: it holds no open content any more
                ({ j with cfirst := aput (m, ev.id) (k, rl.snap, st) j.cfirst,
                          pending := aput m (((aget m j.pending).getD []).filter (· != k)) j.pending,
                          acked := j.acked.filter (fun x => x.1 != (m, k)),
                          tainted := j.tainted.filter (· != (m, k)) }, "ok")
              else
                -- continuity: the acknowledged lane content extends what was acknowledged before
                let broken := match (if alive && pend.contains k then aget (m, k) j.acked else none) with
                  | some a =>
                    let expected := match ev.ty with
                      | .delta => reduceDelta a ev.pl
                      | .snapshot => ev.pl.view
                      | _ => a
                    rl.snap != expected
                  | none => false
                ({ j with cfirst := aput (m, ev.id) (k, rl.snap, st) j.cfirst, acked := aput (m, k) rl.snap j.acked,
                          pending := aput m addK j.pending,
                          tainted := if broken then (m, k) :: j.tainted else j.tainted }, "ok")
          else if ev.ty == .finish then
            let lost := j.tainted.any fun x => x.1 == m && pend.contains x.2
            -- every pending lane must end closed with the content that was acknowledged for it
            let wrong := pend.any fun lk =>
              match aget (m, lk) j.acked, aget lk prev.lanes, aget lk new.lanes with
              | some a, pl, some nl =>
                a != .none && snapIsJSON a && (termOf ev.pl).1 == .none &&
                (match pl with | some p => !p.status.terminal | none => true) && nl.snap != a
              | _, _, _ => false
            let v := if unsure then "ok"
                     else if pend.isEmpty && !hasSnapshot ev.pl && !j.fuzzy.contains m then "viol:finish-not-fail-closed"
                     else if !finishCovers pend new then "viol:finish-dropped-cached-lane"
                     else if lost || wrong then "viol:finish-dropped-acknowledged-deltas" else "ok"
            ({ j with pending := adel m j.pending, sess := j.sess.filter (· != m), unsure := j.unsure.filter (· != m),
                      cfirst := j.cfirst.filter (fun x => x.1.1 != m), acked := j.acked.filter (fun x => x.1.1 != m),
                      tainted := j.tainted.filter (fun x => x.1 != m), seen := j.seen.filter (fun x => x.1 != m), fuzzy := j.fuzzy.filter (· != m) }, v)
          else
            -- close/error/cancel: markTerminalPersisted copies the returned lane into an existing session
            -- (a replayed id may return a lane that is still open: it is then open in the cache too)
            let j := if j.seen.contains (m, ev.id) then j else { j with seen := (m, ev.id) :: j.seen }
            if !j.sess.contains m || unsure then (j, "ok")
            else
              let v := if st.terminal && j.tainted.contains (m, k) then "viol:finish-dropped-acknowledged-deltas" else "ok"
              ({ j with pending := aput m (if st.terminal then pend.filter (· != k) else addK) j.pending,
                        cfirst := aput (m, ev.id) (k, rl.snap, st) j.cfirst,
                        acked := if st.terminal then j.acked.filter (fun x => x.1 != (m, k)) else aput (m, k) rl.snap j.acked,
                        tainted := if st.terminal then j.tainted.filter (· != (m, k)) else j.tainted }, v)
        (j2, worst v0 (worst v1 v2))
      | _, _, _, _, _ => (j, "viol:unparseable-output")
    | _ => (j, "viol:unparseable-output")

def c40Step (j : JSt) (op impl : String) : JSt × String × String :=
  match fields op with
  | ["lose"] => ({ j with n := loseCache j.n, pending := [], sess := [], unsure := [], acked := [], cfirst := [], tainted := [], seen := [], fuzzy := [] }, "ok", "ok")
  | ["cap", c] =>
    match c.toNat? with
    | some c => if c == 0 || c > 100000 then (j, "bad-op", "ok") else ({ j with n := { j.n with cap := c } }, "ok", "ok")
    | none => (j, "bad-op", "ok")
  | ["rt", a, b, os] =>
    let own := os.toList.map fun c => c.toNat - 48
    match a.toNat?, b.toNat? with
    | some l1, some l2 =>
      if l1 > 2 || l2 > 2 || l1 == 0 || l2 == 0 || own.length != j.n.route.own.length || !(own.all fun o => o == 1 || o == 2) then (j, "bad-op", "ok") else
      let r : Route := ⟨l1, l2, own⟩
      -- the judge's view of which cached sessions an honest leader must forget
      let lost := lostSlots j.n.route r
      let gone := fun (m : MsgKey) => lost.contains (hashSlotOf m.ch own.length)
      ({ j with n := setRoute j.n r, pending := j.pending.filter (fun p => !gone p.1), sess := j.sess.filter (fun m => !gone m),
                unsure := j.unsure.filter (fun m => !gone m), acked := j.acked.filter (fun x => !gone x.1.1),
                cfirst := j.cfirst.filter (fun x => !gone x.1.1), tainted := j.tainted.filter (fun x => !gone x.1),
                seen := j.seen.filter (fun x => !gone x.1), fuzzy := j.fuzzy.filter (fun x => !gone x) },
        "ok", "ok")
    | _, _ => (j, "bad-op", "ok")
  | ["q", ch, ct, no] =>
    match hexDecode ch, pInt64 ct, hexDecode no with
    | some ch, some ct, some no =>
      let mk : MsgKey := ⟨trim ch, ct, trim no⟩
      if mk.ch = [] ∨ mk.ct ≤ 0 ∨ mk.no = [] then (j, "invalid", "ok") else
      let out := "ok " ++ obsStr (obsOf j.n.db mk)
      match fields impl with
      | "ok" :: rest =>
        match pObs rest with
        | some new => ({ j with obs := aput mk new j.obs }, out, judgeObs j mk new)
        | none => (j, out, "viol:unparseable-output")
      | _ => (j, out, "viol:unparseable-output")
    | _, _, _ => (j, "bad-op", "ok")
  | "ev" :: rest =>
    match pRaw rest with
    | none => (j, "bad-op", "ok")
    | some raw =>
      let (db', res) := tstep j.n.db raw
      let out := match res, normalize raw with
        | some r, some ev => "ok " ++ resStr r ++ " " ++ obsStr (obsOf db' ev.msg)
        | _, _ => "invalid"
      let j1 := { j with n := { j.n with db := db' } }
      let (j2, v) := judgeEvent j1 raw false impl
      (j2, out, v)
  | "nd" :: rest =>
    match pRaw rest with
    | none => (j, "bad-op", "ok")
    | some raw =>
      let (n', e, res) := nstepP j.n raw
      let out := match e, res, normalize raw with
        | .ok, some r, some ev => "ok " ++ resStr r ++ " " ++ obsStr (obsOf n'.db ev.msg)
        | .cachemiss, _, _ => "cachemiss"
        | .notleader, _, _ => "notleader"
        | .backpressure, _, _ => "backpressure"
        | .panic, _, _ => "panic"
        | _, _, _ => "invalid"
      let j1 := { j with n := n' }
      let (j2, v) := judgeEvent j1 raw true impl
      (j2, out, v)
  | "bt" :: rest =>
    let subs := (rest.foldl (fun (p : List (List String) × List String) f =>
      if f == ";" then (p.1 ++ [p.2], []) else (p.1, p.2 ++ [f])) ([], []))
    let subs := subs.1 ++ [subs.2]
    match subs.mapM (fun s => match s with | "ev" :: r => pRaw r | _ => none) with
    | none => (j, "bad-op", "ok")
    | some raws =>
      let (db', res) := tbatch j.n.db raws
      let j1 := { j with n := { j.n with db := db' } }
      match res, raws.head?.bind normalize with
      | some rs, some ev0 =>
        let trip := ";".intercalate (rs.map fun r => s!"{hexEncode r.key},{r.seq},{stStr r.status}")
        let out := "ok " ++ trip ++ " " ++ obsStr (obsOf db' ev0.msg)
        -- judged end to end on the first event's message: sequence, terminal lanes
        match fields impl with
        | "ok" :: _ :: obs =>
          match pObs obs with
          | some new => ({ j1 with obs := aput ev0.msg new j1.obs }, out, judgeObs j1 ev0.msg new)
          | none => (j1, out, "viol:unparseable-output")
        | ["invalid"] => (j1, out, "ok")
        | _ => (j1, out, "viol:unparseable-output")
      | _, _ => (j1, "invalid", if impl == "invalid" then "ok" else "viol:invalid-event-accepted")
  | _ => (j, "bad-op", "ok")

def main : IO Unit := Drv.main { init := ({} : JSt), step := c40Step }

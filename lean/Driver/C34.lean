import WK.Prelude.Drv
import WK.Spec.C34
/-
  C34 driver.  One case = one user's history over a few channels.
  environment ops (answered `ok` by both sides):
    row c j r d a t        install membership row (join read deletedTo activatedAt tomb)
    norow c                remove the row
    head c o L R S last    set the channel head (outcome ok|nvm|del|retry|bad, committed,
                           retention, ownLastSend, last message seq or `-`)
    send c own             one more committed message (own=1: sent by this user)
    retain c x             retention boundary := max(old, x)
  commands through the real App:
    clear c | set c n | del c | act c t     -> `<status> <row>`; row = j:r:d:a:t | none
    list | retry c1,c2,…                    -> `items=c:unread:last:j:r:d:a,… deletes=… unresolved=…` | `err`
-/
open WK WK.C34

def showRow : Option Row → String
  | none => "none"
  | some r => s!"{r.join}:{r.read}:{r.del}:{r.act}:{boolStr r.tomb}"

def parseRow (s : String) : Option (Option Row) :=
  if s == "none" then some none else
  match s.splitOn ":" with
  | [j, r, d, a, t] => do
    let j ← j.toNat?; let r ← r.toNat?; let d ← d.toNat?; let a ← a.toInt?
    let t ← (if t == "1" then some true else if t == "0" then some false else none)
    pure (some ⟨j, r, d, a, t⟩)
  | _ => none

def showStatus : Status → String
  | .ok => "ok" | .notFound => "notfound" | .notReady => "notready" | .other => "other"

def parseOutcome (s : String) : Option Outcome :=
  if s == "ok" then some .ok else if s == "nvm" then some .noVisible else if s == "del" then some .delete
  else if s == "retry" then some .retry else if s == "bad" then some .bad else none

def showOptNat : Option Nat → String
  | some n => toString n | none => "-"

def parseOptNat (s : String) : Option (Option Nat) :=
  if s == "-" then some none else s.toNat?.map some

def joinOr (xs : List String) : String := if xs.isEmpty then "-" else ",".intercalate xs

def sortStr (xs : List String) : List String := xs.mergeSort (fun a b => decide (a ≤ b))

/-- List / Retry over the given (name,row,head) candidates, already de-duplicated -/
def listing (cands : List (String × Option Row × Head)) : String :=
  let live := cands.filterMap (fun (c, r, h) => match r with
    | some r => if r.tomb then none else some (c, r, h)
    | none => none)
  let dead := cands.filterMap (fun (c, r, _) => match r with
    | some r => if r.tomb then some c else none
    | none => some c)
  let cls := live.map (fun (c, r, h) => (c, classify r h))
  if cls.any (fun p => p.2 == .invalid) then "err"
  else
    let items := cls.filterMap (fun (c, l) => match l with
      | .item i => some s!"{c}:{i.unread}:{showOptNat i.last}:{i.join}:{i.read}:{i.del}:{i.act}"
      | _ => none)
    let dels := dead ++ cls.filterMap (fun (c, l) => if l == .delete then some c else none)
    let unres := cls.filterMap (fun (c, l) => if l == .unresolved then some c else none)
    s!"items={joinOr (sortStr items)} deletes={joinOr (sortStr dels)} unresolved={joinOr (sortStr unres)}"

def dedup (xs : List String) : List String :=
  xs.foldl (fun acc x => if acc.contains x then acc else acc ++ [x]) []

/-- judge a listing output of the implementation against the facts -/
def judgeListingRows (rowOf : String → Option Row) (st : State) (impl : String) : String :=
  if impl == "err" then "ok" else
  match fields impl with
  | [i, _, _] =>
    if !i.startsWith "items=" then "viol:unparseable-output" else
    let body := (i.drop 6).toString
    if body == "-" then "ok" else
    let vs := (body.splitOn ",").map (fun tok =>
      match tok.splitOn ":" with
      | [c, u, l, _, _, _, _] =>
        match u.toNat?, parseOptNat l, rowOf c with
        | some u, some l, some r => judgeItem r (st.get c).2 u l
        | _, _, _ => "viol:item-without-row"
      | _ => "viol:unparseable-output")
    (vs.find? (· != "ok")).getD "ok"
  | _ => "viol:unparseable-output"

def judgeMut (kind : String) (n : Nat) (pre : Option Row) (h : Head) (impl : String) : String :=
  match fields impl with
  | [status, row] =>
    match parseRow row with
    | none => "viol:unparseable-output"
    | some post =>
      match pre, post with
      | some pre, some post =>
        if status == "ok" then judgeMutation kind n pre post h
        else if post != pre then "viol:failed-command-mutated-row" else "ok"
      | none, none => "ok"
      | _, _ => "viol:row-appeared-or-vanished"
  | _ => "viol:unparseable-output"

/-- driver state: the model's table, plus the rows as the IMPLEMENTATION's store
    last reported them (the judge reasons about the implementation's own history,
    so a verdict names the first command that broke the property, not a later echo) -/
structure DState where
  model : State
  implRows : List (String × Option Row)

def DState.implRow (d : DState) (c : String) : Option Row :=
  match d.implRows.find? (·.1 == c) with
  | some p => p.2
  | none => none

def DState.setImpl (d : DState) (c : String) (r : Option Row) : DState :=
  { d with implRows := (c, r) :: d.implRows.filter (·.1 != c) }

/-- the implementation's post-row of a mutation output, if it parses -/
def implPost (impl : String) : Option (Option Row) :=
  match fields impl with
  | [_, row] => parseRow row
  | _ => none

def judgeListing (d : DState) (impl : String) : String :=
  judgeListingRows d.implRow d.model impl

def c34Step (d : DState) (op impl : String) : DState × String × String :=
  let st := d.model
  let bad : DState × String × String := (d, "bad-op", "ok")
  let mut_ (c : String) (st' : State) (m v : String) : DState × String × String :=
    let d' : DState := { d with model := st' }
    (match implPost impl with
      | some r => d'.setImpl c r
      | none => d', m, v)
  match fields op with
  | ["row", c, j, r, dl0, a, t] =>
    match j.toNat?, r.toNat?, dl0.toNat?, a.toInt?, (if t == "1" then some true else if t == "0" then some false else none) with
    | some j, some r, some dl, some a, some t =>
      (({ d with model := st.put c (some ⟨j, r, dl, a, t⟩) (st.get c).2 } : DState).setImpl c (some ⟨j, r, dl, a, t⟩), "ok", "ok")
    | _, _, _, _, _ => bad
  | ["norow", c] => (({ d with model := st.put c none (st.get c).2 } : DState).setImpl c none, "ok", "ok")
  | ["head", c, o, l, r, s, last] =>
    match parseOutcome o, l.toNat?, r.toNat?, s.toNat?, parseOptNat last with
    | some o, some l, some r, some s, some last => ({ d with model := st.put c (st.get c).1 ⟨o, l, r, s, last⟩ }, "ok", "ok")
    | _, _, _, _, _ => bad
  | ["send", c, own] =>
    let (row, h) := st.get c
    let l := h.committed + 1
    ({ d with model := st.put c row { h with committed := l, last := some l, ownSend := if own == "1" then l else h.ownSend } }, "ok", "ok")
  | ["retain", c, x] =>
    match x.toNat? with
    | some x => let (row, h) := st.get c; ({ d with model := st.put c row { h with retention := max h.retention x } }, "ok", "ok")
    | none => bad
  | ["clear", c] =>
    let (row, h) := st.get c
    let (s, row') := clearStep row h
    mut_ c (st.put c row' h) s!"{showStatus s} {showRow row'}" (judgeMut "clear" 0 (d.implRow c) h impl)
  | ["set", c, n] =>
    match n.toInt? with
    | some n =>
      let (row, h) := st.get c
      let (s, row') := setStep row h n
      mut_ c (st.put c row' h) s!"{showStatus s} {showRow row'}" (judgeMut "set" n.toNat (d.implRow c) h impl)
    | none => bad
  | ["del", c] =>
    let (row, h) := st.get c
    let (s, row') := deleteStep row h
    mut_ c (st.put c row' h) s!"{showStatus s} {showRow row'}" (judgeMut "del" 0 (d.implRow c) h impl)
  | ["act", c, t] =>
    match t.toInt? with
    | some t =>
      let (row, h) := st.get c
      let (s, row') := activateStep row t
      mut_ c (st.put c row' h) s!"{showStatus s} {showRow row'}" (judgeMut "act" 0 (d.implRow c) h impl)
    | none => bad
  | ["list"] =>
    let cands := (st.filter (fun ch => ch.row.isSome)).map (fun ch => (ch.name, ch.row, ch.head))
    (d, listing cands, judgeListing d impl)
  | ["retry", cs] =>
    let keys := dedup ((cs.splitOn ",").filter (· ≠ ""))
    if keys.isEmpty then bad else
    (d, listing (keys.map (fun c => (c, (st.get c).1, (st.get c).2))), judgeListing d impl)
  | _ => bad

def main : IO Unit := Drv.main { init := { model := [], implRows := [] }, step := c34Step }

import WK.Prelude.Drv
import WK.Spec.C16
/-
  C16 driver.  Ops (fields separated by single spaces; S = hash slot, U/C = hex
  uid / channel id, T = channel type):

    up  S U C T join read del act tomb tombAt sv upd   Shard.UpsertUserChannelMembership
    en  S U C T join read del act tomb tombAt sv upd   Shard.EnsureUserChannelMembership
    rd  S U C T v upd                                   Advance…ReadSeq
    hd  S U C T v upd                                   Hide…
    ac  S U C T act upd                                 Shard.SetUserChannelMembershipActivatedAt / Batch.Activate…
    dl  S U C T                                         Delete…
    cup S U C T start ack tomb tombAt upd               UpsertUserCMDChannelMembership
    cak S U C T ack upd                                 Advance…AckSeq
    ctb S U C T tombAt [upd]                            Tombstone… (Shard: 1 int, Batch: 2 ints)
    bt  <sub> ; <sub> ; …                               one meta.Batch (sub-ops as above), committed once
    ps  S U                                             start a directory pass (reset the stored cursor)
    pg  S U limit                                       next page of the pass from the stored cursor
    pc  S U act C T limit                               one page from an explicit cursor
    mode ctor|raw                                       judge mode (constructor-shaped stream: no regression at all)

  Output of a mutation: `<err> <row>` (row after the op, `-` = absent), of a
  batch: `<err> <row> <row> …` (one per sub-op, after the batch), of a page:
  `<err> <done> <act>:<ch>:<ct> <item>…` with item = `<ch>:<ct>:<row>`.
-/
open WK WK.C16

def u64Max : Nat := 18446744073709551615
def i64Min : Int := -9223372036854775808
def i64Max : Int := 9223372036854775807

def pNat (s : String) : Option Nat :=
  match s.toNat? with
  | some n => if n ≤ u64Max then some n else none
  | none => none

def pInt (s : String) : Option Int :=
  match s.toInt? with
  | some n => if i64Min ≤ n ∧ n ≤ i64Max then some n else none
  | none => none

def pBool (s : String) : Option Bool :=
  if s == "1" then some true else if s == "0" then some false else none

def pId (s : String) : Option Nat :=
  match hexDecode s with
  | some bs => if bs.length ≤ 65535 then some (sid bs) else none
  | none => none

def pSlot (s : String) : Option Nat :=
  match s.toNat? with
  | some n => if n < 65536 then some n else none
  | none => none

def pKey (s u c t : String) : Option Key := do
  let s ← pSlot s
  let u ← pId u
  let c ← pId c
  let t ← pInt t
  pure ⟨s, u, c, t⟩

def unsidGo : Nat → Nat → Bytes → Bytes
  | 0, _, acc => acc
  | fuel + 1, n, acc => if n ≤ 1 then acc else unsidGo fuel (n / 256) (UInt8.ofNat (n % 256) :: acc)

/-- inverse of `sid` -/
def unsid (n : Nat) : Bytes := unsidGo (n.log2 + 1) n []

def idStr (n : Nat) : String := hexEncode (unsid n)

/-- parse one (sub-)operation; `inBatch` selects the Batch entry points -/
def parseOp (inBatch : Bool) : List String → Option Op
  | ["up", s, u, c, t, j, r, d, a, tb, ta, sv, up] => do
    let k ← pKey s u c t
    pure (.up k ⟨← pNat j, ← pNat r, ← pNat d, ← pInt a, ← pBool tb, ← pInt ta, ← pNat sv, ← pInt up⟩)
  | ["en", s, u, c, t, j, r, d, a, tb, ta, sv, up] => do
    let k ← pKey s u c t
    pure (.en k ⟨← pNat j, ← pNat r, ← pNat d, ← pInt a, ← pBool tb, ← pInt ta, ← pNat sv, ← pInt up⟩)
  | ["rd", s, u, c, t, v, up] => do pure (.rd (← pKey s u c t) (← pNat v) (← pInt up))
  | ["hd", s, u, c, t, v, up] => do pure (.hd (← pKey s u c t) (← pNat v) (← pInt up))
  | ["ac", s, u, c, t, a, up] => do
    let k ← pKey s u c t
    if inBatch then pure (.acB k (← pInt a) (← pInt up)) else pure (.acS k (← pInt a) (← pInt up))
  | ["dl", s, u, c, t] => do pure (.dl (← pKey s u c t))
  | ["cup", s, u, c, t, st, ak, tb, ta, up] => do
    let k ← pKey s u c t
    pure (.cup k ⟨← pNat st, ← pNat ak, ← pBool tb, ← pInt ta, ← pInt up⟩)
  | ["cak", s, u, c, t, ak, up] => do
    let k ← pKey s u c t
    if inBatch then pure (.cakB k (← pNat ak) (← pInt up)) else pure (.cakS k (← pNat ak) (← pInt up))
  | ["ctb", s, u, c, t, ta] => if inBatch then none else do pure (.ctbS (← pKey s u c t) (← pInt ta))
  | ["ctb", s, u, c, t, ta, up] => if inBatch then do pure (.ctbB (← pKey s u c t) (← pInt ta) (← pInt up)) else none
  | _ => none

def splitSubs (fs : List String) : List (List String) :=
  let (acc, cur) := fs.foldl (fun (p : List (List String) × List String) f =>
    if f == ";" then (p.1 ++ [p.2], []) else (p.1, p.2 ++ [f])) ([], [])
  acc ++ [cur]

def parseBatch (fs : List String) : Option (List Op) :=
  (splitSubs fs).mapM (parseOp true)

def bstr (b : Bool) : String := if b then "1" else "0"

def rowStr : Option Row → String
  | none => "-"
  | some r => s!"{r.join},{r.read},{r.del},{r.act},{bstr r.tomb},{r.tombAt},{r.sv},{r.upd}"

def crowStr : Option CRow → String
  | none => "-"
  | some r => s!"{r.start},{r.ack},{bstr r.tomb},{r.tombAt},{r.upd}"

def parseRow (s : String) : Option (Option Row) :=
  if s == "-" then some none else
  match s.splitOn "," with
  | [j, r, d, a, tb, ta, sv, up] => do
    pure (some ⟨← pNat j, ← pNat r, ← pNat d, ← pInt a, ← pBool tb, ← pInt ta, ← pNat sv, ← pInt up⟩)
  | _ => none

def parseCRow (s : String) : Option (Option CRow) :=
  if s == "-" then some none else
  match s.splitOn "," with
  | [st, ak, tb, ta, up] => do pure (some ⟨← pNat st, ← pNat ak, ← pBool tb, ← pInt ta, ← pInt up⟩)
  | _ => none

def opRowStr (st : St) (op : Op) : String :=
  if op.isCmd then crowStr (get op.key st.cmd) else rowStr (get op.key st.rows)

/-- judge-side bookkeeping of one running directory pass -/
structure Scan where
  slot : Nat
  uid : Nat
  mcur : Cur          -- the model's stored cursor
  active : Bool       -- a `ps` was seen and `done` not yet
  dirty : Bool        -- a row of this user changed (per the implementation's outputs) during the pass
  emitted : List IdxE -- what the implementation emitted so far in this pass
deriving Repr

structure DSt where
  m : St := {}
  ctor : Bool := false
  irows : List (Key × Row) := []     -- rows as observed on the implementation
  icmd : List (Key × CRow) := []
  fence : List (Key × Nat) := []     -- per row: highest source version accepted so far (from the implementation's outputs)
  scans : List Scan := []

def getScan (d : DSt) (slot uid : Nat) : Scan :=
  match d.scans.find? (fun s => s.slot == slot && s.uid == uid) with
  | some s => s
  | none => ⟨slot, uid, Cur.zero, false, false, []⟩

def setScan (d : DSt) (s : Scan) : DSt :=
  { d with scans := s :: d.scans.filter (fun x => !(x.slot == s.slot && x.uid == s.uid)) }

def markDirty (d : DSt) (k : Key) : DSt :=
  { d with scans := d.scans.map fun s => if s.slot == k.slot && s.uid == k.uid then { s with dirty := true } else s }

def setI {α : Type} (k : Key) (v : Option α) (l : List (Key × α)) : List (Key × α) :=
  match v with
  | some r => put k r l
  | none => del k l

def worst (a b : String) : String := if a == "ok" then b else a

def WK.C16.Verdict.rank : Verdict → Nat
  | .ok => 0 | .rejoin => 1 | .ensureGen => 2 | .regressed => 3 | .stale => 4

def worstV (a b : Verdict) : Verdict := if a.rank < b.rank then b else a

/-- replay the sub-ops of one batch that address one row with the reducers, from the row
    observed on the implementation, judging every intermediate transition -/
def simRow (prev : Option Row) : List Op → Option Row × Verdict
  | [] => (prev, .ok)
  | o :: rest =>
    match rowStep prev o with
    | none => (prev, .ok)
    | some nx =>
      let (f, v') := simRow nx rest
      (f, worstV (judgeRow prev nx o) v')

def simCRow (prev : Option CRow) : List Op → Option CRow × Verdict
  | [] => (prev, .ok)
  | o :: rest =>
    match crowStep prev o with
    | none => (prev, .ok)
    | some nx =>
      let (f, v') := simCRow nx rest
      (f, worstV (judgeCRow prev nx o) v')

/-- verdict for the observed transition `prev → nw` of one ordinary row caused by `ops`
    (one Shard op, or the sub-ops of one Batch addressed to that row, in order).
    Intermediate states of a batch are not observable: with several sub-ops only the
    end-to-end transition is judged; a regression is classified by the reducers' replay
    when that replay explains the observed final row, and is a plain regression otherwise. -/
def judgeKeyRow (prev nw : Option Row) (ops : List Op) (implOk : Bool) : Verdict :=
  match ops with
  | [o] => judgeRow prev nw o
  | _ =>
    let (f, v) := simRow prev ops
    -- a committed batch is the sequential history of its sub-ops: a final cursor below the one
    -- the batch's own earlier sub-op had reached is an advance that was applied and then lost
    let lostAdvance := implOk && (match f, nw with
      | some a, some b => decide (b.read < a.read) || decide (b.del < a.del)
      | _, _ => false)
    let generic := judgeRow prev nw (.dl ⟨0, 0, 0, 0⟩)
    if generic == .ok then (if lostAdvance then .regressed else .ok) else
    if f == nw then v else generic   -- explained replay: `ok` only if the row was deleted in between

def judgeKeyCRow (prev nw : Option CRow) (ops : List Op) (implOk : Bool) : Verdict :=
  match ops with
  | [o] => judgeCRow prev nw o
  | _ =>
    let (f, v) := simCRow prev ops
    let lostAdvance := implOk && (match f, nw with
      | some a, some b => decide (b.ack < a.ack)
      | _, _ => false)
    let generic := judgeCRow prev nw (.dl ⟨0, 0, 0, 0⟩)
    if generic == .ok then (if lostAdvance then .regressed else .ok) else
    if f == nw then v else generic

/-- the highest source version among the upserts / ensures this row has accepted, as observed on
    the implementation (an `up`/`en` that changed the row was accepted); `none` after a delete -/
def fenceAfter (old : Option Nat) (prev nw : Option Row) (ops : List Op) : Option Nat :=
  match nw with
  | none => none
  | some b =>
    match ops with
    | [.up _ nx] | [.en _ nx] =>
      let base := max ((old.getD 0)) b.sv
      some (if prev != nw then max base nx.sv else base)
    | [_] => some (max (old.getD 0) b.sv)
    | _ => some b.sv

/-- judge one observed row transition and update the observed tables -/
def judgeOne (d : DSt) (k : Key) (cmd : Bool) (ops : List Op) (implRow : String) (implOk : Bool) : DSt × String :=
  if cmd then
    match parseCRow implRow with
    | none => (d, "viol:unparseable-output")
    | some nw =>
      let prev := get k d.icmd
      let v := judgeKeyCRow prev nw ops implOk
      let vs :=
        if d.ctor then
          match prev, nw with
          | some a, some b => if b.floor < a.floor then "viol:cursor-regressed-ctor-stream" else v.str
          | _, _ => v.str
        else v.str
      ({ d with icmd := setI k nw d.icmd }, vs)
  else
    match parseRow implRow with
    | none => (d, "viol:unparseable-output")
    | some nw =>
      let prev := get k d.irows
      let v0 := judgeKeyRow prev nw ops implOk
      -- an upsert / ensure older than a version this row already accepted must not change it
      let fence := get k d.fence
      let staleByFence := match ops, fence with
        | [.up _ nx], some f | [.en _ nx], some f => decide (nx.sv < f) && prev != nw && prev.isSome
        | _, _ => false
      let v := if staleByFence then Verdict.stale else v0
      let vs := if d.ctor && v != .ok then "viol:cursor-regressed-ctor-stream" else v.str
      let d1 := if prev != nw then markDirty d k else d
      ({ d1 with irows := setI k nw d1.irows, fence := setI k (fenceAfter fence prev nw ops) d1.fence }, vs)

def curStr (c : Cur) : String := s!"{c.act}:{idStr c.ch}:{c.ct}"

def itemStr (st : St) (e : IdxE) : String := s!"{idStr e.ch}:{e.ct}:{rowStr (get e.key st.rows)}"

def pageOut (st : St) (slot uid : Nat) (c : Cur) (limit : Int) : String × Cur :=
  if !pageValid uid c limit then ("invalid", c) else
  let (out, c', done) := page st slot uid c limit.toNat
  let items := out.map (itemStr st)
  (" ".intercalate (["ok", bstr done, curStr c'] ++ items), c')

def parseItem (slot uid : Nat) (s : String) : Option (IdxE × Row) :=
  match s.splitOn ":" with
  | [c, t, r] => do
    let c ← pId c
    let t ← pInt t
    match ← parseRow r with
    | some row => pure (⟨slot, uid, row.act, c, t⟩, row)
    | none => none
  | _ => none

/-- judge one page emitted by the implementation -/
def judgePage (d : DSt) (slot uid : Nat) (limit : Int) (impl : String) (track : Bool) : DSt × String :=
  match fields impl with
  | "ok" :: dn :: _ :: items =>
    match pBool dn, items.mapM (parseItem slot uid) with
    | some done, some its =>
      let es := its.map (·.1)
      let staleRow := its.any fun (e, r) => get e.key d.irows != some r
      let v0 := if limit < (es.length : Int) then "viol:page-overlimit"
                else if staleRow then "viol:page-row-mismatch" else "ok"
      if !track then (d, v0) else
      let s := getScan d slot uid
      if !s.active then (d, v0) else
      let s1 := { s with emitted := s.emitted ++ es }
      if done then
        let v1 := if !s1.dirty && s1.emitted != expectedPass d.irows slot uid then "viol:directory-pass" else "ok"
        (setScan d { s1 with active := false }, worst v0 v1)
      else (setScan d s1, v0)
    | _, _ => (d, "viol:unparseable-output")
  | ["invalid"] => (d, "ok")
  | _ => (d, "viol:unparseable-output")

def c16Step (d : DSt) (op impl : String) : DSt × String × String :=
  match fields op with
  | ["mode", m] =>
    if m == "ctor" then ({ d with ctor := true }, "ok", "ok")
    else if m == "raw" then ({ d with ctor := false }, "ok", "ok")
    else (d, "bad-op", "ok")
  | ["ps", s, u] =>
    match pSlot s, pId u with
    | some slot, some uid =>
      let sc := getScan d slot uid
      (setScan d { sc with mcur := Cur.zero, active := true, dirty := false, emitted := [] }, "ok", "ok")
    | _, _ => (d, "bad-op", "ok")
  | ["pg", s, u, l] =>
    match pSlot s, pId u, pInt l with
    | some slot, some uid, some limit =>
      let sc := getScan d slot uid
      let (out, c') := pageOut d.m slot uid sc.mcur limit
      let d1 := setScan d { sc with mcur := c' }
      let (d2, v) := judgePage d1 slot uid limit impl true
      (d2, out, v)
    | _, _, _ => (d, "bad-op", "ok")
  | ["pc", s, u, a, c, t, l] =>
    match pSlot s, pId u, pInt a, pId c, pInt t, pInt l with
    | some slot, some uid, some act, some ch, some ct, some limit =>
      let (out, _) := pageOut d.m slot uid ⟨act, ch, ct⟩ limit
      let (d2, v) := judgePage d slot uid limit impl false
      (d2, out, v)
    | _, _, _, _, _, _ => (d, "bad-op", "ok")
  | "bt" :: rest =>
    match parseBatch rest with
    | none => (d, "bad-op", "ok")
    | some ops =>
      let (m', e) := batchStep d.m ops
      let out := " ".intercalate (e.str :: ops.map (opRowStr m'))
      let d1 := { d with m := m' }
      match fields impl with
      | ie :: irows =>
        if irows.length != ops.length then (d1, out, "viol:unparseable-output") else
        let implOk := ie == "ok"
        -- every row is judged once per batch (its sub-ops taken together, in order)
        let (d2, v, _) := (ops.zip irows).foldl (fun (acc : DSt × String × List (Key × Bool)) (p : Op × String) =>
          if acc.2.2.contains (p.1.key, p.1.isCmd) then acc else
          let mine := ops.filter fun o => o.key == p.1.key && o.isCmd == p.1.isCmd
          let (dn, vn) := judgeOne acc.1 p.1.key p.1.isCmd mine p.2 implOk
          (dn, worst acc.2.1 vn, (p.1.key, p.1.isCmd) :: acc.2.2)) (d1, "ok", [])
        (d2, out, v)
      | [] => (d1, out, "viol:unparseable-output")
  | fs =>
    match parseOp false fs with
    | none => (d, "bad-op", "ok")
    | some o =>
      let (m', e) := step d.m o
      let out := e.str ++ " " ++ opRowStr m' o
      let d1 := { d with m := m' }
      match fields impl with
      | [_, irow] =>
        let (d2, v) := judgeOne d1 o.key o.isCmd [o] irow true
        (d2, out, v)
      | _ => (d1, out, "viol:unparseable-output")

def main : IO Unit := Drv.main { init := ({} : DSt), step := c16Step }

import WK.Spec.C09
/-
  C09 — executable model of the ChannelStore mutations of pkg/db/message
  (compat.go / append.go / retention.go / checkpoint.go / proposal_manifest.go).
  Every mutation reads the store and produces a result plus ONE write batch
  (`plan`); `step` applies it.  Branch order mirrors the Go code.  Core only.
-/
namespace WK.C09

structure Rec where
  id : Nat
  f : Nat
  c : Nat
  flags : Nat
  pay : Nat
  deriving DecidableEq, Repr, Inhabited

inductive Op where
  /-- ChannelStore.Append (mode 0) / AppendServerAllocated (1) / AppendTrusted (2) -/
  | app (ch mode : Nat) (recs : List Rec)
  /-- StoreApplyFetchTrusted with optional CheckpointHW -/
  | fetch (ch : Nat) (hw : Option Nat) (recs : List Rec)
  /-- StoreAppendBatch, one exact item at ExpectedBaseOffset = LEO -/
  | xapp (ch cmd term committed mode : Nat) (recs : List Rec)
  | trunc (ch to : Nat)
  | adopt (ch through : Nat)
  | trim (ch through maxMsgs : Nat)
  | ckpt (ch hw : Nat)
  deriving Repr, Inhabited

/-- result of a mutation as the harness prints it -/
inductive Res where
  | ok (vals : List Nat)
  | corrupt
  | invalid
  | frontier
  deriving DecidableEq, Repr

def Res.str : Res → String
  | .ok [] => "ok"
  | .ok vs => "ok " ++ " ".intercalate (vs.map toString)
  | .corrupt => "err:corrupt"
  | .invalid => "err:invalid"
  | .frontier => "err:frontier"

/-! ### rows and their index entries (`stageMessageRow`, `stageDeleteMessage`) -/

def rowWrites (ch seq : Nat) (r : Rec) : List W :=
  [.put (.row ch seq) (.row r.id r.f r.c r.flags r.pay), .put (.gid r.id) (.gid ch seq)] ++
  (if r.c ≠ 0 ∧ r.f = 0 then [.put (.cno ch r.c seq) (.nat seq)] else []) ++
  (if r.f ≠ 0 ∧ r.c ≠ 0 then [.put (.idem ch r.f r.c) (.idem seq r.id)] else []) ++
  (if r.f ≠ 0 ∧ !flagSyncOnce r.flags then [.put (.sseq ch r.f seq) (.nat r.id)] else [])

def rowsWrites (ch base : Nat) (recs : List Rec) : List W :=
  (recs.zipIdx.map (fun (r, i) => rowWrites ch (base + 1 + i) r)).flatten

/-- `stageDeleteMessage`: note the sender-seq delete is unconditional on SyncOnce -/
def rowDeletes (ch seq : Nat) : Val → List W
  | .row id f c _ _ =>
    [.del (.row ch seq)] ++ (if id ≠ 0 then [.del (.gid id)] else []) ++
    (if c ≠ 0 ∧ f = 0 then [.del (.cno ch c seq)] else []) ++
    (if f ≠ 0 ∧ c ≠ 0 then [.del (.idem ch f c)] else []) ++
    (if f ≠ 0 then [.del (.sseq ch f seq)] else [])
  | _ => []

def deleteSeqs (s : Store) (ch : Nat) (seqs : List Nat) : List W :=
  (seqs.map (fun q => match get s (.row ch q) with | some v => rowDeletes ch q v | none => [])).flatten

def insertNat (x : Nat) : List Nat → List Nat
  | [] => [x]
  | y :: ys => if x ≤ y then x :: y :: ys else y :: insertNat x ys

/-- the row sequences of a channel in ascending order (the order Pebble iterates the row keys) -/
def sortedSeqs (s : Store) (ch : Nat) : List Nat := (rowSeqs s ch).foldr insertNat []

/-! ### `validateAppendRow` over a batch of rows -/

def validateRows (s : Store) (ch mode : Nat) : Nat → List Rec → List Nat → List (Nat × Nat) → Bool
  | _, [], _, _ => true
  | seq, r :: rest, ids, keys =>
    if ids.contains r.id then false else
    let okStrict :=
      if mode = 0 then
        match get s (.gid r.id) with
        | some (.gid ch' seq') => ch' = ch ∧ seq' = seq
        | some _ => false
        | none => true
      else true
    if !okStrict then false else
    if r.f = 0 ∨ r.c = 0 then validateRows s ch mode (seq + 1) rest (r.id :: ids) keys else
    if keys.contains (r.f, r.c) then false else
    if mode = 2 then validateRows s ch mode (seq + 1) rest (r.id :: ids) ((r.f, r.c) :: keys) else
    let okIdem :=
      match get s (.idem ch r.f r.c) with
      | some (.idem hseq hid) =>
        (match get s (.row ch hseq) with
         | some (.row id' f' c' _ _) => id' = hid ∧ f' = r.f ∧ c' = r.c ∧ hseq = seq
         | _ => false)
      | some _ => false
      | none => true
    if !okIdem then false else
    validateRows s ch mode (seq + 1) rest (r.id :: ids) ((r.f, r.c) :: keys)

def catalogW (ch base : Nat) : List W := if base = 0 then [.put (.cat ch) (.nat 1)] else []

def curCkpt (s : Store) (ch : Nat) : Nat × Nat × Nat × Bool :=
  match get s (.ckpt ch) with
  | some (.ckpt e st hw) => (e, st, hw, true)
  | _ => (0, 0, 0, false)

def curRet (s : Store) (ch : Nat) : Nat × Nat × Nat × Bool :=
  match get s (.ret ch) with
  | some (.ret l p m) => (l, p, m, true)
  | _ => (0, 0, 0, false)

/-- checkpoint HW advance staged with an append / apply (`CheckpointHW`, `Committed`): epoch and
    log start are preserved, nothing is written unless the HW grows -/
def ckptAdvance (s : Store) (ch h : Nat) : List W :=
  if h > (curCkpt s ch).2.2.1 then [W.put (.ckpt ch) (.ckpt (curCkpt s ch).1 (curCkpt s ch).2.1 h)] else []

/-- `LoadDurableFrontier` succeeds -/
def frontierLoads (s : Store) (ch : Nat) : Bool :=
  let l := leo s ch
  let (_, _, hw, present) := curCkpt s ch
  if present ∧ hw > l then false else
  if l = 0 then true else
  match get s (.pl ch l) with
  | some (.prop b la cmd t pt) =>
    la == l && get s (.pc ch cmd) == some (.prop b la cmd t pt) &&
    (match get s (.ent ch l) with | some (.ent i cmd' t' _) => i == l && cmd' == cmd && t' == t | _ => false)
  | _ => false

def tailTerm (s : Store) (ch : Nat) : Nat :=
  match get s (.ent ch (leo s ch)) with
  | some (.ent _ _ t _) => t
  | _ => 0

def entryWrites (ch base cmd term pterm : Nat) (n : Nat) : List W :=
  (List.range n).map (fun i => .put (.ent ch (base + 1 + i)) (.ent (base + 1 + i) cmd term (if i = 0 then pterm else term)))

/-- proposals (last, base, cmd) of a channel, by last offset -/
def proposals (s : Store) (ch : Nat) : List (Nat × Nat × Nat) :=
  s.filterMap (fun e => match e with
    | (.pl c last, .prop b _ cmd _ _) => if c = ch then some (last, b, cmd) else none
    | _ => none)

/-! ### one bounded prefix trim (`trimPrefixThroughLimit`, adoptBoundary = false) -/

/-- rows `readRows(physical+1, through)` returns, in key order -/
def trimCand (s : Store) (ch rp through : Nat) : List Nat :=
  (sortedSeqs s ch).filter (fun q => rp + 1 ≤ q ∧ q ≤ through)

/-- `result.More`: the read (limit MaxMessages+1) found more than MaxMessages rows -/
def trimMore (cand : List Nat) (maxMsgs : Nat) : Bool := decide (maxMsgs > 0 ∧ cand.length > maxMsgs)

def trimDels (cand : List Nat) (maxMsgs : Nat) : List Nat := if trimMore cand maxMsgs then cand.take maxMsgs else cand

/-- next PhysicalRetentionThroughSeq -/
def trimNp (rp through : Nat) (more : Bool) (deletedThrough : Nat) : Nat :=
  if !more ∧ through > rp then through else if deletedThrough > rp then deletedThrough else rp

/-- one mutation = result + the single batch it commits (`[]` = no commit) -/
def plan (s : Store) : Op → Res × List W
  | .app ch mode recs =>
    let base := leo s ch
    if recs.isEmpty then (.ok [base], []) else
    if !validateRows s ch mode (base + 1) recs [] [] then (.corrupt, []) else
    (.ok [base], rowsWrites ch base recs ++ catalogW ch base)
  | .fetch ch hw recs =>
    let base := leo s ch
    let next := base + recs.length
    if (match hw with | some h => decide (h > next) | none => false) then (.corrupt, []) else
    let ck := match hw with | some h => ckptAdvance s ch h | none => []
    if recs.isEmpty ∧ hw.isNone then (.ok [next], []) else
    if !validateRows s ch 2 (base + 1) recs [] [] then (.corrupt, []) else
    if recs.isEmpty ∧ ck.isEmpty then (.ok [next], []) else
    (.ok [next], rowsWrites ch base recs ++ ck ++
      (if recs.isEmpty then [W.put (.cat ch) (.nat 1)] else catalogW ch base))
  | .xapp ch cmd term committed mode recs =>
    if !frontierLoads s ch then (.frontier, []) else
    let base := leo s ch
    let n := recs.length
    if n = 0 then (.invalid, []) else
    let next := base + n
    if committed > next then (.invalid, []) else
    if committed ≠ 0 ∧ hwOf s ch > next then (.corrupt, []) else
    if !validateRows s ch mode (base + 1) recs [] [] then (.corrupt, []) else
    let pterm := tailTerm s ch
    (.ok [base, next, 1],
      rowsWrites ch base recs ++
      ckptAdvance s ch committed ++
      [W.put (.pl ch next) (.prop base next cmd term pterm), W.put (.pc ch cmd) (.prop base next cmd term pterm)] ++
      entryWrites ch base cmd term pterm n ++ catalogW ch base)
  | .trunc ch to =>
    let l := leo s ch
    if to > l then (.corrupt, []) else
    if to = l then (.ok [], []) else
    let (rl, rp, rm, present) := curRet s ch
    if present ∧ to < rl then (.corrupt, []) else
    let retW := if present ∧ rm > to then [W.put (.ret ch) (.ret rl rp to)] else []
    let ps := proposals s ch
    if ps.any (fun (last, b, _) => last > to ∧ b < to) then (.corrupt, []) else
    let propW := ((ps.filter (fun (last, _, _) => last > to)).map
      (fun (last, _, cmd) => [W.del (.pl ch last), W.del (.pc ch cmd)])).flatten
    (.ok [], propW ++ [W.delEntFrom ch (to + 1)] ++
      deleteSeqs s ch ((sortedSeqs s ch).filter (fun q => q > to)) ++ retW ++ [W.put (.cat ch) (.nat 1)])
  | .adopt ch through =>
    if through = 0 then (.invalid, []) else
    let l := leo s ch
    let (rl, rp, rm, _) := curRet s ch
    let nl := max rl through
    let nm := max rm (max l through)
    let changed := ¬ (nl = rl ∧ nm = rm)
    let (cv, cok) := match get s (.cur ch) with | some (.nat n) => (n, true) | _ => (0, false)
    let needCur := !cok ∨ cv < nl
    if !changed ∧ !needCur then (.ok [], []) else
    (.ok [], (if changed then [W.put (.ret ch) (.ret nl rp nm)] else []) ++
      (if needCur then [W.put (.cur ch) (.nat nl)] else []) ++ [W.put (.cat ch) (.nat 1)])
  | .trim ch through maxMsgs =>
    if through = 0 then (.invalid, []) else
    let (rl, rp, rm, _) := curRet s ch
    if through > rl then (.corrupt, []) else
    let cand := trimCand s ch rp through
    let dels := trimDels cand maxMsgs
    let nm := max rm (leo s ch)
    let np := trimNp rp through (trimMore cand maxMsgs) (dels.getLast?.getD 0)
    if (rl = 0 ∧ nm > 0) ∨ np > rl ∨ (rl > 0 ∧ nm < rl) then (.corrupt, []) else
    (.ok [dels.length, dels.getLast?.getD 0, if trimMore cand maxMsgs then 1 else 0],
      deleteSeqs s ch dels ++ [W.put (.ret ch) (.ret rl np nm), W.put (.cat ch) (.nat 1)])
  | .ckpt ch hw =>
    let (e, st, cur, present) := curCkpt s ch
    if present ∧ hw ≤ cur then (.ok [], []) else
    if st > hw then (.corrupt, []) else
    (.ok [], [W.put (.ckpt ch) (.ckpt e st hw), W.put (.cat ch) (.nat 1)])

/-- caller contract (what the channel runtime guarantees before it calls the store);
    `none` = the call is made -/
def callerGuard (s : Store) : Op → Option String
  | .trunc ch to => if (curCkpt s ch).2.2.2 ∧ to < hwOf s ch then some "guard:below-hw" else none
  | .adopt ch through => if ch = exactCh ∧ through > hwOf s ch then some "guard:above-hw" else none
  | .ckpt ch hw => if hw > leo s ch then some "guard:above-leo" else none
  | _ => none

def step (s : Store) (op : Op) : Res × Store :=
  let (r, b) := plan s op
  (r, applyBatch s b)

/-- the store after a history of (guarded) mutations -/
def run (s : Store) (ops : List Op) : Store :=
  ops.foldl (fun s op => if (callerGuard s op).isSome then s else (step s op).2) s

/-- the commits a history issues (every one synced: `Commit(true)`) -/
def commitsOf (s : Store) : List Op → List Commit
  | [] => []
  | op :: rest =>
    if (callerGuard s op).isSome then commitsOf s rest else
    let (_, b) := plan s op
    if b.isEmpty then commitsOf s rest else ⟨b, true⟩ :: commitsOf (applyBatch s b) rest

end WK.C09

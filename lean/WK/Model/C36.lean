import WK.Model.C35
/-
  C36 — executable model of the two send-permission decision procedures of
  internal/usecase/message:

    * `perSend`  = `App.Send` → `checkSendPermission` (permission.go): sequential
                   reads, used for every channel type and as the SendBatch fallback;
    * `batch`    = `App.SendBatch` → `resolveSendBatchPermissions` (send.go) →
                   `check{Group,Person}SendPermissionsBatch` + `evaluate…ReadPlan`
                   (permission_batch.go): one raw fact round, then evaluation.

  Both are pure functions of a *fact record*: configuration `Cfg`, the
  permission metadata `Store` (channel rows, subscriber point lookups,
  non-emptiness of a list — each may also fail), and the command.  Channel-id
  preprocessing (From/ToCommandChannel, NormalizePersonChannel, Decode…) is the
  C35 model.  Core only.

  Erased glue: contexts/deadlines, metrics, the permission cache (a positive
  PermissionCacheTTL disables the batch path in `New`, so the two paths are only
  ever compared uncached), SendHook (nil), PersonDirectory (nil).  The
  submitter is a stub that accepts: an allowed send is *delivered* to the
  channel id the permission step returns.
-/
namespace WK.C36
open WK WK.C35

/-- Reason codes (internal/contracts/channelappend/types.go) -/
def rSuccess : Nat := 0
def rChannelNotExist : Nat := 3
def rSystemError : Nat := 5
def rSubscriberNotExist : Nat := 7
def rInBlacklist : Nat := 8
def rNotAllowSend : Nat := 9
def rNotInWhitelist : Nat := 10
def rBan : Nat := 11
def rDisband : Nat := 12
def rSendBan : Nat := 13

/-- channel types (send.go) -/
def tPerson : Nat := 1
def tGroup : Nat := 2
def tCustomerService : Nat := 3
def tInfo : Nat := 6
def tVisitors : Nat := 10
def tAgent : Nat := 11

/-- result of `GetChannelForPermission` / a `PermissionReadChannel` fact -/
inductive ChanRes
  | notFound
  | err
  | found (ban disband sendBan allowStranger : Bool)
  deriving DecidableEq, Repr

/-- result of a subscriber point lookup / list non-emptiness fact -/
inductive BoolRes
  | err
  | val (b : Bool)
  deriving DecidableEq, Repr

/-- which subscriber list of a channel key: the members themselves, or the
    namespaced deny / allow list (`channelmembers.{Deny,Allow}listChannelID`) -/
inductive ListKind | members | deny | allow
  deriving DecidableEq, Repr

structure Store where
  chan : Bytes → Nat → ChanRes
  contains : ListKind → Bytes → Nat → Bytes → BoolRes
  hasAny : ListKind → Bytes → Nat → BoolRes

structure Cfg where
  /-- `a.permissions != nil` -/
  hasPerm : Bool
  /-- `a.permissionBatch != nil` -/
  hasBatch : Bool
  /-- `a.systemUIDs`: `none` = nil checker -/
  sys : Option (List Bytes)
  systemDevice : Bytes
  whitelist : Bool

structure Cmd where
  sender : Bytes
  device : Bytes
  chanId : Bytes
  chanType : Nat
  normalize : Bool
  requestScoped : Bool
  scopedN : Nat            -- len(MessageScopedUIDs)

inductive ErrClass | none | store | invalidPerson | invalidAgent
  deriving DecidableEq, Repr

/-- what the caller of Send / SendBatch observes for one command -/
structure Outcome where
  reason : Nat
  err : ErrClass
  /-- the channel id handed to the submitter (`none` = not submitted) -/
  delivered : Option Bytes
  deriving DecidableEq, Repr

def Cfg.isSystem (c : Cfg) (uid : Bytes) : Bool :=
  match c.sys with
  | none => false
  | some l => l.contains uid

def Cfg.isSystemDevice (c : Cfg) (cmd : Cmd) : Bool :=
  !c.systemDevice.isEmpty && cmd.device == c.systemDevice

/-- a (reason, error) pair as the Go helpers return it -/
abbrev RE := Nat × ErrClass

def ok : RE := (rSuccess, .none)
def RE.isOk (r : RE) : Bool := r.1 == rSuccess && r.2 == .none

/-! ### per-send path (permission.go) -/

/-- `checkTerminalChannelPermission` -/
def terminal (st : Store) (id : Bytes) (ty : Nat) : RE :=
  match st.chan id ty with
  | .notFound => ok
  | .err => (rSystemError, .store)
  | .found _ disband _ _ => if disband then (rDisband, .none) else ok

/-- `checkSenderSendPermission` -/
def senderCheck (st : Store) (uid : Bytes) : RE :=
  match st.chan uid tPerson with
  | .notFound => ok
  | .err => (rSystemError, .store)
  | .found _ _ sendBan _ => if sendBan then (rSendBan, .none) else ok

/-- `checkCommonMemberPermission` for the list key `(id, ty)` -/
def commonMember (st : Store) (id : Bytes) (ty : Nat) (uid : Bytes) : RE :=
  match st.contains .deny id ty uid with
  | .err => (rSystemError, .store)
  | .val true => (rInBlacklist, .none)
  | .val false =>
    match st.contains .members id ty uid with
    | .err => (rSystemError, .store)
    | .val false => (rSubscriberNotExist, .none)
    | .val true =>
      match st.hasAny .allow id ty with
      | .err => (rSystemError, .store)
      | .val false => ok
      | .val true =>
        match st.contains .allow id ty uid with
        | .err => (rSystemError, .store)
        | .val false => (rNotInWhitelist, .none)
        | .val true => ok

/-- `checkGroupSendPermission` -/
def groupCheck (st : Store) (id : Bytes) (ty : Nat) (uid : Bytes) : RE :=
  match st.chan id ty with
  | .notFound => (rChannelNotExist, .none)
  | .err => (rSystemError, .store)
  | .found ban disband _ _ =>
    if ban then (rBan, .none)
    else if disband then (rDisband, .none)
    else commonMember st id ty uid

/-- `checkAgentSendPermission` -/
def agentCheck (id uid : Bytes) : RE :=
  match decodeAgent id with
  | none => (0, .invalidAgent)
  | some (u, a) => if uid == u || uid == a then ok else (rNotAllowSend, .none)

/-- `checkVisitorsSendPermission` -/
def visitorsCheck (st : Store) (id uid : Bytes) : RE :=
  if uid == id then ok else commonMember st id tCustomerService uid

/-- the receiver of a decoded person channel as both paths compute it -/
def receiverOf (uid l r : Bytes) : Bytes := if uid == r then l else r

/-- the part of `checkPersonSendPermission` after the receiver is known -/
def personReceiverCheck (cfg : Cfg) (st : Store) (receiver uid : Bytes) : RE :=
  if cfg.isSystem receiver then ok
  else match st.contains .deny receiver tPerson uid with
    | .err => (rSystemError, .store)
    | .val true => (rInBlacklist, .none)
    | .val false =>
      if !cfg.whitelist then ok
      else match st.contains .allow receiver tPerson uid with
        | .err => (rSystemError, .store)
        | .val true => ok
        | .val false =>
          match st.chan receiver tPerson with
          | .notFound => (rNotInWhitelist, .none)
          | .err => (rSystemError, .store)
          | .found _ _ _ allowStranger => if allowStranger then ok else (rNotInWhitelist, .none)

/-- `checkPersonSendPermission` -/
def personCheck (cfg : Cfg) (st : Store) (id uid : Bytes) : RE :=
  match decodePerson id with
  | none => (0, .invalidPerson)
  | some (l, r) => personReceiverCheck cfg st (receiverOf uid l r) uid

/-- the `switch cmd.ChannelType` of `checkSendPermission` -/
def typeSwitch (cfg : Cfg) (st : Store) (id : Bytes) (ty : Nat) (uid : Bytes) : RE :=
  if ty = tPerson then
    let t := terminal st id ty
    if !t.isOk then t else personCheck cfg st id uid
  else if ty = tGroup then groupCheck st id ty uid
  else if ty = tInfo ∨ ty = tCustomerService then terminal st id ty
  else if ty = tAgent then
    let t := terminal st id ty
    if t.isOk then agentCheck id uid else t
  else if ty = tVisitors then
    let t := terminal st id ty
    if t.isOk then visitorsCheck st id uid else t
  else terminal st id ty

/-- turn a (reason, err) and the channel id to deliver into what `Send` returns -/
def finish (r : RE) (deliver : Bytes) : Outcome :=
  if r.2 != .none then ⟨r.1, r.2, none⟩
  else if r.1 != rSuccess then ⟨r.1, .none, none⟩
  else ⟨rSuccess, .none, some deliver⟩

/-- `checkSendPermission` followed by `Send`'s handling of its result -/
def perSend (cfg : Cfg) (st : Store) (cmd : Cmd) : Outcome :=
  if cmd.requestScoped || (cmd.scopedN > 0 && cmd.chanId.isEmpty) then finish ok cmd.chanId
  else
    let src := fromCmd cmd.chanId
    let id1 := src.1
    let wasCmd := src.2
    let norm : Option Bytes :=
      if cmd.chanType = tPerson ∧ cmd.normalize then normalizePerson cmd.sender id1 else some id1
    match norm with
    | none => ⟨0, .invalidPerson, none⟩
    | some id2 =>
      let reapplied := if wasCmd then toCmd id2 else id2
      if !cfg.hasPerm then finish ok reapplied
      else if cfg.isSystem cmd.sender then finish (terminal st id2 cmd.chanType) reapplied
      else
        let s := senderCheck st cmd.sender
        if !s.isOk then finish s reapplied
        else if cfg.isSystemDevice cmd then finish (terminal st id2 cmd.chanType) reapplied
        else finish (typeSwitch cfg st id2 cmd.chanType cmd.sender) reapplied

/-! ### batched path (permission_batch.go) -/

/-- `sender.Err / sender.Found && SendBan` prefix shared by both evaluators;
    `none` = continue -/
def batchSender (st : Store) (uid : Bytes) : Option RE :=
  match st.chan uid tPerson with
  | .err => some (rSystemError, .store)
  | .found _ _ true _ => some (rSendBan, .none)
  | _ => none

/-- the denied / subscriber / hasAllowlist / allowlistEntry tail of
    `evaluateGroupPermissionReadPlan` (all four facts were read in the same round;
    evaluation looks at them in this order) -/
def evalGroupTail (st : Store) (src : Bytes) (ty : Nat) (uid : Bytes) : RE :=
  match st.contains .deny src ty uid with
  | .err => (rSystemError, .store)
  | .val true => (rInBlacklist, .none)
  | .val false =>
    match st.contains .members src ty uid with
    | .err => (rSystemError, .store)
    | .val false => (rSubscriberNotExist, .none)
    | .val true =>
      match st.hasAny .allow src ty with
      | .err => (rSystemError, .store)
      | .val false => ok
      | .val true =>
        match st.contains .allow src ty uid with
        | .err => (rSystemError, .store)
        | .val false => (rNotInWhitelist, .none)
        | .val true => ok

/-- `evaluateGroupPermissionReadPlan` over the facts the plan reads -/
def evalGroup (cfg : Cfg) (st : Store) (cmd : Cmd) : RE :=
  let src := (fromCmd cmd.chanId).1
  let ty := cmd.chanType
  let trustedUID := cfg.isSystem cmd.sender
  let trusted := trustedUID || cfg.isSystemDevice cmd
  match (if trustedUID then none else batchSender st cmd.sender) with
  | some r => r
  | none =>
    match st.chan src ty with
    | .err => (rSystemError, .store)
    | .notFound => if !trusted then (rChannelNotExist, .none) else ok
    | .found ban disband _ _ =>
      if trusted then (if disband then (rDisband, .none) else ok)
      else if ban then (rBan, .none)
      else if disband then (rDisband, .none)
      else evalGroupTail st src ty cmd.sender

/-- group outcome: the batch keeps the *original* channel id for delivery -/
def batchGroup (cfg : Cfg) (st : Store) (cmd : Cmd) : Outcome :=
  finish (evalGroup cfg st cmd) cmd.chanId

/-- the tail of `evaluatePersonPermissionReadPlan` once sender and terminal
    facts passed: receiverTrusted, denied, allowlistEntry, receiverChannel -/
def evalPersonTail (cfg : Cfg) (st : Store) (receiver uid : Bytes) : RE :=
  if cfg.isSystem receiver then ok
  else match st.contains .deny receiver tPerson uid with
    | .err => (rSystemError, .store)
    | .val true => (rInBlacklist, .none)
    | .val false =>
      if !cfg.whitelist then ok                      -- allowlistEntry was not planned
      else match st.contains .allow receiver tPerson uid with
        | .err => (rSystemError, .store)
        | .val true => ok
        | .val false =>
          match st.chan receiver tPerson with
          | .err => (rSystemError, .store)
          | .found _ _ _ true => ok
          | _ => (rNotInWhitelist, .none)

/-- terminal.Err / terminal.Found && Disband; `none` = continue -/
def batchTerminal (st : Store) (pid : Bytes) : Option RE :=
  match st.chan pid tPerson with
  | .err => some (rSystemError, .store)
  | .found _ true _ _ => some (rDisband, .none)
  | _ => none

/-- `checkPersonSendPermissionsBatch` plan + `evaluatePersonPermissionReadPlan` -/
def batchPerson (cfg : Cfg) (st : Store) (cmd : Cmd) : Outcome :=
  let src := fromCmd cmd.chanId
  let id1 := src.1
  let norm : Option Bytes := if cmd.normalize then normalizePerson cmd.sender id1 else some id1
  match norm with
  | none => ⟨rSuccess, .invalidPerson, none⟩            -- planErr, no reads
  | some id2 =>
    let id3 := if src.2 then toCmd id2 else id2
    let pid := (fromCmd id3).1                              -- permissionChannelID
    let term := batchTerminal st pid
    if cfg.isSystem cmd.sender then
      finish (term.getD ok) id3
    else if cfg.isSystemDevice cmd then
      finish ((batchSender st cmd.sender).getD (term.getD ok)) id3
    else match decodePerson pid with
      | none => ⟨rSuccess, .invalidPerson, none⟩           -- planErr is evaluated first
      | some (l, r) =>
        match batchSender st cmd.sender with
        | some x => finish x id3
        | none =>
          match term with
          | some x => finish x id3
          | none => finish (evalPersonTail cfg st (receiverOf cmd.sender l r) cmd.sender) id3

/-- `resolveSendBatchPermissions` for one permission scope + SendBatchEach's result handling -/
def batch (cfg : Cfg) (st : Store) (cmd : Cmd) : Outcome :=
  if cfg.hasBatch && !cmd.requestScoped && cmd.scopedN == 0 then
    if cmd.chanType = tGroup then batchGroup cfg st cmd
    else if cmd.chanType = tPerson then batchPerson cfg st cmd
    else perSend cfg st cmd
  else perSend cfg st cmd

end WK.C36

/-
  C06 — executable model of pkg/channel/machine (ChannelState and its
  transitions), one Lean function per Go function, plus the reactor's three
  guarded follower-ack entry points of pkg/channel/reactor/leader_replication.go
  (handleLeaderAck progress / stopped, applyLeaderPullAckOffset).  Core only.

  Abstractions (everything else is branch for branch):
  * uint64 offsets / ids are `Nat` (no wrap-around; offsets stay far below 2^64);
  * a `ch.Record` is represented by its `Index` only (payload, ids, timestamps
    are carried through by the Go code untouched and are not observable here);
  * `ChannelKey`/`ChannelID` are small numbers (0 = the Go zero value);
  * maps are association lists with unique keys (uniqueness is a THEOREM, see
    WK.Theorems.C06), `sort.Slice` is an insertion sort;
  * LeaseUntil / RetentionThroughSeq / WriteFence (copied by ApplyMeta, read by
    nothing in this package) and metrics / tracing are erased.
-/
namespace WK.C06

inductive Err where
  | ok | stale | invalid | notfound | notleader | notready | conflict | other
  deriving DecidableEq, Repr, Inhabited

/-- `machine.AppendWaiter` (Records ↦ list of record indexes) -/
structure Waiter where
  op : Nat
  target : Nat
  mode : Nat          -- ch.CommitMode: 1 = quorum, 2 = local
  recs : List Nat
  deriving DecidableEq, Repr, Inhabited

/-- `machine.AppendOp` -/
structure Inflight where
  op : Nat
  recs : List Nat
  ops : List Nat      -- WaiterOpIDs
  counts : List Nat   -- WaiterRecordCounts
  deriving DecidableEq, Repr, Inhabited

/-- `machine.ChannelState` -/
structure State where
  key : Nat := 1
  gen : Nat := 7
  localNode : Nat := 1
  id : Nat := 0
  epoch : Nat := 0
  lepoch : Nat := 0
  role : Nat := 0            -- ch.Role: 1 follower, 2 leader
  status : Nat := 0          -- ch.Status: 1 creating, 2 active, 3 deleting, 4 deleted
  leader : Nat := 0
  replicas : List Nat := []
  isr : List Nat := []
  minISR : Int := 0
  leo : Nat := 0
  hw : Nat := 0
  ckpt : Nat := 0
  commitReady : Bool := false
  progress : List (Nat × Nat) := []
  pending : List Waiter := []
  order : List Nat := []
  inflight : Option Inflight := none
  deriving DecidableEq, Repr, Inhabited

structure Meta where
  key : Nat
  id : Nat
  epoch : Nat
  lepoch : Nat
  leader : Nat
  replicas : List Nat
  isr : List Nat
  minISR : Int
  status : Nat
  deriving DecidableEq, Repr, Inhabited

structure Fence where
  key : Nat
  gen : Nat
  epoch : Nat
  lepoch : Nat
  op : Nat
  deriving DecidableEq, Repr, Inhabited

/-- one `machine.AppendBatchWaiter` of a proposal (`nrec` = len(Records)) -/
structure WaiterCmd where
  op : Nat
  mode : Nat
  nrec : Nat
  deriving DecidableEq, Repr, Inhabited

/-- `machine.Reply`.  `seqs` = MessageSeq of AppendItems.  `target`/`mode` are the
    completed waiter's Target / CommitMode at the moment the reply was produced
    (what `completeAppendWaiters` tested); they are not printed. -/
structure Reply where
  op : Nat
  err : Err
  seqs : List Nat
  target : Nat := 0
  mode : Nat := 0
  deriving DecidableEq, Repr, Inhabited

/-- `machine.Decision` (+ the bool result of CancelAppendWaiter) -/
structure Decision where
  err : Err := .ok
  replies : List Reply := []
  task : Option (Fence × Nat) := none   -- StoreAppend task: fence, number of records
  signals : Nat := 0
  cancelled : Bool := false
  deriving DecidableEq, Repr, Inhabited

inductive Event where
  | setMeta (m : Meta)
  | propose (batch : Nat) (ws : List WaiterCmd)
  | stored (f : Fence) (base last : Nat) (err : Err)
  | quorum (f : Fence) (first last hw : Nat) (err : Err)
  /-- reactor.handleLeaderAck, Stopped = false -/
  | ack (key epoch lepoch follower mtch : Nat)
  /-- reactor.handleLeaderAck, Stopped = true; `lv` = the leader's lifecycle activity version -/
  | stoppedAck (key epoch lepoch follower mtch lv av : Nat)
  /-- reactor.applyLeaderPullAckOffset -/
  | pullAck (follower off : Nat)
  | cancel (op : Nat)
  | abort (batch : Nat)
  deriving Repr, Inhabited

-- ------------------------------------------------------------------ maps ----

def getP (p : List (Nat × Nat)) (n : Nat) : Nat :=
  match p.find? (fun e => e.1 == n) with
  | some e => e.2
  | none => 0

def setP (p : List (Nat × Nat)) (n m : Nat) : List (Nat × Nat) :=
  if p.any (fun e => e.1 == n) then p.map (fun e => if e.1 == n then (n, m) else e)
  else p ++ [(n, m)]

def keysW (p : List Waiter) : List Nat := p.map (·.op)

def lookupW (p : List Waiter) (op : Nat) : Option Waiter := p.find? (fun w => w.op == op)

def hasW (p : List Waiter) (op : Nat) : Bool := p.any (fun w => w.op == op)

def eraseW (p : List Waiter) (op : Nat) : List Waiter := p.filter (fun w => w.op != op)

def setW (p : List Waiter) (w : Waiter) : List Waiter :=
  if hasW p w.op then p.map (fun x => if x.op == w.op then w else x) else p ++ [w]

def insertAsc (x : Nat) : List Nat → List Nat
  | [] => [x]
  | y :: ys => if x ≤ y then x :: y :: ys else y :: insertAsc x ys

def insertDesc (x : Nat) : List Nat → List Nat
  | [] => [x]
  | y :: ys => if y ≤ x then x :: y :: ys else y :: insertDesc x ys

def sortAsc (l : List Nat) : List Nat := l.foldr insertAsc []
def sortDesc (l : List Nat) : List Nat := l.foldr insertDesc []

-- --------------------------------------------------------------- progress.go

/-- `(*ChannelState).AdvanceHW` -/
def advanceHW (s : State) : State :=
  if s.minISR ≤ 0 ∨ (s.isr.length : Int) < s.minISR then s else
  let ms := sortDesc (s.isr.map (getP s.progress))
  match ms[(s.minISR - 1).toNat]? with
  | none => s            -- not reachable: MinISR-1 < len(ISR) by the guard above
  | some next => if next ≤ s.hw then s else { s with hw := next }

-- ----------------------------------------------------------------- append.go

/-- `removePendingAppendOrder` -/
def removeOrder (order ops : List Nat) : List Nat :=
  order.filter (fun o => !ops.contains o)

/-- `appendPendingAppendOrder` -/
def appendOrder (order : List Nat) (op : Nat) : List Nat :=
  if order.contains op then order else order ++ [op]

/-- the loop of `completeAppendWaiters`: returns the remaining waiters and the replies in order -/
def completeLoop (hw : Nat) : List Nat → List Waiter → List Waiter × List Reply
  | [], p => (p, [])
  | op :: rest, p =>
    match lookupW p op with
    | none => completeLoop hw rest p
    | some w =>
      if w.target == 0 then completeLoop hw rest p
      else if w.mode == 1 && hw < w.target then completeLoop hw rest p
      else
        let r := completeLoop hw rest (eraseW p op)
        (r.1, { op := op, err := .ok, seqs := w.recs, target := w.target, mode := w.mode } :: r.2)

/-- `completeAppendWaiters` -/
def completeAppendWaiters (s : State) (order : List Nat) : State × Decision :=
  if s.pending.isEmpty then (s, {}) else
  let order :=
    if order.isEmpty then (if s.order.isEmpty then sortAsc (keysW s.pending) else s.order) else order
  let r := completeLoop s.hw order s.pending
  ({ s with pending := r.1, order := removeOrder s.order (r.2.map (·.op)) }, { replies := r.2 })

/-- the loop of `failInflightAppend`: remaining waiters and the completed op ids -/
def failLoop : List Nat → List Waiter → List Waiter × List Nat
  | [], p => (p, [])
  | op :: rest, p =>
    if hasW p op then
      let r := failLoop rest (eraseW p op)
      (r.1, op :: r.2)
    else failLoop rest p

/-- `failInflightAppend` -/
def failInflight (s : State) (err : Err) : State × Decision :=
  match s.inflight with
  | none => (s, {})
  | some inf =>
    let r := failLoop inf.ops s.pending
    ({ s with pending := r.1, order := removeOrder s.order r.2, inflight := none },
     { replies := r.2.map (fun op => { op := op, err := err, seqs := [] }) })

def slice (l : List Nat) (a b : Nat) : List Nat := (l.drop a).take (b - a)

/-- body of the loop of `assignInflightRecordsToWaiters` for a waiter that is still
    pending: the updated waiter and the new `next` -/
def assignOne (recs : List Nat) (w : Waiter) (count0 next : Nat) : Waiter × Nat :=
  let count := if count0 == 0 then w.recs.length else count0
  let e := if count > 0 then next + count else next + w.recs.length
  let e := if e > recs.length then recs.length else e
  let source := slice recs next e
  -- both branches (assignStoredRecordMetadata / cloneRecords) leave the waiter
  -- with the indexes of `source`
  -- `if len(waiter.Records) > 0 { waiter.Target = last index }`
  let tgt := if source.length > 0 then source.getLast?.getD 0 else w.target
  ({ w with recs := source, target := tgt }, e)

/-- `assignInflightRecordsToWaiters` (records = their already assigned indexes).
    Go would panic on `Records[next:end]` with next > end; that needs
    sum(WaiterRecordCounts) > len(Records), which no transition produces. -/
def assignLoop (recs : List Nat) : List Nat → List Nat → Nat → List Waiter → List Waiter
  | [], _, _, p => p
  | op :: ops, counts, next, p =>
    let count := counts.headD 0
    match lookupW p op with
    | none => assignLoop recs ops counts.tail (next + count) p
    | some w =>
      let r := assignOne recs w count next
      assignLoop recs ops counts.tail r.2 (setW p r.1)

/-- `matchesInflightFence` -/
def matchesFence (s : State) (f : Fence) : Bool :=
  f.key == s.key && f.gen == s.gen && f.epoch == s.epoch && f.lepoch == s.lepoch &&
  (match s.inflight with
   | none => false
   | some i => i.op == f.op)

/-- `ApplyAppendStored`, success path up to (not including) completeAppendWaiters -/
def storedPre (s : State) (inf : Inflight) (base last : Nat) : State :=
  let recs := List.range' base inf.recs.length       -- assignStoredOffsets
  let p := assignLoop recs inf.ops inf.counts 0 s.pending
  let s1 : State := { s with pending := p, leo := max s.leo last }
  let s2 : State :=
    if s1.role == 2 then advanceHW { s1 with progress := setP s1.progress s1.localNode s1.leo } else s1
  { s2 with inflight := none }

/-- `ApplyAppendStored` -/
def applyAppendStored (s : State) (f : Fence) (base last : Nat) (err : Err) : State × Decision :=
  if !matchesFence s f then (s, {}) else
  if err ≠ .ok then failInflight s err else
  match s.inflight with
  | none => (s, {})     -- not reachable: matchesFence implies an in-flight batch
  | some inf =>
    let r := completeAppendWaiters (storedPre s inf base last) inf.ops
    (r.1, { r.2 with signals := r.2.signals + 1 })

/-- `ApplyQuorumCommitted`, success path up to completeAppendWaiters -/
def quorumPre (s : State) (inf : Inflight) (first last hw : Nat) : State :=
  let recs := List.range' first inf.recs.length
  let p := assignLoop recs inf.ops inf.counts 0 s.pending
  { s with pending := p, leo := max s.leo last, hw := max s.hw hw,
           progress := setP s.progress s.localNode (max (getP s.progress s.localNode) last),
           inflight := none }

/-- `ApplyQuorumCommitted` -/
def applyQuorumCommitted (s : State) (f : Fence) (first last hw : Nat) (err : Err) : State × Decision :=
  if !matchesFence s f then (s, {}) else
  if err ≠ .ok then failInflight s err else
  match s.inflight with
  | none => (s, {})
  | some inf =>
    let count := inf.recs.length
    if first == 0 || count == 0 || last < first || last - first + 1 != count || hw != last then
      failInflight s .conflict
    else
      completeAppendWaiters (quorumPre s inf first last hw) inf.ops

/-- `ApplyFollowerAck` up to completeAppendWaiters -/
def ackPre (s : State) (follower mtch : Nat) : State :=
  advanceHW (if mtch > getP s.progress follower then { s with progress := setP s.progress follower mtch } else s)

/-- `ApplyFollowerAck` -/
def applyFollowerAck (s : State) (follower mtch : Nat) : State × Decision :=
  if s.role != 2 || !s.replicas.contains follower then (s, {}) else
  completeAppendWaiters (ackPre s follower mtch) (ackPre s follower mtch).order

/-- `CancelAppendWaiter` -/
def cancelAppendWaiter (s : State) (op : Nat) : State × Decision :=
  if !hasW s.pending op then (s, {}) else
  ({ s with pending := eraseW s.pending op, order := removeOrder s.order [op] }, { cancelled := true })

/-- `AbortAppendBatchProposal` -/
def abortAppendBatch (s : State) (batch : Nat) : State × Decision :=
  match s.inflight with
  | none => (s, {})
  | some inf =>
    if inf.op != batch then (s, {}) else
    ({ s with pending := inf.ops.foldl eraseW s.pending, order := removeOrder s.order inf.ops, inflight := none }, {})

/-- first loop of `ProposeAppendBatch`: validation, returns the total record count -/
def checkWaiters (pending : List Waiter) : List WaiterCmd → List Nat → Nat → Except Err Nat
  | [], _, n => .ok n
  | w :: rest, seen, n =>
    if w.nrec == 0 then .error .invalid
    else if seen.contains w.op then .error .invalid
    else if hasW pending w.op then .error .notready
    else checkWaiters pending rest (w.op :: seen) (n + w.nrec)

/-- second loop of `ProposeAppendBatch`: registers the waiters -/
def addWaiters : List WaiterCmd → List Waiter → List Nat → List Waiter × List Nat
  | [], p, o => (p, o)
  | w :: rest, p, o =>
    let mode := if w.mode == 0 then 1 else w.mode
    addWaiters rest (setW p { op := w.op, target := 0, mode := mode, recs := List.replicate w.nrec 0 })
      (appendOrder o w.op)

/-- `ProposeAppendBatch` (`ProposeAppend` = a batch of one waiter whose op is the batch op) -/
def proposeAppendBatch (s : State) (batch : Nat) (ws : List WaiterCmd) : State × Decision :=
  if s.status == 4 || s.status == 3 then (s, { err := .notfound }) else
  if s.role != 2 then (s, { err := .notleader }) else
  if !s.commitReady then (s, { err := .notready }) else
  if s.inflight.isSome then (s, { err := .notready }) else
  match checkWaiters s.pending ws [] 0 with
  | .error e => (s, { err := e })
  | .ok total =>
    if total == 0 then (s, {}) else
    let r := addWaiters ws s.pending s.order
    let fence : Fence := { key := s.key, gen := s.gen, epoch := s.epoch, lepoch := s.lepoch, op := batch }
    ({ s with pending := r.1, order := r.2,
              inflight := some { op := batch, recs := List.replicate total 0,
                                 ops := ws.map (·.op), counts := ws.map (·.nrec) } },
     { task := some (fence, total) })

-- ------------------------------------------------------------------- meta.go

/-- `ValidateMeta` -/
def validateMeta (s : State) (m : Meta) : Err :=
  if m.key != 0 && m.key != s.key then .stale
  else if s.id != 0 && m.id != s.id then .stale
  else if m.epoch < s.epoch || (m.epoch == s.epoch && m.lepoch < s.lepoch) then .stale
  else if m.epoch == s.epoch && m.lepoch == s.lepoch && m.leader != s.leader then .stale
  else if m.minISR ≤ 0 || m.minISR > (m.isr.length : Int) then .invalid
  else .ok

/-- `shouldClearAppendStateForMeta` -/
def shouldClear (s : State) (m : Meta) : Bool :=
  let nextRole := if m.leader == s.localNode then 2 else 1
  s.epoch != m.epoch || s.lepoch != m.lepoch || s.leader != m.leader || s.role != nextRole || s.status != m.status

/-- `ApplyMeta` after validation and the optional clearAppendState -/
def metaInstall (s0 : State) (m : Meta) : State × Decision :=
  let s1 : State := { s0 with id := m.id, epoch := m.epoch, lepoch := m.lepoch, leader := m.leader,
                              replicas := m.replicas, isr := m.isr, minISR := m.minISR, status := m.status }
  if m.status == 4 then ({ s1 with commitReady := false }, {}) else
  let s2 : State :=
    if m.leader == s1.localNode then { s1 with role := 2, progress := setP s1.progress s1.localNode s1.leo }
    else { s1 with role := 1 }
  ({ s2 with commitReady := (m.status == 2 || m.status == 1) }, {})

/-- `clearAppendState` -/
def clearAppendState (s : State) : State := { s with inflight := none, pending := [], order := [] }

/-- `ApplyMeta` -/
def applyMeta (s : State) (m : Meta) : State × Decision :=
  match validateMeta s m with
  | .ok => metaInstall (if shouldClear s m then clearAppendState s else s) m
  | e => (s, { err := e })

-- ----------------------------------------- reactor/leader_replication.go guards

/-- the common admission test of `handleLeaderAck` -/
def ackAdmitted (s : State) (key epoch lepoch follower : Nat) : Bool :=
  !(s.role != 2 || key != s.key || epoch != s.epoch || lepoch != s.lepoch || !s.replicas.contains follower)

/-- `handleLeaderAck` with Stopped = false (→ `applyLeaderProgressAck`) -/
def reactorAck (s : State) (key epoch lepoch follower mtch : Nat) : State × Decision :=
  if !ackAdmitted s key epoch lepoch follower then (s, { err := .stale }) else
  if mtch == 0 then (s, {}) else
  if mtch > s.leo then (s, { err := .stale }) else
  applyFollowerAck s follower mtch

/-- `handleLeaderAck` with Stopped = true, on a fresh lifecycle of activity version `lv`
    (the follower table is rebuilt by syncLeaderFollowers and never holds the local node) -/
def reactorStoppedAck (s : State) (key epoch lepoch follower mtch lv av : Nat) : State × Decision :=
  if !ackAdmitted s key epoch lepoch follower then (s, { err := .stale }) else
  if av != lv || mtch != s.leo then (s, { err := .stale }) else
  if follower == s.localNode then (s, { err := .stale }) else
  applyFollowerAck s follower mtch

/-- `applyLeaderPullAckOffset` -/
def reactorPullAck (s : State) (follower off : Nat) : State × Decision :=
  if off == 0 then (s, {}) else
  if off > s.leo then (s, { err := .stale }) else
  applyFollowerAck s follower off

-- ---------------------------------------------------------------------- step

def step (s : State) : Event → State × Decision
  | .setMeta m => applyMeta s m
  | .propose b ws => proposeAppendBatch s b ws
  | .stored f base last err => applyAppendStored s f base last err
  | .quorum f first last hw err => applyQuorumCommitted s f first last hw err
  | .ack k e le fo m => reactorAck s k e le fo m
  | .stoppedAck k e le fo m lv av => reactorStoppedAck s k e le fo m lv av
  | .pullAck fo off => reactorPullAck s fo off
  | .cancel op => cancelAppendWaiter s op
  | .abort b => abortAppendBatch s b

/-- run a whole history, collecting the decisions -/
def run (s : State) : List Event → State × List Decision
  | [] => (s, [])
  | ev :: rest =>
    let r := step s ev
    let q := run r.1 rest
    (q.1, r.2 :: q.2)

/-- the state the reactor's store-load path hands to the first ApplyMeta -/
def initState (localNode leo hw ckpt : Nat) : State :=
  { localNode := localNode, leo := leo, hw := hw, ckpt := ckpt }

end WK.C06

import WK.Prelude.Hex
import WK.Gen.C25
/-
  C25 — model of pkg/protocol/wkprotoenc/crypto.go and of the gateway's
  decryptSendPacketForSession (pkg/gateway/protocol/wkproto/adapter.go).
  Core only, executable.

  The primitives are PARAMETERS (`Prims`): the AES block permutation `E k`/`D k`,
  the base64 codec, MD5 and X25519.  The theorems take their contracts as
  hypotheses; the driver instantiates `E`/`D` with the AES calls recorded from
  the real code (the oracle) and `b64`/`md5` with the concrete definitions at
  the end of this file (which the differential run compares with Go's library
  on every op).

  Byte strings are `List UInt8`; Go `int` lengths are `Nat`.
-/
namespace WK.C25
open WK WK.Gen.C25

inductive Err where
  | missingKey   -- ErrMissingSessionKey (also: bad length, bad padding)
  | b64          -- base64.CorruptInputError
  | mismatch     -- ErrMsgKeyMismatch
  | invalidPub   -- ErrInvalidPublicKey
  | dh           -- curve25519.X25519 error (low-order point)
  deriving DecidableEq, Repr

def Err.str : Err → String
  | .missingKey => "err:missingkey"
  | .b64 => "err:b64"
  | .mismatch => "err:mismatch"
  | .invalidPub => "err:invalidpub"
  | .dh => "err:other"

/-- aes.BlockSize -/
abbrev blockSize : Nat := 16

/-! ## PKCS7 -/

/-- `pkcs7PaddingSize` (the `padding == 0` branch is kept although it is dead for `bs > 0`) -/
def pkcs7PaddingSize (payloadLen bs : Nat) : Nat :=
  let padding := bs - payloadLen % bs
  if padding = 0 then bs else padding

/-- the padding loop of EncryptPayloadWithCrypto / msgKeyWithCrypto: `encrypted[i] = byte(padding)` -/
def padBytes (p : Bytes) (bs : Nat) : Bytes :=
  p ++ List.replicate (pkcs7PaddingSize p.length bs) (UInt8.ofNat (pkcs7PaddingSize p.length bs))

/-- `pkcs7UnpadView`, guard for guard -/
def unpadView (p : Bytes) (bs : Nat) : Except Err Bytes :=
  if p.length = 0 ∨ p.length % bs ≠ 0 then .error .missingKey else
  match p.getLast? with
  | none => .error .missingKey
  | some last =>
    let padding := last.toNat
    if padding = 0 ∨ padding > bs ∨ padding > p.length then .error .missingKey
    else if (p.drop (p.length - padding)).all (fun b => b.toNat == padding) then
      .ok (p.take (p.length - padding))
    else .error .missingKey

/-! ## CBC over an abstract block function -/

/-- `xorBlock` (both operands are 16 bytes wherever the code calls it) -/
def xorB (a b : Bytes) : Bytes := List.zipWith (· ^^^ ·) a b

/-- `data[offset : offset+16]` for offset = 0, 16, … -/
def chunks (bs : Bytes) : List Bytes :=
  if _h : bs.length = 0 then [] else bs.take blockSize :: chunks (bs.drop blockSize)
termination_by bs.length
decreasing_by simp [List.length_drop, blockSize]; omega

/-- `encryptCBCBlocks`: previous := iv; chunk ^= previous; chunk = E(chunk); previous = chunk -/
def cbcEncBlocks (E : Bytes → Bytes) : Bytes → List Bytes → List Bytes
  | _, [] => []
  | prev, b :: rest => E (xorB b prev) :: cbcEncBlocks E (E (xorB b prev)) rest

/-- `decryptCBCBlocks`: ciphertext := chunk; chunk = D(chunk); chunk ^= previous; previous = ciphertext -/
def cbcDecBlocks (D : Bytes → Bytes) : Bytes → List Bytes → List Bytes
  | _, [] => []
  | prev, c :: rest => xorB (D c) prev :: cbcDecBlocks D c rest

def cbcEncrypt (E : Bytes → Bytes) (iv data : Bytes) : Bytes := (cbcEncBlocks E iv (chunks data)).flatten
def cbcDecrypt (D : Bytes → Bytes) (iv data : Bytes) : Bytes := (cbcDecBlocks D iv (chunks data)).flatten

/-- the inputs handed to the block cipher, in call order (what the recorder sees) -/
def cbcEncInputs (E : Bytes → Bytes) : Bytes → List Bytes → List Bytes
  | _, [] => []
  | prev, b :: rest => xorB b prev :: cbcEncInputs E (E (xorB b prev)) rest

/-! ## primitives as parameters -/

structure Prims where
  E : Bytes → Bytes → Bytes            -- key → block → block   (AES-128 encrypt)
  D : Bytes → Bytes → Bytes            -- key → block → block   (AES-128 decrypt)
  b64enc : Bytes → Bytes               -- base64.StdEncoding.Encode
  b64dec : Bytes → Option Bytes        -- base64.StdEncoding.Decode (none = CorruptInputError)
  md5 : Bytes → Bytes
  dh : Bytes → Bytes → Option Bytes    -- curve25519.X25519(scalar, point)
  basepoint : Bytes

structure SessionKeys where
  aesKey : Bytes
  aesIV : Bytes
  deriving DecidableEq, Repr

/-- `aesBlockAndIV`: both at least one block long; the first block of each is used -/
def aesBlockAndIV (k : SessionKeys) : Except Err (Bytes × Bytes) :=
  if k.aesKey.length < blockSize ∨ k.aesIV.length < blockSize then .error .missingKey
  else .ok (k.aesKey.take blockSize, k.aesIV.take blockSize)

/-- `EncryptPayload` = NewSessionCrypto ; EncryptPayloadWithCrypto -/
def encryptPayload (P : Prims) (k : SessionKeys) (payload : Bytes) : Except Err Bytes :=
  match aesBlockAndIV k with
  | .error e => .error e
  | .ok (key, iv) => .ok (P.b64enc (cbcEncrypt (P.E key) iv (padBytes payload blockSize)))

/-- `DecryptPayload` = NewSessionCrypto ; DecryptPayloadWithCrypto -/
def decryptPayload (P : Prims) (k : SessionKeys) (text : Bytes) : Except Err Bytes :=
  match aesBlockAndIV k with
  | .error e => .error e
  | .ok (key, iv) =>
    match P.b64dec text with
    | none => .error .b64
    | some raw =>
      if raw.length = 0 ∨ raw.length % blockSize ≠ 0 then .error .missingKey
      else unpadView (cbcDecrypt (P.D key) iv raw) blockSize

/-! ## the SEND msg key -/

def hexNib (n : Nat) : UInt8 := if n < 10 then UInt8.ofNat (48 + n) else UInt8.ofNat (87 + n)

/-- `hexLower` / `hexMD5String` -/
def hexLower (bs : Bytes) : Bytes := bs.flatMap (fun b => [hexNib (b.toNat / 16), hexNib (b.toNat % 16)])

def decDigit (n : Nat) : UInt8 := UInt8.ofNat (48 + n)

/-- `strconv.AppendUint(buf, n, 10)`: decimal, no leading zeros, "0" for 0 -/
def decBytes (n : Nat) : Bytes :=
  if n < 10 then [decDigit n] else decBytes (n / 10) ++ [decDigit (n % 10)]
termination_by n
decreasing_by omega

structure SendPacket where
  setting : Nat := 0
  msgKey : Bytes := []
  expire : Nat := 0
  clientSeq : Nat := 0
  clientMsgNo : Bytes := []
  streamNo : Bytes := []
  channelID : Bytes := []
  channelType : Nat := 0
  topic : Bytes := []
  payload : Bytes := []
  deriving DecidableEq, Repr

/-- the bytes one append of SendMsgKeyWithCrypto contributes -/
def fieldEnc (p : SendPacket) : Field × Kind → Bytes
  | (.clientSeq, _) => decBytes p.clientSeq
  | (.channelType, _) => decBytes p.channelType
  | (.expire, _) => decBytes p.expire
  | (.setting, _) => decBytes p.setting
  | (.clientMsgNo, _) => p.clientMsgNo
  | (.channelID, _) => p.channelID
  | (.payload, _) => p.payload
  | (.msgKey, _) => p.msgKey
  | (.streamNo, _) => p.streamNo
  | (.topic, _) => p.topic

/-- the preimage for an arbitrary append order -/
def preimageOf (order : List (Field × Kind)) (p : SendPacket) : Bytes := (order.map (fieldEnc p)).flatten

/-- the preimage SendMsgKeyWithCrypto builds (order regenerated from the source) -/
def sendPreimage (p : SendPacket) : Bytes := preimageOf sendPreimageOrder p

/-- `msgKeyWithCrypto` after NewSessionCrypto: hex(MD5(base64(CBC(pad(sign))))) -/
def msgKeyOf (P : Prims) (k : SessionKeys) (sign : Bytes) : Except Err Bytes :=
  match aesBlockAndIV k with
  | .error e => .error e
  | .ok (key, iv) => .ok (hexLower (P.md5 (P.b64enc (cbcEncrypt (P.E key) iv (padBytes sign blockSize)))))

def sendMsgKey (P : Prims) (k : SessionKeys) (p : SendPacket) : Except Err Bytes := msgKeyOf P k (sendPreimage p)

/-- `ValidateSendPacket` / `ValidateSendPacketWithCrypto` -/
def validateSend (P : Prims) (k : SessionKeys) (p : SendPacket) : Except Err Unit :=
  match sendMsgKey P k p with
  | .error e => .error e
  | .ok expected => if p.msgKey ≠ expected then .error .mismatch else .ok ()

/-- `decryptSendPacketForSession` (either branch: cached crypto or keys): validate, then decrypt -/
def decryptSendForSession (P : Prims) (k : Option SessionKeys) (p : SendPacket) : Except Err SendPacket :=
  match k with
  | none => .error .missingKey
  | some k =>
    match validateSend P k p with
    | .error e => .error e
    | .ok () =>
      match decryptPayload P k p.payload with
      | .error e => .error e
      | .ok plain => .ok { p with payload := plain }

/-- frame.SettingNoEncrypt = 1 <<< 4 -/
def noEncrypt (setting : Nat) : Bool := (setting / 16) % 2 == 1

/-- the SEND branch of `Adapter.Decode` -/
def adapterOnSend (P : Prims) (enabled : Bool) (k : Option SessionKeys) (p : SendPacket) : Except Err SendPacket :=
  if !noEncrypt p.setting && enabled then decryptSendForSession P k p else .ok p

/-- what a genuine client puts on the wire (counterpart of the server code; the SDK side of the protocol) -/
def sealSend (P : Prims) (k : SessionKeys) (p : SendPacket) : Except Err SendPacket :=
  match encryptPayload P k p.payload with
  | .error e => .error e
  | .ok enc =>
    match sendMsgKey P k { p with payload := enc } with
    | .error e => .error e
    | .ok mk => .ok { p with payload := enc, msgKey := mk }

/-- strconv.AppendInt(buf, i, 10) -/
def decInt (i : Int) : Bytes := if i < 0 then 45 :: decBytes i.natAbs else decBytes i.natAbs

structure RecvPacket where
  setting : Nat := 0
  msgKey : Bytes := []
  messageID : Int := 0
  messageSeq : Nat := 0
  clientMsgNo : Bytes := []
  timestamp : Int := 0
  fromUID : Bytes := []
  channelID : Bytes := []
  channelType : Nat := 0
  payload : Bytes := []
  deriving DecidableEq, Repr

/-- `RecvPacket.VerityBytes` -/
def recvPreimage (r : RecvPacket) : Bytes :=
  decInt r.messageID ++ decBytes r.messageSeq ++ r.clientMsgNo ++ decInt r.timestamp ++ r.fromUID ++ r.channelID ++
    decBytes r.channelType ++ r.payload

/-- `SealRecvPacket`: encrypt the payload, then key the SEALED packet -/
def sealRecv (P : Prims) (k : SessionKeys) (r : RecvPacket) : Except Err RecvPacket :=
  match encryptPayload P k r.payload with
  | .error e => .error e
  | .ok enc =>
    match msgKeyOf P k (recvPreimage { r with payload := enc }) with
    | .error e => .error e
    | .ok mk => .ok { r with payload := enc, msgKey := mk }

/-! ## key agreement -/

/-- `DecodePublicKey` -/
def decodePublicKey (P : Prims) (enc : Bytes) : Except Err Bytes :=
  match P.b64dec enc with
  | none => .error .b64
  | some d => if d.length ≠ 32 then .error .invalidPub else .ok d

/-- `deriveAESKey`: the first 16 hex characters of MD5(base64(secret)) -/
def deriveAESKey (P : Prims) (secret : Bytes) : Bytes := (hexLower (P.md5 (P.b64enc secret))).take 16

/-- `NegotiateServerSession`; the two random draws (private key, IV) are inputs -/
def negotiateServer (P : Prims) (clientKey serverPriv iv : Bytes) : Except Err (SessionKeys × Bytes) :=
  match decodePublicKey P clientKey with
  | .error e => .error e
  | .ok cpub =>
    match P.dh serverPriv P.basepoint with
    | none => .error .dh
    | some spub =>
      match P.dh serverPriv cpub with
      | none => .error .dh
      | some secret => .ok ({ aesKey := deriveAESKey P secret, aesIV := iv }, P.b64enc spub)

/-- `DeriveClientSession` -/
def deriveClient (P : Prims) (clientPriv serverKey iv : Bytes) : Except Err SessionKeys :=
  match decodePublicKey P serverKey with
  | .error e => .error e
  | .ok spub =>
    match P.dh clientPriv spub with
    | none => .error .dh
    | some secret => .ok { aesKey := deriveAESKey P secret, aesIV := iv }

/-- `randomIV`'s alphabet -/
def ivAlphabetOk (b : UInt8) : Bool :=
  (97 ≤ b.toNat && b.toNat ≤ 122) || (65 ≤ b.toNat && b.toNat ≤ 90) || (48 ≤ b.toNat && b.toNat ≤ 57)

/-! ## concrete primitives used by the driver (compared with Go's library by the differential run) -/

def b64Char (n : Nat) : UInt8 :=
  if n < 26 then UInt8.ofNat (65 + n)
  else if n < 52 then UInt8.ofNat (97 + (n - 26))
  else if n < 62 then UInt8.ofNat (48 + (n - 52))
  else if n = 62 then 43 else 47

/-- base64.StdEncoding.Encode -/
def b64Enc : Bytes → Bytes
  | a :: b :: c :: rest =>
    let v := a.toNat * 65536 + b.toNat * 256 + c.toNat
    b64Char (v / 262144) :: b64Char (v / 4096 % 64) :: b64Char (v / 64 % 64) :: b64Char (v % 64) :: b64Enc rest
  | [a, b] =>
    let v := a.toNat * 65536 + b.toNat * 256
    [b64Char (v / 262144), b64Char (v / 4096 % 64), b64Char (v / 64 % 64), 61]
  | [a] =>
    let v := a.toNat * 65536
    [b64Char (v / 262144), b64Char (v / 4096 % 64), 61, 61]
  | [] => []

def b64Val (c : UInt8) : Option Nat :=
  let n := c.toNat
  if 65 ≤ n ∧ n ≤ 90 then some (n - 65)
  else if 97 ≤ n ∧ n ≤ 122 then some (n - 97 + 26)
  else if 48 ≤ n ∧ n ≤ 57 then some (n - 48 + 52)
  else if n = 43 then some 62
  else if n = 47 then some 63
  else none

/-- phases of Go's `decodeQuantum`: collecting sextets, one more '=' required, only newlines allowed -/
inductive B64Phase where
  | normal | needPad | tail
  deriving DecidableEq

structure B64St where
  phase : B64Phase := .normal
  acc : List Nat := []          -- sextets of the current quantum
  out : Bytes := []             -- reversed output
  bad : Bool := false

def b64Step (s : B64St) (c : UInt8) : B64St :=
  if s.bad then s else
  let nl := c = 10 ∨ c = 13
  match s.phase with
  | .normal =>
    match b64Val c with
    | some v =>
      match s.acc with
      | [x, y, z] =>
        let n := x * 262144 + y * 4096 + z * 64 + v
        { s with acc := [], out := UInt8.ofNat (n % 256) :: UInt8.ofNat (n / 256 % 256) :: UInt8.ofNat (n / 65536) :: s.out }
      | acc => { s with acc := acc ++ [v] }
    | none =>
      if nl then s
      else if c = 61 then
        match s.acc with
        | [x, y] => { s with phase := .needPad, acc := [], out := UInt8.ofNat ((x * 4 + y / 16) % 256) :: s.out }
        | [x, y, z] =>
          let n := x * 4096 + y * 64 + z
          { s with phase := .tail, acc := [], out := UInt8.ofNat (n / 4 % 256) :: UInt8.ofNat (n / 1024) :: s.out }
        | _ => { s with bad := true }
      else { s with bad := true }
  | .needPad => if nl then s else if c = 61 then { s with phase := .tail } else { s with bad := true }
  | .tail => if nl then s else { s with bad := true }

/-- base64.StdEncoding.Decode (non-strict): skips '\r' and '\n', demands full '=' padding,
    rejects anything after the padding; `none` = CorruptInputError -/
def b64Dec (src : Bytes) : Option Bytes :=
  let s := src.foldl b64Step {}
  if s.bad then none
  else match s.phase with
    | .normal => if s.acc.isEmpty then some s.out.reverse else none
    | .needPad => none
    | .tail => some s.out.reverse

/-! ### MD5 (RFC 1321) -/

def md5K : Array UInt32 := #[
  0xd76aa478, 0xe8c7b756, 0x242070db, 0xc1bdceee, 0xf57c0faf, 0x4787c62a, 0xa8304613, 0xfd469501,
  0x698098d8, 0x8b44f7af, 0xffff5bb1, 0x895cd7be, 0x6b901122, 0xfd987193, 0xa679438e, 0x49b40821,
  0xf61e2562, 0xc040b340, 0x265e5a51, 0xe9b6c7aa, 0xd62f105d, 0x02441453, 0xd8a1e681, 0xe7d3fbc8,
  0x21e1cde6, 0xc33707d6, 0xf4d50d87, 0x455a14ed, 0xa9e3e905, 0xfcefa3f8, 0x676f02d9, 0x8d2a4c8a,
  0xfffa3942, 0x8771f681, 0x6d9d6122, 0xfde5380c, 0xa4beea44, 0x4bdecfa9, 0xf6bb4b60, 0xbebfbc70,
  0x289b7ec6, 0xeaa127fa, 0xd4ef3085, 0x04881d05, 0xd9d4d039, 0xe6db99e5, 0x1fa27cf8, 0xc4ac5665,
  0xf4292244, 0x432aff97, 0xab9423a7, 0xfc93a039, 0x655b59c3, 0x8f0ccc92, 0xffeff47d, 0x85845dd1,
  0x6fa87e4f, 0xfe2ce6e0, 0xa3014314, 0x4e0811a1, 0xf7537e82, 0xbd3af235, 0x2ad7d2bb, 0xeb86d391]

def md5S : Array UInt32 := #[
  7, 12, 17, 22, 7, 12, 17, 22, 7, 12, 17, 22, 7, 12, 17, 22,
  5, 9, 14, 20, 5, 9, 14, 20, 5, 9, 14, 20, 5, 9, 14, 20,
  4, 11, 16, 23, 4, 11, 16, 23, 4, 11, 16, 23, 4, 11, 16, 23,
  6, 10, 15, 21, 6, 10, 15, 21, 6, 10, 15, 21, 6, 10, 15, 21]

def rotl32 (x c : UInt32) : UInt32 := (x <<< c) ||| (x >>> (32 - c))

structure Md5St where
  a : UInt32
  b : UInt32
  c : UInt32
  d : UInt32

def md5Round (m : Array UInt32) (s : Md5St) (i : Nat) : Md5St :=
  let fg : UInt32 × Nat :=
    if i < 16 then ((s.b &&& s.c) ||| (~~~ s.b &&& s.d), i)
    else if i < 32 then ((s.d &&& s.b) ||| (~~~ s.d &&& s.c), (5 * i + 1) % 16)
    else if i < 48 then (s.b ^^^ s.c ^^^ s.d, (3 * i + 5) % 16)
    else (s.c ^^^ (s.b ||| ~~~ s.d), (7 * i) % 16)
  let f := fg.1 + s.a + md5K.getD i 0 + m.getD fg.2 0
  { a := s.d, b := s.b + rotl32 f (md5S.getD i 0), c := s.b, d := s.c }

def leWord (bs : Bytes) : UInt32 :=
  match bs with
  | [a, b, c, d] => a.toUInt32 ||| (b.toUInt32 <<< 8) ||| (c.toUInt32 <<< 16) ||| (d.toUInt32 <<< 24)
  | _ => 0

def words : Nat → Bytes → List UInt32
  | 0, _ => []
  | n + 1, bs => leWord (bs.take 4) :: words n (bs.drop 4)

def md5Chunk (s : Md5St) (chunk : Bytes) : Md5St :=
  let m := (words 16 chunk).toArray
  let r := (List.range 64).foldl (md5Round m) s
  { a := s.a + r.a, b := s.b + r.b, c := s.c + r.c, d := s.d + r.d }

def leBytes (n k : Nat) : Bytes := (List.range k).map (fun i => UInt8.ofNat (n / 256 ^ i % 256))

def chunksOf (k : Nat) : Nat → Bytes → List Bytes
  | 0, _ => []
  | n + 1, bs => if bs.isEmpty then [] else bs.take k :: chunksOf k n (bs.drop k)

def md5 (msg : Bytes) : Bytes :=
  let len := msg.length
  let zeros := (55 + 64 - len % 64) % 64
  let padded := msg ++ [0x80] ++ List.replicate zeros 0 ++ leBytes (len * 8 % 2 ^ 64) 8
  let s := (chunksOf 64 (padded.length / 64 + 1) padded).foldl md5Chunk
    { a := 0x67452301, b := 0xefcdab89, c := 0x98badcfe, d := 0x10325476 }
  leBytes s.a.toNat 4 ++ leBytes s.b.toNat 4 ++ leBytes s.c.toNat 4 ++ leBytes s.d.toNat 4

end WK.C25

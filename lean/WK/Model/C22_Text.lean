import WK.Model.C22
/-
  C22 / C23 — the text form of frames and byte strings used on the line protocol
  (shared by Driver/C22.lean and Driver/C23.lean; the Go side is
  harness/C22/c22_frames.go).  Core only.

  byte string :  `-` (empty) | lower-case hex | `~<n>:<hh>` (n copies of byte hh)
  shown       :  hex when ≤ 200 bytes, else `L<len>.<hex of first 16>.<hash32>`
  frame       :  `TYPE fl=<bits> k=v k=v …` with a fixed field order per type; the
                 parser is positional (keys are documentation) and rejects
                 anything else.
  flag bits   :  1 NoPersist, 2 RedDot, 4 SyncOnce, 8 DUP, 16 HasServerVersion, 32 End
-/
namespace WK.C22

def hash32 (bs : Bytes) : Nat := bs.foldl (fun h b => (h * 31 + b.toNat) % 4294967296) 0

def hashStr (s : String) : Nat := s.foldl (fun h c => (h * 31 + c.toNat) % 4294967296) 0

def showBytes (bs : Bytes) : String :=
  if bs.length ≤ 200 then hexEncode bs
  else s!"L{bs.length}.{hexEncode (bs.take 16)}.{hash32 bs}"

def parseBytes (s : String) : Option Bytes :=
  if s.startsWith "~" then
    match ((s.drop 1).toString).splitOn ":" with
    | [n, hh] =>
      match n.toNat?, hexDecode hh with
      | some k, some [b] => if k ≤ 4000000 then some (List.replicate k b) else none
      | _, _ => none
    | _ => none
  else hexDecode s

/-- the part of `k=v` after the first `=` (the whole token when there is none) -/
def valOf (tok : String) : String :=
  match tok.splitOn "=" with
  | [a] => a
  | _ :: rest => "=".intercalate rest
  | [] => ""

def flagsToNat (h : Flags) : Nat :=
  b2n h.noPersist + 2 * b2n h.redDot + 4 * b2n h.syncOnce + 8 * b2n h.dup + 16 * b2n h.hsv + 32 * b2n h.fin

def flagsOfNat (n : Nat) : Flags :=
  { noPersist := n % 2 = 1, redDot := n / 2 % 2 = 1, syncOnce := n / 4 % 2 = 1, dup := n / 8 % 2 = 1,
    hsv := n / 16 % 2 = 1, fin := n / 32 % 2 = 1 }

def showFrame : Frame → String
  | .connect h p => s!"CONNECT fl={flagsToNat h} version={p.version} deviceFlag={p.deviceFlag} deviceID={showBytes p.deviceID} uid={showBytes p.uid} token={showBytes p.token} clientTimestamp={p.clientTimestamp} clientKey={showBytes p.clientKey}"
  | .connack h p => s!"CONNACK fl={flagsToNat h} serverVersion={p.serverVersion} timeDiff={p.timeDiff} reasonCode={p.reasonCode} serverKey={showBytes p.serverKey} salt={showBytes p.salt} nodeId={p.nodeId}"
  | .send h p => s!"SEND fl={flagsToNat h} setting={p.setting} clientSeq={p.clientSeq} clientMsgNo={showBytes p.clientMsgNo} streamNo={showBytes p.streamNo} channelID={showBytes p.channelID} channelType={p.channelType} expire={p.expire} msgKey={showBytes p.msgKey} topic={showBytes p.topic} payload={showBytes p.payload}"
  | .sendack h p => s!"SENDACK fl={flagsToNat h} messageID={p.messageID} clientSeq={p.clientSeq} messageSeq={p.messageSeq} reasonCode={p.reasonCode} clientMsgNo={showBytes p.clientMsgNo}"
  | .recv h p => s!"RECV fl={flagsToNat h} setting={p.setting} msgKey={showBytes p.msgKey} fromUID={showBytes p.fromUID} channelID={showBytes p.channelID} channelType={p.channelType} expire={p.expire} clientMsgNo={showBytes p.clientMsgNo} streamFlag={p.streamFlag} streamNo={showBytes p.streamNo} streamId={p.streamId} messageID={p.messageID} messageSeq={p.messageSeq} timestamp={p.timestamp} topic={showBytes p.topic} payload={showBytes p.payload}"
  | .recvack h p => s!"RECVACK fl={flagsToNat h} messageID={p.messageID} messageSeq={p.messageSeq}"
  | .ping h => s!"PING fl={flagsToNat h}"
  | .pong h => s!"PONG fl={flagsToNat h}"
  | .disconnect h p => s!"DISCONNECT fl={flagsToNat h} reasonCode={p.reasonCode} reason={showBytes p.reason}"
  | .sub h p => s!"SUB fl={flagsToNat h} setting={p.setting} subNo={showBytes p.subNo} channelID={showBytes p.channelID} channelType={p.channelType} action={p.action} param={showBytes p.param}"
  | .suback h p => s!"SUBACK fl={flagsToNat h} subNo={showBytes p.subNo} channelID={showBytes p.channelID} channelType={p.channelType} action={p.action} reasonCode={p.reasonCode}"
  | .event h p => s!"EVENT fl={flagsToNat h} id={showBytes p.id} type={showBytes p.type} timestamp={p.timestamp} data={showBytes p.data}"

private def nat? (s : String) : Option Nat := (valOf s).toNat?
private def byt? (s : String) : Option Bytes := parseBytes (valOf s)

/-- positional parser of the frame text; integers must fit the Go field type
    (the harness could not even build the frame otherwise). -/
def parseFrame (toks : List String) : Option Frame :=
  let lim (n : Option Nat) (bound : Nat) : Option Nat := n.bind fun x => if x < bound then some x else none
  let b8 (s : String) := lim (nat? s) 256
  let b32 (s : String) := lim (nat? s) 4294967296
  let b64 (s : String) := lim (nat? s) 18446744073709551616
  match toks with
  | ty :: fl :: rest =>
    match lim (nat? fl) 64 with
    | none => none
    | some fln =>
      let h := flagsOfNat fln
      match ty, rest with
      | "CONNECT", [a, b, c, d, e, f, g] => do
        let version ← b8 a; let deviceFlag ← b8 b; let deviceID ← byt? c; let uid ← byt? d
        let token ← byt? e; let clientTimestamp ← b64 f; let clientKey ← byt? g
        pure (.connect h { version, deviceFlag, deviceID, uid, token, clientTimestamp, clientKey })
      | "CONNACK", [a, b, c, d, e, f] => do
        let serverVersion ← b8 a; let timeDiff ← b64 b; let reasonCode ← b8 c; let serverKey ← byt? d
        let salt ← byt? e; let nodeId ← b64 f
        pure (.connack h { serverVersion, timeDiff, reasonCode, serverKey, salt, nodeId })
      | "SEND", [a, b, c, d, e, f, g, i, j, k] => do
        let setting ← b8 a; let clientSeq ← b64 b; let clientMsgNo ← byt? c; let streamNo ← byt? d
        let channelID ← byt? e; let channelType ← b8 f; let expire ← b32 g; let msgKey ← byt? i
        let topic ← byt? j; let payload ← byt? k
        pure (.send h { setting, clientSeq, clientMsgNo, streamNo, channelID, channelType, expire, msgKey, topic, payload })
      | "SENDACK", [a, b, c, d, e] => do
        let messageID ← b64 a; let clientSeq ← b64 b; let messageSeq ← b64 c; let reasonCode ← b8 d
        let clientMsgNo ← byt? e
        pure (.sendack h { messageID, clientSeq, messageSeq, reasonCode, clientMsgNo })
      | "RECV", [a, b, c, d, e, f, g, i, j, k, l, m, n, o, p] => do
        let setting ← b8 a; let msgKey ← byt? b; let fromUID ← byt? c; let channelID ← byt? d
        let channelType ← b8 e; let expire ← b32 f; let clientMsgNo ← byt? g; let streamFlag ← b8 i
        let streamNo ← byt? j; let streamId ← b64 k; let messageID ← b64 l; let messageSeq ← b64 m
        let timestamp ← b32 n; let topic ← byt? o; let payload ← byt? p
        pure (.recv h { setting, msgKey, fromUID, channelID, channelType, expire, clientMsgNo, streamFlag,
                        streamNo, streamId, messageID, messageSeq, timestamp, topic, payload })
      | "RECVACK", [a, b] => do
        let messageID ← b64 a; let messageSeq ← b64 b
        pure (.recvack h { messageID, messageSeq })
      | "PING", [] => some (.ping h)
      | "PONG", [] => some (.pong h)
      | "DISCONNECT", [a, b] => do
        let reasonCode ← b8 a; let reason ← byt? b
        pure (.disconnect h { reasonCode, reason })
      | "SUB", [a, b, c, d, e, f] => do
        let setting ← b8 a; let subNo ← byt? b; let channelID ← byt? c; let channelType ← b8 d
        let action ← b8 e; let param ← byt? f
        pure (.sub h { setting, subNo, channelID, channelType, action, param })
      | "SUBACK", [a, b, c, d, e] => do
        let subNo ← byt? a; let channelID ← byt? b; let channelType ← b8 c; let action ← b8 d
        let reasonCode ← b8 e
        pure (.suback h { subNo, channelID, channelType, action, reasonCode })
      | "EVENT", [a, b, c, d] => do
        let id ← byt? a; let type ← byt? b; let timestamp ← b64 c; let data ← byt? d
        pure (.event h { id, type, timestamp, data })
      | _, _ => none
  | _ => none

def showDec (v : Nat) (data : Bytes) : String :=
  match decodeFrame v data with
  | .panic => "panic"
  | .need => "need"
  | .err => "err"
  | .ok f n => s!"dec {showFrame f} n={n} rl={decodedRemainingLength data} fs={data.length}"

end WK.C22

import WK.Spec.C14
/-
  C14 — executable model of the Pebble Raft log (`pkg/raftlog/pebble_*.go`),
  one scope.  Core only.

  `Durable` is what is in Pebble (+ the external snapshot payload, folded into
  the manifest), `Cache` is the writer's `scopeWriteState` kept in
  `DB.stateCache` (entries with normal payloads stripped).  `reopen` drops the
  cache.  Every function names the Go function it mirrors; the branch order is
  the code's.
-/
namespace WK.C14

structure Meta where
  first : Nat := 0
  last : Nat := 0
  applied : Nat := 0
  snapIndex : Nat := 0
  snapTerm : Nat := 0
  conf : Conf := Conf.zero
deriving DecidableEq, Repr, Inhabited

/-- SnapshotManifest + the chunk files it points to -/
abbrev Manifest := Snap

structure Durable where
  hard : Hard := ⟨0, 0, 0⟩
  entries : List Entry := []          -- sorted by index (Pebble keys)
  manifest : Option Manifest := none
  logMeta : Option Meta := none
  appliedKey : Nat := 0
  confApplied : Nat := 0
deriving Repr, Inhabited

structure Cache where
  hard : Hard
  snapIndex : Nat
  snapTerm : Nat
  snapConf : Conf
  manifest : Option Manifest
  entries : List Entry                -- `cloneCachedEntry`: normal payloads stripped
  logMeta : Meta
deriving Repr, Inhabited

structure PStore where
  d : Durable := {}
  cache : Option Cache := none
deriving Repr, Inhabited

inductive Err where
  | outOfDate
  | other
deriving DecidableEq, Repr

/-- `cloneCachedEntry` -/
def stripEntry (e : Entry) : Entry :=
  match e.pl with
  | .normal _ => { e with pl := .normal [] }
  | .cc _ _ => e

/-- Pebble `Set(entryKey(index))` on the sorted entry run -/
def upsert (e : Entry) : List Entry → List Entry
  | [] => [e]
  | x :: xs => if e.index < x.index then e :: x :: xs
               else if e.index = x.index then e :: xs else x :: upsert e xs

/-- `validateManifestMetaConsistency` (true = error) -/
def viewErr (d : Durable) : Bool :=
  match d.manifest, d.logMeta with
  | some _, none => true
  | none, some m => m.snapIndex > 0
  | none, none => false
  | some man, some m =>
    if m.snapIndex ≠ man.index ∨ m.snapTerm ≠ man.term then true
    else if m.last ≤ m.snapIndex ∧ m.conf ≠ man.conf then true
    else false

/-- `updateLogMeta` (legacy path, no persisted meta) -/
def updateLogMeta (m : Meta) (snapIndex snapTerm : Nat) (snapConf : Conf) (entries : List Entry)
    (committed : Nat) : Option Meta :=
  match deriveConf snapIndex snapConf entries committed with
  | none => none
  | some c =>
    let m := { m with snapIndex := snapIndex, snapTerm := snapTerm, conf := c }
    match entries, entries.getLast? with
    | e :: _, some l => some { m with first := e.index, last := l.index }
    | _, _ =>
      if snapIndex ≠ 0 then some { m with first := (snapIndex + 1) % (maxU64 + 1), last := snapIndex }
      else some { m with first := 1, last := 0 }

/-- `ensureMeta` / `currentMeta`: returns the meta and persists it if missing -/
def ensureMeta (d : Durable) : Except Err (Durable × Meta) :=
  if viewErr d then .error .other else
  match d.logMeta with
  | some m => .ok (d, m)
  | none =>
    match updateLogMeta { applied := d.appliedKey } 0 0 Conf.zero d.entries d.hard.commit with
    | none => .error .other
    | some m => .ok ({ d with logMeta := some m }, m)

/-- `loadScopeWriteState` from Pebble (no cached state) -/
def loadState (d : Durable) : Except Err Cache :=
  if viewErr d then .error .other else
  let ents := match d.manifest with
    | some man => if man.index < maxU64 then d.entries.filter (fun (e : Entry) => man.index + 1 ≤ e.index) else d.entries
    | none => d.entries
  let ents := ents.map stripEntry
  let (si, st, sc) := match d.manifest with
    | some man => (man.index, man.term, man.conf)
    | none => (0, 0, Conf.zero)
  match d.logMeta with
  | some m => .ok { hard := d.hard, snapIndex := si, snapTerm := st, snapConf := sc,
                    manifest := d.manifest, entries := ents, logMeta := m }
  | none =>
    match updateLogMeta {} si st sc ents d.hard.commit with
    | none => .error .other
    | some m => .ok { hard := d.hard, snapIndex := si, snapTerm := st, snapConf := sc,
                      manifest := d.manifest, entries := ents, logMeta := m }

def PStore.state (p : PStore) : Except Err Cache :=
  match p.cache with
  | some c => .ok c
  | none => loadState p.d

/-- `replaceCachedEntriesFromIndex` -/
def replaceCached (existing : List Entry) (first : Nat) (incoming : List Entry) : List Entry :=
  existing.takeWhile (fun e => e.index < first) ++ incoming.map stripEntry

/-- `last := snapshot.Index; if len(entries) > 0 && entries[len-1].Index > last { last = that }` -/
def cachedLast (snapIndex : Nat) (entries : List Entry) : Nat :=
  match entries.getLast? with
  | some e => if e.index > snapIndex then e.index else snapIndex
  | none => snapIndex

/-- the two FirstIndex repairs at the end of `updateScopeWriteMeta` -/
def settleFirst (m : Meta) (snapIndex : Nat) (entries : List Entry) : Meta :=
  let m := if m.first = 0 then
      (match entries with
       | e :: _ => { m with first := e.index }
       | [] => if snapIndex ≠ 0 ∧ m.last < maxU64 then { m with first := m.last + 1 } else { m with first := 1 })
    else m
  if m.last < m.first ∧ m.last < maxU64 then { m with first := m.last + 1 } else m

/-- `updateScopeWriteMeta` -/
def updateScopeWriteMeta (c : Cache) : Option Cache :=
  match deriveConf c.snapIndex c.snapConf c.entries c.hard.commit with
  | none => none
  | some conf =>
    let m := { c.logMeta with snapIndex := c.snapIndex, snapTerm := c.snapTerm, conf := conf,
                              last := cachedLast c.snapIndex c.entries }
    some { c with logMeta := settleFirst m c.snapIndex c.entries }

structure SaveReq where
  hs : Option Hard
  snap : Option Snap             -- metadata + manifest (payload folded in)
  ents : List Entry
  allowReplace : Bool := false

/-- `snapshotManifestEquivalent` (checksum equality is payload equality: trusted CRC32C) -/
def manifestEquivalent (a b : Manifest) : Bool :=
  a.index == b.index && a.term == b.term && a.data == b.data && a.conf == b.conf

/-- the two refusals at the head of `saveOp.apply`'s snapshot branch -/
def snapCheck (c : Cache) (s : Snap) (allowReplace : Bool) : Option Err :=
  if s.index < c.snapIndex then some .outOfDate
  else if s.index = c.snapIndex ∧
          (match c.manifest with
           | some man => !manifestEquivalent man s
           | none => false) = true ∧
          (allowReplace = false ∨ s.index ≠ c.logMeta.applied) then some .other
  else none

/-- `saveOp.apply`, snapshot part: manifest key, DeleteRange of the compacted prefix,
    FirstIndex, commit bump, cached tail trim -/
def applySnap (d : Durable) (c : Cache) (hs : Hard) (s : Snap) (allowReplace : Bool) :
    Except Err (Durable × Cache × Hard) :=
  match snapCheck c s allowReplace with
  | some e => .error e
  | none =>
    let dEnts := if s.index < maxU64 then d.entries.filter (fun e => ¬ e.index < s.index + 1) else []
    let first := if s.index < maxU64 then s.index + 1 else maxU64
    let hs := if hs.commit < s.index then { hs with commit := s.index } else hs
    let d := { d with manifest := some s, entries := dEnts }
    let c := { c with snapIndex := s.index, snapTerm := s.term, snapConf := s.conf,
                      manifest := some s,
                      entries := (c.entries.filter (fun e => ¬ e.index ≤ s.index)).map stripEntry,
                      logMeta := { c.logMeta with first := first } }
    .ok (d, c, hs)

/-- `if meta.LastIndex < meta.FirstIndex || first < meta.FirstIndex { meta.FirstIndex = first }` -/
def fixFirst (m : Meta) (first : Nat) : Meta :=
  if m.last < m.first ∨ first < m.first then { m with first := first } else m

/-- `saveOp.apply`, entries part: FirstIndex repair, suffix DeleteRange only when
    something can be hidden, one Set per entry, cached tail replacement -/
def applyEnts (d : Durable) (c : Cache) (ents : List Entry) : Durable × Cache :=
  match ents with
  | [] => (d, c)
  | e :: _ =>
    let first := e.index
    let m := fixFirst c.logMeta first
    let dEnts := if first ≤ m.last then d.entries.filter (fun (x : Entry) => x.index < first) else d.entries
    let dEnts := ents.foldl (fun acc x => upsert x acc) dEnts
    ({ d with entries := dEnts },
     { c with logMeta := m, entries := replaceCached c.entries first ents })

/-- `saveOp.apply`, tail: hard state key, `updateScopeWriteMeta`, meta key -/
def applyFinish (d : Durable) (c : Cache) (hs : Hard) (persistHard : Bool) : Except Err (Durable × Cache) :=
  let d := if persistHard then { d with hard := hs } else d
  let c := { c with hard := hs }
  match updateScopeWriteMeta c with
  | none => .error .other
  | some c => .ok ({ d with logMeta := some c.logMeta }, c)

/-- `saveOp.apply`: the batch is returned as the new durable state -/
def saveApply (d : Durable) (c : Cache) (r : SaveReq) : Except Err (Durable × Cache) :=
  let hs := r.hs.getD c.hard
  match r.snap with
  | none =>
    let (d, c) := applyEnts d c r.ents
    applyFinish d c hs r.hs.isSome
  | some s =>
    match applySnap d c hs s r.allowReplace with
    | .error e => .error e
    | .ok (d, c, hs) =>
      let ents := if s.index > 0 then r.ents.filter (fun e => ¬ e.index ≤ s.index) else r.ents
      let (d, c) := applyEnts d c ents
      applyFinish d c hs true

/-- `flushWriteRequests` for one request: load state, apply, commit batch, publish cache -/
def PStore.flush (p : PStore) (f : Durable → Cache → Except Err (Durable × Cache)) : Except Err PStore :=
  match p.state with
  | .error e => .error e
  | .ok c =>
    match f p.d c with
    | .error e => .error e
    | .ok (d, c) => .ok { d := d, cache := some c }

/-- `planSnapshotSave` + `prepare` -/
def planSnapshot (d : Durable) (s : Snap) : Except Err Unit :=
  if viewErr d then .error .other else
  match d.manifest with
  | none => if s.index = 0 ∨ s.term = 0 then .error .other else .ok ()
  | some man =>
    if s.index < man.index then .error .outOfDate
    else if s.index > man.index then (if s.index = 0 ∨ s.term = 0 then .error .other else .ok ())
    else if s.term ≠ man.term ∨ s.conf ≠ man.conf ∨ s.data.length ≠ man.data.length ∨ s.data ≠ man.data then .error .other
    else .ok ()

/-- `pebbleStore.Save` -/
def PStore.save (p : PStore) (hs : Option Hard) (snap : Option Snap) (ents : List Entry) : Except Err PStore :=
  match snap with
  | none => p.flush (fun d c => saveApply d c { hs := hs, snap := none, ents := ents })
  | some s =>
    match planSnapshot p.d s with
    | .error e => .error e
    | .ok () =>
      let ents := ents.filter (fun e => ¬ e.index ≤ s.index)
      p.flush (fun d c => saveApply d c { hs := hs, snap := some s, ents := ents })

/-- `view.meta.AppliedIndex` (zero when no meta is persisted) -/
def Durable.metaApplied (d : Durable) : Nat :=
  match d.logMeta with
  | some m => m.applied
  | none => 0

/-- `pebbleStore.ReplaceSnapshot` -/
def PStore.replaceSnapshot (p : PStore) (s : Snap) : Except Err PStore :=
  if viewErr p.d then .error .other else
  if s.index = 0 ∨ s.index ≠ p.d.metaApplied then .error .other
  else if s.term = 0 then .error .other
  else p.flush (fun d c => saveApply d c { hs := none, snap := some s, ents := [], allowReplace := true })

/-- `markAppliedOp.apply` -/
def PStore.markApplied (p : PStore) (i : Nat) : Except Err PStore :=
  p.flush (fun d c =>
    let m := { c.logMeta with applied := i }
    .ok ({ d with appliedKey := i, logMeta := some m }, { c with logMeta := m }))

/-- `markConfigAppliedOp.apply` -/
def PStore.markConfApplied (p : PStore) (i : Nat) : Except Err PStore :=
  p.flush (fun d c => .ok ({ d with confApplied := i }, c))

/-- Close + Open: the writer cache is gone, Pebble is what it was -/
def PStore.reopen (p : PStore) : PStore := { p with cache := none }

/-! ### read API -/

/-- `pebbleStore.Term` (after `ensureMeta` has run in the same dump) -/
def Durable.termGo (d : Durable) (i : Nat) : Except Err Nat :=
  match d.entries.find? (fun e => e.index = i) with
  | some e => .ok e.term
  | none =>
    if i = 0 then .ok 0 else
    match ensureMeta d with
    | .error e => .error e
    | .ok (_, m) => .ok (if m.snapIndex = i then m.snapTerm else 0)

/-- `pebbleStore.Entries` (`loadEntries` bounds: 0 = unbounded) -/
def Durable.entriesGo (d : Durable) (lo hi max : Nat) : List Entry :=
  limitSize max (d.entries.filter (fun e => (lo = 0 ∨ lo ≤ e.index) ∧ (hi = 0 ∨ e.index < hi)))

/-- `pebbleStore.Snapshot`: the manifest + its chunk files, or the empty snapshot -/
def Durable.snapshotGo (d : Durable) : Snap :=
  match d.manifest with
  | some man => man
  | none => Snap.none

def allOk : List (Except Err Nat) → Option (List Nat)
  | [] => some []
  | .ok x :: r => (allOk r).map (x :: ·)
  | .error _ :: _ => none

/-- the read-API dump, in the order the harness calls it; `InitialState`
    persists the meta when it is missing -/
def PStore.reads (p : PStore) : PStore × Reads :=
  match ensureMeta p.d with
  | .error _ =>
    -- bricked scope: everything that needs the meta view fails; Entries still reads keys
    (p, { init := none, first := none, last := none, snap := none,
          ents := some (p.d.entriesGo 0 maxU64 0), termLo := 0, terms := none })
  | .ok (d, m) =>
    let p := { p with d := d }
    let (lo, hi) := termWindow m.first m.last
    (p, { init := some (d.hard, m.conf, m.applied, d.confApplied)
          first := some m.first, last := some m.last
          snap := some d.snapshotGo
          ents := some (d.entriesGo 0 maxU64 0)
          termLo := lo
          terms := allOk ((List.range (hi + 1 - lo)).map (fun k => d.termGo (lo + k))) })

/-- A reader's first meta access (`ensureMeta` via FirstIndex/LastIndex/InitialState/Term) racing with
    the scope's first `Save`: the reader took its Pebble snapshot and found no log meta, the Save then
    commits entries + meta through the write worker, and the reader finally persists the meta it
    computed from its OLD snapshot with a direct `db.Set` (`persistMeta` bypasses the worker and its
    cache) — overwriting the Save's meta.  Not a Raft-valid single-writer history; modelled so that
    the finding replays. -/
def PStore.firstReadRace (p : PStore) (ents : List Entry) : Except Err PStore :=
  let pre := p.d
  match p.save none none ents with
  | .error e => .error e
  | .ok p' =>
    if pre.logMeta.isNone ∧ !viewErr pre then
      match updateLogMeta { applied := pre.appliedKey } 0 0 Conf.zero pre.entries pre.hard.commit with
      | some m => .ok { p' with d := { p'.d with logMeta := some m } }
      | none => .ok p'
    else .ok p'

/-! ### operations (what the driver executes and the theorems quantify over) -/

inductive Op where
  | save (hs : Option Hard) (snap : Option Snap) (ents : List Entry)
  | repl (s : Snap)
  | mark (i : Nat)
  | cmark (i : Nat)
  | reopen
  | dump                      -- the full read API (InitialState persists a missing meta)
deriving Repr

/-- the reference store; `none` = the reference refuses (only `repl`) -/
def stepM? (m : RaftStore) : Op → Option RaftStore
  | .save hs sn es => some (m.save hs sn es)
  | .repl s => m.replaceSnapshot s
  | .mark i => some (m.markApplied i)
  | .cmark i => some (m.markConfApplied i)
  | .reopen => some m
  | .dump => some m

def stepM (m : RaftStore) (op : Op) : RaftStore := (stepM? m op).getD m

def stepP? (p : PStore) : Op → Except Err PStore
  | .save hs sn es => p.save hs sn es
  | .repl s => p.replaceSnapshot s
  | .mark i => p.markApplied i
  | .cmark i => p.markConfApplied i
  | .reopen => .ok p.reopen
  | .dump => .ok p.reads.1

/-- a failed mutation leaves the store as it was (one atomic Pebble batch) -/
def stepP (p : PStore) (op : Op) : PStore :=
  match stepP? p op with
  | .ok p' => p'
  | .error _ => p

/-- Raft-valid operation in reference state `m` -/
def validOp (m : RaftStore) : Op → Bool
  | .save hs sn es => validSave m hs sn es
  | .repl s => validReplace m s
  | .mark _ => true
  | .cmark _ => true
  | .reopen => true
  | .dump => true

def validRun : RaftStore → List Op → Bool
  | _, [] => true
  | m, op :: ops => validOp m op && validRun (stepM m op) ops

def runM (m : RaftStore) (ops : List Op) : RaftStore := ops.foldl stepM m
def runP (p : PStore) (ops : List Op) : PStore := ops.foldl stepP p



/-! ### snapshot publish-then-commit (pebble_store.go Save / publishSnapshotAndCommit,
    snapshot_store.go write / publishFinal, snapshot_gc.go) under process kill -/

/-- external snapshot directories and the Pebble manifest key of one scope -/
structure SnapFS where
  dirs : List (Nat × Bytes) := []      -- published (final) directories: snapshot id ↦ payload
  tmp : List (Nat × Bytes) := []       -- `.tmp-<id>` staging directories
  manifest : Option Nat := none        -- the snapshot id the durable manifest names
deriving Repr

inductive PStep where
  | writeTmp (id : Nat) (data : Bytes)   -- snapshotStore.write: mkdir tmp, chunks, fsyncs
  | publish (id : Nat)                   -- publishFinal: renameNoOverwrite tmp → final, fsync dir
  | commit (id : Nat)                    -- submitWrite: one synced Pebble batch sets the manifest
  | gc (active : Option Nat)             -- a snapshot GC pass; `active` = the id a running Save protects
deriving Repr

def pstep (fs : SnapFS) : PStep → SnapFS
  | .writeTmp id data => { fs with tmp := (id, data) :: fs.tmp }
  | .publish id =>
    match fs.tmp.lookup id, fs.dirs.lookup id with
    | some data, none => { fs with dirs := (id, data) :: fs.dirs, tmp := fs.tmp.filter (fun p => p.1 != id) }
    | _, _ => fs
  | .commit id => { fs with manifest := some id }
  | .gc active =>
    { fs with dirs := fs.dirs.filter (fun p => some p.1 == fs.manifest || some p.1 == active),
              tmp := fs.tmp.filter (fun p => some p.1 == active) }

/-- what a reader needs: the manifest never names a directory that is not there -/
def SnapFS.sound (fs : SnapFS) : Prop :=
  match fs.manifest with
  | none => True
  | some id => (fs.dirs.lookup id).isSome

/-- the three effects of a Save that carries a snapshot, in the code's order -/
def savePlan (id : Nat) (data : Bytes) : List PStep := [.writeTmp id data, .publish id, .commit id]

/-- run the first `k` steps of the plan (the process is killed after them), a GC pass of the
    running process (protecting the in-flight id) before each step where `gcs` says so -/
def runPlan (fs : SnapFS) (id : Nat) : List PStep → List Bool → SnapFS
  | [], _ => fs
  | s :: ss, g :: gs => runPlan (pstep (if g then pstep fs (.gc (some id)) else fs) s) id ss gs
  | s :: ss, [] => runPlan (pstep fs s) id ss []

/-- the process after the kill: optionally a GC pass of the restarted process, nothing protected -/
def afterCrash (fs : SnapFS) (restartGC : Bool) : SnapFS := if restartGC then pstep fs (.gc none) else fs


end WK.C14

import WK.Spec.C33
/-
  C33 — executable sequential model of `presence.Directory` + the expiry bucket
  index, mirroring directory.go / expiry_index.go branch for branch.
  `step : Dir → Op → Dir × Out`.   Core Lean only.
-/
namespace WK.C33

/-! ### sorting (`sort.Slice` with `lessIdentityKey`; keys are distinct, so the
    result of any correct sort is unique — `c33_sort_unique`) -/

def insertKey (k : Key) : List Key → List Key
  | [] => [k]
  | x :: xs => if keyLess k x then k :: x :: xs else x :: insertKey k xs

def sortKeys : List Key → List Key
  | [] => []
  | x :: xs => insertKey x (sortKeys xs)

def insertRoute (r : Route) : List Route → List Route
  | [] => [r]
  | x :: xs => if keyLess r.key x.key then r :: x :: xs else x :: insertRoute r xs

/-- `sortRoutes` -/
def sortRoutes : List Route → List Route
  | [] => []
  | x :: xs => insertRoute x (sortRoutes xs)

/-! ### expiry index (expiry_index.go) -/

/-- `heap.Push` of a fresh bucket into the abstract priority queue -/
def binsert (t : Int) (ks : List Key) : List (Int × List Key) → List (Int × List Key)
  | [] => [(t, ks)]
  | (t', ks') :: m => if t < t' then (t, ks) :: (t', ks') :: m else (t', ks') :: binsert t ks m

/-- replace the key set of bucket `t` in place -/
def breplace (t : Int) (ks : List Key) (m : List (Int × List Key)) : List (Int × List Key) :=
  m.map (fun p => if p.1 = t then (t, ks) else p)

/-- `unscheduleExpiryLocked` -/
def Slot.unschedule (s : Slot) (k : Key) : Slot :=
  match aget k s.byKey with
  | none => s
  | some t =>
    match aget t s.buckets with
    | none => { s with byKey := adel k s.byKey }
    | some ks =>
      let ks' := ks.filter (fun x => x ≠ k)
      if ks'.isEmpty then { s with byKey := adel k s.byKey, buckets := adel t s.buckets }
      else { s with byKey := adel k s.byKey, buckets := breplace t ks' s.buckets }

/-- `scheduleExpiryLocked` -/
def Slot.schedule (s : Slot) (k : Key) (r : Route) : Slot :=
  let s := s.unschedule k
  let t := routeSeen r
  if t = 0 then s
  else match aget t s.buckets with
    | none => { s with buckets := binsert t [k] s.buckets, byKey := aset k t s.byKey }
    | some ks =>
      { s with buckets := breplace t (if ks.contains k then ks else ks ++ [k]) s.buckets,
               byKey := aset k t s.byKey }

/-- `removeActiveLocked` -/
def Slot.removeActive (s : Slot) (k : Key) : Slot :=
  let s := s.unschedule k
  { s with active := delA k s.active }

/-- `normalizeRouteSeen` -/
def normalize (r : Route) : Route := if r.seen = 0 then { r with seen := r.conn } else r

def Route.withSeen (r : Route) (x : Int) : Route := { r with seen := x }

/-- `upsertActiveLocked` -/
def Slot.upsert (s : Slot) (r : Route) : Slot :=
  let r := normalize r
  let k := r.key
  let s := if (findA k s.active).isSome then s.removeActive k else s
  let s := { s with active := s.active ++ [r] }
  s.schedule k r

/-! ### directory.go: slot operations -/

/-- `conflicts` -/
def conflicts (incoming existing : Route) : Bool :=
  if incoming.uid ≠ existing.uid ∨ incoming.flag ≠ existing.flag then false
  else if incoming.level = 1 then true
  else if incoming.level = 0 then incoming.dev = existing.dev
  else false

/-- `conflictsLocked` -/
def Slot.conflictsOf (s : Slot) (r : Route) : List Key :=
  sortKeys ((s.active.filter (fun e => e.uid = r.uid ∧ e.key ≠ r.key ∧ conflicts r e)).map Route.key)

inductive Err | notLeader | stale | notReady
  deriving DecidableEq, Repr, Inhabited

/-- `RouteAction` (Reason and DelayMS are constants) -/
structure Action where
  uid : Str
  node : Nat
  boot : Nat
  sess : Nat
  kickThenClose : Bool
  deriving DecidableEq, Repr, Inhabited

/-- `actionForReplacement` -/
def actionFor (incoming existing : Route) : Action :=
  { uid := existing.uid, node := existing.node, boot := existing.boot, sess := existing.sess,
    kickThenClose := incoming.level = 1 ∧ incoming.dev ≠ existing.dev }

def getSeq (k : Key) (m : List (Key × Nat)) : Nat := (aget k m).getD 0

/-- the two staleness guards shared by register / commit / touch -/
def Slot.staleFor (s : Slot) (k : Key) (seq : Nat) : Bool :=
  (match aget k s.tomb with
   | some t => decide (seq ≤ t)
   | none => false) || decide (seq < getSeq k s.ownerSeq)

/-- `registerLocked` -/
def Slot.register (s : Slot) (route : Route) : Slot × Except Err (Option String × List Action) :=
  let k := route.key
  if s.staleFor k route.seq then (s, .error .stale)
  else
    let s := { s with ownerSeq := aset k route.seq s.ownerSeq }
    let route := normalize route
    let cs := s.conflictsOf route
    if cs.isEmpty then (s.upsert route, .ok (none, []))
    else
      let n := s.nextID + 1
      let tok := toString n
      let acts := cs.map (fun ck => actionFor route ((findA ck s.active).getD default))
      ({ s with nextID := n, pending := s.pending ++ [⟨tok, route, cs⟩] }, .ok (some tok, acts))

def findP (tok : String) (l : List Pending) : Option Pending := l.find? (fun p => p.token = tok)
def delP (tok : String) (l : List Pending) : List Pending := l.filter (fun p => p.token ≠ tok)

def removeAll (s : Slot) : List Key → Slot
  | [] => s
  | k :: ks => removeAll (if (findA k s.active).isSome then s.removeActive k else s) ks

/-- `commitRouteLocked` -/
def Slot.commit (s : Slot) (tok : String) : Slot × Option Err :=
  match findP tok s.pending with
  | none => (s, some .notReady)
  | some p =>
    let k := p.route.key
    if s.staleFor k p.route.seq then ({ s with pending := delP tok s.pending }, some .stale)
    else if (s.conflictsOf p.route).any (fun c => !p.conflicts.contains c) then (s, some .notReady)
    else
      let s := removeAll s p.conflicts
      let s := s.upsert p.route
      ({ s with pending := delP tok s.pending }, none)

/-- `AbortRoute` after validation -/
def Slot.abort (s : Slot) (tok : String) : Slot × Option Err :=
  match findP tok s.pending with
  | none => (s, some .notReady)
  | some _ => ({ s with pending := delP tok s.pending }, none)

/-- `UnregisterRoute`, statement 1: `if tombstone, ok := tombstoneSeq[key]; !ok || ownerSeq > tombstone` -/
def tombAfter (m : List (Key × Nat)) (k : Key) (seq : Nat) : List (Key × Nat) :=
  match aget k m with
  | some t => if seq > t then aset k seq m else m
  | none => aset k seq m

def Slot.unregTomb (s : Slot) (k : Key) (seq : Nat) : Slot := { s with tomb := tombAfter s.tomb k seq }

/-- statement 2: `if ownerSeq > slot.ownerSeq[key]` -/
def Slot.unregSeq (s : Slot) (k : Key) (seq : Nat) : Slot :=
  { s with ownerSeq := if seq > getSeq k s.ownerSeq then aset k seq s.ownerSeq else s.ownerSeq }

/-- statement 3: `if existing, ok := slot.active[key]; ok && existing.OwnerSeq <= ownerSeq` -/
def Slot.unregActive (s : Slot) (k : Key) (seq : Nat) : Slot :=
  match findA k s.active with
  | some e => if e.seq ≤ seq then s.removeActive k else s
  | none => s

/-- statement 4: drop pending candidates of the identity at or below the sequence -/
def Slot.unregPending (s : Slot) (k : Key) (seq : Nat) : Slot :=
  { s with pending := s.pending.filter (fun p => !(p.route.key = k ∧ p.route.seq ≤ seq)) }

/-- `UnregisterRoute` after validation -/
def Slot.unregister (s : Slot) (k : Key) (seq : Nat) : Slot :=
  (((s.unregTomb k seq).unregSeq k seq).unregActive k seq).unregPending k seq

/-- `touchLocked` -/
def Slot.touch (s : Slot) (route : Route) : Slot :=
  if route.uid = [] then s
  else
    let k := route.key
    if s.staleFor k route.seq then s
    else
      let s := { s with ownerSeq := aset k route.seq s.ownerSeq }
      let route := normalize route
      match findA k s.active with
      | some e =>
        let route := if route.seen < e.seen then route.withSeen e.seen else route
        s.upsert route
      | none => if (s.conflictsOf route).isEmpty then s.upsert route else s

/-- `ExpireResult` -/
structure ExpireRes where
  expired : Nat := 0
  due : Nat := 0
  examined : Nat := 0
  idxRoutes : Nat := 0
  idxBuckets : Nat := 0
  deriving DecidableEq, Repr, Inhabited

/-- the body of `for key := range bucket.keys` for the popped bucket `t` -/
def expireKeys (t : Int) : List Key → Slot → ExpireRes → Slot × ExpireRes
  | [], s, r => (s, r)
  | k :: ks, s, r =>
    let r := { r with examined := r.examined + 1 }
    if aget k s.byKey ≠ some t then expireKeys t ks s r
    else
      let s := { s with byKey := adel k s.byKey }
      match findA k s.active with
      | none => expireKeys t ks s r
      | some _ => expireKeys t ks (s.removeActive k) { r with expired := r.expired + 1 }

/-- the `for len(s.expiryHeap) > 0` loop; `fuel` = number of buckets at entry -/
def expireLoop (now ttl : Int) : Nat → Slot → ExpireRes → Slot × ExpireRes
  | 0, s, r => (s, r)
  | fuel + 1, s, r =>
    match s.buckets with
    | [] => (s, r)
    | (t, ks) :: rest =>
      if !dueSeen now ttl t then (s, r)
      else
        let s := { s with buckets := rest }
        let (s, r) := expireKeys t ks s { r with due := r.due + 1 }
        expireLoop now ttl fuel s r

/-- `expireLocked` -/
def Slot.expire (s : Slot) (nowZero : Bool) (now ttl : Int) : Slot × ExpireRes :=
  let (s, r) := if expiryRuns nowZero ttl then expireLoop now ttl s.buckets.length s {} else (s, {})
  (s, { r with idxRoutes := s.byKey.length, idxBuckets := s.buckets.length })

/-- `endpointsByUIDLocked` -/
def Slot.endpoints (s : Slot) (uid : Str) : List Route :=
  sortRoutes (s.active.filter (fun r => r.uid = uid))

/-! ### directory.go: Directory operations -/

inductive Op
  | become (t : Target)
  | lose (hs : Nat)
  | reg (t : Target) (r : Route)
  | commit (t : Target) (tok : String)
  | abort (t : Target) (tok : String)
  | unreg (t : Target) (k : Key) (seq : Nat)
  | touch (t : Target) (rs : List Route)
  | expire (nowZero : Bool) (now ttl : Int)
  | ep (t : Target) (uid : Str)
  | eps (t : Target) (uids : List Str)
  | ept (gs : List (Target × List Str))
  | snap
  deriving Repr, Inhabited

structure Snap where
  active : Nat
  byHS : List (Nat × Nat)
  touch : Nat
  expired : Nat
  idxRoutes : Nat
  idxBuckets : Nat
  deriving DecidableEq, Repr, Inhabited

inductive Out
  | ok
  | err (e : Err)
  | registered (tok : Option String) (acts : List Action)
  | expired (r : ExpireRes)
  | routes (rs : List Route)
  | groups (gs : List (Except Err (List Route)))
  | snapshot (s : Snap)
  deriving Repr, Inhabited

/-- `validateTargetLocked` -/
def Dir.validate (d : Dir) (t : Target) : Option Slot :=
  if d.localNode ≠ 0 ∧ t.leader ≠ d.localNode then none
  else match aget t.hs d.slots with
    | none => none
    | some s => if sameAuth s.target t then some s else none

def Dir.setSlot (d : Dir) (hs : Nat) (s : Slot) : Dir := { d with slots := aset hs s d.slots }

/-- `BecomeAuthority` -/
def Dir.become (d : Dir) (t : Target) : Dir :=
  match aget t.hs d.slots with
  | some cur =>
    if sameAuth cur.target t then
      (if t.rev ≥ cur.target.rev then d.setSlot t.hs { cur with target := t } else d)
    else d.setSlot t.hs { target := t }
  | none => d.setSlot t.hs { target := t }

def expireSlots (nowZero : Bool) (now ttl : Int) :
    List (Nat × Slot) → List (Nat × Slot) × ExpireRes
  | [] => ([], {})
  | (hs, s) :: rest =>
    let (s', r) := s.expire nowZero now ttl
    let (rest', rr) := expireSlots nowZero now ttl rest
    ((hs, s') :: rest',
     { expired := r.expired + rr.expired, due := r.due + rr.due, examined := r.examined + rr.examined,
       idxRoutes := r.idxRoutes + rr.idxRoutes, idxBuckets := r.idxBuckets + rr.idxBuckets })

def Dir.lookupGroup (d : Dir) (g : Target × List Str) : Except Err (List Route) :=
  match d.validate g.1 with
  | none => .error .notLeader
  | some s => .ok (g.2.flatMap s.endpoints)

/-- ascending by hash slot (the Go `ByHashSlot` map is rendered sorted) -/
def insertHS (p : Nat × Slot) : List (Nat × Slot) → List (Nat × Slot)
  | [] => [p]
  | x :: xs => if p.1 < x.1 then p :: x :: xs else x :: insertHS p xs

def sortHS : List (Nat × Slot) → List (Nat × Slot)
  | [] => []
  | x :: xs => insertHS x (sortHS xs)

def Dir.snapshot (d : Dir) : Snap :=
  { active := (d.slots.map (fun p => p.2.active.length)).sum,
    byHS := (sortHS (d.slots.filter (fun p => p.2.active.length > 0))).map (fun p => (p.1, p.2.active.length)),
    touch := d.touchTotal, expired := d.expiredTotal,
    idxRoutes := (d.slots.map (fun p => p.2.byKey.length)).sum,
    idxBuckets := (d.slots.map (fun p => p.2.buckets.length)).sum }

def step (d : Dir) : Op → Dir × Out
  | .become t => (d.become t, .ok)
  | .lose hs => ({ d with slots := adel hs d.slots }, .ok)
  | .reg t r =>
    match d.validate t with
    | none => (d, .err .notLeader)
    | some s =>
      match s.register r with
      | (s', .error e) => (d.setSlot t.hs s', .err e)
      | (s', .ok (tok, acts)) => (d.setSlot t.hs s', .registered tok acts)
  | .commit t tok =>
    match d.validate t with
    | none => (d, .err .notLeader)
    | some s =>
      match s.commit tok with
      | (s', some e) => (d.setSlot t.hs s', .err e)
      | (s', none) => (d.setSlot t.hs s', .ok)
  | .abort t tok =>
    match d.validate t with
    | none => (d, .err .notLeader)
    | some s =>
      match s.abort tok with
      | (s', some e) => (d.setSlot t.hs s', .err e)
      | (s', none) => (d.setSlot t.hs s', .ok)
  | .unreg t k seq =>
    match d.validate t with
    | none => (d, .err .notLeader)
    | some s => (d.setSlot t.hs (s.unregister k seq), .ok)
  | .touch t rs =>
    match d.validate t with
    | none => (d, .err .notLeader)
    | some s =>
      ({ d.setSlot t.hs (rs.foldl Slot.touch s) with touchTotal := d.touchTotal + rs.length }, .ok)
  | .expire nowZero now ttl =>
    let (slots, r) := expireSlots nowZero now ttl d.slots
    ({ d with slots := slots, expiredTotal := d.expiredTotal + r.expired }, .expired r)
  | .ep t uid =>
    match d.validate t with
    | none => (d, .err .notLeader)
    | some s => (d, .routes (s.endpoints uid))
  | .eps t uids =>
    match d.validate t with
    | none => (d, .err .notLeader)
    | some s => (d, .routes (uids.flatMap s.endpoints))
  | .ept gs => (d, .groups (gs.map d.lookupGroup))
  | .snap => (d, .snapshot d.snapshot)

/-- the authority target an operation is fenced by (group lookups carry one per group) -/
def Op.target : Op → Option Target
  | .reg t _ | .commit t _ | .abort t _ | .unreg t _ _ | .touch t _ | .ep t _ | .eps t _ => some t
  | _ => none

/-- does `op` leave the authority incarnation of hash slot `hs` in place?  (`LoseAuthority`
    and a `BecomeAuthority` with a different identity start a new, empty incarnation.) -/
def keepsSlot (d : Dir) (hs : Nat) : Op → Bool
  | .lose h => h != hs
  | .become t => t.hs != hs || (match aget hs d.slots with
      | some s => sameAuth s.target t
      | none => false)
  | _ => true

def run (d : Dir) (ops : List Op) : Dir := ops.foldl (fun d op => (step d op).1) d

end WK.C33

import WK.Prelude.Hex
/-
  C34 — executable model of internal/usecase/conversation (app.go, unread.go):
  the unread / visibility arithmetic of `conversationFromMembership` and the
  read-cursor targets of ClearUnread / SetUnread / DeleteConversation /
  ActivateConversation, over a per-user table of membership rows and channel
  heads.  Core only.  uint64 sequences are `Nat`; every Go subtraction is
  guarded in the source (`joinSeq == 0`, `LastCommittedSeq > effectiveRead`,
  `uint64(cmd.Unread) < LastCommittedSeq`) and the model has the same guards.

  The membership store is the monotone mutator contract of
  pkg/db/meta/table_user_channel_membership.go (C16): AdvanceRead = max,
  Hide = max(deletedTo) and clears activation, Activate = max(activatedAt);
  a missing row answers NotFound, a tombstoned row is left unchanged.
-/
namespace WK.C34

/-- UID-owned membership row (the fields the usecase reads) -/
structure Row where
  join : Nat
  read : Nat
  del : Nat
  act : Int
  tomb : Bool
  deriving DecidableEq, Repr

/-- HydrationOutcome; `bad` = any value outside the enum -/
inductive Outcome | ok | noVisible | delete | retry | bad
  deriving DecidableEq, Repr

/-- Channel-leader head for one membership -/
structure Head where
  outcome : Outcome
  committed : Nat
  retention : Nat
  ownSend : Nat
  last : Option Nat          -- LastMessage.MessageSeq, `none` = nil pointer
  deriving DecidableEq, Repr

def Head.zero : Head := ⟨.ok, 0, 0, 0, none⟩

/-- `joinVisibilityFloor` -/
def joinFloor (join : Nat) : Nat := if join = 0 then 0 else join - 1

/-- `maxMembershipFloor(values...)`: left fold with `if value > out` from 0 -/
def maxFloor (vs : List Nat) : Nat := vs.foldl (fun out v => if v > out then v else out) 0

def visibilityFloor (r : Row) (h : Head) : Nat := maxFloor [joinFloor r.join, r.del, h.retention]

def effectiveRead (r : Row) (h : Head) : Nat := maxFloor [visibilityFloor r h, r.read, h.ownSend]

/-- one returned conversation (the fields C34 is about) -/
structure Item where
  unread : Nat
  last : Option Nat
  join : Nat
  read : Nat
  del : Nat
  act : Int
  deriving DecidableEq, Repr

def visibleMessage (r : Row) (h : Head) : Bool := h.committed ≥ r.join && h.committed > r.del

/-- the unread count of `conversationFromMembership` -/
def unreadOf (r : Row) (h : Head) : Nat :=
  if h.committed > effectiveRead r h then h.committed - effectiveRead r h else 0

/-- the last message `conversationFromMembership` shows -/
def shownLast (r : Row) (h : Head) : Option Nat :=
  match h.last with
  | some s => if visibleMessage r h && s > visibilityFloor r h then some s else none
  | none => none

/-- `conversationFromMembership` -/
def conversationOf (r : Row) (h : Head) : Option Item :=
  if !visibleMessage r h && r.act ≤ 0 then none
  else some ⟨unreadOf r h, shownLast r h, r.join, r.read, r.del, r.act⟩

/-! ### membership store contract (monotone mutators, C16) -/

def advanceRead (r : Row) (seq : Nat) : Row := if r.tomb then r else if seq > r.read then { r with read := seq } else r
def hide (r : Row) (seq : Nat) : Row :=
  if r.tomb then r else { r with del := if seq > r.del then seq else r.del, act := 0 }
def activate (r : Row) (t : Int) : Row := if r.tomb then r else if t > r.act then { r with act := t } else r

/-! ### commands (unread.go) -/

inductive Status | ok | notFound | notReady | other
  deriving DecidableEq, Repr

/-- `membershipMutationHead`: the row and head a mutation may use, or its error -/
def mutationHead (row : Option Row) (h : Head) : Except Status (Row × Head) :=
  match row with
  | none => .error .notFound
  | some r =>
    if r.tomb then .error .notFound
    else match h.outcome with
      | .ok | .noVisible => .ok (r, h)
      | .delete => .error .notFound
      | .retry => .error .notReady
      | .bad => .error .other

/-- ClearUnread: target read cursor, `none` = no store call -/
def clearTarget (r : Row) (h : Head) : Option Nat :=
  if h.committed ≤ r.read then none else some h.committed

/-- SetUnread(n): target read cursor, `none` = no store call -/
def setTarget (r : Row) (h : Head) (n : Nat) : Option Nat :=
  let floor := visibilityFloor r h
  let target := if n < h.committed then maxFloor [floor, h.committed - n] else floor
  if target ≤ r.read then none else some target

def clearStep (row : Option Row) (h : Head) : Status × Option Row :=
  match mutationHead row h with
  | .error e => (e, row)
  | .ok (r, h) =>
    match clearTarget r h with
    | none => (.ok, some r)
    | some t => (.ok, some (advanceRead r t))

def setStep (row : Option Row) (h : Head) (n : Int) : Status × Option Row :=
  if n < 0 then (.other, row)
  else match mutationHead row h with
    | .error e => (e, row)
    | .ok (r, h) =>
      match setTarget r h n.toNat with
      | none => (.ok, some r)
      | some t => (.ok, some (advanceRead r t))

def deleteStep (row : Option Row) (h : Head) : Status × Option Row :=
  match mutationHead row h with
  | .error e => (e, row)
  | .ok (r, h) => (.ok, some (hide r h.committed))

/-- ActivateConversation goes straight to the store: missing row → NotFound,
    tombstone → no-op; the store rejects `activatedAt ≤ 0` -/
def activateStep (row : Option Row) (t : Int) : Status × Option Row :=
  if t ≤ 0 then (.other, row)
  else match row with
    | none => (.notFound, none)
    | some r => (.ok, some (activate r t))

/-! ### the per-user table -/

structure Chan where
  name : String
  row : Option Row
  head : Head

abbrev State := List Chan

def State.get (s : State) (c : String) : Option Row × Head :=
  match s.find? (·.name == c) with
  | some ch => (ch.row, ch.head)
  | none => (none, Head.zero)

def State.put (s : State) (c : String) (row : Option Row) (head : Head) : State :=
  if s.any (·.name == c) then s.map (fun ch => if ch.name == c then ⟨c, row, head⟩ else ch)
  else s ++ [⟨c, row, head⟩]

/-- classification of one scanned membership by List / Retry -/
inductive Listed | item (i : Item) | omitted | delete | unresolved | invalid
  deriving DecidableEq, Repr

def classify (r : Row) (h : Head) : Listed :=
  match h.outcome with
  | .delete => .delete
  | .retry => .unresolved
  | .ok | .noVisible => match conversationOf r h with
    | some i => .item i
    | none => .omitted
  | .bad => .invalid

/-! ### the expression language the regenerated facts (`WK.Gen.C34`, extract/c34.go) are written in

  extract/c34.go serialises the Go expressions of conversationFromMembership,
  joinVisibilityFloor, maxMembershipFloor, ClearUnread, SetUnread and
  DeleteConversation into `GoE` terms; the evaluator below is their meaning.
  `sub` is *partial*: it is defined only when no uint64 wrap-around happens, so
  "evaluates to the model's value" includes "the guard in the source is sufficient". -/

inductive GoE
  | f (name : String)            -- variable / field selector, by its source text
  | n (v : Nat)                  -- integer literal
  | sub (a b : GoE)
  | gt (a b : GoE) | ge (a b : GoE) | lt (a b : GoE) | le (a b : GoE) | eq (a b : GoE)
  | and (a b : GoE) | or (a b : GoE) | not (a : GoE)
  | jfloor (a : GoE)             -- joinVisibilityFloor(a)
  | u64 (a : GoE)                -- uint64(a) of a value known to be ≥ 0
  deriving Repr, DecidableEq

structure GoEnv where
  num : String → Option Int
  bool : String → Option Bool

def evalN (env : GoEnv) : GoE → Option Int
  | .f name => env.num name
  | .n v => some v
  | .sub a b => do
    let x ← evalN env a
    let y ← evalN env b
    if x ≥ y then some (x - y) else none
  | .jfloor a => do
    let x ← evalN env a
    if x ≥ 0 then some (joinFloor x.toNat) else none
  | .u64 a => do
    let x ← evalN env a
    if x ≥ 0 then some x else none
  | _ => none

def evalB (env : GoEnv) : GoE → Option Bool
  | .f name => env.bool name
  | .gt a b => do some (decide ((← evalN env a) > (← evalN env b)))
  | .ge a b => do some (decide ((← evalN env a) ≥ (← evalN env b)))
  | .lt a b => do some (decide ((← evalN env a) < (← evalN env b)))
  | .le a b => do some (decide ((← evalN env a) ≤ (← evalN env b)))
  | .eq a b => do some (decide ((← evalN env a) = (← evalN env b)))
  | .and a b => do
    let x ← evalB env a
    if x then evalB env b else some false          -- Go's && short-circuits
  | .or a b => do
    let x ← evalB env a
    if x then some true else evalB env b
  | .not a => do some (!(← evalB env a))
  | _ => none

/-- `maxMembershipFloor(operands...)` over evaluated operands -/
def evalMax (env : GoEnv) (ops : List GoE) : Option Nat :=
  (ops.mapM (evalN env)).map (fun xs => maxFloor (xs.map Int.toNat))

end WK.C34

import WK.Spec.C32
/-
  C32 — executable sequential model of `delivery.AckTracker`, mirroring
  ack_tracker.go branch for branch.  `step : St → Op → St × Out`.  Core Lean only.
-/
namespace WK.C32

def Pend.valid (p : Pend) : Bool := p.uid ≠ [] ∧ p.sess ≠ 0 ∧ p.msg ≠ 0

/-! ### entry-level attempt bookkeeping -/

/-- `removeExtraAttempt`: swap the last element into `index`, drop the last -/
def removeExtra (xs : List (Nat × Pend)) (i : Nat) : List (Nat × Pend) :=
  match xs.getLast? with
  | none => xs
  | some l => if i + 1 = xs.length then xs.dropLast else (xs.set i l).dropLast

def findTok (tok : Nat) (xs : List (Nat × Pend)) : Option Nat := xs.findIdx? (fun a => a.1 = tok)

/-- `addAttempt` -/
def Entry.addAttempt (e : Entry) (p : Pend) (tok : Nat) : Entry :=
  if !e.committed && e.primary = 0 then { e with pending := p, primary := tok }
  else { e with extras := e.extras ++ [(tok, p)] }

/-- `finishAttempt` -/
def Entry.finishAttempt (e : Entry) (tok : Nat) : Entry × Bool :=
  if e.primary = tok then ({ e with primary := 0, committed := true }, true)
  else match findTok tok e.extras with
    | none => (e, false)
    | some i =>
      let fin := (e.extras.getD i default).2
      if !e.committed && e.primary ≠ 0 then
        ({ pending := fin, committed := true, primary := 0, extras := e.extras.set i (e.primary, e.pending) }, true)
      else
        ({ e with pending := fin, committed := true, extras := removeExtra e.extras i }, true)

/-- `cancelAttempt` -/
def Entry.cancelAttempt (e : Entry) (tok : Nat) : Entry × Bool :=
  if e.primary = tok then
    (match (if !e.committed then e.extras.getLast? else none) with
     | some promoted => ({ e with pending := promoted.2, primary := promoted.1, extras := e.extras.dropLast }, true)
     | none => ({ e with primary := 0 }, true))
  else match findTok tok e.extras with
    | none => (e, false)
    | some i => ({ e with extras := removeExtra e.extras i }, true)

def Entry.hasAttempts (e : Entry) : Bool := e.primary ≠ 0 || !e.extras.isEmpty

/-! ### tracker operations -/

def sessionCount (s : St) (uid : Str) (sess : Nat) : Nat :=
  (s.entries.filter (fun ke => inSession uid sess ke.1)).length

/-- `if pending.DeliveredAt == 0 { pending.DeliveredAt = t.now() }` -/
def stamp (s : St) (p : Pend) : Pend := if p.dat = 0 then { p with dat := s.now } else p

/-- the locked body shared by `BindResult` and `BindBatch`: returns (state, token or 0, added).
    `existed` selects between a fresh zero entry (limit applies) and the stored one. -/
def bindCore (s : St) (p : Pend) : St × Nat × Bool :=
  let q := stamp s p
  let tok := s.nextTok + 1
  match aget q.key s.entries with
  | none =>
    if s.maxPer > 0 && decide ((sessionCount s q.uid q.sess : Int) ≥ s.maxPer) then (s, 0, false)
    else ({ s with nextTok := tok, entries := aput q.key (({} : Entry).addAttempt q tok) s.entries,
                   count := s.count + 1 }, tok, true)
  | some e => ({ s with nextTok := tok, entries := aput q.key (e.addAttempt q tok) s.entries }, tok, false)

structure BindRes where
  bound : Bool
  added : Bool
  tok : Nat
  count : Int
  deriving DecidableEq, Repr, Inhabited

/-- `BindResult` -/
def bind (s : St) (p : Pend) : St × BindRes :=
  if !p.valid then (s, ⟨false, false, 0, s.count⟩)
  else
    let (s', tok, added) := bindCore s p
    (s', ⟨tok ≠ 0, added, tok, s'.count⟩)

/-- `finishBindLocked` behind the validity guard of `FinishBind` -/
def finish (s : St) (p : Pend) (tok : Nat) : St × Bool :=
  if !p.valid || tok = 0 then (s, false)
  else match aget p.key s.entries with
    | none => (s, false)
    | some e =>
      let (e', ok) := e.finishAttempt tok
      if ok then ({ s with entries := aput p.key e' s.entries }, true) else (s, false)

/-- `Bind` (compatibility: reserve then finish) -/
def bindCompat (s : St) (p : Pend) : St × Bool :=
  let (s1, r) := bind s p
  if !r.bound then (s1, false)
  else ((finish s1 p r.tok).1, true)

structure CancelRes where
  canceled : Bool
  removed : Bool
  count : Int
  deriving DecidableEq, Repr, Inhabited

/-- `CancelBind` -/
def cancel (s : St) (p : Pend) (tok : Nat) : St × CancelRes :=
  if !p.valid || tok = 0 then (s, ⟨false, false, s.count⟩)
  else match aget p.key s.entries with
    | none => (s, ⟨false, false, s.count⟩)
    | some e =>
      let (e', ok) := e.cancelAttempt tok
      if !ok then (s, ⟨false, false, s.count⟩)
      else if e'.committed || e'.hasAttempts then
        ({ s with entries := aput p.key e' s.entries }, ⟨true, false, s.count⟩)
      else
        ({ s with entries := adel p.key s.entries, count := s.count - 1 }, ⟨true, true, s.count - 1⟩)

/-- `Ack` -/
def ack (s : St) (k : MKey) : St × Option Pend :=
  if k.uid = [] ∨ k.sess = 0 ∨ k.msg = 0 then (s, none)
  else match aget k s.entries with
    | none => (s, none)
    | some e => ({ s with entries := adel k s.entries, count := s.count - 1 }, some e.pending)

/-- `SessionClosed` -/
def sessionClosed (s : St) (uid : Str) (sess : Nat) : St × List Pend :=
  if uid = [] ∨ sess = 0 then (s, [])
  else
    let removed := s.entries.filter (fun ke => inSession uid sess ke.1)
    ({ s with entries := s.entries.filter (fun ke => !inSession uid sess ke.1),
              count := s.count - removed.length },
     removed.map (·.2.pending))

/-- `Expire` -/
def expire (s : St) (ttl : Int) : St × List Pend :=
  if ttl ≤ 0 then (s, [])
  else
    let cutoff := s.now - ttlSeconds ttl
    let removed := s.entries.filter (fun ke => !ke.2.freshAfter cutoff)
    ({ s with entries := s.entries.filter (fun ke => ke.2.freshAfter cutoff),
              count := s.count - removed.length },
     removed.map (·.2.pending))

/-- `Reset` -/
def reset (s : St) : St := { s with entries := [], count := 0 }

def shardOf (s : St) (sess : Nat) : Nat := sess % s.shards

/-- `BindBatch` processing order: shard index ascending, input order inside a shard -/
def batchOrder (s : St) (items : List (Nat × Pend)) : List (Nat × Pend) :=
  (List.range s.shards).flatMap (fun si => items.filter (fun ip => shardOf s ip.2.sess = si))

def bindBatchLoop : List (Nat × Pend) → St → List (Nat × Nat) → Nat → St × List (Nat × Nat) × Nat
  | [], s, toks, added => (s, toks, added)
  | (i, p) :: rest, s, toks, added =>
    let (s', tok, a) := bindCore s p
    bindBatchLoop rest s' (if tok ≠ 0 then toks ++ [(i, tok)] else toks) (if a then added + 1 else added)

structure BatchRes where
  toks : List Nat
  bound : Nat
  added : Nat
  shards : Nat
  count : Int
  deriving DecidableEq, Repr, Inhabited

def enumFrom {α : Type} : Nat → List α → List (Nat × α)
  | _, [] => []
  | n, x :: xs => (n, x) :: enumFrom (n + 1) xs

/-- `BindBatch` -/
def bindBatch (s : St) (ps : List Pend) : St × BatchRes :=
  let valid := (enumFrom 0 ps).filter (fun ip => ip.2.valid)
  if valid.isEmpty then (s, ⟨ps.map (fun _ => 0), 0, 0, 0, s.count⟩)
  else
    let (s', toks, added) := bindBatchLoop (batchOrder s valid) s [] 0
    let shards := ((List.range s.shards).filter (fun si => valid.any (fun ip => shardOf s ip.2.sess = si))).length
    (s', ⟨(enumFrom 0 ps).map (fun ip => (aget ip.1 toks).getD 0), toks.length, added, shards, s'.count⟩)

def finishBatchLoop : List (Pend × Nat) → St → Nat → St × Nat
  | [], s, n => (s, n)
  | (p, tok) :: rest, s, n =>
    let (s', ok) := finish s p tok
    finishBatchLoop rest s' (if ok then n + 1 else n)

/-- `FinishBindBatch` (indexes select input-aligned rows; out-of-range, invalid rows and zero
    tokens are skipped; processing order is shard-grouped like `BindBatch`) -/
def finishBatch (s : St) (ps : List Pend) (toks : List Nat) (idxs : List Int) : St × Nat :=
  let sel := idxs.filterMap (fun i =>
    if i < 0 then none else
    match ps[i.toNat]?, toks[i.toNat]? with
    | some p, some t => if p.valid && t ≠ 0 then some (p, t) else none
    | _, _ => none)
  let ordered := (List.range s.shards).flatMap (fun si => sel.filter (fun pt => shardOf s pt.1.sess = si))
  finishBatchLoop ordered s 0

inductive Op
  | setNow (n : Int)
  | bind (p : Pend)
  | bindCompat (p : Pend)
  | bindBatch (ps : List Pend)
  | finish (p : Pend) (tok : Nat)
  | finishBatch (ps : List Pend) (toks : List Nat) (idxs : List Int)
  | cancel (p : Pend) (tok : Nat)
  | ack (k : MKey)
  | closed (uid : Str) (sess : Nat)
  | expire (ttl : Int)
  | count
  | reset
  deriving Repr, Inhabited

inductive Out
  | unit
  | bound (r : BindRes)
  | bool (b : Bool)
  | batch (r : BatchRes)
  | num (n : Int)
  | canceled (r : CancelRes)
  | acked (p : Option Pend)
  | removed (ps : List Pend)
  deriving Repr, Inhabited, DecidableEq

def step (s : St) : Op → St × Out
  | .setNow n => ({ s with now := n }, .unit)
  | .bind p => let (s', r) := bind s p; (s', .bound r)
  | .bindCompat p => let (s', b) := bindCompat s p; (s', .bool b)
  | .bindBatch ps => let (s', r) := bindBatch s ps; (s', .batch r)
  | .finish p tok => let (s', b) := finish s p tok; (s', .bool b)
  | .finishBatch ps toks idxs => let (s', n) := finishBatch s ps toks idxs; (s', .num n)
  | .cancel p tok => let (s', r) := cancel s p tok; (s', .canceled r)
  | .ack k => let (s', p) := ack s k; (s', .acked p)
  | .closed u ss => let (s', ps) := sessionClosed s u ss; (s', .removed ps)
  | .expire ttl => let (s', ps) := expire s ttl; (s', .removed ps)
  | .count => (s, .num s.count)
  | .reset => (reset s, .unit)

def run (s : St) (ops : List Op) : St := ops.foldl (fun s op => (step s op).1) s

end WK.C32

import WK.Prelude.Hex
import WK.Spec.C21
/-
  C40 — executable model of the message event projection:
    pkg/db/meta/table_message_event.go        (reducer, applied-event table, cursor)
    pkg/slot/fsm/message_event_cmds.go        (single / batch append commands)
    pkg/cluster/node_message_event_stream_cache.go (leader stream cache, terminal merge,
                                               finish flush, the cache-miss guard)

  Strings are byte lists (compared for equality only).  JSON is abstract (class PA):
  a payload is represented by the three *views* the code takes of its bytes
    delta : the `{"kind","delta"}` view  — `some d` iff it unmarshals with kind = "text"
    view  : the `{"kind","text"}` view of the bytes when they are stored as a snapshot
    term  : the `{"snapshot","end_reason","error"}` view — `none` iff unmarshal fails
  The harness checks on every op, with encoding/json itself, that the views the
  generator announces are the views of the bytes it sends.  Core only.
-/
namespace WK.C40

inductive EType | open_ | delta | close | error | cancel | snapshot | finish
deriving DecidableEq, Repr

inductive Status | open_ | closed | error | cancelled
deriving DecidableEq, Repr

/-- `isMessageEventTerminal` -/
def Status.terminal : Status → Bool
  | .open_ => false
  | _ => true

/-- canonical form of stored snapshot bytes: empty, text JSON `{"kind":"text","text":s}`, other bytes -/
inductive Snap | none | text (s : Bytes) | raw (b : Bytes)
deriving DecidableEq, Repr

structure Payload where
  delta : Option Bytes := none
  view : Snap := .none
  term : Option (Snap × Nat × Bytes) := none
  /-- `len(payload) == 0` -/
  empty : Bool := true
  /-- the bytes are the JSON literal `null` (unmarshals into a nil map) -/
  isNull : Bool := false
deriving DecidableEq, Repr

structure MsgKey where
  ch : Bytes
  ct : Int
  no : Bytes
deriving DecidableEq, Repr

/-- a normalised `MessageEventAppend` -/
structure Event where
  msg : MsgKey
  id : Bytes
  key : Bytes
  ty : EType
  vis : Bytes
  occ : Int
  pl : Payload
  upd : Int
deriving DecidableEq, Repr

/-- value columns of `MessageEventState` (one lane) -/
structure Lane where
  status : Status := .open_
  seq : Nat := 0
  lastId : Bytes := []
  lastTy : Option EType := none
  vis : Bytes := []
  occ : Int := 0
  snap : Snap := .none
  endReason : Nat := 0
  err : Bytes := []
  upd : Int := 0
deriving DecidableEq, Repr

/-- `MessageEventApplied` -/
structure Applied where
  key : Bytes
  seq : Nat
  status : Status
  upd : Int
deriving DecidableEq, Repr

/-- `MessageEventAppendResult` -/
structure Result where
  key : Bytes
  seq : Nat
  status : Status
  state : Lane
deriving DecidableEq, Repr

def aget {κ α : Type} [DecidableEq κ] (k : κ) : List (κ × α) → Option α
  | [] => none
  | (k', v) :: t => if k' = k then some v else aget k t

def aput {κ α : Type} [DecidableEq κ] (k : κ) (v : α) : List (κ × α) → List (κ × α)
  | [] => [(k, v)]
  | (k', v') :: t => if k' = k then (k, v) :: t else (k', v') :: aput k v t

def adel {κ α : Type} [DecidableEq κ] (k : κ) : List (κ × α) → List (κ × α)
  | [] => []
  | (k', v') :: t => if k' = k then adel k t else (k', v') :: adel k t

/-- the three message-event tables of one hash slot -/
structure DB where
  lanes : List ((MsgKey × Bytes) × Lane) := []
  cursors : List (MsgKey × (Nat × Int)) := []
  applied : List ((MsgKey × Bytes) × Applied) := []
deriving Repr

/-- `reduceMessageEventDelta` -/
def reduceDelta (existing : Snap) (p : Payload) : Snap :=
  match p.delta with
  | none => p.view
  | some d => .text ((match existing with | .text t => t | _ => []) ++ d)

/-- `decodeMessageEventTerminalPayload` -/
def termOf (p : Payload) : Snap × Nat × Bytes := p.term.getD (.none, 0, [])

/-- `messageEventAppendResult` -/
def resultOf (key : Bytes) (l : Lane) : Result := ⟨key, l.seq, l.status, l⟩

/-- `reduceMessageEventAppend`: (next lane, next cursor, didApply, result) -/
def reduce (lane : Option Lane) (cur : Option (Nat × Int)) (ev : Event) : Lane × (Nat × Int) × Bool × Result :=
  let c := cur.getD (0, 0)
  match (match lane with
         | some l => if l.lastId = ev.id ∨ l.status.terminal then none else some l
         | none => some ({} : Lane)) with
  | none =>
    let l := lane.getD {}
    (l, c, false, resultOf ev.key l)
  | some l0 =>
    let next := c.1 + 1
    let l1 : Lane := match ev.ty with
      | .delta => { l0 with status := .open_, snap := reduceDelta l0.snap ev.pl }
      | .snapshot => { l0 with status := .open_, snap := ev.pl.view }
      | .close =>
        let t := termOf ev.pl
        { l0 with status := .closed, snap := if t.1 = .none then l0.snap else t.1, endReason := t.2.1 }
      | .error =>
        let t := termOf ev.pl
        { l0 with status := .error, snap := if t.1 = .none then l0.snap else t.1, err := t.2.2 }
      | .cancel =>
        let t := termOf ev.pl
        { l0 with status := .cancelled, snap := if t.1 = .none then l0.snap else t.1 }
      | .finish => { l0 with status := .closed }
      | .open_ => l0
    let l2 : Lane := { l1 with seq := next, lastId := ev.id, lastTy := some ev.ty, vis := ev.vis, occ := ev.occ, upd := ev.upd }
    (l2, (next, ev.upd), true, resultOf ev.key l2)

/-- `messageEventAppendResultFromApplied` -/
def fromApplied (ev : Event) (ap : Applied) (lane : Option Lane) : Result :=
  let synthetic : Lane := { status := ap.status, seq := ap.seq, lastId := ev.id, upd := ap.upd }
  let st := match lane with
    | some l => if l.lastId = ev.id ∧ l.seq = ap.seq then l else synthetic
    | none => synthetic
  ⟨ap.key, ap.seq, ap.status, st⟩

/-- `Shard.AppendMessageEvent` / one staged `Batch.AppendMessageEvent` on a normalised event -/
def append (db : DB) (ev : Event) : DB × Result :=
  match aget (ev.msg, ev.id) db.applied with
  | some ap => (db, fromApplied ev ap (aget (ev.msg, ap.key) db.lanes))
  | none =>
    let (l, c, did, res) := reduce (aget (ev.msg, ev.key) db.lanes) (aget ev.msg db.cursors) ev
    if did then
      ({ lanes := aput (ev.msg, ev.key) l db.lanes,
         cursors := aput ev.msg c db.cursors,
         applied := aput (ev.msg, ev.id) ⟨res.key, res.seq, res.status, ev.upd⟩ db.applied }, res)
    else (db, res)

/-- ordered batch of appends (FSM `appendMessageEventsBatchCmd`, one atomic write batch) -/
def appendAll (db : DB) : List Event → DB × List Result
  | [] => (db, [])
  | e :: r =>
    let (db1, res) := append db e
    let (db2, rs) := appendAll db1 r
    (db2, res :: rs)

/-! ### normalisation -/

/-- an event as received, before `normalizeMessageEventAppend` -/
structure RawEvent where
  ch : Bytes
  ct : Int
  no : Bytes
  id : Bytes
  key : Bytes
  ty : Bytes
  vis : Bytes
  occ : Int
  pl : Payload
  upd : Int
deriving Repr

def isSpace (b : UInt8) : Bool := b == 32 || (9 ≤ b && b ≤ 13)

/-- `strings.TrimSpace` on ASCII input -/
def trim (s : Bytes) : Bytes := ((s.dropWhile isSpace).reverse.dropWhile isSpace).reverse

def lower (s : Bytes) : Bytes := s.map fun b => if 65 ≤ b && b ≤ 90 then b + 32 else b

def str (s : String) : Bytes := s.toUTF8.toList

/-! byte-list constants (explicit so that the kernel can evaluate the model in `decide` proofs) -/
def tyOpen : Bytes := [115, 116, 114, 101, 97, 109, 46, 111, 112, 101, 110]  -- "stream.open"
def tyDelta : Bytes := [115, 116, 114, 101, 97, 109, 46, 100, 101, 108, 116, 97]  -- "stream.delta"
def tyClose : Bytes := [115, 116, 114, 101, 97, 109, 46, 99, 108, 111, 115, 101]  -- "stream.close"
def tyError : Bytes := [115, 116, 114, 101, 97, 109, 46, 101, 114, 114, 111, 114]  -- "stream.error"
def tyCancel : Bytes := [115, 116, 114, 101, 97, 109, 46, 99, 97, 110, 99, 101, 108]  -- "stream.cancel"
def tySnapshot : Bytes := [115, 116, 114, 101, 97, 109, 46, 115, 110, 97, 112, 115, 104, 111, 116]  -- "stream.snapshot"
def tyFinish : Bytes := [115, 116, 114, 101, 97, 109, 46, 102, 105, 110, 105, 115, 104]  -- "stream.finish"

def parseType (s : Bytes) : Option EType :=
  if s = tyOpen then some .open_
  else if s = tyDelta then some .delta
  else if s = tyClose then some .close
  else if s = tyError then some .error
  else if s = tyCancel then some .cancel
  else if s = tySnapshot then some .snapshot
  else if s = tyFinish then some .finish
  else none

def keyDefault : Bytes := [109, 97, 105, 110]  -- "main"
def keyFinish : Bytes := [95, 95, 102, 105, 110, 105, 115, 104, 95, 95]  -- "__finish__"
def visPublic : Bytes := [112, 117, 98, 108, 105, 99]  -- "public"
def flushInfix : Bytes := [47, 102, 108, 117, 115, 104, 47]  -- "/flush/"

/-- `normalizeMessageEventAppend` (= `normalizeClusterMessageEventAppend`): `none` = ErrInvalidArgument -/
def normalize (r : RawEvent) : Option Event :=
  let ch := trim r.ch
  let no := trim r.no
  let id := trim r.id
  let key := trim r.key
  let ty := lower (trim r.ty)
  let vis := trim r.vis
  if ch = [] ∨ r.ct ≤ 0 ∨ no = [] ∨ id = [] ∨ ty = [] then none else
  match parseType ty with
  | none => none
  | some t =>
    let key := if key = [] then keyDefault else key
    let key := if t = .finish then keyFinish else key
    let vis := if vis = [] then visPublic else vis
    some ⟨⟨ch, r.ct, no⟩, id, key, t, vis, r.occ, r.pl, r.upd⟩

inductive Err | ok | invalid | cachemiss | notleader | backpressure | panic
deriving DecidableEq, Repr

/-- table-level entry point on a raw event -/
def tstep (db : DB) (r : RawEvent) : DB × Option Result :=
  match normalize r with
  | none => (db, none)
  | some ev =>
    let (db', res) := append db ev
    (db', some res)

/-- table-level batch: any invalid event aborts the batch before commit -/
def tbatch (db : DB) (rs : List RawEvent) : DB × Option (List Result) :=
  match rs.mapM normalize with
  | none => (db, none)
  | some evs =>
    let (db', res) := appendAll db evs
    (db', some res)

/-! ### the leader stream cache and the node-level append -/

/-- `messageEventStreamCacheSession` -/
structure Session where
  states : List (Bytes × Lane) := []
  applied : List (Bytes × Result) := []
  /-- `updated`: logical time of the last touch (the code uses time.Now; only the order matters) -/
  upd : Nat := 0
deriving Repr

/-- the part of the routing table the leader cache depends on: the leaders of the two physical
    Slots and, per hash slot, the Slot that owns it (1 or 2).  The local node is node 1. -/
structure Route where
  l1 : Nat := 1
  l2 : Nat := 2
  own : List Nat := [1, 1, 1, 1]
deriving DecidableEq, Repr

structure Node where
  db : DB := {}
  cache : List (MsgKey × Session) := []
  route : Route := {}
  /-- `maxSessions` of the stream cache -/
  cap : Nat := 4096
  /-- logical clock: one tick per node-level append -/
  clock : Nat := 0
deriving Repr

/-- `routing.HashSlotForKey(channelID, count)` (CRC-32/IEEE mod count; spec of property C21) -/
def hashSlotOf (ch : Bytes) (count : Nat) : Nat :=
  (WK.C21.specHashSlot (ch.map fun b => BitVec.ofNat 8 b.toNat) (BitVec.ofNat 16 count)).toNat

/-- leader of the Slot that owns hash slot `h` (0 = unknown) -/
def Route.leaderOf (r : Route) (h : Nat) : Nat :=
  match r.own[h]? with
  | some 1 => r.l1
  | some 2 => r.l2
  | _ => 0

/-- `messageEventLostLocalAuthorityHashSlots`: hash slots led by the local node before and not after -/
def lostSlots (before after : Route) : List Nat :=
  (List.range before.own.length).filter fun h => before.leaderOf h == 1 && after.leaderOf h != 1

/-- `updateRouteAuthorityTable` → `clearMessageEventStreamCacheForLostLocalAuthority` →
    `removeHashSlotsObserved`: sessions of channels whose hash slot lost local authority are dropped -/
def setRoute (n : Node) (r : Route) : Node :=
  let lost := lostSlots n.route r
  { n with route := r,
           cache := n.cache.filter fun ks => !(lost.contains (hashSlotOf ks.1.ch n.route.own.length)) }

/-- is the local node the leader for this channel? -/
def Node.leads (n : Node) (ch : Bytes) : Bool := n.route.leaderOf (hashSlotOf ch n.route.own.length) == 1

/-- `cachedMessageEventState` -/
def cachedLane (ev : Event) : Lane :=
  { status := .open_, seq := 0, lastId := ev.id, lastTy := some ev.ty, vis := ev.vis, occ := ev.occ, upd := ev.upd }

/-- `isMessageEventTerminalCacheSession`: no lane, or every lane terminal -/
def Session.allTerminal (s : Session) : Bool := s.states.all fun kl => kl.2.status.terminal

/-- the evictable session that was touched least recently -/
def oldestTerminal : List (MsgKey × Session) → Option (MsgKey × Nat)
  | [] => none
  | (k, s) :: t =>
    match oldestTerminal t with
    | none => if s.allTerminal then some (k, s.upd) else none
    | some (k', u') => if s.allTerminal && s.upd < u' then some (k, s.upd) else some (k', u')

/-- `sessionLocked`: admission of a (possibly new) session.  A full cache evicts the least recently
    touched session whose lanes are ALL terminal; if there is none the event is refused
    (`ErrBackpressured`) — a session with an open lane is never evicted. -/
def admitSession (cache : List (MsgKey × Session)) (cap : Nat) (mk : MsgKey) : Option (List (MsgKey × Session)) :=
  match aget mk cache with
  | some _ => some cache
  | none =>
    if cache.length < cap then some cache
    else match oldestTerminal cache with
      | some (k, _) => some (adel k cache)
      | none => none

/-- `appendCachedObserved` on an admitted session -/
def appendCached (cache : List (MsgKey × Session)) (clock : Nat) (ev : Event) : List (MsgKey × Session) × Result :=
  let s := (aget ev.msg cache).getD {}
  match aget ev.id s.applied with
  | some r => (aput ev.msg { s with upd := clock } cache, r)
  | none =>
    let st := (aget ev.key s.states).getD (cachedLane ev)
    if st.status.terminal then
      let r := resultOf ev.key st
      (aput ev.msg { s with applied := aput ev.id r s.applied, upd := clock } cache, r)
    else
      let st1 : Lane := match ev.ty with
        | .delta => { st with status := .open_, snap := reduceDelta st.snap ev.pl }
        | .snapshot => { st with status := .open_, snap := ev.pl.view }
        | _ => { st with status := .open_ }
      let st2 : Lane := { st1 with lastId := ev.id, lastTy := some ev.ty, vis := ev.vis, occ := ev.occ, upd := ev.upd }
      let r := resultOf ev.key st2
      (aput ev.msg { states := aput ev.key st2 s.states, applied := aput ev.id r s.applied, upd := clock } cache, r)

/-- `cloneJSONRawMessage` of stored snapshot bytes, as a snapshot view
    (non-JSON bytes become a JSON string; the model keeps them as `raw` of the quoted bytes) -/
def quoteRaw (b : Bytes) : Bytes := [34] ++ b ++ [34]

/-- `mergeMessageEventTerminalPayload(payload, snapshot)`: only the terminal view of the merged
    bytes is ever read (the merged payload goes to a close/error/cancel/finish reducer) -/
def mergeTerminal (p : Payload) (snapshot : Snap) (snapshotIsJSON : Bool) : Payload :=
  if snapshot = .none then p else
  let t : Snap × Nat × Bytes := match p.term with
    | some t => t
    | none => (.none, 0, [])
  let snapJ : Snap := if snapshotIsJSON then snapshot else
    match snapshot with
    | .raw b => .raw (quoteRaw b)
    | s => s
  { delta := none, view := .raw [], term := some (if t.1 = .none then snapJ else t.1, t.2.1, t.2.2), empty := false }

/-- is the canonical snapshot valid JSON?  text snapshots are; raw ones are iff they do not
    start with `!` (the generator's non-JSON family) -/
def snapIsJSON : Snap → Bool
  | .raw (33 :: _) => false
  | _ => true

/-- `messageEventPayloadHasSnapshot` -/
def hasSnapshot (p : Payload) : Bool :=
  match p.term with
  | some (s, _, _) => !p.empty && s != .none
  | none => false

def bytesLt : Bytes → Bytes → Bool
  | [], [] => false
  | [], _ :: _ => true
  | _ :: _, [] => false
  | a :: s, b :: t => if a < b then true else if b < a then false else bytesLt s t

def insertByKey {α : Type} (x : Bytes × α) : List (Bytes × α) → List (Bytes × α)
  | [] => [x]
  | h :: t => if bytesLt x.1 h.1 then x :: h :: t else h :: insertByKey x t

/-- `openStatesForFinish`: cached lanes that are not the finish lane and not terminal, by key -/
def openStates (cache : List (MsgKey × Session)) (mk : MsgKey) : List (Bytes × Lane) :=
  match aget mk cache with
  | none => []
  | some s =>
    (s.states.filter fun kl => kl.1 ≠ [] && kl.1 ≠ keyFinish && !kl.2.status.terminal).foldl
      (fun acc x => insertByKey x acc) []

/-- `finishFlushMessageEvent` -/
def flushEvent (fin : Event) (kl : Bytes × Lane) : Event :=
  { fin with id := fin.id ++ flushInfix ++ kl.1, key := kl.1, ty := .close,
             pl := mergeTerminal fin.pl kl.2.snap (snapIsJSON kl.2.snap) }

/-- `markTerminalPersisted` -/
def markPersisted (cache : List (MsgKey × Session)) (clock : Nat) (ev : Event) (r : Result) : List (MsgKey × Session) :=
  match aget ev.msg cache with
  | none => cache
  | some s => aput ev.msg { states := aput r.key r.state s.states, applied := aput ev.id r s.applied, upd := clock } cache

/-- `Node.AppendMessageEvent` on the slot leader (`appendMessageEventLocal`) -/
def nstep (n : Node) (r : RawEvent) : Node × Err × Option Result :=
  match normalize r with
  | none => (n, .invalid, none)
  | some ev =>
    if !n.leads ev.msg.ch then (n, .notleader, none) else
    match ev.ty with
    | .open_ | .delta | .snapshot =>
      match admitSession n.cache n.cap ev.msg with
      | none => (n, .backpressure, none)
      | some c0 =>
        let (c, res) := appendCached c0 (n.clock + 1) ev
        ({ n with cache := c, clock := n.clock + 1 }, .ok, some res)
    | .finish =>
      let os := openStates n.cache ev.msg
      if os.isEmpty && !hasSnapshot ev.pl then (n, .cachemiss, none)
      else
        let evs := os.map (flushEvent ev) ++ [ev]
        let (db', rs) := appendAll n.db evs
        ({ n with db := db', cache := adel ev.msg n.cache }, .ok, rs.getLast?)
    | _ =>
      let ev' : Event := match aget ev.msg n.cache with
        | none => ev
        | some s =>
          match aget ev.key s.states with
          | none => ev
          | some st => if st.snap = .none then ev else { ev with pl := mergeTerminal ev.pl st.snap (snapIsJSON st.snap) }
      let (db', res) := append n.db ev'
      ({ n with db := db', cache := markPersisted n.cache (n.clock + 1) ev' res, clock := n.clock + 1 }, .ok, some res)

/-- Before /repo 8a4c8470d `mergeMessageEventTerminalPayload` panicked ("assignment to entry in
    nil map") on a JSON `null` payload with a cached snapshot to merge.  Since the repair a `null`
    payload is merged as the empty object `{}` — exactly what `mergeTerminal` computes from its
    terminal view `(none, 0, "")` — so no input panics any more.  The harness still recovers that
    panic and the judge still names it (`viol:panic-null-terminal-payload`) should it come back. -/
def panics (_ : Node) (_ : RawEvent) : Bool := false

/-- `Node.AppendMessageEvent` (the panic branch is dead since the repair; kept so that a
    regression shows up as a model/implementation disagreement plus the named verdict) -/
def nstepP (n : Node) (r : RawEvent) : Node × Err × Option Result :=
  if panics n r then (n, .panic, none) else nstep n r

/-- loss of the leader's cache (restart, leadership move) -/
def loseCache (n : Node) : Node := { n with cache := [] }

end WK.C40

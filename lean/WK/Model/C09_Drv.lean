import WK.Prelude.Hex
import WK.Model.C09
/-
  C09 — shared driver pieces (op parsing, guards, rendering / parsing of dumps, the dump judge and the
  per-op step).  Core only; used by Driver/C09.lean and Driver/C11.lean.
-/
open WK WK.C09

namespace C09D

def maxNum : Nat := 2 ^ 40

def num (s : String) : Option Nat :=
  match s.toNat? with
  | some n => if n < maxNum ∧ toString n == s then some n else none
  | none => none

def parseRec (s : String) : Option Rec :=
  match (s.splitOn ":").map num with
  | [some id, some f, some c, some fl, some p] => if id = 0 ∨ fl > 255 then none else some ⟨id, f, c, fl, p⟩
  | _ => none

def parseRecs (fs : List String) : Option (List Rec) := fs.mapM parseRec

inductive Cmd where
  | mut (op : Op) (recs : List Rec) (strict : Bool) (cmdTok : Option Nat)
  | reopen
  | dump

def chIn (s : String) (lo hi : Nat) : Option Nat :=
  match num s with
  | some c => if lo ≤ c ∧ c ≤ hi then some c else none
  | none => none

def parseCmd : List String → Option Cmd
  | "app" :: c :: m :: rs =>
    match chIn c 1 2, num m, parseRecs rs with
    | some ch, some mode, some recs => if mode > 2 then none else some (.mut (.app ch mode recs) recs (mode == 0) none)
    | _, _, _ => none
  | "fetch" :: c :: h :: rs =>
    match chIn c 1 2, parseRecs rs with
    | some ch, some recs =>
      if h == "-" then some (.mut (.fetch ch none recs) recs false none)
      else match num h with
        | some hw => some (.mut (.fetch ch (some hw) recs) recs false none)
        | none => none
    | _, _ => none
  | "xapp" :: c :: cmd :: term :: com :: m :: rs =>
    match chIn c 3 3, num cmd, num term, num com, num m, parseRecs rs with
    | some ch, some cmd, some term, some com, some mode, some recs =>
      if cmd = 0 ∨ term = 0 ∨ mode > 1 then none
      else some (.mut (.xapp ch cmd term com mode recs) recs (mode == 0) (some cmd))
    | _, _, _, _, _, _ => none
  | ["trunc", c, t] =>
    match chIn c 1 3, num t with
    | some ch, some to => some (.mut (.trunc ch to) [] true none)
    | _, _ => none
  | ["adopt", c, t] =>
    match chIn c 1 3, num t with
    | some ch, some th => some (.mut (.adopt ch th) [] true none)
    | _, _ => none
  | ["trim", c, t, m] =>
    match chIn c 1 3, num t, num m with
    | some ch, some th, some mx => if mx > 1000 then none else some (.mut (.trim ch th mx) [] true none)
    | _, _, _ => none
  | ["ckpt", c, h] =>
    match chIn c 1 3, num h with
    | some ch, some hw => some (.mut (.ckpt ch hw) [] true none)
    | _, _ => none
  | ["reopen"] => some .reopen
  | ["dump"] => some .dump
  | _ => none

structure M where
  store : Store := []
  seenId : List Nat := []
  seenIK : List (Nat × Nat) := []
  seenCmd : List Nat := []
  mode : Nat := 0   -- 0 = not opened, 1 = mem, 2 = disk

/-! ### rendering and parsing of dumps -/

def dots (xs : List Nat) : String := ".".intercalate (xs.map toString)

def render : Key × Val → String
  | (.row ch q, .row id f c fl p) => s!"R.{ch}.{q}={dots [id, f, c, fl, p]}"
  | (.gid id, .gid ch q) => s!"G.{id}={ch}.{q}"
  | (.cno ch c q, .nat n) => s!"C.{ch}.{c}.{q}={n}"
  | (.idem ch f c, .idem q id) => s!"I.{ch}.{f}.{c}={q}.{id}"
  | (.sseq ch f q, .nat id) => s!"S.{ch}.{f}.{q}={id}"
  | (.ret ch, .ret l p m) => s!"T.{ch}={l}.{p}.{m}"
  | (.ckpt ch, .ckpt e st hw) => s!"K.{ch}={e}.{st}.{hw}"
  | (.cur ch, .nat n) => s!"U.{ch}={n}"
  | (.cat ch, .nat n) => s!"A.{ch}={n}"
  | (.pl ch last, .prop b l cmd t pt) => s!"PL.{ch}.{last}={dots [b, l, cmd, t, pt]}"
  | (.pc ch cmd, .prop b l c t pt) => s!"PC.{ch}.{cmd}={dots [b, l, c, t, pt]}"
  | (.ent ch i, .ent i' cmd t pt) => s!"E.{ch}.{i}={dots [i', cmd, t, pt]}"
  | _ => "?"

def apiLines (s : Store) : List String :=
  [s!"L.1={leo s 1}", s!"L.2={leo s 2}", s!"L.3={leo s 3}",
   if frontierLoads s 3 then s!"F.3={leo s 3}.{hwOf s 3}" else "F.3=err:corrupt"]

def dump (s : Store) : String :=
  ";".intercalate ((s.map render ++ apiLines s).toArray.qsort (· < ·)).toList

def parseEntry (e : String) : Option (Key × Val) :=
  match e.splitOn "=" with
  | [lhs, rhs] =>
    match lhs.splitOn ".", (rhs.splitOn ".").mapM String.toNat? with
    | tag :: ks, some vs =>
      match tag, ks.mapM String.toNat?, vs with
      | "R", some [ch, q], [id, f, c, fl, p] => some (.row ch q, .row id f c fl p)
      | "G", some [id], [ch, q] => some (.gid id, .gid ch q)
      | "C", some [ch, c, q], [n] => some (.cno ch c q, .nat n)
      | "I", some [ch, f, c], [q, id] => some (.idem ch f c, .idem q id)
      | "S", some [ch, f, q], [id] => some (.sseq ch f q, .nat id)
      | "T", some [ch], [l, p, m] => some (.ret ch, .ret l p m)
      | "K", some [ch], [e, st, hw] => some (.ckpt ch, .ckpt e st hw)
      | "U", some [ch], [n] => some (.cur ch, .nat n)
      | "A", some [ch], [n] => some (.cat ch, .nat n)
      | "PL", some [ch, last], [b, l, cmd, t, pt] => some (.pl ch last, .prop b l cmd t pt)
      | "PC", some [ch, cmd], [b, l, c, t, pt] => some (.pc ch cmd, .prop b l c t pt)
      | "E", some [ch, i], [i', cmd, t, pt] => some (.ent ch i, .ent i' cmd t pt)
      | _, _, _ => none
    | _, _ => none
  | _ => none

/-- judge one implementation dump: parse, invariant, API lines -/
def judgeDump (d : String) : String :=
  let ents := d.splitOn ";"
  let (api, kvs) := ents.partition (fun e => e.startsWith "L." || e.startsWith "F.")
  match kvs.mapM parseEntry with
  | none => "viol:dump-unparseable"
  | some s =>
    match storeInvWhy s with
    | some why => "viol:inv-" ++ why
    | none =>
      if (api.toArray.qsort (· < ·)).toList ≠ ((apiLines s).toArray.qsort (· < ·)).toList then "viol:recovered-leo-or-frontier"
      else "ok"

def splitAt (s sep : String) : String × Option String :=
  match s.splitOn sep with
  | [a] => (a, none)
  | a :: rest => (a, some (sep.intercalate rest))
  | [] => ("", none)

/-- note the ids / keys / command of an op; `true` = the caller refuses it (guard:dup) -/
def noteSeen (m : M) (recs : List Rec) (strict : Bool) (cmd : Option Nat) : M × Bool :=
  let dupCmd := match cmd with | some c => m.seenCmd.contains c | none => false
  let dup := recs.any (fun r => m.seenId.contains r.id || (r.f != 0 && r.c != 0 && m.seenIK.contains (r.f, r.c)))
  let m' := { m with
    seenId := recs.map (·.id) ++ m.seenId
    seenIK := (recs.filter (fun r => r.f != 0 && r.c != 0)).map (fun r => (r.f, r.c)) ++ m.seenIK
    seenCmd := match cmd with | some c => c :: m.seenCmd | none => m.seenCmd }
  (m', dupCmd || (dup && !strict))

/-- guard + call.  Returns (state with seen sets updated, result, store after, wasCall) -/
def exec (m : M) (f : List String) : M × String × Store × Bool :=
  match f with
  | "xdup" :: v :: rest =>
    -- the same exact proposal twice in one StoreAppendBatch; `fail` = the physical commit fails:
    -- then NEITHER item may be answered durable and the store is unchanged
    if v ≠ "ok" ∧ v ≠ "fail" then (m, "bad-op", m.store, false) else
    match parseCmd ("xapp" :: rest) with
    | some (.mut op recs strict cmd) =>
      let (m1, dup) := noteSeen m recs strict cmd
      if dup then (m1, "guard:dup", m.store, false) else
      let (r, s') := step m.store op
      match r with
      | .ok [b, n, _] =>
        if v == "ok" then (m1, s!"ok.{b}.{n}.1 ok.{b}.{n}.2", s', true)
        else (m1, "err err", m.store, true)
      | .frontier => (m1, "err:frontier", m.store, true)
      | _ => (m1, "err err", m.store, true)
    | _ => (m, "bad-op", m.store, false)
  | _ =>
  match parseCmd f with
  | none => (m, "bad-op", m.store, false)
  | some .reopen => (m, "ok", m.store, false)
  | some .dump => (m, "ok", m.store, false)
  | some (.mut op recs strict cmd) =>
    let (m1, dup) := noteSeen m recs strict cmd
    if dup then (m1, "guard:dup", m.store, false) else
    match callerGuard m.store op with
    | some g => (m1, g, m.store, false)
    | none =>
      let (r, s') := step m.store op
      (m1, r.str, s', true)

def forbiddenInner (f : List String) : Bool :=
  match f with
  | x :: _ => x == "reopen" || x == "dump" || x == "pl" || x == "kill" || x == "open"
  | [] => true

def stepOp (m : M) (op impl : String) : M × String × String :=
  let f := fields op
  let (implMain, implCrash) := splitAt impl " | "
  let (implRes, implDump) := splitAt implMain " # "
  let liveVerdict := match implDump with
    | some d => judgeDump d
    | none => "ok"
  match f with
  | ["open", x] =>
    if m.mode ≠ 0 ∨ (x ≠ "mem" ∧ x ≠ "disk") then (m, "bad-op", "ok") else
    let m' := { m with mode := if x == "mem" then 1 else 2 }
    (m', "ok # " ++ dump m'.store, liveVerdict)
  | "open" :: _ => (m, "bad-op", "ok")
  | "pl" :: k :: pct :: seed :: "|" :: inner =>
    let m := if m.mode = 0 then { m with mode := 1 } else m
    match num k, num pct, num seed with
    | some k, some pct, some _ =>
      if k = 0 ∨ k > 1000 ∨ pct > 100 ∨ forbiddenInner inner then (m, "bad-op", "ok") else
      if m.mode ≠ 1 then (m, "bad-mode", "ok") else
      let (m1, res, s', called) := exec m inner
      if !called then ({ m1 with store := s' }, res ++ " # " ++ dump s', liveVerdict) else
      let pre := dump m.store
      let post := dump s'
      let m2 := { m1 with store := s' }
      match implCrash with
      | some c =>
        let (t, cd) := splitAt c " D "
        let crashVerdict :=
          match cd with
          | none => "viol:crash-output-malformed"
          | some cd =>
            if t == "t=0" then (if cd == post then judgeDump cd else "viol:acked-not-durable")
            else if t == "t=1" then (if cd == pre ∨ cd == post then judgeDump cd else "viol:crash-not-prefix")
            else "viol:crash-output-malformed"
        (m2, res ++ " # " ++ post ++ " | " ++ c, if liveVerdict ≠ "ok" then liveVerdict else crashVerdict)
      | none => (m2, res ++ " # " ++ post ++ " | ?", "viol:crash-output-missing")
    | _, _, _ => (m, "bad-op", "ok")
  | "kill" :: k :: "|" :: inner =>
    let m := if m.mode = 0 then { m with mode := 1 } else m
    match num k with
    | some k =>
      if k = 0 ∨ k > 1000 ∨ forbiddenInner inner then (m, "bad-op", "ok") else
      if m.mode ≠ 2 then (m, "bad-mode", "ok") else
      let (m1, res, s', called) := exec m inner
      if !called then ({ m1 with store := s' }, res ++ " # " ++ dump s', liveVerdict) else
      let pre := dump m.store
      let post := dump s'
      match implCrash with
      | some c =>
        let (t, cd) := splitAt c " D "
        let cd := cd.getD ""
        if implRes == "dead" ∧ t == "t=1" then
          -- not acknowledged: the batch is either absent or present as a whole
          if cd == pre then ({ m1 with store := m.store }, "dead # " ++ pre ++ " | t=1 D " ++ pre, judgeDump cd)
          else if cd == post then ({ m1 with store := s' }, "dead # " ++ post ++ " | t=1 D " ++ post, judgeDump cd)
          else ({ m1 with store := s' }, "dead # " ++ post ++ " | t=1 D " ++ post, "viol:crash-not-prefix")
        else
          let v := if t ≠ "t=0" then "viol:crash-output-malformed"
                   else if cd == post then judgeDump cd else "viol:acked-not-durable"
          ({ m1 with store := s' }, res ++ " # " ++ post ++ " | t=0 D " ++ post, if liveVerdict ≠ "ok" then liveVerdict else v)
      | none => ({ m1 with store := s' }, res ++ " # " ++ post ++ " | ?", "viol:crash-output-missing")
    | none => (m, "bad-op", "ok")
  | [] => (m, "bad-op", "ok")
  | "pl" :: _ => (m, "bad-op", "ok")
  | "kill" :: _ => (m, "bad-op", "ok")
  | _ =>
    let m := if m.mode = 0 then { m with mode := 1 } else m
    let (m1, res, s', _) := exec m f
    let verdict :=
      if f.take 2 == ["xdup", "fail"] ∧ (implRes.splitOn "ok.").length > 1 then "viol:acked-not-durable-staged-replay"
      else liveVerdict
    ({ m1 with store := s' }, res ++ " # " ++ dump s', verdict)

end C09D


import WK.Model.C22
/-
  C22 — wire-layout descriptions.  `extract/c22_fields.go` regenerates, from the
  Go source of every `encodeX` / `decodeX` / `encodeXSize` function, the ordered
  list of field writes / reads / size terms with their guards as values of these
  types (lean/WK/Gen/C22.lean).  The interpreters below give such a list its
  meaning; `c22_field_order_<type>` (Theorems/C22_Tie.lean) prove that the model's
  encoder and size function of every frame type ARE the interpretation of the
  list extracted from the current source.  Core only.
-/
namespace WK.C22

inductive Kind where
  | u8 | u32 | u64      -- WriteUint8/WriteByte, WriteUint32/WriteInt32, WriteUint64/WriteInt64 (and the reads)
  | str                 -- WriteString / Decoder.String (int16 length prefix)
  | bytes               -- WriteBytes / BinaryAll (rest of the body)
  | seq                 -- encodeMessageSeq / decodeMessageSeq / messageSeqSize (version dependent width)
deriving DecidableEq, Repr

inductive Atom where
  | vLt (n : Nat)       -- version < n
  | vGe (n : Nat)       -- version >= n
  | stream              -- Setting.IsSet(frame.SettingStream)
  | topic               -- Setting.IsSet(frame.SettingTopic)
  | hsv                 -- GetHasServerVersion()
  | nonEmpty (f : String)   -- packet.F != ""
  | lenPos              -- dec.Len() > 0
deriving DecidableEq, Repr

structure Item where
  kind : Kind
  field : String
  guard : List Atom     -- conjunction; [] = always
deriving DecidableEq, Repr

/-- field values of a packet, by Go field name -/
inductive Val where
  | n (x : Nat)
  | b (x : Bytes)
  | none
deriving DecidableEq, Repr

def Val.nat : Val → Nat
  | .n x => x
  | _ => 0
def Val.byt : Val → Bytes
  | .b x => x
  | _ => []

structure Env where
  v : Nat
  hsv : Bool
  get : String → Val

def evalAtom (e : Env) : Atom → Bool
  | .vLt n => decide (e.v < n)
  | .vGe n => decide (e.v ≥ n)
  | .stream => isSet (e.get "Setting").nat settingStream
  | .topic => isSet (e.get "Setting").nat settingTopic
  | .hsv => e.hsv
  | .nonEmpty f => !(e.get f).byt.isEmpty
  | .lenPos => true

def evalGuard (e : Env) (g : List Atom) : Bool := g.all (evalAtom e)

/-- one write -/
def writeItem (e : Env) (it : Item) : W :=
  match it.kind with
  | .u8 => .ok (encU8 (e.get it.field).nat)
  | .u32 => .ok (encU32 (e.get it.field).nat)
  | .u64 => .ok (encU64 (e.get it.field).nat)
  | .str => wStr (e.get it.field).byt
  | .bytes => .ok (e.get it.field).byt
  | .seq => wSeq e.v (e.get it.field).nat

/-- meaning of an encode layout: the guarded writes, in order -/
def interpEnc (e : Env) (items : List Item) : W :=
  wCat (items.flatMap fun it => if evalGuard e it.guard then [writeItem e it] else [])

def sizeItem (e : Env) (it : Item) : Nat :=
  match it.kind with
  | .u8 => 1
  | .u32 => 4
  | .u64 => 8
  | .str => (e.get it.field).byt.length + 2
  | .bytes => (e.get it.field).byt.length
  | .seq => seqSize e.v

/-- meaning of a size layout -/
def interpSize (e : Env) (items : List Item) : Nat :=
  (items.map fun it => if evalGuard e it.guard then sizeItem e it else 0).sum

/-! field accessors by Go field name -/

def Connect.val (p : Connect) : String → Val
  | "Version" => .n p.version | "DeviceFlag" => .n p.deviceFlag | "DeviceID" => .b p.deviceID
  | "UID" => .b p.uid | "Token" => .b p.token | "ClientTimestamp" => .n p.clientTimestamp
  | "ClientKey" => .b p.clientKey | _ => .none

def Connack.val (p : Connack) : String → Val
  | "ServerVersion" => .n p.serverVersion | "TimeDiff" => .n p.timeDiff | "ReasonCode" => .n p.reasonCode
  | "ServerKey" => .b p.serverKey | "Salt" => .b p.salt | "NodeId" => .n p.nodeId | _ => .none

def Send.val (p : Send) : String → Val
  | "Setting" => .n p.setting | "ClientSeq" => .n p.clientSeq | "ClientMsgNo" => .b p.clientMsgNo
  | "StreamNo" => .b p.streamNo | "ChannelID" => .b p.channelID | "ChannelType" => .n p.channelType
  | "Expire" => .n p.expire | "MsgKey" => .b p.msgKey | "Topic" => .b p.topic | "Payload" => .b p.payload
  | _ => .none

def Sendack.val (p : Sendack) : String → Val
  | "MessageID" => .n p.messageID | "ClientSeq" => .n p.clientSeq | "MessageSeq" => .n p.messageSeq
  | "ReasonCode" => .n p.reasonCode | "ClientMsgNo" => .b p.clientMsgNo | _ => .none

def Recv.val (p : Recv) : String → Val
  | "Setting" => .n p.setting | "MsgKey" => .b p.msgKey | "FromUID" => .b p.fromUID
  | "ChannelID" => .b p.channelID | "ChannelType" => .n p.channelType | "Expire" => .n p.expire
  | "ClientMsgNo" => .b p.clientMsgNo | "StreamFlag" => .n p.streamFlag | "StreamNo" => .b p.streamNo
  | "StreamId" => .n p.streamId | "MessageID" => .n p.messageID | "MessageSeq" => .n p.messageSeq
  | "Timestamp" => .n p.timestamp | "Topic" => .b p.topic | "Payload" => .b p.payload | _ => .none

def Recvack.val (p : Recvack) : String → Val
  | "MessageID" => .n p.messageID | "MessageSeq" => .n p.messageSeq | _ => .none

def Disconnect.val (p : Disconnect) : String → Val
  | "ReasonCode" => .n p.reasonCode | "Reason" => .b p.reason | _ => .none

def Sub.val (p : Sub) : String → Val
  | "Setting" => .n p.setting | "SubNo" => .b p.subNo | "ChannelID" => .b p.channelID
  | "ChannelType" => .n p.channelType | "Action" => .n p.action | "Param" => .b p.param | _ => .none

def Suback.val (p : Suback) : String → Val
  | "SubNo" => .b p.subNo | "ChannelID" => .b p.channelID | "ChannelType" => .n p.channelType
  | "Action" => .n p.action | "ReasonCode" => .n p.reasonCode | _ => .none

def Event.val (p : Event) : String → Val
  | "Id" => .b p.id | "Type" => .b p.type | "Timestamp" => .n p.timestamp | "Data" => .b p.data | _ => .none

end WK.C22

import WK.Model.C09
/-
  C11 — record-level model of the portable message backup stream
  (pkg/db/message/backup_snapshot.go, backup_stream_import.go).  The byte layout
  is NOT modelled; a stream is the list of channel records the writer emits,
  the CRC-32 trailer is an abstract checksum parameter in the theorems.
  The store is C09's typed key/value store.  Core only.
-/
namespace WK.C11
open WK.C09

/-- one `BackupChannelCut`: channel and the committed boundary (epoch, logStart, hw) to export -/
structure Cut where
  ch : Nat
  ep : Nat
  st : Nat
  hw : Nat
  deriving DecidableEq, Repr

/-- one channel section of the stream -/
structure ChanRec where
  ch : Nat
  ep : Nat
  st : Nat
  hw : Nat
  /-- system entries copied verbatim (everything except the checkpoint; proposals / entry identities only ≤ hw) -/
  sys : List (Key × Val)
  /-- the declared message count -/
  count : Nat
  /-- committed rows (seq, row value), ascending -/
  rows : List (Nat × Val)
  deriving DecidableEq, Repr

/-- `snapshotBackupSystemEntries`: which system keys of the channel are exported for boundary hw -/
def sysKeep (ch hw : Nat) : Key × Val → Bool
  | (.ret c, _) => c == ch
  | (.cur c, _) => c == ch
  | (.pl c last, _) => c == ch && last ≤ hw
  | (.pc c _, .prop _ l _ _ _) => c == ch && l ≤ hw
  | (.ent c i, _) => c == ch && i ≤ hw
  | _ => false

/-- a proposal that straddles the boundary makes the export fail closed -/
def straddles (s : Store) (ch hw : Nat) : Bool :=
  s.any (fun e => match e with
    | (.pl c _, .prop b l _ _ _) => c == ch && b < hw && l > hw
    | (.pc c _, .prop b l _ _ _) => c == ch && b < hw && l > hw
    | _ => false)

/-- the exported retention state never carries a LEO floor above the cut: RetainedMaxSeq is clamped to
    max hw LocalRetentionThroughSeq (fix d22c43ed1 in snapshotBackupSystemEntries) -/
def clampRet (hw : Nat) : Key × Val → Key × Val
  | (.ret c, .ret l p m) => if m > hw then (.ret c, .ret l p (max hw l)) else (.ret c, .ret l p m)
  | e => e

def rowsUpTo (s : Store) (ch hw : Nat) : List (Nat × Val) :=
  (sortedSeqs s ch).filterMap (fun q => if 1 ≤ q ∧ q ≤ hw then (get s (.row ch q)).map (fun v => (q, v)) else none)

def exportCh (s : Store) (c : Cut) : Option ChanRec :=
  if c.st > c.hw then none
  else if c.hw > leo s c.ch then none
  else if straddles s c.ch c.hw then none
  else
    let rows := rowsUpTo s c.ch c.hw
    some ⟨c.ch, c.ep, c.st, c.hw, (s.filter (sysKeep c.ch c.hw)).map (clampRet c.hw), rows.length, rows⟩

def exportAll (s : Store) : List Cut → Option (List ChanRec)
  | [] => some []
  | c :: cs =>
    match exportCh s c, exportAll s cs with
    | some r, some rs => some (r :: rs)
    | _, _ => none

def rowRec : Val → Option Rec
  | .row id f c fl p => some ⟨id, f, c, fl, p⟩
  | _ => none

/-- what the importer writes for one channel section: catalog, checkpoint, system entries, then
    every row with its index entries (`stageMessageRow`) — several synced batches, all puts -/
def chanWrites (r : ChanRec) : List W :=
  [W.put (.cat r.ch) (.nat 1), W.put (.ckpt r.ch) (.ckpt r.ep r.st r.hw)] ++
  r.sys.map (fun e => W.put e.1 e.2) ++
  (r.rows.map (fun (q, v) => match rowRec v with | some x => rowWrites r.ch q x | none => [])).flatten

def importWrites (recs : List ChanRec) : List W := (recs.map chanWrites).flatten

/-- record-level validity of one section (`readMessageBackupStreamRow`, `parseMessageBackupStream`) -/
def seqsOk (hw : Nat) : Nat → List (Nat × Val) → Bool
  | _, [] => true
  | prev, (q, v) :: rest =>
    q != 0 && q ≤ hw && (prev == 0 || prev < q) && (rowRec v).isSome && seqsOk hw q rest

def chanValid (r : ChanRec) : Bool :=
  r.st ≤ r.hw && r.count == r.rows.length && seqsOk r.hw 0 r.rows &&
  r.sys.all (fun e => sysKeep r.ch r.hw e)

def chansAscending : List ChanRec → Bool
  | a :: b :: rest => a.ch < b.ch && chansAscending (b :: rest)
  | _ => true

def streamValid (recs : List ChanRec) : Bool := recs.all chanValid && chansAscending recs

/-- the existing checkpoint of a restore target must be absent or equal (idempotent replay) -/
def conflicts (t : Store) (recs : List ChanRec) : Bool :=
  recs.any (fun r => match get t (.ckpt r.ch) with
    | some v => v != .ckpt r.ep r.st r.hw
    | none => false)

/-- `ImportBackupSnapshotReader`: validate the whole stream first, then apply -/
def importStream (t : Store) (recs : List ChanRec) : Option Store :=
  if !streamValid recs then none
  else if conflicts t recs then none
  else some (applyBatch t (importWrites recs))

def msgCount (recs : List ChanRec) : Nat := (recs.map (·.rows.length)).foldl (· + ·) 0

def maxId (recs : List ChanRec) : Nat :=
  (recs.map (fun r => (r.rows.map (fun e => match e.2 with | .row id _ _ _ _ => id | _ => 0)).foldl max 0)).foldl max 0

end WK.C11

import WK.Prelude.Hex
/-
  C27 — model of the shared codec primitives (encoding/binary uvarint/varint,
  the exchange cursor of pkg/channel/replication/codec.go: byte / bool / count /
  sliceCount / length-prefixed bytes with the declared 4 MiB bound) and, fully,
  the small codecs pkg/cluster/propose/codec.go and pkg/cluster/net/codec.go.
  Core only; hand model tied by D (every op is run on the real code).
-/
namespace WK.C27

/-! ## uvarint / varint (encoding/binary) -/

/-- `binary.AppendUvarint(nil, x)` -/
def putUvarint (x : Nat) : Bytes :=
  if h : x < 128 then [UInt8.ofNat x]
  else UInt8.ofNat (x % 128 + 128) :: putUvarint (x / 128)
termination_by x
decreasing_by omega

/-- the loop of `binary.Uvarint`: `i` bytes consumed so far, shift `7*i`, accumulator `acc`.
    `none` = size ≤ 0 (buffer too small, or 64-bit overflow), which every caller treats as failure. -/
def uvarintAux : Bytes → Nat → Nat → Option (Nat × Nat)
  | [], _, _ => none
  | b :: rest, i, acc =>
    if i = 10 then none
    else if b.toNat < 128 then
      (if i = 9 ∧ b.toNat > 1 then none else some (acc + b.toNat * 2 ^ (7 * i), i + 1))
    else uvarintAux rest (i + 1) (acc + (b.toNat % 128) * 2 ^ (7 * i))

/-- `binary.Uvarint(buf)` as (value, size) -/
def uvarint (buf : Bytes) : Option (Nat × Nat) := uvarintAux buf 0 0

/-- `binary.Varint`: zig-zag on top of uvarint -/
def varint (buf : Bytes) : Option (Int × Nat) :=
  match uvarint buf with
  | none => none
  | some (ux, n) => some (if ux % 2 = 0 then ((ux / 2 : Nat) : Int) else -((ux / 2 : Nat) : Int) - 1, n)

/-! ## exchange cursor primitives (at offset 0 of `data`) -/

def maxExchangeBatchBytes : Nat := 4 * 2 ^ 20
def maxInt : Nat := 2 ^ 63 - 1

def cByte : Bytes → Option (UInt8 × Nat)
  | [] => none
  | b :: _ => some (b, 1)

def cBool (d : Bytes) : Option (Bool × Nat) :=
  match cByte d with
  | some (b, n) => if b.toNat ≤ 1 then some (b.toNat == 1, n) else none
  | none => none

def cCount (d : Bytes) (maximum : Nat) : Option (Nat × Nat) :=
  match uvarint d with
  | some (v, n) => if v > maximum ∨ v > maxInt then none else some (v, n)
  | none => none

/-- (count, isNil, offset) -/
def cSliceCount (d : Bytes) (maximum : Nat) : Option (Nat × Bool × Nat) :=
  match uvarint d with
  | none => none
  | some (v, n) =>
    if v = 0 then some (0, true, n)
    else if v - 1 > maximum ∨ v - 1 > maxInt then none else some (v - 1, false, n)

/-- `cursor.bytes`: declared length bounded by 4 MiB and by what is left -/
def cBytes (d : Bytes) : Option (Bytes × Nat) :=
  match cCount d maxExchangeBatchBytes with
  | none => none
  | some (cnt, n) => if cnt > d.length - n then none else some ((d.drop n).take cnt, n + cnt)

def cFixed32 (d : Bytes) : Option (Bytes × Nat) :=
  if d.length < 32 then none else some (d.take 32, 32)

/-- `appendCodecBytes(nil, v)` -/
def putBytes (v : Bytes) : Bytes := putUvarint v.length ++ v

/-! ## pkg/cluster/propose/codec.go -/

def be16 (v : Nat) : Bytes := [UInt8.ofNat (v / 256), UInt8.ofNat v]
def be32 (v : Nat) : Bytes := [UInt8.ofNat (v / 16777216), UInt8.ofNat (v / 65536), UInt8.ofNat (v / 256), UInt8.ofNat v]
def rdBE : Bytes → Nat
  | [] => 0
  | b :: rest => b.toNat * 256 ^ rest.length + rdBE rest

/-- EncodePayload -/
def encodePayload (hashSlot : Nat) (command : Bytes) : Bytes := 1 :: be16 hashSlot ++ command

/-- DecodePayload -/
def decodePayload (p : Bytes) : Option (Nat × Bytes) :=
  if p.length < 3 ∨ p.headD 0 ≠ 1 then none
  else some (rdBE ((p.drop 1).take 2), p.drop 3)

structure Fwd where
  slotID : Nat
  hashSlot : Nat
  cls : Nat
  want : Bool
  payload : Bytes
  deriving DecidableEq, Repr

/-- normalizeProposalClass: Background (1) stays, everything else is Foreground (0) -/
def normClass (c : Nat) : Nat := if c = 1 then 1 else 0

/-- EncodeForwardRequest (`none` = ErrInvalidRequest) -/
def encodeForward (r : Fwd) : Option Bytes :=
  if r.slotID = 0 ∨ r.payload.length = 0 then none
  else some ([3, UInt8.ofNat (normClass r.cls), if r.want then 1 else 0] ++ be32 r.slotID ++ be16 r.hashSlot ++
    be32 (r.payload.length % 2 ^ 32) ++ r.payload)

/-- DecodeForwardRequest (`none` = ErrInvalidPayload) -/
def decodeForward (d : Bytes) : Option Fwd :=
  if d.length < 11 then none else
  match d.headD 0 with
  | 1 =>
    if rdBE ((d.drop 7).take 4) ≠ d.length - 11 then none
    else some ⟨rdBE ((d.drop 1).take 4), rdBE ((d.drop 5).take 2), 0, false, d.drop 11⟩
  | 2 =>
    if d.length < 12 then none
    else if rdBE ((d.drop 8).take 4) ≠ d.length - 12 then none
    else some ⟨rdBE ((d.drop 2).take 4), rdBE ((d.drop 6).take 2), normClass (d.getD 1 0).toNat, false, d.drop 12⟩
  | 3 =>
    if d.length < 13 then none
    else if rdBE ((d.drop 9).take 4) ≠ d.length - 13 then none
    else some ⟨rdBE ((d.drop 3).take 4), rdBE ((d.drop 7).take 2), normClass (d.getD 1 0).toNat,
      (d.getD 2 0).toNat % 2 = 1, d.drop 13⟩
  | _ => none

/-! ## pkg/cluster/net/codec.go -/

def putHeader (buf : Bytes) (version kind : Nat) : Bytes := buf ++ [UInt8.ofNat version, UInt8.ofNat kind]

def checkHeader (d : Bytes) (wantVersion wantKind : Nat) : Option Bytes :=
  if d.length < 2 then none
  else if (d.getD 0 0).toNat ≠ wantVersion then none
  else if (d.getD 1 0).toNat ≠ wantKind then none
  else some (d.drop 2)

end WK.C27

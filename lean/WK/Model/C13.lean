import WK.Spec.C13
/-
  C13 — executable model of `stateMachine.ApplyBatch` (pkg/slot/fsm/statemachine.go)
  over an abstract staged KV.  Core only.

  One write batch: every command is staged on top of the previous ones'
  staged writes (read-your-writes overlay = the threaded `kv`); the first
  refusal aborts the whole batch with nothing written; the applied index of
  the last command is staged last; a stale commit of a multi-command batch is
  replayed one command at a time (`applyCommandsIndividuallyAfterStaleCommit`).
-/
namespace WK.C13

/-- the staging loop: `(staged kv, results, some command was commit-stale)` or the first refusal -/
def stage {κ : Type} (cfg : Cfg) (deltaHS : Bytes → Except Err Nat) (one : One κ) :
    κ → List Cmd → Except Err (κ × List Result × Bool)
  | kv, [] => .ok (kv, [], false)
  | kv, c :: cs =>
    if c.slot ≠ cfg.slot then .error .invalid else
    match resolveHashSlot cfg deltaHS c with
    | .error e => .error e
    | .ok hs =>
      match one kv hs c with
      | .error e => .error e
      | .done kv' r =>
        (match stage cfg deltaHS one kv' cs with
         | .error e => .error e
         | .ok (kv'', rs, st) => .ok (kv'', r :: rs, st))
      | .commitStale =>
        (match stage cfg deltaHS one kv cs with
         | .error e => .error e
         | .ok (kv'', rs, _) => .ok (kv'', staleResult :: rs, true))

/-- `applyCommandsIndividuallyAfterStaleCommit`: singletons; a stale-class refusal
    of a singleton becomes the `stale` result, any other refusal aborts with what
    was already applied kept -/
def individually {κ : Type} (cfg : Cfg) (deltaHS : Bytes → Except Err Nat) (one : One κ) :
    St κ → List Cmd → St κ × List Result × Option Err
  | st, [] => (st, [], none)
  | st, c :: cs =>
    match stepOne cfg deltaHS one st c with
    | .error e =>
      if e.staleClass then
        let (st'', rs, e') := individually cfg deltaHS one st cs
        (st'', staleResult :: rs, e')
      else (st, [], some e)
    | .ok (st', r) =>
      let (st'', rs, e') := individually cfg deltaHS one st' cs
      (st'', r :: rs, e')

def lastIndex (cs : List Cmd) : Nat :=
  match cs.getLast? with
  | some c => c.index
  | none => 0

/-- `ApplyBatch`: state reached, results (meaningful when no error), error -/
def applyBatch {κ : Type} (cfg : Cfg) (deltaHS : Bytes → Except Err Nat) (one : One κ)
    (st : St κ) (cs : List Cmd) : St κ × List Result × Option Err :=
  match stage cfg deltaHS one st.kv cs with
  | .error e => (st, [], some e)
  | .ok (kv, rs, commitStale) =>
    if commitStale then
      (match cs with
       | [_] => (st, [staleResult], none)
       | _ => individually cfg deltaHS one st cs)
    else
      ({ kv := kv, applied := if lastIndex cs > 0 then lastIndex cs else st.applied }, rs, none)

/-- `Snapshot` / `Restore` over an abstract KV codec -/
def snapshot {κ : Type} (enc : κ → Bytes) (st : St κ) : Nat × Bytes := (st.applied, enc st.kv)

def restore {κ : Type} (dec : Bytes → Option κ) (st : St κ) (snap : Nat × Bytes) : Option (St κ) :=
  match dec snap.2 with
  | none => none
  | some kv => some { kv := kv, applied := if snap.1 = 0 then st.applied else snap.1 }

/-- restart: the driver replays only what lies above the durable applied index -/
def replayTail (applied : Nat) (log : List Cmd) : List Cmd := log.filter (fun c => c.index > applied)

/-! ### the fence / pending-migration-state overlay of ApplyBatch, explicitly
    (statemachine.go: isHashSlotFenced, stageMigrationFence, applyMigrationOutboxAck,
    applyMigrationOutboxCleanup, loadOrCreateMigrationState) -/

/-- migration row of a hash slot as far as fencing goes: `none` = no row, `some f` = a row, fenced iff `f` -/
abbrev Mig := Option Bool

inductive FKind where
  | fence      -- EnterFence
  | ack        -- AckMigrationOutbox
  | cleanup    -- CleanupMigrationOutbox that covers the whole outbox (deletes the row)
  | normal     -- any command subject to the fence
deriving DecidableEq, Repr

structure FCmd where
  kind : FKind
  hs : Nat
deriving DecidableEq, Repr

/-- batch-local state: `pending` = the Go map pendingMigrationStates (EXISTING rows only),
    `staged` = what the write batch will do to the row at commit (upsert / delete) -/
structure FBatch where
  pending : Nat → Option Bool := fun _ => none
  staged : Nat → Option Mig := fun _ => none

def upd {α : Type} (f : Nat → α) (k : Nat) (v : α) : Nat → α := fun x => if x = k then v else f x

/-- the view every lookup in the batch loop uses: the pending map, else the COMMITTED db -/
def viewCode (db : Nat → Mig) (b : FBatch) (hs : Nat) : Mig :=
  match b.pending hs with
  | some f => some f
  | none => db hs

/-- a read-your-writes view: what the write batch has staged, else the committed db -/
def viewTrue (db : Nat → Mig) (b : FBatch) (hs : Nat) : Mig :=
  match b.staged hs with
  | some m => m
  | none => db hs

/-- one command of the batch loop under a given view; returns the new batch state and
    whether the command was answered `fenced` (only `normal` commands can be) -/
def fstepB (view : (Nat → Mig) → FBatch → Nat → Mig) (db : Nat → Mig) (b : FBatch) (c : FCmd) : FBatch × Bool :=
  match c.kind with
  | .normal => (b, view db b c.hs == some true)
  | .fence =>
    (match view db b c.hs with
     | some true => (b, false)
     | _ => ({ pending := upd b.pending c.hs (some true), staged := upd b.staged c.hs (some (some true)) }, false))
  | .ack =>
    (match view db b c.hs with
     | none => (b, false)
     | some f => ({ pending := upd b.pending c.hs (some f), staged := upd b.staged c.hs (some (some f)) }, false))
  | .cleanup =>
    (match view db b c.hs with
     | none => (b, false)
     | some _ =>
       -- DeleteHashSlotMigrationState staged; `delete(pendingStates, hashSlot)`
       ({ pending := upd b.pending c.hs none, staged := upd b.staged c.hs (some none) }, false))

def commitF (db : Nat → Mig) (b : FBatch) : Nat → Mig := fun hs => viewTrue db b hs

/-- one ApplyBatch: fenced flags of its commands and the committed rows -/
def runBatchF (view : (Nat → Mig) → FBatch → Nat → Mig) (db : Nat → Mig) (cs : List FCmd) : List Bool × (Nat → Mig) :=
  let r := cs.foldl (fun (acc : FBatch × List Bool) c =>
    let (b', f) := fstepB view db acc.1 c
    (b', acc.2 ++ [f])) (({} : FBatch), [])
  (r.2, commitF db r.1)

/-- the reference: every command in its own batch -/
def seqF (view : (Nat → Mig) → FBatch → Nat → Mig) (db : Nat → Mig) : List FCmd → List Bool × (Nat → Mig)
  | [] => ([], db)
  | c :: cs =>
    let (f1, db1) := runBatchF view db [c]
    let (fs, db2) := seqF view db1 cs
    (f1 ++ fs, db2)

/-- the exception: a cleanup followed, in the same batch, by another command of the same hash slot -/
def cleanupThenSameSlot : List FCmd → Bool
  | [] => false
  | c :: cs => (c.kind == .cleanup && cs.any (fun d => d.hs == c.hs)) || cleanupThenSameSlot cs

/-- the batch loop as a fold from an arbitrary batch state -/
def foldF (view : (Nat → Mig) → FBatch → Nat → Mig) (db : Nat → Mig) (b : FBatch) (fl : List Bool) (cs : List FCmd) :
    FBatch × List Bool :=
  cs.foldl (fun (acc : FBatch × List Bool) c =>
    let (b', f) := fstepB view db acc.1 c
    (b', acc.2 ++ [f])) (b, fl)

/-! ### batches that contain refused commands -/

section Refused
variable {κ : Type} (cfg : Cfg) (d : Bytes → Except Err Nat) (one : One κ)

/-- the reference for logs with refused commands: one at a time, a refused command is
    skipped (what a restarted replica does after the slot failed on it) -/
def seqSkip : St κ → List Cmd → St κ
  | st, [] => st
  | st, c :: cs =>
    match stepOne cfg d one st c with
    | .error _ => seqSkip st cs
    | .ok (st', _) => seqSkip st' cs

/-- one ApplyBatch; if it is refused, resume one at a time above the durable applied index -/
def runBatchResume (st : St κ) (cs : List Cmd) : St κ :=
  match applyBatch cfg d one st cs with
  | (st', _, none) => st'
  | (st', _, some _) => seqSkip cfg d one st' (replayTail st'.applied cs)

end Refused


end WK.C13

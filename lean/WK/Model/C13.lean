import WK.Spec.C13
/-
  C13 — executable model of `stateMachine.ApplyBatch` (pkg/slot/fsm/statemachine.go)
  over an abstract staged KV.  Core only.

  One write batch: every command is staged on top of the previous ones'
  staged writes (read-your-writes overlay = the threaded `kv`); the first
  refusal aborts the whole batch with nothing written; the applied index of
  the last command is staged last; a stale commit of a multi-command batch is
  replayed one command at a time (`applyCommandsIndividuallyAfterStaleCommit`).
-/
namespace WK.C13

/-- the staging loop: `(staged kv, results, some command was commit-stale)` or the first refusal -/
def stage {κ : Type} (cfg : Cfg) (deltaHS : Bytes → Except Err Nat) (one : One κ) :
    κ → List Cmd → Except Err (κ × List Result × Bool)
  | kv, [] => .ok (kv, [], false)
  | kv, c :: cs =>
    if c.slot ≠ cfg.slot then .error .invalid else
    match resolveHashSlot cfg deltaHS c with
    | .error e => .error e
    | .ok hs =>
      match one kv hs c with
      | .error e => .error e
      | .done kv' r =>
        (match stage cfg deltaHS one kv' cs with
         | .error e => .error e
         | .ok (kv'', rs, st) => .ok (kv'', r :: rs, st))
      | .commitStale =>
        (match stage cfg deltaHS one kv cs with
         | .error e => .error e
         | .ok (kv'', rs, _) => .ok (kv'', staleResult :: rs, true))

/-- `applyCommandsIndividuallyAfterStaleCommit`: singletons; a stale-class refusal
    of a singleton becomes the `stale` result, any other refusal aborts with what
    was already applied kept -/
def individually {κ : Type} (cfg : Cfg) (deltaHS : Bytes → Except Err Nat) (one : One κ) :
    St κ → List Cmd → St κ × List Result × Option Err
  | st, [] => (st, [], none)
  | st, c :: cs =>
    match stepOne cfg deltaHS one st c with
    | .error e =>
      if e.staleClass then
        let (st'', rs, e') := individually cfg deltaHS one st cs
        (st'', staleResult :: rs, e')
      else (st, [], some e)
    | .ok (st', r) =>
      let (st'', rs, e') := individually cfg deltaHS one st' cs
      (st'', r :: rs, e')

def lastIndex (cs : List Cmd) : Nat :=
  match cs.getLast? with
  | some c => c.index
  | none => 0

/-- `ApplyBatch`: state reached, results (meaningful when no error), error -/
def applyBatch {κ : Type} (cfg : Cfg) (deltaHS : Bytes → Except Err Nat) (one : One κ)
    (st : St κ) (cs : List Cmd) : St κ × List Result × Option Err :=
  match stage cfg deltaHS one st.kv cs with
  | .error e => (st, [], some e)
  | .ok (kv, rs, commitStale) =>
    if commitStale then
      (match cs with
       | [_] => (st, [staleResult], none)
       | _ => individually cfg deltaHS one st cs)
    else
      ({ kv := kv, applied := if lastIndex cs > 0 then lastIndex cs else st.applied }, rs, none)

/-- `Snapshot` / `Restore` over an abstract KV codec -/
def snapshot {κ : Type} (enc : κ → Bytes) (st : St κ) : Nat × Bytes := (st.applied, enc st.kv)

def restore {κ : Type} (dec : Bytes → Option κ) (st : St κ) (snap : Nat × Bytes) : Option (St κ) :=
  match dec snap.2 with
  | none => none
  | some kv => some { kv := kv, applied := if snap.1 = 0 then st.applied else snap.1 }

/-- restart: the driver replays only what lies above the durable applied index -/
def replayTail (applied : Nat) (log : List Cmd) : List Cmd := log.filter (fun c => c.index > applied)

end WK.C13

import WK.Prelude.Hex
/-
  C07 — executable model of pkg/db/message's ChannelLog (one engine, several
  channels).  Core only.  The model mirrors the code branch for branch:

    * durable state = what the Pebble batches write: message rows (ascending
      by seq = key order), the four secondary indexes as explicit maps, the
      retention state, the checkpoint;
    * volatile state = channelEntry.leo/loaded (`leoC`).  Closing a lease keeps
      it (channelRegistry warm cache, 8192 entries), re-opening the whole DB
      forgets it (`recoverLEO` runs again).

  Pebble is a linearizable map with atomic batches (trusted): every mutation
  below is one function State → State.
  Shared by C08 and C10.
-/
namespace WK.C07

abbrev B := WK.Bytes

structure Rec where
  id : Nat
  frm : B
  cmn : B
  payload : B
  ts : Nat
deriving DecidableEq, Repr, Inhabited

structure Row where
  seq : Nat
  id : Nat
  frm : B
  cmn : B
  payload : B
  ts : Nat
  hash : Nat
deriving DecidableEq, Repr, Inhabited

structure Ret where
  loc : Nat
  phys : Nat
  max : Nat
deriving DecidableEq, Repr, Inhabited

structure Ckpt where
  epoch : Nat
  lso : Nat
  hw : Nat
deriving DecidableEq, Repr, Inhabited

inductive Err | invalid | conflict | corruptstate | corruptvalue
deriving DecidableEq, Repr, Inhabited

/-- FNV-64a, `hashPayload` of row.go -/
def fnv64 (p : B) : UInt64 :=
  p.foldl (fun h b => (h ^^^ b.toUInt64) * 1099511628211) 14695981039346656037

/-- `recordToRow` + `normalizeMessageRow`: the unset hash is filled with FNV-64a of the payload
    (also for an empty payload, since the repair of the empty-payload defect) -/
def mkRow (seq : Nat) (r : Rec) : Row :=
  { seq := seq, id := r.id, frm := r.frm, cmn := r.cmn, payload := r.payload, ts := r.ts,
    hash := (fnv64 r.payload).toNat }

/-- `validateMaterializedMessageRow` -/
def rowCheck (r : Row) : Except Err Unit :=
  if r.id = 0 then .error .corruptvalue
  else if r.hash ≠ (fnv64 r.payload).toNat then .error .corruptstate
  else .ok ()

/-! association lists (Pebble keys of one index) -/
def alookup {κ ν} [DecidableEq κ] (k : κ) : List (κ × ν) → Option ν
  | [] => none
  | (k', v) :: t => if k' = k then some v else alookup k t

def adel {κ ν} [DecidableEq κ] (k : κ) (l : List (κ × ν)) : List (κ × ν) :=
  l.filter (fun p => p.1 ≠ k)

def aput {κ ν} [DecidableEq κ] (k : κ) (v : ν) (l : List (κ × ν)) : List (κ × ν) :=
  (k, v) :: adel k l

structure Chan where
  rows : List Row := []
  /-- legacy client-msg-no index (sender-less rows): (cmn, seq) ↦ () -/
  cidx : List ((B × Nat) × Unit) := []
  /-- idempotency index: (cmn, from) ↦ (seq, id, hash) -/
  iidx : List ((B × B) × (Nat × Nat × Nat)) := []
  /-- sender-seq index: (from, seq) ↦ id -/
  sidx : List ((B × Nat) × Nat) := []
  ret : Option Ret := none
  ck : Option Ckpt := none
  leoC : Option Nat := none
deriving Repr, Inhabited

structure Store where
  chans : List Chan
  /-- global message-id index: id ↦ (channel, seq) -/
  gidx : List (Nat × (Nat × Nat)) := []
deriving Repr, Inhabited

def numChan : Nat := 4
def Store.init : Store := { chans := List.replicate numChan {} }

def Store.chan (st : Store) (c : Nat) : Chan := st.chans.getD c {}
def Store.setChan (st : Store) (c : Nat) (ch : Chan) : Store := { st with chans := st.chans.set c ch }

/-! ### LEO -/
def maxSeq (rows : List Row) : Nat := rows.foldl (fun m r => if r.seq > m then r.seq else m) 0

/-- `recoverLEO`: highest row seq, raised to RetainedMaxSeq -/
def recoverLEO (ch : Chan) : Nat :=
  let leo := maxSeq ch.rows
  match ch.ret with
  | some r => if r.max > leo then r.max else leo
  | none => leo

/-- `loadLEOLocked` -/
def loadLEO (ch : Chan) : Nat × Chan :=
  match ch.leoC with
  | some l => (l, ch)
  | none => let l := recoverLEO ch; (l, { ch with leoC := some l })

/-! ### scans -/
/-- `appendReadMessage` / the flush of readRowsRaw: (acc, bytes) → row → stop? -/
def scanGo (limit maxBytes : Nat) : List Row → List Row → Nat → Except Err (List Row)
  | [], acc, _ => .ok acc.reverse
  | r :: rest, acc, total =>
    match rowCheck r with
    | .error e => .error e
    | .ok () =>
      if maxBytes > 0 ∧ acc.length > 0 ∧ total + r.payload.length > maxBytes then .ok acc.reverse
      else
        let acc' := r :: acc
        if limit > 0 ∧ acc'.length ≥ limit then .ok acc'.reverse
        else scanGo limit maxBytes rest acc' (total + r.payload.length)

/-- rows with fromSeq ≤ seq (and seq ≤ maxSeq when maxSeq > 0), in key order -/
def window (rows : List Row) (fromSeq maxS : Nat) : List Row :=
  rows.filter (fun r => fromSeq ≤ r.seq ∧ (maxS = 0 ∨ r.seq ≤ maxS))

/-- `readMessagesRaw` / `readRowsRaw` -/
def readForward (rows : List Row) (fromSeq maxS limit maxBytes : Nat) : Except Err (List Row) :=
  scanGo limit maxBytes (window rows fromSeq maxS) [] 0

/-- the reverse pass of `ReadReverse` (no validation: rows were validated by the forward read) -/
def revGo (limit maxBytes : Nat) : List Row → List Row → Nat → List Row
  | [], acc, _ => acc.reverse
  | r :: rest, acc, total =>
    if maxBytes > 0 ∧ acc.length > 0 ∧ total + r.payload.length > maxBytes then acc.reverse
    else
      let acc' := r :: acc
      if limit > 0 ∧ acc'.length ≥ limit then acc'.reverse
      else revGo limit maxBytes rest acc' (total + r.payload.length)

/-- `getRowBySeq` -/
def getRow (rows : List Row) (seq : Nat) : Except Err (Option Row) :=
  if seq = 0 then .error .invalid
  else match rows.find? (fun r => r.seq = seq) with
    | none => .ok none
    | some r => match rowCheck r with
      | .error e => .error e
      | .ok () => .ok (some r)

/-! ### staging -/
/-- `stageMessageRow` (FramerFlags is always 0 on the ChannelLog path: `recordToRow` never sets it) -/
def stageRow (c : Nat) (st : Store) (row : Row) : Store :=
  let ch := st.chan c
  let ch := { ch with rows := ch.rows ++ [row] }
  let ch := if row.cmn ≠ [] ∧ row.frm = [] then { ch with cidx := aput (row.cmn, row.seq) () ch.cidx } else ch
  let ch := if row.frm ≠ [] ∧ row.cmn ≠ [] then { ch with iidx := aput (row.cmn, row.frm) (row.seq, row.id, row.hash) ch.iidx } else ch
  let ch := if row.frm ≠ [] then { ch with sidx := aput (row.frm, row.seq) row.id ch.sidx } else ch
  { (st.setChan c ch) with gidx := aput row.id (c, row.seq) st.gidx }

/-- `stageDeleteMessage`: every delete is unconditional (keyed by the row's own fields) -/
def deleteRow (c : Nat) (st : Store) (row : Row) : Store :=
  let ch := st.chan c
  let ch := { ch with rows := ch.rows.filter (fun r => r.seq ≠ row.seq) }
  let ch := if row.cmn ≠ [] ∧ row.frm = [] then { ch with cidx := adel (row.cmn, row.seq) ch.cidx } else ch
  let ch := if row.frm ≠ [] ∧ row.cmn ≠ [] then { ch with iidx := adel (row.cmn, row.frm) ch.iidx } else ch
  let ch := if row.frm ≠ [] then { ch with sidx := adel (row.frm, row.seq) ch.sidx } else ch
  let st := st.setChan c ch
  if row.id ≠ 0 then { st with gidx := adel row.id st.gidx } else st

/-! ### append validation -/
structure Seen where
  ids : List Nat := []
  keys : List (B × B) := []

/-- `lookupIdempotencyByKey` -/
def lookupIdem (ch : Chan) (frm cmn : B) : Except Err (Option (Nat × Nat × Nat)) :=
  match alookup (cmn, frm) ch.iidx with
  | none => .ok none
  | some (s, id, h) =>
    match getRow ch.rows s with
    | .error e => .error e
    | .ok none => .error .corruptstate
    | .ok (some r) =>
      if r.id ≠ id ∨ r.hash ≠ h ∨ r.frm ≠ frm ∨ r.cmn ≠ cmn then .error .corruptstate
      else .ok (some (s, id, h))

/-- `validateAppendRow` with the negative filter replaced by "always do the
    point read" (C08 proves the filter cannot change the result). -/
def validateRow (st : Store) (c : Nat) (mode : Nat) (seen : Seen) (row : Row) : Except Err Seen :=
  if row.id = 0 then .error .invalid
  else if seen.ids.contains row.id then .error .conflict
  else
    let seen := { seen with ids := row.id :: seen.ids }
    let strictOk : Bool :=
      if mode = 0 then
        match alookup row.id st.gidx with
        | some (c', s') => !(decide (c' ≠ c ∨ s' ≠ row.seq))
        | none => true
      else true
    if !strictOk then .error .conflict
    else if row.frm = [] ∨ row.cmn = [] then .ok seen
    else if seen.keys.contains (row.frm, row.cmn) then .error .conflict
    else
      let seen := { seen with keys := (row.frm, row.cmn) :: seen.keys }
      if mode = 2 then .ok seen
      else match lookupIdem (st.chan c) row.frm row.cmn with
        | .error e => .error e
        | .ok (some (s, _, _)) => if s ≠ row.seq then .error .conflict else .ok seen
        | .ok none => .ok seen

/-- the loop of `walkAppendRowsLocked` (validation reads the state BEFORE the batch) -/
def walkRows (st : Store) (c mode : Nat) : Nat → List Rec → Seen → List Row → Except Err (List Row)
  | _, [], _, acc => .ok acc.reverse
  | seq, r :: rest, seen, acc =>
    let row := mkRow seq r
    match validateRow st c mode seen row with
    | .error e => .error e
    | .ok seen' => walkRows st c mode (seq + 1) rest seen' (row :: acc)

inductive Out
  | ok | none
  | err (e : Err)
  | app (base last count : Nat)
  | trim (through deleted : Nat) (more : Bool)
  | num (n : Nat)
  | ret (r : Ret)
  | ck (k : Ckpt)
  | msgs (l : List Row)
  | msg (r : Row)
  | page (more : Bool) (next : Nat) (l : List Row)
  | hit (seq id off hash : Nat)
  | bad
deriving DecidableEq, Repr, Inhabited

/-- `walkAppendRowsLocked` up to the row list; returns the channel with the LEO cache loaded -/
def prepare (st : Store) (c mode base : Nat) (recs : List Rec) : Store × Except Err (List Row × Nat) :=
  if mode > 2 then (st, .error .invalid)
  else
    let (leo, ch) := loadLEO (st.chan c)
    let st := st.setChan c ch
    if base ≠ 0 ∧ base ≠ leo + 1 then (st, .error .conflict)
    else match walkRows st c mode (leo + 1) recs {} [] with
      | .error e => (st, .error e)
      | .ok rows => (st, .ok (rows, leo))

def setLeoC (st : Store) (c : Nat) (l : Nat) : Store :=
  st.setChan c { st.chan c with leoC := some l }

/-- `ChannelLog.Append` -/
def doAppend (st : Store) (c mode base : Nat) (recs : List Rec) : Store × Out :=
  match prepare st c mode base recs with
  | (st, .error e) => (st, .err e)
  | (st, .ok (rows, leo)) =>
    if rows.isEmpty then (st, .app 0 0 0)
    else
      let st := rows.foldl (stageRow c) st
      (setLeoC st c (leo + rows.length), .app (leo + 1) (leo + rows.length) rows.length)

/-- `validateCheckpointMonotonicLocked` -/
def ckptMonoOk (ch : Chan) (k : Ckpt) (vis leo : Nat) : Bool :=
  if k.lso > k.hw then false
  else if k.hw > vis then false
  else if k.hw > leo then false
  else match ch.ck with
    | none => true
    | some cur => !(k.hw < cur.hw ∨ k.lso < cur.lso ∨ k.epoch < cur.epoch)

/-- `ChannelLog.ApplyFetch` (no epoch point) -/
def doFetch (st : Store) (c base : Nat) (ck : Option Ckpt) (recs : List Rec) : Store × Out :=
  match prepare st c 2 base recs with
  | (st, .error e) => (st, .err e)
  | (st, .ok (rows, leo)) =>
    let vis := if rows.isEmpty then leo else leo + rows.length
    let ckOk := match ck with
      | some k => ckptMonoOk (st.chan c) k vis vis
      | none => true
    if !ckOk then (st, .err .corruptstate)
    else if rows.isEmpty ∧ ck.isNone then (st, .app 0 0 0)
    else
      let st := rows.foldl (stageRow c) st
      let st := match ck with
        | some k => st.setChan c { st.chan c with ck := some k }
        | none => st
      if rows.isEmpty then (st, .app 0 0 0)
      else (setLeoC st c (leo + rows.length), .app (leo + 1) (leo + rows.length) rows.length)

/-- `ChannelLog.TruncateFrom`.  NOTE: the retention state is not touched. -/
def doTrunc (st : Store) (c from_ : Nat) : Store × Out :=
  let from_ := if from_ = 0 then 1 else from_
  let (leo, ch) := loadLEO (st.chan c)
  let st := st.setChan c ch
  if from_ > leo then (st, .ok)
  else match readForward ch.rows from_ 0 0 0 with
    | .error e => (st, .err e)
    | .ok victims =>
      let st := victims.foldl (deleteRow c) st
      (setLeoC st c (from_ - 1), .ok)

/-- `validateRetentionState` -/
def retValid (r : Ret) : Bool :=
  !((r.loc = 0 ∧ r.max > 0) ∨ r.phys > r.loc ∨ (r.loc > 0 ∧ r.max < r.loc))

/-- `trimPrefixThroughLimit` with adoptBoundary = true -/
def doTrim (st : Store) (c through maxMsgs maxBytes : Nat) : Store × Out :=
  if through = 0 then (st, .trim 0 0 false)
  else
    let (leo, ch) := loadLEO (st.chan c)
    let st := st.setChan c ch
    let state : Ret := match ch.ret with | some r => r | none => ⟨0, 0, 0⟩
    let start := state.phys + 1
    let limit := if maxMsgs > 0 then maxMsgs + 1 else 0
    match readForward ch.rows start through limit maxBytes with
    | .error e => (st, .err e)
    | .ok rows =>
      let more1 : Bool := decide (maxMsgs > 0 ∧ rows.length > maxMsgs)
      let del := if more1 then rows.take maxMsgs else rows
      let lastBelow : Bool := match del.getLast? with | some r => decide (r.seq < through) | none => false
      let more2 : Bool := decide (maxBytes > 0) && lastBelow
      let more : Bool := more1 || more2
      let loc := if through > state.loc then through else state.loc
      let mx := if through > state.max then through else state.max
      let mx := if leo > mx then leo else mx
      let delThrough := match del.getLast? with | some r => r.seq | none => 0
      let phys :=
        if more = false ∧ through > state.phys then through
        else if delThrough > state.phys then delThrough else state.phys
      let next : Ret := ⟨loc, phys, mx⟩
      if !retValid next then (st, .err .corruptvalue)
      else
        let st := del.foldl (deleteRow c) st
        let st := st.setChan c { st.chan c with ret := some next }
        (setLeoC st c (if leo > next.max then leo else next.max), .trim delThrough del.length more)

def doCkpt (st : Store) (c : Nat) (k : Ckpt) : Store × Out :=
  if k.lso > k.hw then (st, .err .corruptstate)
  else (st.setChan c { st.chan c with ck := some k }, .ok)

def doCkptm (st : Store) (c : Nat) (k : Ckpt) (vis leo : Nat) : Store × Out :=
  if !ckptMonoOk (st.chan c) k vis leo then (st, .err .corruptstate)
  else (st.setChan c { st.chan c with ck := some k }, .ok)

/-- whole-DB reopen: only the volatile LEO caches are lost -/
def doReopen (st : Store) : Store :=
  { st with chans := st.chans.map (fun ch => { ch with leoC := none }) }

/-! ### observations -/
def doRead (st : Store) (c from_ limit maxBytes : Nat) : Store × Out :=
  let from_ := if from_ = 0 then 1 else from_
  match readForward (st.chan c).rows from_ 0 limit maxBytes with
  | .error e => (st, .err e)
  | .ok l => (st, .msgs l)

def doRRead (st : Store) (c from_ limit maxBytes : Nat) : Store × Out :=
  let (from_, st) :=
    if from_ = 0 then
      let (leo, ch) := loadLEO (st.chan c)
      (leo, st.setChan c ch)
    else (from_, st)
  match readForward (st.chan c).rows 1 from_ 0 0 with
  | .error e => (st, .err e)
  | .ok all => (st, .msgs (revGo limit maxBytes all.reverse [] 0))

def outOfGet (r : Except Err (Option Row)) : Out :=
  match r with
  | .error e => .err e
  | .ok none => .none
  | .ok (some r) => .msg r

def doGet (st : Store) (c seq : Nat) : Out := outOfGet (getRow (st.chan c).rows seq)

/-- `GetByMessageID` -/
def doByid (st : Store) (c id : Nat) : Out :=
  if id = 0 then .err .invalid
  else match alookup id st.gidx with
    | none => .none
    | some (c', s) =>
      if c' ≠ c then .none
      else match getRow (st.chan c).rows s with
        | .error e => .err e
        | .ok none => .err .corruptstate
        | .ok (some r) => if r.id ≠ id then .err .corruptstate else .msg r

/-- `GetLastVisibleMessage` -/
def doLastvis (st : Store) (c after : Nat) : Out :=
  match (st.chan c).rows.getLast? with
  | none => .none
  | some r => if r.seq ≤ after then .none else outOfGet (getRow (st.chan c).rows r.seq)

def insertDesc (x : Nat × Bool) : List (Nat × Bool) → List (Nat × Bool)
  | [] => [x]
  | y :: t => if x.1 > y.1 then x :: y :: t else y :: insertDesc x t

/-- resolve the indexed seqs of ListByClientMsgNo -/
def resolveCmn (rows : List Row) (cmn : B) : List (Nat × Bool) → List Row → Except Err (List Row)
  | [], acc => .ok acc.reverse
  | (s, allowMissing) :: t, acc =>
    match getRow rows s with
    | .error e => .error e
    | .ok none => if allowMissing then resolveCmn rows cmn t acc else .error .corruptstate
    | .ok (some r) => if r.cmn ≠ cmn then .error .corruptstate else resolveCmn rows cmn t (r :: acc)

/-- `ListByClientMsgNo` -/
def doBycmn (st : Store) (c : Nat) (cmn : B) (before limit : Nat) : Out :=
  if cmn = [] ∨ limit = 0 then .err .invalid
  else
    let ch := st.chan c
    let canon := (ch.iidx.filter (fun p => p.1.1 = cmn)).map (fun p => (p.2.1, true))
    let legacy := (ch.cidx.filter (fun p => p.1.1 = cmn)).map (fun p => (p.1.2, false))
    let seqs := (canon ++ legacy).filter (fun p => before = 0 ∨ p.1 < before)
    let sorted := seqs.foldl (fun acc x => insertDesc x acc) []
    match resolveCmn ch.rows cmn sorted [] with
    | .error e => .err e
    | .ok msgs =>
      if msgs.length > limit then
        let pg := msgs.take limit
        .page true (match pg.getLast? with | some r => r.seq | none => 0) pg
      else .page false 0 msgs

/-- `LookupIdempotency` -/
def doIdem (st : Store) (c : Nat) (frm cmn : B) : Out :=
  if frm = [] ∨ cmn = [] then .err .invalid
  else match lookupIdem (st.chan c) frm cmn with
    | .error e => .err e
    | .ok none => .none
    | .ok (some (s, id, h)) => .hit s id (s - 1) h

/-- `GetLastSenderMessageSeq` -/
def doLss (st : Store) (c : Nat) (frm : B) (through : Nat) : Out :=
  if frm = [] ∨ through = 0 then .err .invalid
  else
    let seqs := ((st.chan c).sidx.filter (fun p => p.1.1 = frm ∧ p.1.2 ≤ through)).map (fun p => p.1.2)
    match seqs with
    | [] => .none
    | _ => .num (seqs.foldl Nat.max 0)

inductive Op
  | app (c mode base : Nat) (recs : List Rec)
  | fetch (c base : Nat) (ck : Option Ckpt) (recs : List Rec)
  | trunc (c from_ : Nat)
  | trim (c through maxMsgs maxBytes : Nat)
  | ckpt (c : Nat) (k : Ckpt)
  | ckptm (c : Nat) (k : Ckpt) (vis leo : Nat)
  | close (c : Nat)
  | reopen
  | leo (c : Nat)
  | lret (c : Nat)
  | lckpt (c : Nat)
  | read (c from_ limit maxBytes : Nat)
  | rread (c from_ limit maxBytes : Nat)
  | get (c seq : Nat)
  | byid (c id : Nat)
  | lastvis (c after : Nat)
  | bycmn (c : Nat) (cmn : B) (before limit : Nat)
  | idem (c : Nat) (frm cmn : B)
  | lss (c : Nat) (frm : B) (through : Nat)
deriving Repr, Inhabited

def step (st : Store) : Op → Store × Out
  | .app c mode base recs => doAppend st c mode base recs
  | .fetch c base ck recs => doFetch st c base ck recs
  | .trunc c f => doTrunc st c f
  | .trim c t mm mb => doTrim st c t mm mb
  | .ckpt c k => doCkpt st c k
  | .ckptm c k v l => doCkptm st c k v l
  | .close _ => (st, .ok)
  | .reopen => (doReopen st, .ok)
  | .leo c => let (l, ch) := loadLEO (st.chan c); (st.setChan c ch, .num l)
  | .lret c => (st, match (st.chan c).ret with | some r => .ret r | none => .none)
  | .lckpt c => (st, match (st.chan c).ck with | some k => .ck k | none => .none)
  | .read c f l b => doRead st c f l b
  | .rread c f l b => doRRead st c f l b
  | .get c s => (st, doGet st c s)
  | .byid c id => (st, doByid st c id)
  | .lastvis c a => (st, doLastvis st c a)
  | .bycmn c cmn b l => (st, doBycmn st c cmn b l)
  | .idem c f m => (st, doIdem st c f m)
  | .lss c f t => (st, doLss st c f t)

def Op.chanOf : Op → Option Nat
  | .app c .. | .fetch c .. | .trunc c .. | .trim c .. | .ckpt c .. | .ckptm c .. | .close c
  | .leo c | .lret c | .lckpt c | .read c .. | .rread c .. | .get c .. | .byid c .. | .lastvis c ..
  | .bycmn c .. | .idem c .. | .lss c .. => some c
  | .reopen => none

def run (st : Store) (ops : List Op) : Store := ops.foldl (fun s o => (step s o).1) st

end WK.C07

import WK.Prelude.Hex
import WK.Spec.C20
/-
  C20 — executable model of pkg/hashslot (hashslottable.go, rebalancer.go).

  Conventions (DESIGN §5):
  * `multiraft.SlotID` (uint64), hash-slot numbers (uint16) and `int` counts are
    `Nat`; the only arithmetic that can wrap in the Go code is `t.version++`
    (uint64), modelled by `bump`.
  * `HashSlotTable.assignment` is `asg : List Nat`.  The Go struct also stores
    `hashSlotCount`; both constructors (`NewHashSlotTable`, `DecodeHashSlotTable`)
    set it to `len(assignment)` and nothing changes either afterwards, so the
    model has one field and `HashSlotCount()` is `asg.length` (the harness prints
    `HashSlotCount()` and the driver `asg.length`, so a desynchronisation shows up
    in the correspondence).
  * `migrations map[uint16]HashSlotMigration` is a list sorted by hash slot with
    distinct keys — the order `ActiveMigrations()` imposes with `sort.Slice`.
  * Go `map[SlotID]int` (`current`, `target`) is an association list with the
    Go default `0` for an absent key (`cget`); `map[SlotID][]uint16` (`owned`)
    likewise with default `nil` (`oget`).  `popOwnedHashSlot` takes the LAST
    element of the Go slice; the model stores each owned list reversed and pops
    its head.
  * the three planner loops are one generic loop `planLoop` with a planner
    specific `pick` (which donor/receiver, or stop), mirroring the loop bodies of
    ComputeAddSlotPlan / ComputeRemoveSlotPlan / ComputeRebalancePlan.  The Go
    loops have no counter; they stop because `popOwnedHashSlot` eventually fails.
    The model carries fuel = (number of owned hash slots) + 1, which theorem
    `loop_fuel_enough` shows is never exhausted before a Go `break`.
-/
namespace WK.C20

/-! ## table -/

structure Mig where
  hs : Nat
  src : Nat
  tgt : Nat
  phase : Nat
deriving DecidableEq, Repr

structure Table where
  version : Nat
  asg : List Nat
  migs : List Mig
deriving DecidableEq, Repr

/-- `t.version++` on a uint64 -/
def bump (v : Nat) : Nat := (v + 1) % 2 ^ 64

def migGet : List Mig → Nat → Option Mig
  | [], _ => none
  | m :: rest, hs => if m.hs = hs then some m else migGet rest hs

/-- `t.migrations[hashSlot] = m` (insert or overwrite, keeping the key order) -/
def migPut : List Mig → Mig → List Mig
  | [], m => [m]
  | x :: rest, m =>
    if m.hs < x.hs then m :: x :: rest
    else if m.hs = x.hs then m :: rest
    else x :: migPut rest m

/-- `delete(t.migrations, hashSlot)` -/
def migDel : List Mig → Nat → List Mig
  | [], _ => []
  | x :: rest, hs => if x.hs = hs then rest else x :: migDel rest hs

/-- the nested loops of NewHashSlotTable for `physicalSlotCount = p ≥ 1` -/
def newAsg (h p : Nat) : List Nat :=
  let base := h / p
  let rem := h % p
  let filled := (List.range p).flatMap (fun i => List.replicate (base + (if i < rem then 1 else 0)) (i + 1))
  let a := filled.take h            -- `next < hashSlotCount` guard
  a ++ List.replicate (h - a.length) 0

/-- NewHashSlotTable(hashSlotCount, physicalSlotCount); `p` is a Go `int` -/
def newTable (h : Nat) (p : Int) : Table :=
  if h = 0 ∨ p ≤ 0 then ⟨1, List.replicate h 0, []⟩
  else ⟨1, newAsg h p.toNat, []⟩

def lookup (t : Table) (hs : Nat) : Nat :=
  if hs ≥ t.asg.length then 0 else t.asg.getD hs 0

def reassign (t : Table) (hs slot : Nat) : Table :=
  if hs ≥ t.asg.length then t
  else if t.asg.getD hs 0 = slot then t
  else { t with asg := t.asg.set hs slot, version := bump t.version }

def startMigration (t : Table) (hs src tgt : Nat) : Table :=
  if hs ≥ t.asg.length then t
  else
    let current := t.asg.getD hs 0
    if src = 0 ∨ tgt = 0 ∨ src = tgt ∨ current ≠ src then t
    else if (migGet t.migs hs).isSome then t
    else { t with migs := migPut t.migs ⟨hs, src, tgt, 0⟩, version := bump t.version }

def advanceMigration (t : Table) (hs phase : Nat) : Table :=
  match migGet t.migs hs with
  | none => t
  | some m =>
    if m.phase = phase then t
    else { t with migs := migPut t.migs { m with phase := phase }, version := bump t.version }

def finalizeMigration (t : Table) (hs : Nat) : Table :=
  match migGet t.migs hs with
  | none => t
  | some m =>
    let asg := if hs < t.asg.length then t.asg.set hs m.tgt else t.asg
    { asg := asg, migs := migDel t.migs hs, version := bump t.version }

def abortMigration (t : Table) (hs : Nat) : Table :=
  match migGet t.migs hs with
  | none => t
  | some _ => { t with migs := migDel t.migs hs, version := bump t.version }

/-! ## codec -/

def be16 (n : Nat) : Bytes := [UInt8.ofNat (n / 256), UInt8.ofNat n]

def be64 (n : Nat) : Bytes :=
  [UInt8.ofNat (n / 2 ^ 56), UInt8.ofNat (n / 2 ^ 48), UInt8.ofNat (n / 2 ^ 40), UInt8.ofNat (n / 2 ^ 32),
   UInt8.ofNat (n / 2 ^ 24), UInt8.ofNat (n / 2 ^ 16), UInt8.ofNat (n / 2 ^ 8), UInt8.ofNat n]

def encMig (m : Mig) : Bytes :=
  be16 m.hs ++ [UInt8.ofNat m.phase, 0] ++ be64 m.src ++ be64 m.tgt

/-- HashSlotTable.Encode (format version 2) -/
def encode (t : Table) : Bytes :=
  be16 2 ++ be16 t.asg.length ++ be64 t.version
    ++ t.asg.flatMap be64
    ++ be16 t.migs.length
    ++ t.migs.flatMap encMig

def rd16 : Bytes → Option (Nat × Bytes)
  | a :: b :: rest => some (a.toNat * 256 + b.toNat, rest)
  | _ => none

def rd64 : Bytes → Option (Nat × Bytes)
  | a :: b :: c :: d :: e :: f :: g :: h :: rest =>
    some (((((((a.toNat * 256 + b.toNat) * 256 + c.toNat) * 256 + d.toNat) * 256 + e.toNat) * 256
      + f.toNat) * 256 + g.toNat) * 256 + h.toNat, rest)
  | _ => none

/-- the assignment loop of DecodeHashSlotTable: `n` big-endian uint64 or "length mismatch" -/
def rdAsg : Nat → Bytes → Option (List Nat × Bytes)
  | 0, d => some ([], d)
  | n + 1, d =>
    match rd64 d with
    | none => none
    | some (x, d') =>
      match rdAsg n d' with
      | none => none
      | some (xs, r) => some (x :: xs, r)

def rdMig : Bytes → Option (Mig × Bytes)
  | d =>
    match rd16 d with
    | none => none
    | some (hs, d1) =>
      match d1 with
      | ph :: _pad :: d2 =>
        match rd64 d2 with
        | none => none
        | some (src, d3) =>
          match rd64 d3 with
          | none => none
          | some (tgt, d4) => some (⟨hs, src, tgt, ph.toNat⟩, d4)
      | _ => none

/-- the migration loop: records are put into the map one by one (a later record
    with the same hash slot overwrites an earlier one) -/
def rdMigs : Nat → Bytes → List Mig → Option (List Mig)
  | 0, _, acc => some acc
  | n + 1, d, acc =>
    match rdMig d with
    | none => none
    | some (m, d') => rdMigs n d' (migPut acc m)

/-- DecodeHashSlotTable; `none` = ErrInvalidTable (every error of the function wraps it) -/
def decode (data : Bytes) : Option Table :=
  if data.length < 12 then none else
  match rd16 data with
  | none => none
  | some (ver, d1) =>
    if ver ≠ 1 ∧ ver ≠ 2 then none else
    match rd16 d1 with
    | none => none
    | some (h, d2) =>
      match rd64 d2 with
      | none => none
      | some (version, d3) =>
        match rdAsg h d3 with
        | none => none
        | some (asg, rest) =>
          if ver = 1 then (if rest.length = 0 then some ⟨version, asg, []⟩ else none)
          else if rest.length = 0 then some ⟨version, asg, []⟩
          else if rest.length < 2 then none
          else
            match rd16 rest with
            | none => none
            | some (mc, r2) =>
              if r2.length ≠ mc * 20 then none
              else
                match rdMigs mc r2 [] with
                | none => none
                | some ms => some ⟨version, asg, ms⟩

/-! ## planner helpers -/

abbrev Cnt := List (Nat × Nat)
abbrev Owned := List (Nat × List Nat)

def cget : Cnt → Nat → Nat
  | [], _ => 0
  | (k, v) :: rest, s => if k = s then v else cget rest s

def cset : Cnt → Nat → Nat → Cnt
  | [], s, v => [(s, v)]
  | (k, w) :: rest, s, v => if k = s then (k, v) :: rest else (k, w) :: cset rest s v

def oget : Owned → Nat → List Nat
  | [], _ => []
  | (k, v) :: rest, s => if k = s then v else oget rest s

def oset : Owned → Nat → List Nat → Owned
  | [], s, v => [(s, v)]
  | (k, w) :: rest, s, v => if k = s then (k, v) :: rest else (k, w) :: oset rest s v

/-- sort.Slice(slots, <) — insertion sort; the inputs of the Go code are duplicate free -/
def insertId (x : Nat) : List Nat → List Nat
  | [] => [x]
  | y :: ys => if x ≤ y then x :: y :: ys else y :: insertId x ys

def sortIds : List Nat → List Nat
  | [] => []
  | x :: xs => insertId x (sortIds xs)

/-- first occurrences, in order (the `seen` map of tableActiveSlotIDs) -/
def dedup : List Nat → List Nat → List Nat
  | [], _ => []
  | x :: xs, seen => if seen.contains x then dedup xs seen else x :: dedup xs (x :: seen)

/-- tableActiveSlotIDs: distinct non-zero slot ids referenced by the table, sorted -/
def activeSlots (t : Table) : List Nat :=
  sortIds (dedup (t.asg.filter (· ≠ 0)) [])

/-- indices `i + k` with `l[k] = s`, ascending -/
def idxOf (s : Nat) : List Nat → Nat → List Nat
  | [], _ => []
  | x :: xs, i => if x = s then i :: idxOf s xs (i + 1) else idxOf s xs (i + 1)

/-- HashSlotsOf(slotID), ascending -/
def hashSlotsOf (t : Table) (s : Nat) : List Nat := idxOf s t.asg 0

/-- slotCounts -/
def slotCounts (t : Table) (slots : List Nat) : Cnt :=
  slots.foldl (fun m s => cset m s (hashSlotsOf t s).length) []

/-- slotHashSlots, each list in pop order (Go pops the slice's last element) -/
def slotHashSlots (t : Table) (slots : List Nat) : Owned :=
  slots.foldl (fun m s => oset m s (hashSlotsOf t s).reverse) []

/-- the body of idealSlotCounts' loop over the sorted ids: `target = base (+1 if i < remainder)`;
    `rem` counts down instead of `i` counting up -/
def idealGo (base : Nat) : Nat → List Nat → Cnt → Cnt
  | _, [], m => m
  | rem, s :: rest, m => idealGo base (rem - 1) rest (cset m s (base + (if 0 < rem then 1 else 0)))

/-- idealSlotCounts(totalHashSlots, slots) -/
def idealCounts (total : Nat) (slots : List Nat) : Cnt :=
  if slots.length = 0 then []
  else
    let sorted := sortIds slots
    idealGo (total / sorted.length) (total % sorted.length) sorted []

structure Best where
  chosen : Nat
  best : Int
  cnt : Nat

def selLStep (cur tgt : Cnt) (b : Best) (s : Nat) : Best :=
  let surplus : Int := (cget cur s : Int) - (cget tgt s : Int)
  if surplus ≤ 0 then b
  else if b.chosen = 0 ∨ surplus > b.best ∨ (surplus = b.best ∧ cget cur s > b.cnt)
      ∨ (surplus = b.best ∧ cget cur s = b.cnt ∧ s < b.chosen) then ⟨s, surplus, cget cur s⟩
  else b

/-- selectLargestSurplusSlot -/
def selL (cur tgt : Cnt) (cands : List Nat) : Nat :=
  (cands.foldl (selLStep cur tgt) ⟨0, 0, 0⟩).chosen

def selSStep (cur tgt : Cnt) (b : Best) (s : Nat) : Best :=
  let deficit : Int := (cget tgt s : Int) - (cget cur s : Int)
  if deficit ≤ 0 then b
  else if b.chosen = 0 ∨ deficit > b.best ∨ (deficit = b.best ∧ cget cur s < b.cnt)
      ∨ (deficit = b.best ∧ cget cur s = b.cnt ∧ s < b.chosen) then ⟨s, deficit, cget cur s⟩
  else b

/-- selectSmallestDeficitSlot (despite its name it prefers the LARGEST deficit) -/
def selS (cur tgt : Cnt) (cands : List Nat) : Nat :=
  (cands.foldl (selSStep cur tgt) ⟨0, 0, 0⟩).chosen

/-! ## the planner loop -/

structure PState where
  cur : Cnt
  owned : Owned

/-- one planner loop: `pick cur` = the (donor, receiver) of this iteration or
    `none` for a `break`/loop-condition exit; then `popOwnedHashSlot(owned, donor)`
    (failure = `break`), append the move, `current[donor]--`, `current[receiver]++`. -/
def planLoop (pick : Cnt → Option (Nat × Nat)) : Nat → PState → List Move × PState
  | 0, st => ([], st)
  | fuel + 1, st =>
    match pick st.cur with
    | none => ([], st)
    | some (d, r) =>
      match oget st.owned d with
      | [] => ([], st)
      | hs :: rest =>
        let cur1 := cset st.cur d (cget st.cur d - 1)
        let cur2 := cset cur1 r (cget cur1 r + 1)
        let res := planLoop pick fuel ⟨cur2, oset st.owned d rest⟩
        (⟨hs, d, r⟩ :: res.1, res.2)

def ownedTotal (o : Owned) : Nat := (o.map (fun kv => kv.2.length)).sum

/-- ComputeAddSlotPlan's loop: `for current[new] < target[new] { donor := selL(...existing); if donor == 0 break … }` -/
def pickAdd (tgt : Cnt) (existing : List Nat) (new : Nat) (cur : Cnt) : Option (Nat × Nat) :=
  if cget cur new < cget tgt new then
    let donor := selL cur tgt existing
    if donor = 0 then none else some (donor, new)
  else none

/-- ComputeRemoveSlotPlan's loop: `for current[rm] > 0 { receiver := selS(...remaining); if receiver == 0 break … }` -/
def pickRemove (tgt : Cnt) (remaining : List Nat) (rm : Nat) (cur : Cnt) : Option (Nat × Nat) :=
  if cget cur rm > 0 then
    let receiver := selS cur tgt remaining
    if receiver = 0 then none else some (rm, receiver)
  else none

/-- ComputeRebalancePlan's loop -/
def pickRebalance (tgt : Cnt) (slots : List Nat) (cur : Cnt) : Option (Nat × Nat) :=
  let donor := selL cur tgt slots
  let receiver := selS cur tgt slots
  if donor = 0 ∨ receiver = 0 then none else some (donor, receiver)

def runPlan (pick : Cnt → Option (Nat × Nat)) (cur : Cnt) (owned : Owned) : List Move :=
  (planLoop pick (ownedTotal owned + 1) ⟨cur, owned⟩).1

def computeAdd (t : Table) (new : Nat) : List Move :=
  if new = 0 then []
  else
    let existing := activeSlots t
    if existing.contains new then []
    else
      let slots := sortIds (existing ++ [new])
      let cur := slotCounts t slots
      let tgt := idealCounts t.asg.length slots
      let owned := slotHashSlots t existing
      runPlan (pickAdd tgt existing new) cur owned

def computeRemove (t : Table) (rm : Nat) : List Move :=
  if rm = 0 then []
  else if (hashSlotsOf t rm).length = 0 then []
  else
    let remaining := (activeSlots t).filter (· ≠ rm)
    if remaining.length = 0 then []
    else
      let cur := slotCounts t (remaining ++ [rm])
      let tgt := idealCounts t.asg.length remaining
      let owned := slotHashSlots t [rm]
      runPlan (pickRemove tgt remaining rm) cur owned

def computeRebalance (t : Table) : List Move :=
  let slots := activeSlots t
  if slots.length ≤ 1 then []
  else
    let cur := slotCounts t slots
    let tgt := idealCounts t.asg.length slots
    let owned := slotHashSlots t slots
    runPlan (pickRebalance tgt slots) cur owned

/-- a plan applied with `Reassign(m.HashSlot, m.To)` per move -/
def applyPlanReassign (t : Table) (p : List Move) : Table :=
  p.foldl (fun t m => reassign t m.hs m.dst) t

/-- a plan applied as migrations: Start, Advance through the phases, Finalize -/
def applyPlanMigrate (t : Table) (p : List Move) : Table :=
  p.foldl (fun t m =>
    let t := startMigration t m.hs m.src m.dst
    let t := advanceMigration t m.hs 1
    let t := advanceMigration t m.hs 2
    finalizeMigration t m.hs) t

end WK.C20

import WK.Spec.C29
/-
  C29 — executable models (core Lean only):
    1. in-batch coalescing (`newIdempotentAppendBatch`) and `expandCompletions`,
    2. the idempotency-recovery decision after a failed append
       (`appendBatchErrorCompletionsOrRecoveriesAndRetry`),
    3. the per-channel writer activation protocol as an LTS
       (`enqueue`/`tryActivate`/`deactivateLocked`/`rescheduleIfNeeded`).
-/
namespace WK.C29

/-! ## 1. coalescing -/

/-- (FromUID, ClientMsgNo, payload); 0 = empty string for the first two -/
structure Item where
  frm : Nat
  cmsg : Nat
  payload : Nat
  deriving DecidableEq, Repr, Inhabited

def Item.keyed (x : Item) : Bool := x.frm != 0 && x.cmsg != 0

/-- the map key of the Go code: (FromUID, ClientMsgNo, payloadHash); `h` is the payload hash -/
def sameKey (h : Nat → Nat) (a b : Item) : Bool :=
  a.frm == b.frm && a.cmsg == b.cmsg && h a.payload == h b.payload

/-- `sameLogicalSend` -/
def sameLogical (a b : Item) : Bool :=
  a.frm == b.frm && a.cmsg == b.cmsg && a.payload == b.payload

/-- `seen[key]` is the FIRST storage append carrying that key (the map entry is written once);
    the caller is coalesced onto it only if it is the same logical send -/
def findOwner (h : Nat → Nat) (uniq : List (Nat × Item)) (x : Item) : Option Nat :=
  match uniq.findIdx? (fun y => y.2.keyed && sameKey h y.2 x) with
  | some j =>
    match uniq[j]? with
    | some y => if sameLogical y.2 x then some j else none
    | none => none
  | none => none

/-- uniq = storage appends (with the original index of their first caller), owners = per caller -/
def coalesceGo (h : Nat → Nat) : List Item → Nat → List (Nat × Item) → List Nat → List (Nat × Item) × List Nat
  | [], _, uniq, owners => (uniq, owners)
  | x :: rest, i, uniq, owners =>
    match (if x.keyed then findOwner h uniq x else none) with
    | some j => coalesceGo h rest (i + 1) uniq (owners ++ [j])
    | none => coalesceGo h rest (i + 1) (uniq ++ [(i, x)]) (owners ++ [uniq.length])

def coalesce (h : Nat → Nat) (items : List Item) : List (Nat × Item) × List Nat :=
  coalesceGo h items 0 [] []

/-- `expandCompletions` when storage append j completed with sequence j+1, committed:
    every caller gets its owner's result; only the first caller of an owner stays committed -/
def expandGo : List Nat → List Nat → List (Nat × Bool)
  | [], _ => []
  | o :: rest, emitted => (o + 1, !emitted.contains o) :: expandGo rest (o :: emitted)

def expand (owners : List Nat) : List (Nat × Bool) := expandGo owners []

/-! ## 2. idempotency recovery after a failed append -/

inductive Lk where | miss | hit | err
  deriving DecidableEq, Repr, Inhabited

structure RItem where
  lk1 : Lk          -- durable lookup right after the failed append
  lk2 : Lk          -- durable lookup after a failed retry
  expired : Bool    -- item context cancelled / deadline passed
  deriving DecidableEq, Repr, Inhabited

/-- retry appender script: 0 all committed, 1 ErrAppendFailed again, 2 another batch error,
    3 short result vector, 4 first item fails -/
abbrev RetryMode := Nat

/-- per item: success?, sequence, committed (post-commit work owed) -/
structure ROut where
  ok : Bool
  seq : Nat
  committed : Bool
  deriving DecidableEq, Repr, Inhabited

def ROut.error : ROut := { ok := false, seq := 0, committed := false }
def ROut.recovered (i : Nat) : ROut := { ok := true, seq := 10 + i, committed := false }
def ROut.appended (k : Nat) : ROut := { ok := true, seq := 100 + k, committed := true }

/-- outcome of the retried items (offset k among `n` retried, original index i) -/
def retryOut (mode : RetryMode) (n k i : Nat) (it : RItem) : ROut :=
  match mode with
  | 0 => .appended k
  | 1 => match it.lk2 with | .hit => .recovered i | _ => .error
  | 2 => .error
  | 3 => if k + 1 = n then .error else .appended k
  | _ => if k = 0 then .error else .appended k

/-- positions (original indices) that go to the single retry append -/
def retryIdx (items : List RItem) : List Nat :=
  (List.range items.length).filter fun i =>
    match items[i]? with
    | some it => it.lk1 == .miss && !it.expired
    | none => false

def recover (appendFailed hasStore : Bool) (mode : RetryMode) (items : List RItem) : List ROut × List Nat :=
  if !(appendFailed && hasStore) then (items.map fun _ => .error, [])
  else if !(items.any fun it => it.lk1 == .hit) then
    (items.map fun _ => .error, [])
  else
    let ridx := retryIdx items
    let outs := (List.range items.length).map fun i =>
      match items[i]? with
      | some it =>
        match it.lk1 with
        | .hit => ROut.recovered i
        | .err => ROut.error
        | .miss =>
          if it.expired then ROut.error
          else retryOut mode ridx.length (ridx.idxOf i) i it
      | none => ROut.error
    (outs, if ridx.isEmpty then [] else [ridx.length])

/-! ## 2b. ordered completion drain (`recordAppendCompletion` / `popNextAppendCompletion`) -/

structure Drain where
  next : Nat                 -- nextAppendDrainSeq
  ready : Option Nat         -- readyAppendCompletion
  done : List Nat            -- keys of completedAppends
  deriving Repr, Inhabited

def Drain.init : Drain := { next := 0, ready := none, done := [] }

def Drain.record (d : Drain) (seq : Nat) : Drain :=
  if seq < d.next then d
  else if seq == d.next && d.ready.isNone then { d with ready := some seq }
  else { d with done := seq :: d.done.erase seq }

def Drain.popMap (d : Drain) : Option (Nat × Drain) :=
  if d.done.contains d.next then some (d.next, { d with done := d.done.erase d.next, next := d.next + 1 })
  else none

def Drain.pop (d : Drain) : Option (Nat × Drain) :=
  match d.ready with
  | some s => if s == d.next then some (s, { d with ready := none, next := d.next + 1 }) else d.popMap
  | none => d.popMap

/-- the loop of applyAppendCompletion -/
def Drain.popAll : Nat → Drain → List Nat × Drain
  | 0, d => ([], d)
  | fuel + 1, d =>
    match d.pop with
    | some (s, d') => let (r, d'') := Drain.popAll fuel d'; (s :: r, d'')
    | none => ([], d)

/-- one arrival: record, then drain everything that became in-order -/
def Drain.arrive (d : Drain) (seq : Nat) : List Nat × Drain :=
  let d' := d.record seq
  Drain.popAll (d'.done.length + 2) d'

def Drain.run : Drain → List Nat → List (List Nat)
  | _, [] => []
  | d, a :: rest => let (out, d') := d.arrive a; out :: Drain.run d' rest

/-! ## 2c. `activeAppendItems`: which prepared items are handed to the Appender

  As coded (commit adc9a053f): the live prefix `items[:i]` is copied exactly once, at the first inactive
  item (`if !filtered { filtered = true; active = append(make(…), items[:i]...) }`); live items seen
  afterwards are appended.  The loop before that repair tested `active == nil` instead, and the copy of an
  empty prefix stays nil — kept below as `activeGoPreFix`. -/

/-- flags: `true` = the item is inactive (context cancelled / deadline passed) -/
def activeGo : List Bool → Nat → List Nat → Bool → List Nat
  | [], n, active, filtered => if filtered then active else List.range n
  | true :: r, i, active, filtered =>
    activeGo r (i + 1) (if filtered then active else List.range i) true
  | false :: r, i, active, filtered =>
    activeGo r (i + 1) (if filtered then active ++ [i] else active) filtered

def activeItems (flags : List Bool) : List Nat := activeGo flags 0 [] false

/-- the loop BEFORE the repair: `active` (a nil slice = `none`) is re-tested at every inactive item -/
def activeGoPreFix : List Bool → Nat → Option (List Nat) → Bool → List Nat
  | [], n, active, filtered => if filtered then active.getD [] else List.range n
  | true :: r, i, active, _ =>
    activeGoPreFix r (i + 1) (match active with
      | none => if i = 0 then none else some (List.range i)
      | some a => some a) true
  | false :: r, i, active, filtered =>
    activeGoPreFix r (i + 1) (if filtered then some (active.getD [] ++ [i]) else active) filtered

def activeItemsPreFix (flags : List Bool) : List Nat := activeGoPreFix flags 0 none false

/-- what it should be: the live items, in order -/
def liveFrom : List Bool → Nat → List Nat
  | [], _ => []
  | true :: r, i => liveFrom r (i + 1)
  | false :: r, i => i :: liveFrom r (i + 1)

/-! ## 3. writer activation LTS

  Any number of submitter threads (SubmitLocal → enqueue), completion threads
  (rescheduleIfNeeded / retryPostCommit) and advance instances (created dynamically).
  `inbox` counts batches appended under `w.mu` and not yet taken by an advance. -/

inductive SubPc where | idle | enqueued | done
  deriving DecidableEq, Repr

/-- an advance instance -/
inductive APc where
  | none
  | queued               -- won the CAS, handed to the advance scheduler / pool
  | running              -- inside advance(): may take the inbox under w.mu
  | deact (more : Bool)  -- ran deactivateLocked: Store(false), `more` = re-check under w.mu
  | gone
  deriving DecidableEq, Repr

structure Writer where
  sub : Nat → SubPc
  adv : Nat → APc
  na : Nat
  scheduled : Bool
  inbox : Nat
  taken : Nat            -- ghost: batches taken by advances
  submitted : Nat        -- ghost: batches enqueued

def Writer.init : Writer :=
  { sub := fun _ => .idle, adv := fun _ => .none, na := 0, scheduled := false, inbox := 0, taken := 0, submitted := 0 }

def updS (f : Nat → SubPc) (a : Nat) (v : SubPc) : Nat → SubPc := fun x => if x = a then v else f x
def updA (f : Nat → APc) (a : Nat) (v : APc) : Nat → APc := fun x => if x = a then v else f x

inductive WStep : Writer → Writer → Prop
  -- enqueue: `w.mu.Lock(); w.inbox = append(w.inbox, batch); w.mu.Unlock()`
  | enq (s : Writer) (t : Nat) : s.sub t = .idle →
      WStep s { s with sub := updS s.sub t .enqueued, inbox := s.inbox + 1, submitted := s.submitted + 1 }
  -- tryActivate wins: CAS(false→true); the caller schedules an advance
  | casWin (s : Writer) (t : Nat) : s.sub t = .enqueued → s.scheduled = false →
      WStep s { s with sub := updS s.sub t .done, scheduled := true, adv := updA s.adv s.na .queued, na := s.na + 1 }
  | casLose (s : Writer) (t : Nat) : s.sub t = .enqueued → s.scheduled = true →
      WStep s { s with sub := updS s.sub t .done }
  -- rescheduleIfNeeded / retryPostCommit from a completion goroutine: more work seen under w.mu, CAS wins
  | resched (s : Writer) : s.scheduled = false →
      WStep s { s with scheduled := true, adv := updA s.adv s.na .queued, na := s.na + 1 }
  | start (s : Writer) (i : Nat) : s.adv i = .queued →
      WStep s { s with adv := updA s.adv i .running }
  -- takeInboxLocked
  | take (s : Writer) (i : Nat) : s.adv i = .running →
      WStep s { s with inbox := 0, taken := s.taken + s.inbox }
  -- deactivateLocked under w.mu: Store(false); more := hasRunnableWorkLocked().
  -- `other` = runnable append/commit work besides the inbox (any value)
  | deactivate (s : Writer) (i : Nat) (other : Bool) : s.adv i = .running →
      WStep s { s with adv := updA s.adv i (.deact (decide (0 < s.inbox) || other)), scheduled := false }
  -- `if more && w.tryActivate() { continue }`
  | reactWin (s : Writer) (i : Nat) : s.adv i = .deact true → s.scheduled = false →
      WStep s { s with adv := updA s.adv i .running, scheduled := true }
  | reactLose (s : Writer) (i : Nat) : s.adv i = .deact true → s.scheduled = true →
      WStep s { s with adv := updA s.adv i .gone }
  | leave (s : Writer) (i : Nat) : s.adv i = .deact false →
      WStep s { s with adv := updA s.adv i .gone }

inductive WReach : Writer → Prop
  | init : WReach Writer.init
  | step {s s' : Writer} : WReach s → WStep s s' → WReach s'

/-- the instance owns the writer: it is (or is about to be) inside advance() -/
def APc.owns : APc → Bool
  | .queued | .running => true
  | _ => false

/-- no protocol step of a submitter or an advance instance is enabled
    (`enq` of a fresh submitter and `resched` of the environment are external inputs) -/
def WQuiescent (s : Writer) : Prop :=
  (∀ t, s.sub t ≠ .enqueued) ∧ (∀ i, s.adv i = .none ∨ s.adv i = .gone)

end WK.C29

import WK.Model.C06
/-
  C06 (extension) — the reactor's other writers of LEO / HW / CheckpointHW on the
  leader side, as two more events on top of the machine's `step`:

  * `installResult`     = reactor.handleQuorumInstallResult  (quorum_runtime.go)
  * `checkpointResult`  = reactor.handleStoreCheckpointResult (lifecycle_runtime.go),
                          the part that touches ChannelState (the committed / retention /
                          lifecycle owned bookkeeping of the handler is erased).
  Core only.  Branch for branch; uint64 ↦ Nat.
-/
namespace WK.C06

/-- the op id of the pending quorum install (`rc.quorumInstall.opID`) -/
def installOp : Nat := 99

/-- `handleQuorumInstallResult` with one pending install whose authority has no write
    fence.  `auth`: 0 = Installed.Authority differs from the pending one, 1 = equal,
    2 = `result.QuorumInstall == nil`.  `Decision.err` is what the install's futures get;
    `cancelled = true` marks a result that was ignored (pending install kept). -/
def installErr (auth leo hw : Nat) (err : Err) : Err :=
  if err == .ok then (if auth == 2 || auth == 0 || hw > leo then .conflict else .ok) else err

def installResult (s : State) (f : Fence) (auth leo hw : Nat) (err : Err) : State × Decision :=
  if f.key != s.key then (s, { cancelled := true }) else          -- r.channels[key] == nil
  if f.gen != s.gen || f.epoch != s.epoch || f.lepoch != s.lepoch || f.op != installOp then
    (s, { cancelled := true }) else
  if installErr auth leo hw err != .ok then
    ({ s with commitReady := false }, { err := installErr auth leo hw err }) else
  ({ s with leo := leo, hw := hw, ckpt := max s.ckpt hw,
            progress := setP s.progress s.localNode leo, commitReady := true }, {})

/-- `handleStoreCheckpointResult` (state part): a fenced, successful checkpoint result
    raises CheckpointHW — there is no comparison with HW. -/
def checkpointResult (s : State) (f : Fence) (withResult : Bool) (v : Nat) (err : Err) : State × Decision :=
  if f.key != s.key then (s, {}) else                              -- lookupLoadedChannel fails
  if f.gen != s.gen || f.epoch != s.epoch || f.lepoch != s.lepoch then (s, {}) else
  if err == .ok && withResult && v > s.ckpt then ({ s with ckpt := v }, {}) else (s, {})

inductive REvent where
  | machine (e : Event)
  | install (f : Fence) (auth leo hw : Nat) (err : Err)
  | ckptResult (f : Fence) (withResult : Bool) (v : Nat) (err : Err)
  deriving Repr, Inhabited

def rstep (s : State) : REvent → State × Decision
  | .machine e => step s e
  | .install f a l h e => installResult s f a l h e
  | .ckptResult f w v e => checkpointResult s f w v e

def rrun (s : State) : List REvent → State × List Decision
  | [] => (s, [])
  | ev :: rest =>
    let r := rstep s ev
    let q := rrun r.1 rest
    (q.1, r.2 :: q.2)

end WK.C06

import WK.Prelude.Hex
import WK.Spec.C21
/-
  C35 — executable model of pkg/protocol/channelid (person.go, command.go,
  agent.go).  Core only.  Go strings are byte strings: `Bytes = List UInt8`.

  The model mirrors the Go branch for branch:

    EncodePersonChannel(l, r):   lh := crc(l); rh := crc(r)
                                 if lh > rh                → l+"@"+r
                                 if lh == rh && l > r      → l+"@"+r
                                 otherwise                 → r+"@"+l
    DecodePersonChannel(c):      parts := strings.Split(c,"@")
                                 len(parts) != 2 || parts[0]=="" || parts[1]=="" → ErrInvalidPersonChannel
    NormalizePersonChannel(s,c): s=="" || c==""            → ErrInvalidPersonChannel
                                 !Contains(c,"@")          → Encode(s,c)
                                 Decode(c) fails           → that error
                                 l != s && r != s          → ErrInvalidPersonChannel
                                 otherwise                 → Encode(l,r)

  The only error value of the package's person functions is
  ErrInvalidPersonChannel (agent: ErrInvalidAgentChannel), so results are
  `Option` with `none` = that error.

  `crc` is CRC-32/IEEE (`WK.C21.specCrc32`, the function Go's
  hash/crc32.ChecksumIEEE is tied to by C21); no theorem of C35 unfolds it —
  they hold for any hash.
-/
namespace WK.C35

/-- the separator byte `'@'` -/
def sep : UInt8 := 0x40

/-- `CommandChannelSuffix = "____cmd"` -/
def cmdSuffix : Bytes := [0x5f, 0x5f, 0x5f, 0x5f, 0x63, 0x6d, 0x64]

/-- `crc32.ChecksumIEEE([]byte(s))` as a number -/
def crc (s : Bytes) : Nat := (WK.C21.specCrc32 (s.map (·.toBitVec))).toNat

/-- Go's `a < b` on strings: byte-wise lexicographic, a proper prefix is smaller. -/
def bytesLt : Bytes → Bytes → Bool
  | [], [] => false
  | [], _ :: _ => true
  | _ :: _, [] => false
  | a :: as, b :: bs => if a < b then true else if b < a then false else bytesLt as bs

/-- `l + "@" + r` -/
def join (l r : Bytes) : Bytes := l ++ sep :: r

def encodePerson (l r : Bytes) : Bytes :=
  let lh := crc l
  let rh := crc r
  if lh > rh then join l r
  else if lh = rh ∧ bytesLt r l then join l r        -- `leftUID > rightUID`
  else join r l

/-- `strings.Split(s, "@")` as (first part, remaining parts); Go returns
    `count('@') + 1` parts, never zero. -/
def splitAux : Bytes → Bytes × List Bytes
  | [] => ([], [])
  | c :: cs =>
    let p := splitAux cs
    if c = sep then ([], p.1 :: p.2) else (c :: p.1, p.2)

def split (s : Bytes) : List Bytes := (splitAux s).1 :: (splitAux s).2

def decodePerson (c : Bytes) : Option (Bytes × Bytes) :=
  match split c with
  | [p0, p1] => if p0.isEmpty || p1.isEmpty then none else some (p0, p1)
  | _ => none

def normalizePerson (s c : Bytes) : Option Bytes :=
  if s.isEmpty || c.isEmpty then none
  else if !(c.contains sep) then some (encodePerson s c)
  else match decodePerson c with
    | none => none
    | some (l, r) => if l != s && r != s then none else some (encodePerson l r)

/-! command.go -/

/-- `strings.HasSuffix(c, CommandChannelSuffix)` -/
def isCmd (c : Bytes) : Bool := cmdSuffix.isSuffixOf c

def toCmd (c : Bytes) : Bytes := if isCmd c then c else c ++ cmdSuffix

/-- `FromCommandChannel`: `strings.TrimSuffix` removes exactly one suffix occurrence -/
def fromCmd (c : Bytes) : Bytes × Bool :=
  if !isCmd c then (c, false) else (c.take (c.length - cmdSuffix.length), true)

/-! agent.go -/

def encodeAgent (uid agent : Bytes) : Bytes := join uid agent

/-- same shape as `decodePerson`, different error value (still the only one) -/
def decodeAgent (c : Bytes) : Option (Bytes × Bytes) := decodePerson c

/-! helpers the regenerated definitions (`WK.Gen.C35`, extract/c35.go) are written with -/

/-- `strings.Split(s, string(c))` for an arbitrary one-byte separator -/
def splitByAux (c : UInt8) : Bytes → Bytes × List Bytes
  | [] => ([], [])
  | x :: xs =>
    let p := splitByAux c xs
    if x = c then ([], p.1 :: p.2) else (x :: p.1, p.2)

def splitBy (c : UInt8) (s : Bytes) : List Bytes := (splitByAux c s).1 :: (splitByAux c s).2

/-- `strings.TrimSuffix(s, suffix)` -/
def goTrimSuffix (s suffix : Bytes) : Bytes :=
  if suffix.isSuffixOf s then s.take (s.length - suffix.length) else s

/-- Go's `a > b` on strings -/
def bytesGt (a b : Bytes) : Bool := bytesLt b a

end WK.C35

import WK.Gen.C30
/-
  C30 — LTS interpreter for the CAS loops of nodeMessageIDs.Next / SetFloor.

  The programs are `WK.Gen.C30.nextProg` / `setFloorProg`, compiled from
  internal/app/app.go on every run.  One transition = one instruction of one
  thread (each instruction touches the shared `floor` at most once, atomically:
  Load or CompareAndSwap).  The generator is ADVERSARIAL: a `gen` instruction
  may deliver any natural number (the transition is labelled with it), which
  covers Snowflake, clock regressions and repeated values.  Threads are spawned
  at any time, any number of them.  Ghost state (`hist`, `acks`, and the
  per-thread `casd`/`histAtCas`/`acksAtCas`) only records what happened.
  Core only.
-/
namespace WK.C30
open WK.Gen.C30

inductive Kind | next | setFloor
  deriving DecidableEq, Repr

inductive Ret | id (v : Nat) | ok | err
  deriving DecidableEq, Repr

def progOf : Kind → List Instr
  | .next => nextProg
  | .setFloor => setFloorProg

/-- pc of a thread that has returned -/
def haltPC : Nat := 1000

structure Thread where
  kind : Kind
  pc : Nat
  r0 : Nat
  r1 : Nat
  r2 : Nat
  /-- ghost: the value this thread's successful CAS wrote -/
  casd : Option Nat := none
  /-- ghost: all values written before this thread's CAS (newest first) -/
  histAtCas : List Nat := []
  /-- ghost: floors acknowledged before this thread's CAS -/
  acksAtCas : List Nat := []
  /-- ghost: CAS history / acknowledged floors / returned ids at the moment this call STARTED -/
  histAtStart : List Nat := []
  acksAtStart : List Nat := []
  retsAtStart : List Nat := []
  ret : Option Ret := none
  deriving Repr

def Thread.rd (t : Thread) : Nat → Nat
  | 0 => t.r0
  | 1 => t.r1
  | _ => t.r2

def Thread.wr (t : Thread) (i v : Nat) : Thread :=
  match i with
  | 0 => { t with r0 := v }
  | 1 => { t with r1 := v }
  | _ => { t with r2 := v }

def evalCmp : Cmp → Nat → Nat → Bool
  | .le, a, b => decide (a ≤ b)
  | .lt, a, b => decide (a < b)
  | .ge, a, b => decide (a ≥ b)
  | .gt, a, b => decide (a > b)
  | .eq, a, b => decide (a = b)
  | .ne, a, b => decide (a ≠ b)

/-- what a step did to the shared word / the caller -/
inductive Out | none | cas (v : Nat) | ret (r : Ret)
  deriving DecidableEq, Repr

/-- one instruction of thread `t` against shared `floor`; `g` = what the generator delivers if asked -/
def exec (prog : List Instr) (floor : Nat) (t : Thread) (g : Nat) : Option (Nat × Thread × Out) :=
  match prog[t.pc]? with
  | none => none
  | some (.gen d) => some (floor, { t.wr d g with pc := t.pc + 1 }, .none)
  | some (.load d) => some (floor, { t.wr d floor with pc := t.pc + 1 }, .none)
  | some (.brUnless c a b tg) =>
    if evalCmp c (t.rd a) (t.rd b) then some (floor, { t with pc := t.pc + 1 }, .none)
    else some (floor, { t with pc := tg }, .none)
  | some (.cas o n tg) =>
    if floor = t.rd o then some (t.rd n, { t with pc := t.pc + 1 }, .cas (t.rd n))
    else some (floor, { t with pc := tg }, .none)
  | some (.jmp tg) => some (floor, { t with pc := tg }, .none)
  | some (.retReg r) => some (floor, { t with pc := haltPC }, .ret (.id (t.rd r)))
  | some .retOk => some (floor, { t with pc := haltPC }, .ret .ok)
  | some .retErr => some (floor, { t with pc := haltPC }, .ret .err)

structure GState where
  floor : Nat
  /-- ghost: every value a successful CAS wrote, newest first -/
  hist : List Nat
  /-- ghost: every floor whose SetFloor returned nil -/
  acks : List Nat
  /-- ghost: every id a Next call has RETURNED, newest first -/
  rets : List Nat
  threads : Nat → Option Thread

def init : GState := { floor := 0, hist := [], acks := [], rets := [], threads := fun _ => none }

def upd (f : Nat → Option Thread) (k : Nat) (t : Thread) : Nat → Option Thread :=
  fun i => if i = k then some t else f i

/-- a fresh call starting in state `s`: `arg` is SetFloor's parameter (register 0); Next ignores it.
    The start snapshots record what had happened before the call started. -/
def spawnThread (kind : Kind) (arg : Nat) (s : GState) : Thread :=
  match kind with
  | .next => { kind := .next, pc := 0, r0 := 0, r1 := 0, r2 := 0,
               histAtStart := s.hist, acksAtStart := s.acks, retsAtStart := s.rets }
  | .setFloor => { kind := .setFloor, pc := 0, r0 := arg, r1 := 0, r2 := 0,
                   histAtStart := s.hist, acksAtStart := s.acks, retsAtStart := s.rets }

/-- fold the outcome of a step into the global state (ghost bookkeeping) -/
def commit (s : GState) (k : Nat) (fl' : Nat) (t' : Thread) : Out → GState
  | .none => { s with floor := fl', threads := upd s.threads k t' }
  | .cas v => { s with floor := fl', hist := v :: s.hist,
                       threads := upd s.threads k { t' with casd := some v, histAtCas := s.hist, acksAtCas := s.acks } }
  | .ret r => { s with floor := fl',
                       acks := (if t'.kind = .setFloor ∧ r = .ok then t'.r0 :: s.acks else s.acks),
                       rets := (match r with | .id v => v :: s.rets | _ => s.rets),
                       threads := upd s.threads k { t' with ret := some r } }

inductive Step : GState → GState → Prop
  | spawn (s : GState) (k : Nat) (kind : Kind) (arg : Nat) (h : s.threads k = none) :
      Step s { s with threads := upd s.threads k (spawnThread kind arg s) }
  | run (s : GState) (k : Nat) (t : Thread) (g fl' : Nat) (t' : Thread) (o : Out)
      (h : s.threads k = some t) (he : exec (progOf t.kind) s.floor t g = some (fl', t', o)) :
      Step s (commit s k fl' t' o)

inductive Reach : GState → Prop
  | init : Reach init
  | step {s s' : GState} : Reach s → Step s s' → Reach s'

end WK.C30

import WK.Prelude.Hex
/-
  C19 — model.  A POSIX-lite file system (one directory) and the file-system
  calls `statefile.Store.Save` makes.  Core only, executable.

  * an inode is its current contents (`data`, what a reader sees through the
    page cache) and the length `synced` of the prefix that is on the disk;
  * the directory is what is on the disk (`durable`) plus the ordered journal
    of directory operations that are not on the disk yet (`pending`);
    `fsyncDir` flushes the journal;
  * a *crash* (power loss) keeps a prefix of the journal chosen by the
    adversary and, per inode, the synced prefix plus an adversary-chosen part of
    the unsynced tail; a *process kill* keeps everything (`killChoice`).

  The call list itself is NOT in this file: `WK.Gen.C19.saveOps` is regenerated
  from `pkg/controller/statefile/store.go` on every run.
-/
namespace WK.C19

abbrev Name := Nat
abbrev Ino := Nat

/-- the name of the cluster-state file (`s.path`) in the modelled directory -/
def pathName : Name := 0

structure Inode where
  data : Bytes
  synced : Nat
deriving Repr, DecidableEq

inductive DirOp
  | link (n : Name) (i : Ino)
  | unlink (n : Name)
  | rename (a b : Name)
deriving Repr, DecidableEq

abbrev Dir := Name → Option Ino

def applyDirOp (d : Dir) : DirOp → Dir
  | .link n i => fun x => if x = n then some i else d x
  | .unlink n => fun x => if x = n then none else d x
  | .rename a b =>
    match d a with
    | none => d                               -- ENOENT: nothing happens
    | some i => fun x => if x = b then some i else if x = a then none else d x

structure FS where
  inodes : Ino → Inode
  next : Ino
  durable : Dir
  pending : List DirOp

/-- the directory as running processes see it -/
def FS.view (fs : FS) : Dir := fs.pending.foldl applyDirOp fs.durable

/-- `os.ReadFile(name)` -/
def FS.read (fs : FS) (n : Name) : Option Bytes :=
  (fs.view n).map (fun i => (fs.inodes i).data)

/-- symbolic file names appearing as arguments of `os.Rename` / `os.Remove` -/
inductive NameRef | tmp | path
deriving Repr, DecidableEq

/-- one file-system relevant call of `Store.Save`, as the extractor reads it
    out of the source (in source order). -/
inductive Op
  | createTemp                       -- tmp, err := os.CreateTemp(filepath.Dir(s.path), base+".*.tmp")
  | openFixed (trunc : Bool)         -- tmp, err := os.OpenFile(<fixed temp name>, O_WRONLY|O_CREATE[|O_TRUNC], ..)
  | write (encoded : Bool)           -- tmp.Write(x); `encoded` = x is the result of state.Encode(st)
  | fsync                            -- tmp.Sync()
  | close                            -- tmp.Close()
  | hook                             -- s.afterTempWrite()
  | rename (src dst : NameRef)       -- os.Rename(src, dst)
  | setKeep                          -- keepTemp = true
  | fsyncDir                         -- syncDir(dir): os.Open(dir); d.Sync(); d.Close()
  | removeTmp                        -- os.Remove(tmpPath)
  | other (what : String)            -- an effectful call the extractor does not know
deriving Repr, DecidableEq

/-- the local variables of one `Save` call -/
structure Proc where
  tmp : Option Name := none          -- tmpPath
  fd : Option Ino := none            -- the open temp file
  keep : Bool := false               -- keepTemp
  off : Nat := 0                     -- file offset of the open temp file
deriving Repr, DecidableEq

def setInode (f : Ino → Inode) (i : Ino) (v : Inode) : Ino → Inode :=
  fun x => if x = i then v else f x

def resolve (p : Proc) : NameRef → Option Name
  | .tmp => p.tmp
  | .path => some pathName

/-- what is written when the argument of `Write` is not the encoded state -/
def garbage : Bytes := [0xEE]

/-- `t` = the fresh name `os.CreateTemp` picks, `new` = `state.Encode(st)` -/
def exec (t : Name) (new : Bytes) (s : FS × Proc) : Op → FS × Proc
  | .createTemp =>
    let fs := s.1
    ({ fs with inodes := setInode fs.inodes fs.next ⟨[], 0⟩, next := fs.next + 1,
               pending := fs.pending ++ [.link t fs.next] },
     { s.2 with tmp := some t, fd := some fs.next, off := 0 })
  | .openFixed trunc =>
    -- a DETERMINISTIC temp name without O_EXCL: a stale temp file of an earlier
    -- crashed save is re-opened (and overwritten from offset 0), not replaced
    let fs := s.1
    match fs.view t with
    | none =>
      ({ fs with inodes := setInode fs.inodes fs.next ⟨[], 0⟩, next := fs.next + 1,
                 pending := fs.pending ++ [.link t fs.next] },
       { s.2 with tmp := some t, fd := some fs.next, off := 0 })
    | some i =>
      ({ fs with inodes := if trunc then setInode fs.inodes i ⟨[], 0⟩ else fs.inodes },
       { s.2 with tmp := some t, fd := some i, off := 0 })
  | .write enc =>
    match s.2.fd with
    | none => s
    | some i =>
      let n := s.1.inodes i
      let bytes := if enc then new else garbage
      -- write at the file offset (a fresh file: append)
      let n' : Inode := ⟨n.data.take s.2.off ++ bytes ++ n.data.drop (s.2.off + bytes.length), min n.synced s.2.off⟩
      ({ s.1 with inodes := setInode s.1.inodes i n' }, { s.2 with off := s.2.off + bytes.length })
  | .fsync =>
    match s.2.fd with
    | none => s
    | some i =>
      let n := s.1.inodes i
      ({ s.1 with inodes := setInode s.1.inodes i ⟨n.data, n.data.length⟩ }, s.2)
  | .close => (s.1, { s.2 with fd := none })
  | .hook => s
  | .rename a b =>
    match resolve s.2 a, resolve s.2 b with
    | some x, some y => ({ s.1 with pending := s.1.pending ++ [.rename x y] }, s.2)
    | _, _ => s
  | .setKeep => (s.1, { s.2 with keep := true })
  | .fsyncDir => ({ s.1 with durable := s.1.view, pending := [] }, s.2)
  | .removeTmp =>
    match s.2.tmp with
    | none => s
    | some x => ({ s.1 with pending := s.1.pending ++ [.unlink x] }, s.2)
  | .other _ => s

def run (t : Name) (new : Bytes) (ops : List Op) (s : FS × Proc) : FS × Proc :=
  ops.foldl (exec t new) s

/-- the adversary's choice at a power loss -/
structure CrashChoice where
  /-- how many journalled directory operations reached the disk -/
  j : Nat
  /-- per inode: how many bytes of its contents survive (clamped to
      `synced ≤ · ≤ length`) -/
  cut : Ino → Nat

def crashInode (c : Nat) (n : Inode) : Inode :=
  let len := max n.synced (min c n.data.length)
  ⟨n.data.take len, len⟩

def crash (c : CrashChoice) (fs : FS) : FS :=
  { inodes := fun i => crashInode (c.cut i) (fs.inodes i),
    next := fs.next,
    durable := (fs.pending.take c.j).foldl applyDirOp fs.durable,
    pending := [] }

/-- a process kill loses nothing that reached the kernel -/
def killChoice (fs : FS) : CrashChoice := { j := fs.pending.length, cut := fun i => (fs.inodes i).data.length }

/-- the cleanup an early `return err` runs: the deferred `os.Remove(tmpPath)`
    unless `keepTemp` was set (or no temp file exists yet). -/
def cleanupOps (deferredRemove : Bool) (p : Proc) : List Op :=
  if deferredRemove && !p.keep && p.tmp.isSome then [.removeTmp] else []

/-- `Save` fails at call number `k` (that call has no effect) and returns. -/
def abortAt (t : Name) (new : Bytes) (deferredRemove : Bool) (ops : List Op) (k : Nat) (fs : FS) : FS × Proc :=
  let s := run t new (ops.take k) (fs, {})
  run t new (cleanupOps deferredRemove s.2) s

/-! ### system calls of an op (for kill points and for the strace comparison) -/

inductive Sys | creat | write | fsync | close | rename | opendir | fsyncdir | closedir | unlink | hook
deriving Repr, DecidableEq

def Sys.toString : Sys → String
  | .creat => "creat" | .write => "write" | .fsync => "fsync" | .close => "close"
  | .rename => "rename" | .opendir => "opendir" | .fsyncdir => "fsyncdir" | .closedir => "closedir"
  | .unlink => "unlink" | .hook => "hook"

def sysOf : Op → List Sys
  | .createTemp => [.creat]
  | .openFixed _ => [.creat]
  | .write _ => [.write]
  | .fsync => [.fsync]
  | .close => [.close]
  | .hook => [.hook]
  | .rename _ _ => [.rename]
  | .setKeep => []
  | .fsyncDir => [.opendir, .fsyncdir, .closedir]
  | .removeTmp => [.unlink]
  | .other _ => []

/-- a seccomp kill point names a system-call *number* (and for `openat` the
    O_CREAT bit): does call `s` trip kill point `p`? -/
def trips (p : String) (s : Sys) : Bool :=
  match p, s with
  | "creat", .creat => true
  | "write", .write => true
  | "fsync", .fsync => true
  | "fsync", .fsyncdir => true
  | "close", .close => true
  | "close", .closedir => true
  | "rename", .rename => true
  | "opendir", .opendir => true
  | "unlink", .unlink => true
  | "hook", .hook => true
  | _, _ => false

/-- the ops that ran to completion before the process was killed on entering
    the first system call that trips `p` (all ops if none does) -/
def opsBeforeKill (p : String) : List Op → List Op
  | [] => []
  | o :: rest => if (sysOf o).any (trips p) then [] else o :: opsBeforeKill p rest

def killedBy (p : String) (ops : List Op) : Bool := ops.any (fun o => (sysOf o).any (trips p))

end WK.C19

import WK.Spec.C17
import WK.Gen.C17
/-
  C17 — executable model of the channel-migration commands as the slot FSM
  applies them (pkg/slot/fsm/statemachine.go ApplyBatch →
  pkg/db/meta/compat.go WriteBatch.* → batch.go Commit → table_channel_migration.go
  stageUpsertChannelMigrationTask).  Branch order follows the Go code.

  One ApplyBatch =
    1. staging: per command the WriteBatch method runs its request validation and
       queues closures (`Staged`); the WriteBatch keeps `migrationCreates` /
       `migrationActive`;
    2. commit: the closures run in order against the COMMITTED db (`db`) plus the
       per-commit overlays for task rows and meta rows; writes go to an engine
       batch (`W` list) applied atomically at the end.  The active index and the
       `existing` row in stageUpsert are read from the committed db, NOT from the
       batch (that is what the code does);
    3. a stale-class commit error (conflict / notfound / exists) of a multi-command
       batch makes the FSM re-apply the commands one by one.
  Core only.
-/
namespace WK.C17

inductive Err | invalid | exists | notfound | conflict
deriving DecidableEq, Repr

def Err.str : Err → String
  | .invalid => "err:invalid" | .exists => "err:exists" | .notfound => "err:notfound" | .conflict => "err:conflict"

/-- isStaleMetaCommitError -/
def Err.stale : Err → Bool
  | .invalid => false | _ => true

structure Guard where
  chan : Nat
  id : Nat
  est : Nat
  eph : Nat
  eown : Nat
  eolease : Nat
  eupd : Nat
deriving DecidableEq, Repr, Inhabited

structure RtGuard where
  chan : Nat
  ecep : Nat
  elep : Nat
  eld : Nat
  etok : Nat
  efver : Nat
  ergen : Nat
deriving DecidableEq, Repr, Inhabited

inductive Kind
  | create | createg | claim | advance | setfence | resetfence | commit | addlearner | promote | clearfence | abort | gc
deriving DecidableEq, Repr, Inhabited

/-- one decoded FSM command (all request structs flattened; unused fields are 0) -/
structure Cmd where
  kind : Kind
  task : Task := default
  g : Guard := default
  rg : RtGuard := default
  st : Nat := 0
  ph : Nat := 0
  upd : Nat := 0
  comp : Nat := 0
  reason : Nat := 0
  funtil : Nat := 0
  now : Nat := 0
  desired : Nat := 0
  nle : Nat := 0
  lease : Nat := 0
  target : Nat := 0
  source : Nat := 0
  owner : Nat := 0
  olease : Nat := 0
  leo : Nat := 0
  hw : Nat := 0
  dnode : Nat := 0
  drgen : Nat := 0
  dcep : Nat := 0
  dlep : Nat := 0
  dfv : Nat := 0
  embdes : Nat := 0
  before : Nat := 0
  limit : Nat := 0
deriving Repr, Inhabited

/-! ### small helpers -/

def insertSorted (x : Nat) : List Nat → List Nat
  | [] => [x]
  | y :: ys => if x < y then x :: y :: ys else if x == y then y :: ys else y :: insertSorted x ys

/-- normalizeUint64Set: sorted, de-duplicated -/
def normSet (xs : List Nat) : List Nat := xs.foldr insertSorted []

def validStatus (s : Nat) : Bool := 1 ≤ s && s ≤ 6
def validPhase (p : Nat) : Bool :=
  p == 1 || p == 2 || p == 3 || p == 4 || p == 5 || p == 6 || p == 7 ||
  p == 20 || p == 21 || p == 22 || p == 23 || p == 25 || p == 26 || p == 27

/-- validateChannelMigrationTask -/
def validTask (t : Task) : Bool :=
  t.chan != 0 && t.id != 0 &&
  (isLTKind t.kind || t.kind == 2) &&
  !(t.status < 1 || t.status > 6 || t.phase == 0) &&
  !(isLTKind t.kind && t.des != 0 && t.des != t.tgt) &&
  !(t.terminal && t.comp == 0)

/-- validateChannelMigrationTaskGuard -/
def validGuard (g : Guard) : Bool := g.chan != 0 && g.id != 0 && !(g.est == 0 || g.eph == 0)

/-- validateChannelMigrationTaskRuntimeTransition -/
def validTransition (g : Guard) (rg : RtGuard) (st ph upd comp : Nat) : Bool :=
  validGuard g && rg.chan != 0 &&
  -- (present only if the extractor finds the check in the current source, see WK.Gen.C17)
  !(WK.Gen.C17.transitionChecksGuardChannel && g.chan != rg.chan) &&
  !(!validStatus st || !validPhase ph || upd ≤ g.eupd) &&
  !((st == 4 || st == 5 || st == 6) && comp == 0)

def Guard.matches (g : Guard) (t : Task) : Bool :=
  t.chan == g.chan && t.id == g.id && t.status == g.est && t.phase == g.eph &&
  t.owner == g.eown && t.olease == g.eolease && t.upd == g.eupd

def RtGuard.matches (g : RtGuard) (m : Meta) : Bool :=
  m.cep == g.ecep && m.lep == g.elep && m.leader == g.eld && m.ftok == g.etok && m.fver == g.efver &&
  (g.ergen == 0 || m.rgen == g.ergen)

/-- normalizeChannelRuntimeMeta (ChannelType 2: no directory generation) -/
def normMeta (m : Meta) : Meta :=
  { m with replicas := normSet m.replicas, isr := normSet m.isr,
           rgen := if m.rgen == 0 then max (max m.cep m.lep) (max m.fver 1) else m.rgen }

/-- validateChannelRuntimeMeta (it normalises first) -/
def validMeta (m : Meta) : Bool := (normMeta m).valid

def routeChanged (a b : Meta) : Bool :=
  a.cep != b.cep || a.lep != b.lep || a.leader != b.leader || a.replicas != b.replicas || a.isr != b.isr ||
  a.minisr != b.minisr || a.lease != b.lease || a.ftok != b.ftok || a.fver != b.fver ||
  a.freason != b.freason || a.funtil != b.funtil

/-- bumpRuntimeRoute existing candidate true -/
def bumpRoute (existing cand : Meta) : Meta :=
  if routeChanged existing cand && cand.rgen ≤ existing.rgen then { cand with rgen := existing.rgen + 1 } else cand

def clearMetaFence (m : Meta) : Meta := { m with ftok := 0, fver := m.fver + 1, freason := 0, funtil := 0 }
def clearTaskProof (t : Task) : Task := { t with leo := 0, hw := 0, dnode := 0, drgen := 0, dcep := 0, dlep := 0, dfv := 0 }
def clearTaskFenceAndProof (t : Task) : Task := clearTaskProof { t with ftok := 0, fver := 0, funtil := 0 }

def fencePhaseAllowed (t : Task) : Bool :=
  if t.kind == 1 || t.kind == 3 then ltFencePhase t.phase
  else if t.kind == 2 then (if rrFencePhase t.phase then true else t.emb && ltFencePhase t.phase)
  else false

def taskDesiredLeader (t : Task) : Nat := if t.emb && t.embdes != 0 then t.embdes else t.des

/-! ### guard predicates (true = the Go function returns nil) -/

def matchingFence (m : Meta) (tok ver now : Nat) (allowExpired : Bool) : Bool :=
  !(tok == 0 || ver == 0 || m.ftok != tok || m.fver != ver) && !(!allowExpired && now > m.funtil)

def activeTaskFence (t : Task) (m : Meta) (efver : Nat) : Bool :=
  !(t.ftok == 0 || t.fver == 0 || t.funtil == 0 || t.ftok != t.id || t.ftok != m.ftok || t.fver != m.fver || t.fver != efver)

def noForeignFence (t : Task) (m : Meta) : Bool :=
  let taskHas := t.ftok != 0 || t.fver != 0 || t.funtil != 0
  let metaHas := m.ftok != 0
  if !taskHas && !metaHas then true
  else if !taskHas || !metaHas then false
  else activeTaskFence t m m.fver

def proofHasAny (t : Task) : Bool :=
  t.leo != 0 || t.hw != 0 || t.dnode != 0 || t.drgen != 0 || t.dcep != 0 || t.dlep != 0 || t.dfv != 0
def proofHasPartial (t : Task) : Bool :=
  proofHasAny t && (t.dnode == 0 || t.drgen == 0 || t.dcep == 0 || t.dlep == 0 || t.dfv == 0 || t.hw > t.leo)

/-- requireChannelMigrationCutoverProof -/
def cutoverProof (t : Task) (m : Meta) (efver : Nat) : Bool :=
  !(efver == 0 || !proofHasAny t || proofHasPartial t) &&
  !(t.dfv != efver || m.fver != efver || t.dcep != m.cep || t.dlep != m.lep || t.dnode != m.leader || t.hw > t.leo)

/-! ### transition tables -/

def setFenceTransition (t : Task) (c : Cmd) : Bool :=
  if c.st != 2 then false
  else if isLTKind t.kind || (t.kind == 2 && t.emb && ltPhase t.phase) then
    (t.phase == 3 && c.ph == 4) || (ltFencePhase t.phase && c.ph == t.phase)
  else if t.kind == 2 then
    (t.phase == 22 && c.ph == 23) || (rrFencePhase t.phase && c.ph == t.phase)
  else false

def resetFenceTransition (t : Task) (c : Cmd) : Bool :=
  if c.st != 2 || !fencePhaseAllowed t then false
  else if isLTKind t.kind || (t.kind == 2 && t.emb && ltFencePhase t.phase) then c.ph == 2 || c.ph == 3
  else t.kind == 2 && c.ph == 22

def commitTransition (t : Task) (c : Cmd) : Bool :=
  if c.st != 2 || t.phase != 6 || c.ph != 7 then false
  else if isLTKind t.kind then true
  else t.kind == 2 && t.emb

def addLearnerTransition (t : Task) (c : Cmd) : Bool :=
  !(t.kind != 2 || t.phase != 20 || c.st != 2 || c.ph != 21)

def promoteTransition (t : Task) (c : Cmd) : Bool :=
  !(t.kind != 2 || t.phase != 25 || c.st != 2 || c.ph != 26)

def clearFenceTransition (t : Task) (c : Cmd) : Bool :=
  if !fencePhaseAllowed t then false
  else if c.st == 4 && c.ph == 27 && c.comp != 0 then
    if t.kind == 1 || t.kind == 3 then t.phase == 7 || (t.terminal && t.phase == 27)
    else if t.kind == 2 then t.phase == 26 || (t.terminal && t.phase == 27)
    else false
  else t.kind == 2 && t.emb && t.phase == 7 && c.st == 2 && c.ph == 20 && c.comp == 0

def clearFenceIdempotent (t : Task) (m : Meta) (c : Cmd) : Bool :=
  !(c.st != 4 || c.ph != 27 || c.comp == 0 || !t.terminal || t.status != 4 || t.phase != 27 || t.upd != c.upd || t.comp != c.comp) &&
  !(t.ftok != 0 || t.fver != 0 || t.funtil != 0 || t.leo != 0 || t.hw != 0 || t.dnode != 0 || t.drgen != 0 ||
    t.dcep != 0 || t.dlep != 0 || t.dfv != 0) &&
  (m.cep == c.rg.ecep && m.lep == c.rg.elep && m.leader == c.rg.eld && m.ftok == 0 &&
   m.fver == c.rg.efver + 1 && m.freason == 0 && m.funtil == 0)

def canAbortRemoveLearner (t : Task) : Bool :=
  t.phase == 21 || t.phase == 22 || t.phase == 23 || t.phase == 5 || t.phase == 25

/-! ### the seven task+meta mutators (compat.go) -/

def mutSetFence (c : Cmd) (t : Task) (m : Meta) : Except Err (Task × Meta) :=
  if !setFenceTransition t c then .error .conflict
  else if !noForeignFence t m then .error .conflict
  else
    let nt := { clearTaskProof t with status := c.st, phase := c.ph, ftok := t.id, fver := m.fver + 1, funtil := c.funtil, upd := c.upd }
    let nm := { m with ftok := t.id, fver := m.fver + 1, freason := c.reason, funtil := c.funtil }
    .ok (nt, nm)

def mutResetFence (c : Cmd) (t : Task) (m : Meta) : Except Err (Task × Meta) :=
  if !resetFenceTransition t c then .error .conflict
  else if !activeTaskFence t m c.rg.efver then .error .conflict
  else if !matchingFence m c.rg.etok c.rg.efver 0 true then .error .conflict
  else if c.now ≤ m.funtil then .error .conflict
  else
    let nt := { clearTaskFenceAndProof t with status := c.st, phase := c.ph, upd := c.upd }
    .ok (nt, clearMetaFence m)

def mutCommit (c : Cmd) (t : Task) (m : Meta) : Except Err (Task × Meta) :=
  if !commitTransition t c then .error .conflict
  else if !matchingFence m c.rg.etok c.rg.efver c.now false then .error .conflict
  else if !activeTaskFence t m c.rg.efver then .error .conflict
  else if !cutoverProof t m c.rg.efver then .error .conflict
  else if c.desired != taskDesiredLeader t || !memNat c.desired m.isr || c.nle ≤ m.lep then .error .conflict
  else
    let nt := { t with status := c.st, phase := c.ph, upd := c.upd }
    let nm := { m with leader := c.desired, lep := c.nle, lease := c.lease }
    .ok (nt, nm)

def mutAddLearner (c : Cmd) (t : Task) (m : Meta) : Except Err (Task × Meta) :=
  if !addLearnerTransition t c then .error .conflict
  else
    let sourceInISR := memNat t.src m.isr
    if c.target != t.tgt || m.leader == t.src || !memNat t.src m.replicas ||
       (!sourceInISR && m.isr.length < m.minisr) || memNat c.target m.replicas || memNat c.target m.isr then .error .conflict
    else
      let nt := { t with status := c.st, phase := c.ph, upd := c.upd }
      let nm := { m with replicas := m.replicas ++ [c.target], cep := m.cep + 1 }
      .ok (nt, nm)

def mutPromote (c : Cmd) (t : Task) (m : Meta) : Except Err (Task × Meta) :=
  if !promoteTransition t c then .error .conflict
  else if !matchingFence m c.rg.etok c.rg.efver c.now false then .error .conflict
  else if !activeTaskFence t m c.rg.efver then .error .conflict
  else if !cutoverProof t m c.rg.efver then .error .conflict
  else
    let sourceInISR := memNat c.source m.isr
    if c.source != t.src || c.target != t.tgt || m.leader == c.source || !memNat c.source m.replicas ||
       !memNat c.target m.replicas || (!sourceInISR && m.isr.length < m.minisr) || memNat c.target m.isr then .error .conflict
    else
      let nt := { t with status := c.st, phase := c.ph, upd := c.upd }
      let repl := fun (xs : List Nat) => normSet (xs.map (fun v => if v == c.source then c.target else v))
      let nm := { m with replicas := repl m.replicas,
                         isr := if sourceInISR then repl m.isr else normSet (m.isr ++ [c.target]),
                         cep := m.cep + 1 }
      .ok (nt, nm)

def mutClearFence (c : Cmd) (t : Task) (m : Meta) : Except Err (Task × Meta) :=
  if !clearFenceTransition t c then .error .conflict
  else if clearFenceIdempotent t m c then .ok (t, m)
  else if !activeTaskFence t m c.rg.efver then .error .conflict
  else if !matchingFence m c.rg.etok c.rg.efver 0 true then .error .conflict
  else
    let nt := { clearTaskFenceAndProof t with status := c.st, phase := c.ph, upd := c.upd, comp := c.comp }
    let nt := if t.kind == 2 && t.emb && t.phase == 7 && c.st == 2 && c.ph == 20 then { nt with emb := false, embdes := 0 } else nt
    .ok (nt, clearMetaFence m)

def mutAbort (c : Cmd) (t : Task) (m : Meta) : Except Err (Task × Meta) :=
  if t.terminal then .error .conflict
  else if !abortTransitionOk t then .error .conflict
  else
    let nt := { clearTaskFenceAndProof t with status := c.st, phase := c.ph, upd := c.upd, comp := c.comp }
    let r : Except Err Meta :=
      if m.ftok != 0 then
        if !activeTaskFence t m c.rg.efver then .error .conflict
        else if !matchingFence m c.rg.etok c.rg.efver 0 true then .error .conflict
        else .ok (clearMetaFence m)
      else if t.ftok != 0 || t.fver != 0 || t.funtil != 0 then .error .conflict
      else .ok m
    match r with
    | .error e => .error e
    | .ok nm =>
      let nm := if t.kind == 2 && canAbortRemoveLearner t && memNat t.tgt nm.replicas && !memNat t.tgt nm.isr
                then { nm with replicas := normSet (nm.replicas.filter (· != t.tgt)), cep := nm.cep + 1 } else nm
      .ok (nt, nm)

def mutate (c : Cmd) (t : Task) (m : Meta) : Except Err (Task × Meta) :=
  match c.kind with
  | .setfence => mutSetFence c t m
  | .resetfence => mutResetFence c t m
  | .commit => mutCommit c t m
  | .addlearner => mutAddLearner c t m
  | .promote => mutPromote c t m
  | .clearfence => mutClearFence c t m
  | .abort => mutAbort c t m
  | _ => .error .invalid

/-- the claim / advance task-only mutators -/
def mutTaskOnly (c : Cmd) (t : Task) : Except Err Task :=
  match c.kind with
  | .claim =>
    if !(t.owner == 0 || t.owner == c.owner || (t.olease > 0 && t.olease ≤ c.now)) then .error .conflict
    else .ok { t with status := c.st, phase := c.ph, owner := c.owner, olease := c.olease, upd := c.upd }
  | .advance =>
    let t := { t with status := c.st, phase := c.ph, upd := c.upd, comp := c.comp }
    let t := if c.leo != 0 || c.hw != 0 || c.dnode != 0 || c.drgen != 0 || c.dcep != 0 || c.dlep != 0 || c.dfv != 0
             then { t with leo := c.leo, hw := c.hw, dnode := c.dnode, drgen := c.drgen, dcep := c.dcep, dlep := c.dlep, dfv := c.dfv } else t
    let t := if c.embdes != 0 then { t with emb := true, embdes := c.embdes } else t
    .ok t
  | _ => .error .invalid

/-! ### engine batch -/

inductive W
  | setActive (c i : Nat)
  | delActive (c : Nat)
  | putTask (t : Task)
  | delTask (c i : Nat)
  | putMeta (c : Nat) (m : Meta)
deriving Repr

def sameKey (c i : Nat) (t : Task) : Bool := t.chan == c && t.id == i

/-- rows are kept as key-unique bags: a put removes every row with the same key first -/
def putTaskRow (t : Task) (ts : List Task) : List Task := t :: ts.filter (fun x => !sameKey t.chan t.id x)

def putKV {α : Type} (k : Nat) (v : α) (l : List (Nat × α)) : List (Nat × α) := (k, v) :: l.filter (fun p => p.1 != k)

def applyW (s : State) : W → State
  | .setActive c i => { s with active := putKV c i s.active }
  | .delActive c => { s with active := s.active.filter (fun p => p.1 != c) }
  | .putTask t => { s with tasks := putTaskRow t s.tasks }
  | .delTask c i => { s with tasks := s.tasks.filter (fun t => !sameKey c i t) }
  | .putMeta c m => { s with metas := putKV c m s.metas }

def applyWs (s : State) (ws : List W) : State := ws.foldl applyW s

/-- ensureChannelMigrationActiveAvailable fails (reads the COMMITTED db) -/
def activeBlocked (db : State) (t : Task) : Bool :=
  match db.activeIdx? t.chan with
  | none => false
  | some v =>
    if v == t.id then false
    else match db.task? t.chan v with
      | none => false
      | some e => e.isActive

/-- `exists && existing.IsActive()` in stageUpsertChannelMigrationTask (committed db) -/
def existingActive (db : State) (t : Task) : Bool :=
  match db.task? t.chan t.id with
  | some e => e.isActive
  | none => false

/-- stageUpsertChannelMigrationTask: reads the COMMITTED db -/
def upsertWrites (db : State) (t : Task) : Except Err (List W) :=
  if !validTask t then .error .invalid
  else if t.isActive then
    if activeBlocked db t then .error .exists else .ok [W.setActive t.chan t.id, W.putTask t]
  else if existingActive db t then .ok [W.delActive t.chan, W.putTask t]
  else .ok [W.putTask t]

/-- what one WriteBatch method queued -/
inductive Staged
  | createRow (t : Task)
  | guardCreate (t : Task) (rg : RtGuard)
  | taskOnly (c : Cmd)
  | taskMeta (c : Cmd)
  | gc (before limit : Nat)
deriving Repr

/-- per-commit overlays: task rows and meta rows written/read earlier in this commit -/
structure Ov where
  tasks : List ((Nat × Nat) × Option Task) := []
  metas : List (Nat × Option Meta) := []

def Ov.task? (o : Ov) (db : State) (c i : Nat) : Option Task :=
  match o.tasks.find? (fun p => p.1 == (c, i)) with
  | some p => p.2
  | none => db.task? c i

def Ov.meta? (o : Ov) (db : State) (c : Nat) : Option Meta :=
  match o.metas.find? (fun p => p.1 == c) with
  | some p => p.2
  | none => db.meta? c

def Ov.putTask (o : Ov) (t : Task) : Ov := { o with tasks := ((t.chan, t.id), some t) :: o.tasks }
def Ov.putMeta (o : Ov) (c : Nat) (m : Meta) : Ov := { o with metas := (c, some m) :: o.metas }

def taskLe (a b : Task) : Bool := a.chan < b.chan || (a.chan == b.chan && a.id ≤ b.id)

def insertByKey (t : Task) : List Task → List Task
  | [] => [t]
  | x :: xs => if taskLe t x then t :: x :: xs else x :: insertByKey t xs

/-- primary-key order (channel id, task id) of a scan -/
def sortTasks (ts : List Task) : List Task := ts.foldr insertByKey []

def gcWrites (db : State) (before limit : Nat) : List W :=
  let rec go (ts : List Task) (deleted : Nat) : List W :=
    match ts with
    | [] => []
    | t :: rest =>
      if deleted ≥ limit then []
      else if !t.terminal || t.comp ≥ before then go rest deleted
      else W.delTask t.chan t.id :: go rest (deleted + 1)
  go (sortTasks db.tasks) 0

/-- one queued closure at commit time -/
def runStaged (db : State) (o : Ov) : Staged → Except Err (Ov × List W)
  | .createRow t =>
    match o.task? db t.chan t.id with
    | some e => if e == t then .ok (o, []) else .error .exists
    | none =>
      match upsertWrites db t with
      | .error e => .error e
      | .ok ws => .ok (o.putTask t, ws)
  | .guardCreate t rg =>
    match o.task? db t.chan t.id with
    | some e => if e == t then .ok (o, []) else .error .exists
    | none =>
      match o.meta? db rg.chan with
      | none => .error .notfound
      | some m => if !rg.matches m then .error .conflict else .ok (o, [])
  | .taskOnly c =>
    match o.task? db c.g.chan c.g.id with
    | none => .error .notfound
    | some t =>
      if !c.g.matches t then .error .conflict
      else match mutTaskOnly c t with
        | .error e => .error e
        | .ok nt =>
          match upsertWrites db nt with
          | .error e => .error e
          | .ok ws => .ok (o.putTask nt, ws)
  | .taskMeta c =>
    match o.task? db c.g.chan c.g.id with
    | none => .error .notfound
    | some t =>
      match o.meta? db c.rg.chan with
      | none => .error .notfound
      | some m =>
        match mutate c t m with
        | .error e => .error e
        | .ok (nt, nm0) =>
          let nm := bumpRoute m (normMeta nm0)
          if !c.g.matches t || !c.rg.matches m then
            if t == nt && m == nm then .ok (o, []) else .error .conflict
          else if t.terminal && t != nt then .error .conflict
          else if !validTask nt then .error .invalid
          else if !validMeta nm then .error .invalid
          else match upsertWrites db nt with
            | .error e => .error e
            | .ok ws => .ok ((o.putTask nt).putMeta c.rg.chan nm, ws ++ [W.putMeta c.rg.chan (normMeta nm)])
  | .gc before limit => .ok (o, gcWrites db before limit)

def commitStaged (db : State) : Ov → List Staged → Except Err (List W)
  | _, [] => .ok []
  | o, s :: rest =>
    match runStaged db o s with
    | .error e => .error e
    | .ok (o', ws) =>
      match commitStaged db o' rest with
      | .error e => .error e
      | .ok ws' => .ok (ws ++ ws')

/-- WriteBatch bookkeeping during staging -/
structure WB where
  creates : List Task := []
  activeChans : List Nat := []
  staged : List Staged := []

/-- WriteBatch.CreateChannelMigrationTask at staging time -/
def stageCreate (wb : WB) (t : Task) : Except Err WB :=
  if !validTask t then .error .invalid
  else match wb.creates.find? (fun e => e.chan == t.chan && e.id == t.id) with
    | some e => if e == t then .ok wb else .error .exists
    | none =>
      if t.isActive && wb.activeChans.any (· == t.chan) then .error .exists
      else
        .ok { creates := t :: wb.creates,
              activeChans := if t.isActive then t.chan :: wb.activeChans else wb.activeChans,
              staged := wb.staged ++ [Staged.createRow t] }

/-- the WriteBatch method of one command: request validation + queued closures.
    Returns the WriteBatch (possibly with closures already queued) and the method's error. -/
def stageCmd (wb : WB) (c : Cmd) : WB × Option Err :=
  match c.kind with
  | .create =>
    match stageCreate wb c.task with
    | .ok wb' => (wb', none)
    | .error e => (wb, some e)
  | .createg =>
    if !validTask c.task || c.rg.chan == 0 || c.task.chan != c.rg.chan then (wb, some .invalid)
    else
      let wb1 := { wb with staged := wb.staged ++ [Staged.guardCreate c.task c.rg] }
      match stageCreate wb1 c.task with
      | .ok wb' => (wb', none)
      | .error e => (wb1, some e)
  | .claim =>
    if !validGuard c.g || c.owner == 0 || c.now == 0 || c.olease ≤ c.now then (wb, some .invalid)
    else ({ wb with staged := wb.staged ++ [Staged.taskOnly c] }, none)
  | .advance => ({ wb with staged := wb.staged ++ [Staged.taskOnly c] }, none)
  | .setfence =>
    if !validGuard c.g || c.rg.chan == 0 || (WK.Gen.C17.fenceRequestChecksGuardChannel && c.g.chan != c.rg.chan) ||
       !validStatus c.st || !validPhase c.ph || c.reason == 0 || c.funtil == 0 || c.upd ≤ c.g.eupd
    then (wb, some .invalid) else ({ wb with staged := wb.staged ++ [Staged.taskMeta c] }, none)
  | .resetfence =>
    if !validTransition c.g c.rg c.st c.ph c.upd 0 || c.now == 0
    then (wb, some .invalid) else ({ wb with staged := wb.staged ++ [Staged.taskMeta c] }, none)
  | .commit =>
    if !validTransition c.g c.rg c.st c.ph c.upd 0 || c.desired == 0 || c.nle == 0 || c.lease == 0 || c.now == 0
    then (wb, some .invalid) else ({ wb with staged := wb.staged ++ [Staged.taskMeta c] }, none)
  | .addlearner =>
    if !validTransition c.g c.rg c.st c.ph c.upd 0 || c.target == 0
    then (wb, some .invalid) else ({ wb with staged := wb.staged ++ [Staged.taskMeta c] }, none)
  | .promote =>
    if !validTransition c.g c.rg c.st c.ph c.upd 0 || c.source == 0 || c.target == 0 || c.source == c.target || c.now == 0
    then (wb, some .invalid) else ({ wb with staged := wb.staged ++ [Staged.taskMeta c] }, none)
  | .clearfence =>
    if !validTransition c.g c.rg c.st c.ph c.upd c.comp
    then (wb, some .invalid) else ({ wb with staged := wb.staged ++ [Staged.taskMeta c] }, none)
  | .abort =>
    if c.st != 6 || !validTransition c.g c.rg c.st c.ph c.upd c.comp
    then (wb, some .invalid) else ({ wb with staged := wb.staged ++ [Staged.taskMeta c] }, none)
  | .gc =>
    if c.before == 0 || c.limit == 0 then (wb, some .invalid)
    else ({ wb with staged := wb.staged ++ [Staged.gc c.before c.limit] }, none)

/-- isStaleMetaResult (for an error returned by the WriteBatch method at staging time) -/
def staleAtStaging (k : Kind) (e : Err) : Bool :=
  match k, e with
  | .create, .exists => true
  | .createg, .conflict => true
  | .createg, .notfound => true
  | .createg, .exists => true
  | .gc, _ => false
  | .create, _ => false
  | .createg, _ => false
  | _, .conflict => true
  | _, .notfound => true
  | _, _ => false

def okResult (k : Kind) : String := if k == .gc then "gc" else "ok"

/-- the staging loop of ApplyBatch: results so far (`none` = decided at commit) -/
def stageAll : WB → List Cmd → Except Err (WB × List (Option String))
  | wb, [] => .ok (wb, [])
  | wb, c :: rest =>
    match stageCmd wb c with
    | (wb', none) =>
      match stageAll wb' rest with
      | .error e => .error e
      | .ok (wb'', rs) => .ok (wb'', none :: rs)
    | (wb', some e) =>
      if staleAtStaging c.kind e then
        match stageAll wb' rest with
        | .error e => .error e
        | .ok (wb'', rs) => .ok (wb'', some "stale_meta" :: rs)
      else .error e

/-- ApplyBatch without the one-by-one fallback: `inl` = results, state; `inr e` = commit error -/
def applyOnce (db : State) (cmds : List Cmd) : Except Err (State × List String) :=
  match stageAll {} cmds with
  | .error e => .error e
  | .ok (wb, rs) =>
    match commitStaged db {} wb.staged with
    | .error e => .error e
    | .ok ws =>
      .ok (applyWs db ws, (cmds.zip rs).map (fun p => match p.2 with | some r => r | none => okResult p.1.kind))

/-- ApplyBatch of ONE command -/
def applySingle (db : State) (c : Cmd) : State × Except Err String :=
  match stageCmd {} c with
  | (wb', some e) =>
    if staleAtStaging c.kind e then
      -- the method failed with a stale-class error; closures queued before the failure still commit
      match commitStaged db {} wb'.staged with
      | .ok ws => (applyWs db ws, .ok "stale_meta")
      | .error e2 => if e2.stale then (db, .ok "stale_meta") else (db, .error e2)
    else (db, .error e)
  | (wb, none) =>
    match commitStaged db {} wb.staged with
    | .ok ws => (applyWs db ws, .ok (okResult c.kind))
    | .error e => if e.stale then (db, .ok "stale_meta") else (db, .error e)

/-- applyCommandsIndividuallyAfterStaleCommit -/
def applyIndividually : State → List Cmd → State × Except Err (List String)
  | db, [] => (db, .ok [])
  | db, c :: rest =>
    match applySingle db c with
    | (db', .error e) => (db', .error e)
    | (db', .ok r) =>
      match applyIndividually db' rest with
      | (db'', .error e) => (db'', .error e)
      | (db'', .ok rs) => (db'', .ok (r :: rs))

/-- stateMachine.ApplyBatch -/
def applyBatch (db : State) (cmds : List Cmd) : State × Except Err (List String) :=
  match cmds with
  | [c] =>
    match applySingle db c with
    | (db', .ok r) => (db', .ok [r])
    | (db', .error e) => (db', .error e)
  | _ =>
    match applyOnce db cmds with
    | .ok (db', rs) => (db', .ok rs)
    | .error e =>
      if e.stale then applyIndividually db cmds else (db, .error e)

/-- environment step of the harness: delete the meta row, then Shard.UpsertChannelRuntimeMeta -/
def setMeta (db : State) (c : Nat) (m : Meta) : State × String :=
  let db' := { db with metas := db.metas.filter (fun p => p.1 != c) }
  if !validMeta m then (db', "err:invalid")
  else ({ db' with metas := putKV c (normMeta m) db'.metas }, "ok")

/-- one line of a history: an environment metadata write or one ApplyBatch -/
inductive Line
  | setmeta (c : Nat) (m : Meta)
  | batch (cmds : List Cmd)

def Line.single : Line → Bool
  | .setmeta _ _ => true
  | .batch [_] => true
  | .batch _ => false

def stepLine (s : State) : Line → State
  | .setmeta c m => (setMeta s c m).1
  | .batch cmds => (applyBatch s cmds).1

def run (s : State) (ls : List Line) : State := ls.foldl stepLine s

end WK.C17

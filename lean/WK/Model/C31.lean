import WK.Spec.C31
/-
  C31 — model of the Online Delivery runtime (core only).

  Three pieces, each mirroring one part of internal/runtime/delivery:

  1. `qstep` — the channel-hashed FIFO shards of `orderedPlanQueue` and the one
     worker per shard of `Runtime.runWorker`, as an LTS:
       enq c      EnqueueRecipientDeliveryPlan of the next plan (serial = admission
                  order) of channel c: appended to shard `shardOf c` under `q.mu`
       pop sh n   the worker of shard sh pops the head plan (only when it is not
                  running a plan) — `n` push attempts will be made for it
       emit sh    the running plan of shard sh makes its next push attempt
       finish sh  runPlan returns
  2. `retryLoop` — `pushWithRetry`: attempt k addresses `routes`; on an answer the
     next attempt addresses exactly the routes classified retryable, on a transport
     error the same routes again; at most `fuel` = RetryMaxAttempts attempts.
  3. `planOffline` / `planPushes` — the recipient resolution of `processPlan`:
     per target with a presence answer, recipients without any route are appended
     once to the offline batch (`appendOfflineUIDs`), every route with an owner that
     is not the sender's own session (`suppressSenderRoute`) is grouped for pushing;
     targets whose presence lookup failed are skipped.
-/
namespace WK.C31

/-! ### 1. shards -/

structure QSt where
  next : Nat := 0
  queue : Nat → List (Nat × Nat) := fun _ => []        -- shard ↦ FIFO of (serial, channel)
  cur : Nat → Option (Nat × Nat × Nat) := fun _ => none -- shard ↦ running (serial, channel, attempts left)
  out : List (Nat × Nat × Nat) := []                    -- push attempts so far: (shard, channel, serial)

inductive QL where
  | enq (c : Nat)
  | pop (sh n : Nat)
  | emit (sh : Nat)
  | finish (sh : Nat)
  deriving Repr

def updF {α : Type} (f : Nat → α) (k : Nat) (v : α) : Nat → α := fun x => if x = k then v else f x

def qstep (shardOf : Nat → Nat) (st : QSt) : QL → Option QSt
  | .enq c =>
    some { st with next := st.next + 1,
                   queue := updF st.queue (shardOf c) (st.queue (shardOf c) ++ [(st.next, c)]) }
  | .pop sh n =>
    match st.cur sh, st.queue sh with
    | none, (p, c) :: rest => some { st with cur := updF st.cur sh (some (p, c, n)), queue := updF st.queue sh rest }
    | _, _ => none
  | .emit sh =>
    match st.cur sh with
    | some (p, c, n+1) => some { st with cur := updF st.cur sh (some (p, c, n)), out := st.out ++ [(sh, c, p)] }
    | _ => none
  | .finish sh =>
    match st.cur sh with
    | some (_, _, 0) => some { st with cur := updF st.cur sh none }
    | _ => none

inductive QReach (shardOf : Nat → Nat) : QSt → Prop where
  | init : QReach shardOf {}
  | step {st st' : QSt} (l : QL) : QReach shardOf st → qstep shardOf st l = some st' → QReach shardOf st'

def qrun (shardOf : Nat → Nat) : QSt → List QL → Option QSt
  | st, [] => some st
  | st, l :: ls => match qstep shardOf st l with
    | some st' => qrun shardOf st' ls
    | none => none

/-- serials of the attempts made for channel c, in trace order -/
def chanSerials (c : Nat) (out : List (Nat × Nat × Nat)) : List Nat :=
  (out.filter (fun e => e.2.1 == c)).map (·.2.2)

/-! ### 2. retry narrowing -/

structure Route where
  uid : Nat
  node : Nat
  sess : Nat
  deriving DecidableEq, Repr

inductive Disp where
  | accepted | retryable | dropped
  deriving DecidableEq, Repr

/-- owner answer for attempt k on `routes`: `none` = transport error, `some ds` = one disposition per route -/
abbrev Oracle := Nat → List Route → Option (List Disp)

def retryableOf : List Route → List Disp → List Route
  | r :: rs, d :: ds => if d = .retryable then r :: retryableOf rs ds else retryableOf rs ds
  | _, _ => []

def retryLoop (orc : Oracle) : Nat → Nat → List Route → List (List Route)
  | 0, _, _ => []
  | fuel+1, k, routes =>
    routes :: (match orc k routes with
      | some ds => if retryableOf routes ds = [] then [] else retryLoop orc fuel (k+1) (retryableOf routes ds)
      | none => retryLoop orc fuel (k+1) routes)

/-! ### 3. recipient resolution of one plan -/

structure TargetAns where
  recips : List Nat
  routes : Option (List Route)      -- `none`: the presence lookup of this target failed
  deriving Repr

structure Sender where
  frm : Nat
  snode : Nat
  ssess : Nat

def suppressedR (s : Sender) (r : Route) : Bool :=
  s.frm != 0 && s.snode != 0 && s.ssess != 0 && r.uid == s.frm && r.node == s.snode && r.sess == s.ssess

/-- appendOfflineUIDs -/
def appendOffline (out : List Nat) (recips : List Nat) (routes : List Route) : List Nat :=
  recips.foldl (fun o u => if routes.any (fun r => r.uid == u) || o.contains u then o else o ++ [u]) out

def planOffline : List Nat → List TargetAns → List Nat
  | out, [] => out
  | out, t :: ts => match t.routes with
    | some rs => planOffline (appendOffline out t.recips rs) ts
    | none => planOffline out ts

def planPushes (s : Sender) : List TargetAns → List Route
  | [] => []
  | t :: ts => match t.routes with
    | some rs => rs.filter (fun r => r.node != 0 && !(suppressedR s r)) ++ planPushes s ts
    | none => planPushes s ts


/-! ### stop / quiesce layer over the shard LTS -/

structure SSt where
  q : QSt := {}
  stopping : Bool := false       -- Runtime.Stop closed `acceptDone`
  finished : List Nat := []      -- serials of plans whose runPlan returned

inductive SL where
  | q (l : QL)
  | stop
  deriving Repr

def sstep (shardOf : Nat → Nat) (st : SSt) : SL → Option SSt
  | .stop => some { st with stopping := true }
  | .q (.enq c) =>
    if st.stopping then none else (qstep shardOf st.q (.enq c)).map (fun q' => { st with q := q' })
  | .q (.finish sh) =>
    match st.q.cur sh with
    | some (p, _, _) => (qstep shardOf st.q (.finish sh)).map (fun q' => { st with q := q', finished := st.finished ++ [p] })
    | none => none
  | .q l => (qstep shardOf st.q l).map (fun q' => { st with q := q' })

inductive SReach (shardOf : Nat → Nat) : SSt → Prop where
  | init : SReach shardOf {}
  | step {st st' : SSt} (l : SL) : SReach shardOf st → sstep shardOf st l = some st' → SReach shardOf st'

def srun (shardOf : Nat → Nat) : SSt → List SL → Option SSt
  | st, [] => some st
  | st, l :: ls => match sstep shardOf st l with
    | some st' => srun shardOf st' ls
    | none => none

/-! ### the judge events a run of `retryLoop` produces -/

def dispCode : Disp → Nat
  | .accepted => 1
  | .retryable => 2
  | .dropped => 3

/-- routes with the owner's dispositions; a route the answer does not mention counts as dropped
    (exactly how `retryableOf` reads a short answer) -/
def zipAtt : List Route → List Disp → List RouteAtt
  | [], _ => []
  | r :: rs, [] => (r.uid, r.node, r.sess, 3) :: zipAtt rs []
  | r :: rs, d :: ds => (r.uid, r.node, r.sess, dispCode d) :: zipAtt rs ds

/-- the judge events one `pushWithRetry` produces: one owner-push event per attempt -/
def retryEvents (orc : Oracle) (m owner : Nat) : Nat → Nat → List Route → List Ev
  | 0, _, _ => []
  | fuel+1, k, routes =>
    match orc k routes with
    | some ds => Ev.remote m owner true (zipAtt routes ds) ::
        (if retryableOf routes ds = [] then [] else retryEvents orc m owner fuel (k+1) (retryableOf routes ds))
    | none => Ev.remote m owner false (zipAtt routes []) :: retryEvents orc m owner fuel (k+1) routes


end WK.C31

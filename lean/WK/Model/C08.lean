import WK.Model.C07
/-
  C08 — the append path WITH the bounded negative membership filter
  (idempotency_filter.go) on top of the C07 store model.

  A filter layer is a bit set (a `Nat` used as a bitmask); `none` is Go's nil
  slice.  The two maphash values of a key are an INPUT of the model (`H`):
  the seeds are process-random, the harness reports the real pair.
  `(h1 + i*h2) & (len*64-1)` on uint64 equals `(h1 + i*h2) % size` on `Nat`
  because `size` (4096 / 8192) divides 2^64.
-/
namespace WK.C08
open WK.C07

def primSize : Nat := 4096      -- idempotencyMembershipPrimaryWords * 64
def overSize : Nat := 8192      -- idempotencyMembershipOverflowWords * 64
def primCap : Nat := 384        -- idempotencyMembershipPrimaryCapacity
def hashCount : Nat := 7        -- idempotencyMembershipHashCount

structure Filter where
  prim : Option Nat := none
  over : Option Nat := none
  adds : Nat := 0
  loaded : Bool := false
deriving Repr, Inhabited, DecidableEq

def bitIdx (size h1 h2 i : Nat) : Nat := (h1 + i * h2) % size

/-- `idempotencyMembershipLayerMayContain` -/
def layerMay (bits : Option Nat) (size h1 h2 : Nat) : Bool :=
  match bits with
  | none => false
  | some b => (List.range hashCount).all (fun i => b.testBit (bitIdx size h1 h2 i))

/-- `idempotencyMembershipLayerAdd` -/
def layerAdd (b size h1 h2 : Nat) : Nat :=
  (List.range hashCount).foldl (fun b i => b ||| (1 <<< bitIdx size h1 h2 i)) b

/-- `mayContain` -/
def Filter.may (f : Filter) (h : Nat × Nat) : Bool :=
  match f.prim with
  | none => false
  | some _ => layerMay f.prim primSize h.1 h.2 || layerMay f.over overSize h.1 h.2

/-- `add` -/
def Filter.add (f : Filter) (h : Nat × Nat) : Filter :=
  if layerMay f.prim primSize h.1 h.2 || layerMay f.over overSize h.1 h.2 then f
  else if f.adds < primCap then
    { f with prim := some (layerAdd (f.prim.getD 0) primSize h.1 h.2), adds := f.adds + 1 }
  else
    { f with over := some (layerAdd (f.over.getD 0) overSize h.1 h.2) }

/-- hash oracle: (from, cmn) of THIS channel ↦ (h1, h2|1) -/
abbrev Hash := B → B → Nat × Nat

/-- key order of the idempotency index in Pebble: be16(len cmn) cmn be16(len from) from -/
def encKey (k : B × B) : List Nat :=
  [k.1.length / 256, k.1.length % 256] ++ k.1.map UInt8.toNat ++
  [k.2.length / 256, k.2.length % 256] ++ k.2.map UInt8.toNat

def natsLt : List Nat → List Nat → Bool
  | [], [] => false
  | [], _ :: _ => true
  | _ :: _, [] => false
  | a :: x, b :: y => if a < b then true else if b < a then false else natsLt x y

def insKey (k : B × B) : List (B × B) → List (B × B)
  | [] => [k]
  | y :: t => if natsLt (encKey k) (encKey y) then k :: y :: t else y :: insKey k t

def sortKeys (l : List (B × B)) : List (B × B) := l.foldl (fun acc k => insKey k acc) []

/-- `ensureIdempotencyMembershipLoaded`: add every durable key, in key order -/
def ensureLoaded (H : Hash) (ch : Chan) (f : Filter) : Filter :=
  if f.loaded then f
  else
    let keys := sortKeys (ch.iidx.map (fun p => p.1))      -- (cmn, from)
    { (keys.foldl (fun f k => f.add (H k.2 k.1)) f) with loaded := true }

structure Cnt where
  skips : Nat := 0
  reads : Nat := 0
deriving Repr, DecidableEq, Inhabited

/-- `validateAppendRow`, with the filter -/
def validateRowF (H : Hash) (st : Store) (c mode : Nat) (f : Filter) (n : Cnt) (seen : Seen) (row : Row) :
    Filter × Cnt × Except Err Seen :=
  if row.id = 0 then (f, n, .error .invalid)
  else if seen.ids.contains row.id then (f, n, .error .conflict)
  else
    let seen := { seen with ids := row.id :: seen.ids }
    let strictOk : Bool :=
      if mode = 0 then
        match alookup row.id st.gidx with
        | some (c', s') => !(decide (c' ≠ c ∨ s' ≠ row.seq))
        | none => true
      else true
    if !strictOk then (f, n, .error .conflict)
    else if row.frm = [] ∨ row.cmn = [] then (f, n, .ok seen)
    else if seen.keys.contains (row.frm, row.cmn) then (f, n, .error .conflict)
    else
      let seen := { seen with keys := (row.frm, row.cmn) :: seen.keys }
      let h := H row.frm row.cmn
      if mode = 2 then ((if f.loaded then f.add h else f), n, .ok seen)
      else
        let f := ensureLoaded H (st.chan c) f
        if !f.may h then (f.add h, { n with skips := n.skips + 1 }, .ok seen)
        else
          let n := { n with reads := n.reads + 1 }
          match lookupIdem (st.chan c) row.frm row.cmn with
          | .error e => (f, n, .error e)
          | .ok (some (s, _, _)) => if s ≠ row.seq then (f, n, .error .conflict) else (f.add h, n, .ok seen)
          | .ok none => (f.add h, n, .ok seen)

def walkRowsF (H : Hash) (st : Store) (c mode : Nat) :
    Nat → List Rec → Filter → Cnt → Seen → List Row → Filter × Cnt × Except Err (List Row)
  | _, [], f, n, _, acc => (f, n, .ok acc.reverse)
  | seq, r :: rest, f, n, seen, acc =>
    let row := mkRow seq r
    match validateRowF H st c mode f n seen row with
    | (f, n, .error e) => (f, n, .error e)
    | (f, n, .ok seen') => walkRowsF H st c mode (seq + 1) rest f n seen' (row :: acc)

/-- `ChannelLog.Append` / `ApplyFetch` (records only) with the filter; returns the counter deltas -/
def appendF (H : Hash) (st : Store) (f : Filter) (c mode base : Nat) (recs : List Rec) : Store × Filter × Cnt × Out :=
  if mode > 2 then (st, f, {}, .err .invalid)
  else
    let (leo, ch) := loadLEO (st.chan c)
    let st := st.setChan c ch
    if base ≠ 0 ∧ base ≠ leo + 1 then (st, f, {}, .err .conflict)
    else match walkRowsF H st c mode (leo + 1) recs f {} {} [] with
      | (f, n, .error e) => (st, f, n, .err e)
      | (f, n, .ok rows) =>
        if rows.isEmpty then (st, f, n, .app 0 0 0)
        else
          let st := rows.foldl (stageRow c) st
          (setLeoC st c (leo + rows.length), f, n, .app (leo + 1) (leo + rows.length) rows.length)

end WK.C08

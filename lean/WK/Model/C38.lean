/-
  C38 — backup archives are self-verifying.  Model of pkg/backup's published
  archive (archive_v1.go, archive_verify.go, chunk_v1.go, slot_manifest_v1.go):
  a repository maps keys to stored bytes; the COMPLETE marker binds the top-level
  manifest by digest and size; the manifest binds every Slot manifest by digest,
  position = Hash Slot; a Slot manifest binds every chunk by digest and size.
  The digest `H`, and the strict-canonical JSON codecs (`enc`/`dec` with the
  re-marshal check) are PARAMETERS.  Core only.
-/
namespace WK.C38

abbrev Bytes := List Nat

structure ChunkRef where
  key : Nat
  dig : Nat
  size : Nat
  deriving DecidableEq, Repr

structure SlotMan where
  slot : Nat
  chunks : List ChunkRef
  deriving DecidableEq, Repr

structure SlotRef where
  slot : Nat
  key : Nat
  dig : Nat
  deriving DecidableEq, Repr

structure Manifest where
  id : Nat
  slots : List SlotRef
  deriving DecidableEq, Repr

structure Marker where
  dig : Nat
  size : Nat
  deriving DecidableEq, Repr

/-- what the object store returns (`ArchiveStore.Open`) -/
structure Repo where
  obj : Nat → Option Bytes
  manifest : Option Bytes
  marker : Option Marker
  corruptFlag : Bool

/-- the abstract parameters: digest and the two strict codecs -/
structure Codec where
  H : Bytes → Nat
  encS : SlotMan → Bytes
  decS : Bytes → Option SlotMan
  encM : Manifest → Bytes
  decM : Bytes → Option Manifest

/-- `decode` accepts only what `encode` produces (DisallowUnknownFields + the re-marshal comparison) -/
structure Codec.Canonical (c : Codec) : Prop where
  decS_canon : ∀ b m, c.decS b = some m → c.encS m = b
  decM_canon : ∀ b m, c.decM b = some m → c.encM m = b
  decS_enc : ∀ m, c.decS (c.encS m) = some m
  decM_enc : ∀ m, c.decM (c.encM m) = some m

def chunkOk (c : Codec) (r : Repo) (ch : ChunkRef) : Bool :=
  match r.obj ch.key with
  | some b => b.length == ch.size && c.H b == ch.dig
  | none => false

/-- `LoadStoredSlotReference` for the reference at position `i` -/
def slotOk (c : Codec) (r : Repo) (i : Nat) (ref : SlotRef) : Bool :=
  ref.slot == i &&
  (match r.obj ref.key with
   | some sb =>
     c.H sb == ref.dig &&
     (match c.decS sb with
      | some sm => sm.slot == i && sm.chunks.all (chunkOk c r)
      | none => false)
   | none => false)

def slotsOk (c : Codec) (r : Repo) : Nat → List SlotRef → Bool
  | _, [] => true
  | i, ref :: rest => slotOk c r i ref && slotsOk c r (i + 1) rest

/-- `VerifyPublishedArchive` -/
def verify (c : Codec) (nslots id : Nat) (r : Repo) : Bool :=
  !r.corruptFlag &&
  (match r.manifest, r.marker with
   | some mb, some mk =>
     mk.size == mb.length && mk.dig == c.H mb &&
     (match c.decM mb with
      | some m => m.id == id && m.slots.length == nslots && slotsOk c r 0 m.slots
      | none => false)
   | _, _ => false)

end WK.C38

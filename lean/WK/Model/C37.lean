import WK.Spec.C37
/-
  C37 — labelled transition systems of the four work queues of pkg/workqueue.
  Core Lean only.

  Atomic steps = the code's critical sections / channel operations / atomics.  Every
  model carries the event log (`WK.C37.Ev`) as ghost state, so the theorems are
  statements about the same `Bool` predicates the driver evaluates on real logs.

  Conventions: task `t` is submitted by submitter thread `t` (any number of
  submitters = any `Nat`); a producer issuing several Submits is several threads.
  Refusal of a Submit after its first check (full, context error, stop seen) is a
  nondeterministic step that is always enabled (over-approximation, sound for the
  safety statements proved).  Close is modelled without a caller deadline (the
  `Close returned nil` path); the executor (ants) is trusted to run an accepted call
  exactly once.
-/
namespace WK.C37

/-- point update of a thread/task-indexed function -/
def upd {α : Type} (f : Nat → α) (a : Nat) (v : α) : Nat → α := fun x => if x = a then v else f x

@[simp] theorem upd_same {α : Type} (f : Nat → α) (a : Nat) (v : α) : upd f a v a = v := by simp [upd]
@[simp] theorem upd_other {α : Type} (f : Nat → α) (a b : Nat) (v : α) (h : b ≠ a) : upd f a v b = f b := by
  simp [upd, h]
theorem upd_apply {α : Type} (f : Nat → α) (a b : Nat) (v : α) : upd f a v b = if b = a then v else f b := rfl

/-! ## 1. Pool LTS: BoundedPool (as coded), BoundedPool repaired, BoundedBatchPool -/

structure PoolCfg where
  /-- admission holds an RWMutex in read mode from a re-check of `closed` through the
      enqueue, and Close sets `closed`/closes `stop` in write mode (BoundedBatchPool;
      BoundedPool since its repair).  `false` = BoundedPool before the repair. -/
  lock : Bool
  /-- CancelAcceptedOnClose -/
  cancel : Bool
  /-- the dispatcher may extend the batch in hand with queued items -/
  batch : Bool
  /-- as coded since the repair: when `submitToExecutor` gives up because of cancel-on-close the
      dispatcher still cancels the rest of the queue (`false` = before the repair: it returns) -/
  cancelFix : Bool
  deriving DecidableEq, Repr

/-- submitter program counter -/
inductive SPc where
  | idle | checked | rlocked | admitted | enqd | ret (ok : Bool)
  deriving DecidableEq, Repr

/-- where a task is -/
inductive Loc where
  | none | queued | held | inflight | running | done | cancelled
  deriving DecidableEq, Repr

/-- dispatcher program counter; the batch in hand is `{t | loc t = held}` -/
inductive DPc where
  | loop      -- select { <-queue ; <-stop }
  | holdL     -- batch in hand, came from the main loop
  | drain     -- saw stop: drainQueue / cancelQueued
  | holdD     -- batch in hand, came from drainQueue
  | cancelD   -- cancelling the batch in hand, then cancelQueued
  | cancelX   -- cancelling the batch in hand, then RETURN (submitToExecutor gave up)
  | exit
  deriving DecidableEq, Repr

inductive CPc where
  | idle | locked | stored | stopped | waiting | ret
  deriving DecidableEq, Repr

structure Pool where
  pc : Nat → SPc
  loc : Nat → Loc
  closed : Bool
  stop : Bool
  writer : Bool
  d : DPc
  c : CPc
  log : List Ev

def Pool.init : Pool :=
  { pc := fun _ => .idle, loc := fun _ => .none, closed := false, stop := false, writer := false,
    d := .loop, c := .idle, log := [] }

/-- holds the admission lock in read mode -/
def holdsR : SPc → Bool
  | .rlocked | .admitted | .enqd => true
  | _ => false

/-- the program point at which `submit` executes its final select -/
def selectPc (cfg : PoolCfg) : SPc := if cfg.lock then .admitted else .checked

inductive PoolStep (cfg : PoolCfg) : Pool → Pool → Prop
  -- Submit(t): `if p.closed.Load() { return ErrClosed }`
  | subClosed (s : Pool) (t : Nat) : s.pc t = .idle → s.closed = true →
      PoolStep cfg s { s with pc := upd s.pc t (.ret false), log := s.log ++ [.sub t 0, .rej t] }
  | subCheck (s : Pool) (t : Nat) : s.pc t = .idle → s.closed = false →
      PoolStep cfg s { s with pc := upd s.pc t .checked, log := s.log ++ [.sub t 0] }
  -- any refusal after the first check: ErrFull / stop / context error / closed on re-check
  | subFail (s : Pool) (t : Nat) : (s.pc t = .checked ∨ s.pc t = .rlocked ∨ s.pc t = .admitted) →
      PoolStep cfg s { s with pc := upd s.pc t (.ret false), log := s.log ++ [.rej t] }
  | subRLock (s : Pool) (t : Nat) : cfg.lock = true → s.pc t = .checked → s.writer = false →
      PoolStep cfg s { s with pc := upd s.pc t .rlocked }
  | subRecheck (s : Pool) (t : Nat) : s.pc t = .rlocked → s.closed = false →
      PoolStep cfg s { s with pc := upd s.pc t .admitted }
  -- the final select takes `p.queue <- task`
  | subEnq (s : Pool) (t : Nat) : s.pc t = selectPc cfg →
      PoolStep cfg s { s with pc := upd s.pc t .enqd, loc := upd s.loc t .queued, log := s.log ++ [.enq t 0] }
  | subRet (s : Pool) (t : Nat) : s.pc t = .enqd →
      PoolStep cfg s { s with pc := upd s.pc t (.ret true), log := s.log ++ [.acc t] }
  -- Close
  | cLock (s : Pool) : cfg.lock = true → s.c = .idle → (∀ t, holdsR (s.pc t) = false) →
      PoolStep cfg s { s with c := .locked, writer := true, log := s.log ++ [.closeBeg] }
  | cStoreL (s : Pool) : cfg.lock = true → s.c = .locked →
      PoolStep cfg s { s with c := .stored, closed := true }
  | cStoreN (s : Pool) : cfg.lock = false → s.c = .idle →
      PoolStep cfg s { s with c := .stored, closed := true, log := s.log ++ [.closeBeg] }
  | cStop (s : Pool) : s.c = .stored →
      PoolStep cfg s { s with c := .stopped, stop := true }
  | cUnlock (s : Pool) : s.c = .stopped →
      PoolStep cfg s { s with c := .waiting, writer := false }
  | cRet (s : Pool) : s.c = .waiting → s.d = .exit → (∀ t, s.loc t ≠ .inflight ∧ s.loc t ≠ .running) →
      PoolStep cfg s { s with c := .ret, log := s.log ++ [closeOk] }
  -- dispatcher
  | dRecv (s : Pool) (t : Nat) : s.d = .loop → s.loc t = .queued →
      PoolStep cfg s { s with d := .holdL, loc := upd s.loc t .held }
  | dExtend (s : Pool) (t : Nat) : cfg.batch = true → (s.d = .holdL ∨ s.d = .holdD) → s.loc t = .queued →
      PoolStep cfg s { s with loc := upd s.loc t .held }
  | dInvokeL (s : Pool) : s.d = .holdL →
      PoolStep cfg s { s with d := .loop, loc := fun t => if s.loc t = .held then .inflight else s.loc t }
  | dInvokeD (s : Pool) : s.d = .holdD →
      PoolStep cfg s { s with d := .drain, loc := fun t => if s.loc t = .held then .inflight else s.loc t }
  | dStop (s : Pool) : s.d = .loop → s.stop = true →
      PoolStep cfg s { s with d := .drain }
  | dDrainRecv (s : Pool) (t : Nat) : cfg.cancel = false → s.d = .drain → s.loc t = .queued →
      PoolStep cfg s { s with d := .holdD, loc := upd s.loc t .held }
  | dDrainCancel (s : Pool) (t : Nat) : cfg.cancel = true → s.d = .drain → s.loc t = .queued →
      PoolStep cfg s { s with loc := upd s.loc t .cancelled, log := s.log ++ [.cancel t] }
  | dDrainEmpty (s : Pool) : s.d = .drain → (∀ t, s.loc t ≠ .queued) →
      PoolStep cfg s { s with d := .exit }
  -- dispatch(): `if p.shouldCancelAccepted() { cancelTasks(batch); cancelQueued(); return }`
  | dCancelBegin (s : Pool) : cfg.cancel = true → s.closed = true → s.d = .holdL →
      PoolStep cfg s { s with d := .cancelD }
  -- submitToExecutor / retryExecutor: `cancelTasks(batch); return false` and dispatch() returns
  | dCancelGiveUp (s : Pool) : cfg.cancel = true → s.closed = true → s.d = .holdL →
      PoolStep cfg s { s with d := if cfg.cancelFix then .cancelD else .cancelX }
  | dCancelHeld (s : Pool) (t : Nat) : (s.d = .cancelD ∨ s.d = .cancelX) → s.loc t = .held →
      PoolStep cfg s { s with loc := upd s.loc t .cancelled, log := s.log ++ [.cancel t] }
  | dCancelDoneD (s : Pool) : s.d = .cancelD → (∀ t, s.loc t ≠ .held) →
      PoolStep cfg s { s with d := .drain }
  | dCancelDoneX (s : Pool) : s.d = .cancelX → (∀ t, s.loc t ≠ .held) →
      PoolStep cfg s { s with d := .exit }
  -- executor (ants): an accepted call runs exactly once
  | xStart (s : Pool) (t : Nat) : s.loc t = .inflight →
      PoolStep cfg s { s with loc := upd s.loc t .running, log := s.log ++ [.run t] }
  | xDone (s : Pool) (t : Nat) : s.loc t = .running →
      PoolStep cfg s { s with loc := upd s.loc t .done, log := s.log ++ [.done t] }

inductive PoolReach (cfg : PoolCfg) : Pool → Prop
  | init : PoolReach cfg Pool.init
  | step {s s' : Pool} : PoolReach cfg s → PoolStep cfg s s' → PoolReach cfg s'

/-- BoundedPool as coded (admission lock, commit 4488b79d4) -/
def cfgBoundedPool : PoolCfg := { lock := true, cancel := false, batch := false, cancelFix := false }
/-- BoundedPool BEFORE the repair: closed check, then an unguarded select between `queue<-task` and `<-stop` -/
def cfgBoundedPoolPreFix : PoolCfg := { lock := false, cancel := false, batch := false, cancelFix := false }
/-- BoundedBatchPool as coded, default close -/
def cfgBatchPool : PoolCfg := { lock := true, cancel := false, batch := true, cancelFix := false }
/-- BoundedBatchPool as coded, CancelAcceptedOnClose (dispatcher cancels the queue when it gives up, commit ff82f924c) -/
def cfgBatchPoolCancel : PoolCfg := { lock := true, cancel := true, batch := true, cancelFix := true }
/-- BoundedBatchPool, CancelAcceptedOnClose, BEFORE the repair -/
def cfgBatchPoolCancelPreFix : PoolCfg := { lock := true, cancel := true, batch := true, cancelFix := false }

/-! ## 2. Worker-queue LTS (BoundedWorkerQueue): admission and close under one mutex -/

inductive WPc where
  | loop | run (t : Nat) | drain | runD (t : Nat) | exit
  deriving DecidableEq, Repr

structure WQ where
  pc : Nat → SPc            -- only idle / enqd / ret are used
  loc : Nat → Loc           -- none / queued / running / done
  closed : Bool             -- `closed` and `stop` change together under q.mu
  w : Nat → WPc             -- workers 0 … nw-1
  c : CPc                   -- idle / waiting / ret
  log : List Ev

def WQ.init : WQ :=
  { pc := fun _ => .idle, loc := fun _ => .none, closed := false, w := fun _ => .loop, c := .idle, log := [] }

inductive WQStep (nw : Nat) : WQ → WQ → Prop
  -- the locked region of submit: `if q.closed { return ErrClosed }`
  | subClosed (s : WQ) (t : Nat) : s.pc t = .idle → s.closed = true →
      WQStep nw s { s with pc := upd s.pc t (.ret false), log := s.log ++ [.sub t 0, .rej t] }
  -- … or no free slot / context error (any refusal)
  | subFail (s : WQ) (t : Nat) : s.pc t = .idle →
      WQStep nw s { s with pc := upd s.pc t (.ret false), log := s.log ++ [.sub t 0, .rej t] }
  -- … or `enqueueWithSlotLocked` succeeds, still under q.mu
  | subEnq (s : WQ) (t : Nat) : s.pc t = .idle → s.closed = false →
      WQStep nw s { s with pc := upd s.pc t .enqd, loc := upd s.loc t .queued, log := s.log ++ [.sub t 0, .enq t 0] }
  | subRet (s : WQ) (t : Nat) : s.pc t = .enqd →
      WQStep nw s { s with pc := upd s.pc t (.ret true), log := s.log ++ [.acc t] }
  -- Close: `q.mu.Lock(); q.closed = true; close(q.stop); q.mu.Unlock()`
  | cClose (s : WQ) : s.c = .idle →
      WQStep nw s { s with c := .waiting, closed := true, log := s.log ++ [.closeBeg] }
  | cRet (s : WQ) : s.c = .waiting → (∀ i, i < nw → s.w i = .exit) →
      WQStep nw s { s with c := .ret, log := s.log ++ [closeOk] }
  -- workers
  | wRecv (s : WQ) (i t : Nat) : i < nw → s.w i = .loop → s.loc t = .queued →
      WQStep nw s { s with w := upd s.w i (.run t), loc := upd s.loc t .running, log := s.log ++ [.run t] }
  | wDone (s : WQ) (i t : Nat) : i < nw → s.w i = .run t →
      WQStep nw s { s with w := upd s.w i .loop, loc := upd s.loc t .done, log := s.log ++ [.done t] }
  | wStop (s : WQ) (i : Nat) : i < nw → s.w i = .loop → s.closed = true →
      WQStep nw s { s with w := upd s.w i .drain }
  | wDrainRecv (s : WQ) (i t : Nat) : i < nw → s.w i = .drain → s.loc t = .queued →
      WQStep nw s { s with w := upd s.w i (.runD t), loc := upd s.loc t .running, log := s.log ++ [.run t] }
  | wDrainDone (s : WQ) (i t : Nat) : i < nw → s.w i = .runD t →
      WQStep nw s { s with w := upd s.w i .drain, loc := upd s.loc t .done, log := s.log ++ [.done t] }
  | wDrainEmpty (s : WQ) (i : Nat) : i < nw → s.w i = .drain → (∀ t, s.loc t ≠ .queued) →
      WQStep nw s { s with w := upd s.w i .exit }

inductive WQReach (nw : Nat) : WQ → Prop
  | init : WQReach nw WQ.init
  | step {s s' : WQ} : WQReach nw s → WQStep nw s s' → WQReach nw s'


/-! ## 3. Sharded-mailbox LTS (ShardedMailbox)

  Any number of shards `nsh`, any task→shard map `sh`, any number of submitters, drain
  goroutine instances created dynamically (`ng` fresh ids).  The WaitGroup is the list
  `wg` of tokens (its counter is the length); `pend s` counts finishShardDrain calls of
  shard `s` that cleared `scheduled` and still owe `wg.Done()` (that call is outside
  the lock).  The locked region of SubmitHash is one step (see the reduction note in
  Theorems/C37.lean); the drain's channel receives are steps of their own. -/

structure MBCfg where
  nsh : Nat
  cap : Nat
  sh : Nat → Nat
  /-- `true` = as coded (commit 63edb0069): finishShardDrain re-schedules while the mailbox context is
      alive.  `false` = before the repair: only while neither the shard nor the mailbox is closed. -/
  repaired : Bool

/-- drain goroutine instance -/
inductive GPc where
  | dead
  | invoked                  -- scheduled, `pool.Invoke` pending or accepted; drain not yet entered
  | loop                     -- in the drain loop, about to call nextItem
  | batch (b : List Nat)     -- collectBatch in progress
  | handling (b : List Nat)  -- the handler is running on b
  | sawEmpty                 -- nextItem's final empty check done; before finishShardDrain (the window)
  deriving DecidableEq, Repr

inductive MCPc where
  | idle | closing (k : Nat) | ret
  deriving DecidableEq, Repr

structure MB where
  pc : Nat → SPc             -- idle / checked / enqd / ret
  queue : Nat → List Nat
  scheduled : Nat → Bool
  closedS : Nat → Bool
  closedM : Bool
  g : Nat → GPc
  gs : Nat → Nat
  ng : Nat
  wg : List Nat
  pend : Nat → Nat
  c : MCPc
  ctxAlive : Bool
  log : List Ev

def MB.init : MB :=
  { pc := fun _ => .idle, queue := fun _ => [], scheduled := fun _ => false, closedS := fun _ => false,
    closedM := false, g := fun _ => .dead, gs := fun _ => 0, ng := 0, wg := [], pend := fun _ => 0,
    c := .idle, ctxAlive := true, log := [] }

/-- finishShardDrain's re-schedule condition besides `len(queue) > 0` -/
def reschedOk (cfg : MBCfg) (s : MB) (sd : Nat) : Bool :=
  if cfg.repaired then s.ctxAlive else (!s.closedS sd && !s.closedM)

inductive MBStep (cfg : MBCfg) : MB → MB → Prop
  -- SubmitHash: first `m.closed.Load()`
  | subClosed (s : MB) (t : Nat) : s.pc t = .idle → s.closedM = true →
      MBStep cfg s { s with pc := upd s.pc t (.ret false), log := s.log ++ [.sub t (cfg.sh t), .rej t] }
  | subCheck (s : MB) (t : Nat) : s.pc t = .idle → s.closedM = false →
      MBStep cfg s { s with pc := upd s.pc t .checked, log := s.log ++ [.sub t (cfg.sh t)] }
  -- any refusal in the locked region: closed, full, (context)
  | subFail (s : MB) (t : Nat) : s.pc t = .checked →
      MBStep cfg s { s with pc := upd s.pc t (.ret false), log := s.log ++ [.rej t] }
  -- locked region, shard already scheduled
  | subEnq (s : MB) (t : Nat) : s.pc t = .checked → s.closedS (cfg.sh t) = false → s.closedM = false →
      (s.queue (cfg.sh t)).length < cfg.cap → s.scheduled (cfg.sh t) = true →
      MBStep cfg s { s with pc := upd s.pc t .enqd, queue := upd s.queue (cfg.sh t) (s.queue (cfg.sh t) ++ [t]),
                            log := s.log ++ [.enq t (cfg.sh t)] }
  -- locked region, false→true edge of `scheduled`: wg.Add(1), a drain is invoked
  | subEnqSched (s : MB) (t : Nat) : s.pc t = .checked → s.closedS (cfg.sh t) = false → s.closedM = false →
      (s.queue (cfg.sh t)).length < cfg.cap → s.scheduled (cfg.sh t) = false →
      MBStep cfg s { s with pc := upd s.pc t .enqd, queue := upd s.queue (cfg.sh t) (s.queue (cfg.sh t) ++ [t]),
                            scheduled := upd s.scheduled (cfg.sh t) true, wg := cfg.sh t :: s.wg,
                            g := upd s.g s.ng .invoked, gs := upd s.gs s.ng (cfg.sh t), ng := s.ng + 1,
                            log := s.log ++ [.enq t (cfg.sh t)] }
  | subRet (s : MB) (t : Nat) : s.pc t = .enqd →
      MBStep cfg s { s with pc := upd s.pc t (.ret true), log := s.log ++ [.acc t] }
  -- drain goroutine instance i
  | gStart (s : MB) (i : Nat) : s.g i = .invoked →
      MBStep cfg s { s with g := upd s.g i .loop, log := s.log ++ [.wup (s.gs i)] }
  -- invokeShard's error paths (pool closed / context cancelled) go straight to finishShardDrain
  | gAbort (s : MB) (i : Nat) : s.g i = .invoked → s.ctxAlive = false →
      MBStep cfg s { s with g := upd s.g i .sawEmpty }
  | gTake (s : MB) (i x : Nat) (q : List Nat) : s.g i = .loop → s.queue (s.gs i) = x :: q →
      MBStep cfg s { s with g := upd s.g i (.batch [x]), queue := upd s.queue (s.gs i) q }
  | gCollect (s : MB) (i x : Nat) (b q : List Nat) : s.g i = .batch b → s.queue (s.gs i) = x :: q →
      MBStep cfg s { s with g := upd s.g i (.batch (b ++ [x])), queue := upd s.queue (s.gs i) q }
  | gHandle (s : MB) (i : Nat) (b : List Nat) : s.g i = .batch b →
      MBStep cfg s { s with g := upd s.g i (.handling b), log := s.log ++ (.bbeg (s.gs i) :: b.map .run) }
  | gHandled (s : MB) (i : Nat) (b : List Nat) : s.g i = .handling b →
      MBStep cfg s { s with g := upd s.g i .loop, log := s.log ++ (b.map .done ++ [.bend (s.gs i)]) }
  -- nextItem: `s.mu.Lock(); if len(s.queue) == 0 { return false }`
  | gEmpty (s : MB) (i : Nat) : s.g i = .loop → s.queue (s.gs i) = [] →
      MBStep cfg s { s with g := upd s.g i .sawEmpty, log := s.log ++ [.wdn (s.gs i), .wend (s.gs i)] }
  -- finishShardDrain's locked region
  | gFinishResched (s : MB) (i : Nat) : s.g i = .sawEmpty → s.queue (s.gs i) ≠ [] → reschedOk cfg s (s.gs i) = true →
      MBStep cfg s { s with g := upd s.g i .invoked }
  | gFinishDone (s : MB) (i : Nat) : s.g i = .sawEmpty → (s.queue (s.gs i) = [] ∨ reschedOk cfg s (s.gs i) = false) →
      MBStep cfg s { s with g := upd s.g i .dead, scheduled := upd s.scheduled (s.gs i) false,
                            pend := upd s.pend (s.gs i) (s.pend (s.gs i) + 1) }
  -- … and its `wg.Done()` after the unlock
  | wgDone (s : MB) (sd : Nat) : 0 < s.pend sd →
      MBStep cfg s { s with pend := upd s.pend sd (s.pend sd - 1), wg := s.wg.erase sd }
  -- Close
  | cStore (s : MB) : s.c = .idle →
      MBStep cfg s { s with c := .closing 0, closedM := true, log := s.log ++ [.closeBeg] }
  | cShard (s : MB) (k : Nat) : s.c = .closing k → k < cfg.nsh →
      MBStep cfg s { s with c := .closing (k + 1), closedS := upd s.closedS k true }
  | cRet (s : MB) : s.c = .closing cfg.nsh → s.wg = [] →
      MBStep cfg s { s with c := .ret, ctxAlive := false, log := s.log ++ [closeOk] }

inductive MBReach (cfg : MBCfg) : MB → Prop
  | init : MBReach cfg MB.init
  | step {s s' : MB} : MBReach cfg s → MBStep cfg s s' → MBReach cfg s'

/-- a drain instance is live from its invocation until finishShardDrain un-schedules the shard -/
def GPc.live : GPc → Bool
  | .dead => false
  | _ => true

/-- an instance is inside the drain proper (between entering drainScheduledShard and finishShardDrain) -/
def GPc.draining : GPc → Bool
  | .dead | .invoked => false
  | _ => true

/-- per-shard subsequences of the log -/
def enqsSh (cfg : MBCfg) (sd : Nat) (l : List Ev) : List Nat := (enqs l).filter fun t => cfg.sh t = sd
def runsSh (cfg : MBCfg) (sd : Nat) (l : List Ev) : List Nat := (runs l).filter fun t => cfg.sh t = sd

end WK.C37

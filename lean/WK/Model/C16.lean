import WK.Prelude.Hex
/-
  C16 — executable model of the per-user membership tables of pkg/db/meta:
    table_user_channel_membership.go      (ordinary membership + activation index)
    table_user_cmd_channel_membership.go  (command-channel membership)

  Conventions (DESIGN §5).  uint64 columns are `Nat`, int64 columns are `Int`
  (the driver rejects out-of-range literals).  A Go string used as a key part
  (uid, channel id) is represented by the natural number `sid bytes` =
  base-256 value of `1 :: bytes`; the numeric order of these numbers is the
  shortlex order of the byte strings, which is the byte order of the
  uint16-length-prefixed key encoding (keycodec.AppendString).  `sid [] = 1`
  is the empty string (rejected by validateKeyString).  The driver converts hex
  ids with `sid`; the order claim is exercised by the differential run (mixed
  id lengths in the directory scans).

  Every function below mirrors one Go function; the Go name is given.
  Core only (compiled into the driver executable).
-/
namespace WK.C16

/-- order-preserving injective code of a byte string: base-256 value of `1 :: bs` -/
def sid (bs : Bytes) : Nat := bs.foldl (fun a b => a * 256 + b.toNat) 1

/-- primary key (hash slot, uid, channel id, channel type) -/
structure Key where
  slot : Nat
  uid : Nat
  ch : Nat
  ct : Int
deriving DecidableEq, Repr

/-- value columns of UserChannelMembership -/
structure Row where
  join : Nat
  read : Nat
  del : Nat
  act : Int
  tomb : Bool
  tombAt : Int
  sv : Nat
  upd : Int
deriving DecidableEq, Repr

/-- value columns of UserCMDChannelMembership -/
structure CRow where
  start : Nat
  ack : Nat
  tomb : Bool
  tombAt : Int
  upd : Int
deriving DecidableEq, Repr

/-! ### reducers -/

/-- `resolveUserChannelMembership(existing, exists, next)` -/
def resolveUp (ex : Option Row) (nx : Row) : Row :=
  match ex with
  | none => nx
  | some e =>
    if nx.sv < e.sv then e
    else if nx.sv = e.sv then
      if !e.tomb && nx.tomb then e
      else if e.tomb && !nx.tomb then
        { e with tomb := false, tombAt := 0, upd := if nx.upd > e.upd then nx.upd else e.upd }
      else e
    else if nx.tomb then
      { e with tomb := true, tombAt := nx.tombAt, sv := nx.sv,
               upd := if nx.upd > e.upd then nx.upd else e.upd }
    else if e.tomb then nx
    else { e with sv := nx.sv, upd := if nx.upd > e.upd then nx.upd else e.upd }

/-- `resolveEnsuredUserChannelMembership(existing, exists, incoming)` -/
def resolveEn (ex : Option Row) (inc : Row) : Row :=
  match ex with
  | none => inc
  | some e =>
    if inc.sv ≤ e.sv then e
    else if e.sv = 0 then
      { e with join := inc.join,
               read := if inc.read > e.read then inc.read else e.read,
               del := if inc.del > e.del then inc.del else e.del,
               sv := inc.sv,
               upd := if inc.upd > e.upd then inc.upd else e.upd }
    else
      { e with join := inc.join, read := inc.read, del := inc.del, sv := inc.sv,
               upd := if inc.upd > e.upd then inc.upd else e.upd }

/-- mutator of `AdvanceUserChannelMembershipReadSeq` (Shard and Batch are identical) -/
def mutRead (v : Nat) (upd : Int) (r : Row) : Row :=
  if v > r.read then { r with read := v, upd := if upd > r.upd then upd else r.upd } else r

/-- mutator of `HideUserChannelMembership` (Shard and Batch are identical) -/
def mutHide (v : Nat) (upd : Int) (r : Row) : Row :=
  let r1 := if v > r.del then { r with del := v } else r
  let r2 := if r1.act ≠ 0 then { r1 with act := 0 } else r1
  let changed := decide (v > r.del) || decide (r.act ≠ 0)
  if changed && decide (upd > r2.upd) then { r2 with upd := upd } else r2

/-- mutator of `SetUserChannelMembershipActivatedAt` / `ActivateUserChannelMembership` -/
def mutAct (a : Int) (upd : Int) (r : Row) : Row :=
  if a > r.act then { r with act := a, upd := if upd > r.upd then upd else r.upd } else r

/-- `resolveUserCMDChannelMembership(existing, exists, next)` -/
def resolveCmd (ex : Option CRow) (nx : CRow) : CRow :=
  match ex with
  | none => nx
  | some e =>
    if e.tomb && !nx.tomb then nx
    else if e.tomb then e
    else { e with ack := if nx.ack > e.ack then nx.ack else e.ack,
                  upd := if nx.upd > e.upd then nx.upd else e.upd }

/-- mutator of `Shard.AdvanceUserCMDChannelMembershipAckSeq` (two independent ifs) -/
def mutAckS (ack : Nat) (upd : Int) (r : CRow) : CRow :=
  { r with ack := if ack > r.ack then ack else r.ack, upd := if upd > r.upd then upd else r.upd }

/-- mutator of `Batch.AdvanceUserCMDChannelMembershipAckSeq` (nested ifs) -/
def mutAckB (ack : Nat) (upd : Int) (r : CRow) : CRow :=
  if ack > r.ack then { r with ack := ack, upd := if upd > r.upd then upd else r.upd } else r

/-- mutator of `Shard.TombstoneUserCMDChannelMembership(tombstoneAt)` -/
def mutTombS (tAt : Int) (r : CRow) : CRow :=
  { r with tomb := true, tombAt := if tAt > r.tombAt then tAt else r.tombAt,
           upd := if tAt > r.upd then tAt else r.upd }

/-- mutator of `Batch.TombstoneUserCMDChannelMembership(membership)` -/
def mutTombB (tAt upd : Int) (r : CRow) : CRow :=
  { r with tomb := true, tombAt := if tAt > r.tombAt then tAt else r.tombAt,
           upd := if upd > r.upd then upd else r.upd }

/-! ### operations -/

inductive Err | ok | notfound | invalid
deriving DecidableEq, Repr

def Err.str : Err → String
  | .ok => "ok" | .notfound => "notfound" | .invalid => "invalid"

/-- one table operation; `Shard.*` and `Batch.*` entry points that differ are distinct ops -/
inductive Op
  | up (k : Key) (nx : Row)                 -- UpsertUserChannelMembership
  | en (k : Key) (nx : Row)                 -- EnsureUserChannelMembership
  | rd (k : Key) (v : Nat) (upd : Int)      -- AdvanceUserChannelMembershipReadSeq
  | hd (k : Key) (v : Nat) (upd : Int)      -- HideUserChannelMembership
  | acS (k : Key) (a upd : Int)             -- Shard.SetUserChannelMembershipActivatedAt
  | acB (k : Key) (a upd : Int)             -- Batch.ActivateUserChannelMembership
  | dl (k : Key)                            -- DeleteUserChannelMembership
  | cup (k : Key) (nx : CRow)               -- UpsertUserCMDChannelMembership
  | cakS (k : Key) (ack : Nat) (upd : Int)  -- Shard.AdvanceUserCMDChannelMembershipAckSeq
  | cakB (k : Key) (ack : Nat) (upd : Int)  -- Batch.AdvanceUserCMDChannelMembershipAckSeq
  | ctbS (k : Key) (tAt : Int)              -- Shard.TombstoneUserCMDChannelMembership
  | ctbB (k : Key) (tAt upd : Int)          -- Batch.TombstoneUserCMDChannelMembership
deriving DecidableEq, Repr

def Op.key : Op → Key
  | .up k _ | .en k _ | .rd k _ _ | .hd k _ _ | .acS k _ _ | .acB k _ _ | .dl k
  | .cup k _ | .cakS k _ _ | .cakB k _ _ | .ctbS k _ | .ctbB k _ _ => k

def Op.isCmd : Op → Bool
  | .cup .. | .cakS .. | .cakB .. | .ctbS .. | .ctbB .. => true
  | _ => false

/-- `validateKeyString`: non-empty.  (The `len > 65535` branch is outside the model: the
    driver and the harness both refuse such ids as `bad-op`.) -/
def validId (n : Nat) : Bool := decide (1 < n)

/-- `validateUserChannelMembershipIdentity` -/
def validKey (k : Key) : Bool := validId k.uid && validId k.ch

/-- argument validation performed before the row is read (staging time for a Batch) -/
def Op.valid : Op → Bool
  | .up k _ | .en k _ | .dl k => validKey k
  | .rd k _ upd | .hd k _ upd => decide (0 ≤ upd) && validKey k
  | .acS k a upd => decide (0 ≤ a) && decide (0 ≤ upd) && validKey k
  | .acB k a upd => decide (0 < a) && decide (0 ≤ upd) && validKey k
  | .cup k nx => validKey k && decide (0 ≤ nx.tombAt) && decide (0 ≤ nx.upd)
  | .cakS k _ _ | .cakB k _ _ | .ctbS k _ | .ctbB k _ _ => validKey k

/-- per-row transition of the ordinary table: `none` result = not found error.
    Mirrors get → resolve/mutate → (skip if equal) → stage. -/
def rowStep (ex : Option Row) : Op → Option (Option Row)
  | .up _ nx => some (some (resolveUp ex nx))
  | .en _ nx => some (some (resolveEn ex nx))
  | .rd _ v upd => ex.map fun e => some (if e.tomb then e else mutRead v upd e)
  | .hd _ v upd => ex.map fun e => some (if e.tomb then e else mutHide v upd e)
  | .acS _ a upd | .acB _ a upd => ex.map fun e => some (if e.tomb then e else mutAct a upd e)
  | .dl _ => some none
  | _ => some ex

/-- per-row transition of the CMD table -/
def crowStep (ex : Option CRow) : Op → Option (Option CRow)
  | .cup _ nx => some (some (resolveCmd ex nx))
  | .cakS _ a upd => ex.map fun e => some (if e.tomb then e else mutAckS a upd e)
  | .cakB _ a upd => ex.map fun e => some (if e.tomb then e else mutAckB a upd e)
  | .ctbS _ t => ex.map fun e => some (if e.tomb then e else mutTombS t e)
  | .ctbB _ t upd => ex.map fun e => some (if e.tomb then e else mutTombB t upd e)
  | _ => some ex

/-! ### tables and the activation index -/

/-- activation index entry `(hashSlot | uid, activatedAt desc, channelID, channelType)` -/
structure IdxE where
  slot : Nat
  uid : Nat
  act : Int
  ch : Nat
  ct : Int
deriving DecidableEq, Repr

/-- byte order of the encoded index keys -/
def idxLt (a b : IdxE) : Prop :=
  a.slot < b.slot ∨ (a.slot = b.slot ∧ (a.uid < b.uid ∨ (a.uid = b.uid ∧
    (b.act < a.act ∨ (a.act = b.act ∧ (a.ch < b.ch ∨ (a.ch = b.ch ∧ a.ct < b.ct)))))))

instance : DecidableRel idxLt := fun a b => by unfold idxLt; exact inferInstance

/-- `userChannelMembershipActivationKey` -/
def entry (k : Key) (r : Row) : IdxE := ⟨k.slot, k.uid, r.act, k.ch, k.ct⟩

/-- `userChannelMembershipPrimaryFromActivationIndex` -/
def IdxE.key (e : IdxE) : Key := ⟨e.slot, e.uid, e.ch, e.ct⟩

structure St where
  rows : List (Key × Row) := []
  idx : List IdxE := []
  cmd : List (Key × CRow) := []
deriving Repr

def get {α : Type} (k : Key) : List (Key × α) → Option α
  | [] => none
  | (k', v) :: t => if k' = k then some v else get k t

def put {α : Type} (k : Key) (v : α) : List (Key × α) → List (Key × α)
  | [] => [(k, v)]
  | (k', v') :: t => if k' = k then (k, v) :: t else (k', v') :: put k v t

def del {α : Type} (k : Key) : List (Key × α) → List (Key × α)
  | [] => []
  | (k', v') :: t => if k' = k then del k t else (k', v') :: del k t

/-- Pebble `Set` of an index key: the key space is ordered, a present key is overwritten -/
def idxInsert (e : IdxE) : List IdxE → List IdxE
  | [] => [e]
  | h :: t => if idxLt e h then e :: h :: t else if e = h then h :: t else h :: idxInsert e t

/-- Pebble `Delete` of an index key -/
def idxErase (e : IdxE) (l : List IdxE) : List IdxE := l.filter (· ≠ e)

/-- `stageUserChannelMembership`: delete the old index entry, set the row, put the new entry -/
def stage (st : St) (k : Key) (ex : Option Row) (r : Row) : St :=
  let idx1 := match ex with
    | some e => idxErase (entry k e) st.idx
    | none => st.idx
  { st with rows := put k r st.rows, idx := idxInsert (entry k r) idx1 }

/-- `Table.Delete` / `StageDelete` -/
def unstage (st : St) (k : Key) (ex : Option Row) : St :=
  let idx1 := match ex with
    | some e => idxErase (entry k e) st.idx
    | none => st.idx
  { st with rows := del k st.rows, idx := idx1 }

/-- apply one already validated operation (the commit-time part) -/
def applyOp (st : St) (op : Op) : St × Err :=
  if op.isCmd then
    let ex := get op.key st.cmd
    match crowStep ex op with
    | none => (st, .notfound)
    | some none => (st, .ok)
    | some (some r) => if ex = some r then (st, .ok) else ({ st with cmd := put op.key r st.cmd }, .ok)
  else
    let ex := get op.key st.rows
    match rowStep ex op with
    | none => (st, .notfound)
    | some none => (unstage st op.key ex, .ok)
    | some (some r) => if ex = some r then (st, .ok) else (stage st op.key ex r, .ok)

/-- one Shard-level operation -/
def step (st : St) (op : Op) : St × Err :=
  if op.valid then applyOp st op else (st, .invalid)

/-- commit-time loop of `Batch.Commit`: the first failing op aborts the whole batch -/
def applyAll (st : St) : List Op → St × Err
  | [] => (st, .ok)
  | op :: rest =>
    match applyOp st op with
    | (st', .ok) => applyAll st' rest
    | (_, e) => (st, e)

/-- one metadata Batch: staging validates every op in order (first failure aborts
    without commit); the commit is all-or-nothing -/
def batchStep (st : St) (ops : List Op) : St × Err :=
  if ops.all Op.valid then
    match applyAll st ops with
    | (st', .ok) => (st', .ok)
    | (_, e) => (st, e)
  else (st, .invalid)

/-! ### the paginated directory scan -/

/-- `UserChannelMembershipCursor` -/
structure Cur where
  act : Int
  ch : Nat
  ct : Int
deriving DecidableEq, Repr

/-- the zero cursor `UserChannelMembershipCursor{}` (empty channel id = `sid [] = 1`) -/
def Cur.zero : Cur := ⟨0, 1, 0⟩

/-- `validateUserChannelMembershipCursor` -/
def Cur.valid (c : Cur) : Bool :=
  c = Cur.zero || (decide (c.ch ≠ 1) && decide (0 ≤ c.act) && validId c.ch)

/-- index entry strictly after the cursor key `(uid, act desc, ch, ct)` (`Span.Start = PrefixEnd(afterKey)`) -/
def afterCur (c : Cur) (e : IdxE) : Prop :=
  c = Cur.zero ∨ e.act < c.act ∨ (c.act = e.act ∧ (c.ch < e.ch ∨ (c.ch = e.ch ∧ c.ct < e.ct)))

instance (c : Cur) (e : IdxE) : Decidable (afterCur c e) := by unfold afterCur; exact inferInstance

/-- `getByPrimaryKey` + `rowMatchesIndex` of `scanIndexWithOptions` -/
def passes (rows : List (Key × Row)) (e : IdxE) : Bool :=
  match get e.key rows with
  | some r => decide (entry e.key r = e)
  | none => false

/-- the index entries a scan of `(slot, uid)` after `c` walks over, in key order -/
def cands (st : St) (slot uid : Nat) (c : Cur) : List IdxE :=
  st.idx.filter fun e => decide (e.slot = slot) && decide (e.uid = uid) && decide (afterCur c e) && passes st.rows e

def lastCur (c : Cur) : List IdxE → Cur
  | [] => c
  | [e] => ⟨e.act, e.ch, e.ct⟩
  | _ :: t => lastCur c t

/-- `ListUserChannelMembershipPage` for a valid request: emitted entries, next cursor, done -/
def page (st : St) (slot uid : Nat) (c : Cur) (limit : Nat) : List IdxE × Cur × Bool :=
  let cs := cands st slot uid c
  if limit < cs.length then (cs.take limit, lastCur c (cs.take limit), false)
  else (cs, lastCur c cs, true)

/-- request validation of `ListUserChannelMembershipPage` -/
def pageValid (uid : Nat) (c : Cur) (limit : Int) : Bool :=
  validId uid && c.valid && decide (0 < limit)

/-- a whole directory pass with the given page sizes: concatenated output and whether
    the pass completed (`done` was returned) within the given number of pages -/
def runPass (st : St) (slot uid : Nat) : Cur → List Nat → List IdxE × Bool
  | _, [] => ([], false)
  | c, l :: ls =>
    match page st slot uid c l with
    | (out, _, true) => (out, true)
    | (out, c', false) =>
      let (rest, d) := runPass st slot uid c' ls
      (out ++ rest, d)

end WK.C16

import WK.Prelude.Hex
/-
  C26 — model, part 1: byte-level primitives used by the header codec that
  `extract/c26.go` regenerates into `WK.Gen.C26` (EncodeHeader / DecodeHeader of
  pkg/transport/wire/frame.go), and part 2: the PendingTable labelled
  transition system (pkg/transport/internal/rpc/pending.go).  Core only.
-/
namespace WK.C26

/-! ## Part 1 — big-endian reads/writes on a byte buffer -/

/-- byte `i` (0 = most significant) of the `w`-byte big-endian rendering of `v`
    (`binary.BigEndian.PutUintN`; for `w = 1` a plain byte store). -/
def beByte (w v i : Nat) : UInt8 := UInt8.ofNat (v / 256 ^ (w - 1 - i))

/-- `binary.BigEndian.PutUintN(buf[off:], v)` / `buf[off] = v` on a fixed-size
    buffer: bytes `off .. off+w-1` are overwritten, everything else is kept.
    (An out-of-range store panics in Go; here it writes what fits — the
    theorems require `off + w ≤ length`, the harness observes the panic.) -/
def wr (bs : Bytes) (off w v : Nat) : Bytes :=
  bs.mapIdx (fun i b => if off ≤ i ∧ i < off + w then beByte w v (i - off) else b)

/-- `buf[i]` (0 beyond the end; see `rd`) -/
def byteAt (bs : Bytes) (i : Nat) : UInt8 := bs.getD i 0

/-- `binary.BigEndian.UintN(buf[off:])` / `buf[off]`: big-endian value of the
    `w` bytes at `off` (missing bytes read as 0; the decoder checks the length
    first, exactly as the Go code must to avoid a panic). -/
def rd (bs : Bytes) (off : Nat) : Nat → Nat
  | 0 => 0
  | w + 1 => (byteAt bs off).toNat * 256 ^ w + rd bs (off + 1) w

/-- a sequence of stores in source order: `(offset, width, value)` -/
def applyWrites (bs : Bytes) (ws : List (Nat × Nat × Nat)) : Bytes :=
  ws.foldl (fun b x => wr b x.1 x.2.1 x.2.2) bs

/-- `wire.Header` (Go: Kind uint8, Priority uint8, ServiceID uint16, RequestID uint64, BodyLen uint32) -/
structure Header where
  kind : Nat
  priority : Nat
  serviceID : Nat
  requestID : Nat
  bodyLen : Nat
  deriving DecidableEq, Repr

/-- the Go field types -/
def Header.WF (h : Header) : Prop :=
  h.kind < 2 ^ 8 ∧ h.priority < 2 ^ 8 ∧ h.serviceID < 2 ^ 16 ∧ h.requestID < 2 ^ 64 ∧ h.bodyLen < 2 ^ 32

instance (h : Header) : Decidable h.WF := by unfold Header.WF; exact inferInstance

/-- error sentinels DecodeHeader wraps (`errors.Is` classes) -/
inductive Err
  | invalidFrame      -- core.ErrInvalidFrame
  | invalidPriority   -- core.ErrInvalidPriority
  | msgTooLarge       -- core.ErrMsgTooLarge
  deriving DecidableEq, Repr

def Err.str : Err → String
  | .invalidFrame => "err:invalid-frame"
  | .invalidPriority => "err:invalid-priority"
  | .msgTooLarge => "err:too-large"

def Header.str (h : Header) : String :=
  s!"{h.kind} {h.priority} {h.serviceID} {h.requestID} {h.bodyLen}"

end WK.C26

import WK.Prelude.Hex
/-
  C26 — model, part 1: byte-level primitives used by the header codec that
  `extract/c26.go` regenerates into `WK.Gen.C26` (EncodeHeader / DecodeHeader of
  pkg/transport/wire/frame.go), and part 2: the PendingTable labelled
  transition system (pkg/transport/internal/rpc/pending.go).  Core only.
-/
namespace WK.C26

/-! ## Part 1 — big-endian reads/writes on a byte buffer -/

/-- byte `i` (0 = most significant) of the `w`-byte big-endian rendering of `v`
    (`binary.BigEndian.PutUintN`; for `w = 1` a plain byte store). -/
def beByte (w v i : Nat) : UInt8 := UInt8.ofNat (v / 256 ^ (w - 1 - i))

/-- `binary.BigEndian.PutUintN(buf[off:], v)` / `buf[off] = v` on a fixed-size
    buffer: bytes `off .. off+w-1` are overwritten, everything else is kept.
    (An out-of-range store panics in Go; here it writes what fits — the
    theorems require `off + w ≤ length`, the harness observes the panic.) -/
def wr (bs : Bytes) (off w v : Nat) : Bytes :=
  bs.mapIdx (fun i b => if off ≤ i ∧ i < off + w then beByte w v (i - off) else b)

/-- `buf[i]` (0 beyond the end; see `rd`) -/
def byteAt (bs : Bytes) (i : Nat) : UInt8 := bs.getD i 0

/-- `binary.BigEndian.UintN(buf[off:])` / `buf[off]`: big-endian value of the
    `w` bytes at `off` (missing bytes read as 0; the decoder checks the length
    first, exactly as the Go code must to avoid a panic). -/
def rd (bs : Bytes) (off : Nat) : Nat → Nat
  | 0 => 0
  | w + 1 => (byteAt bs off).toNat * 256 ^ w + rd bs (off + 1) w

/-- a sequence of stores in source order: `(offset, width, value)` -/
def applyWrites (bs : Bytes) (ws : List (Nat × Nat × Nat)) : Bytes :=
  ws.foldl (fun b x => wr b x.1 x.2.1 x.2.2) bs

/-- `wire.Header` (Go: Kind uint8, Priority uint8, ServiceID uint16, RequestID uint64, BodyLen uint32) -/
structure Header where
  kind : Nat
  priority : Nat
  serviceID : Nat
  requestID : Nat
  bodyLen : Nat
  deriving DecidableEq, Repr

/-- the Go field types -/
def Header.WF (h : Header) : Prop :=
  h.kind < 2 ^ 8 ∧ h.priority < 2 ^ 8 ∧ h.serviceID < 2 ^ 16 ∧ h.requestID < 2 ^ 64 ∧ h.bodyLen < 2 ^ 32

instance (h : Header) : Decidable h.WF := by unfold Header.WF; exact inferInstance

/-- error sentinels DecodeHeader wraps (`errors.Is` classes) -/
inductive Err
  | invalidFrame      -- core.ErrInvalidFrame
  | invalidPriority   -- core.ErrInvalidPriority
  | msgTooLarge       -- core.ErrMsgTooLarge
  deriving DecidableEq, Repr

def Err.str : Err → String
  | .invalidFrame => "err:invalid-frame"
  | .invalidPriority => "err:invalid-priority"
  | .msgTooLarge => "err:too-large"

def Header.str (h : Header) : String :=
  s!"{h.kind} {h.priority} {h.serviceID} {h.requestID} {h.bodyLen}"



/-! ## Part 2 — the PendingTable as a labelled transition system

  pkg/transport/internal/rpc/pending.go.  Caller `c` owns request id `c` (ids are
  unique per connection: conn.Call takes them from an atomic counter) and a
  private buffered(1) channel, as conn.Call does.  One transition per atomic
  region of the Go code:

    store c            Store: under closeMu.RLock — closed? then an error send is owed (done after
                       RUnlock, a separate `deliver`), else the entry is inserted under the shard lock
    completeRemove i n Complete, shard-lock region: look up + delete the entry; the send is owed
    deliver c          one `trySend` (non-blocking send to c's channel; dropped when full)
    delete c           Delete (caller gave up: timeout / cancellation), then the caller leaves
    recv c             the caller takes the value out of its channel
    failBegin e        FailAll takes closeMu.Lock, records closed/closeErr (first error wins)
    failShard          FailAll swaps one shard's map out (shard-lock region); error sends are owed
    failEnd            FailAll releases closeMu

  While a FailAll holds closeMu, `store` is disabled; Complete/Delete do not take closeMu
  and interleave freely with the sweep, shard by shard.
-/

inductive Resp
  | ok (tag nonce : Nat)   -- a response frame for request id `tag`
  | err (e : Nat)          -- terminal error (FailAll's argument / closeErr)
  deriving DecidableEq, Repr

inductive PC
  | idle | waiting | got (r : Resp) | gaveUp
  deriving DecidableEq, Repr

structure PT where
  inTable : Nat → Bool          -- entries[c] present
  inflight : Nat → List Resp    -- trySends owed to c's channel (entry already removed / store rejected)
  chan : Nat → Option Resp      -- c's buffered(1) channel
  pc : Nat → PC
  closed : Option Nat           -- closeErr once closed
  sweep : Option (Nat × Nat)    -- a FailAll in progress: (its error, next shard)
  dropped : Nat → Nat           -- trySends to c that found the channel full

def PT.init : PT :=
  { inTable := fun _ => false, inflight := fun _ => [], chan := fun _ => none, pc := fun _ => .idle,
    closed := none, sweep := none, dropped := fun _ => 0 }

def upd {α : Type} (f : Nat → α) (c : Nat) (v : α) : Nat → α := fun x => if x = c then v else f x

inductive Label
  | store (c : Nat) | completeRemove (i nonce : Nat) | deliver (c : Nat) | delete (c : Nat) | recv (c : Nat)
  | failBegin (e : Nat) | failShard | failEnd
  deriving Repr

/-- one atomic step; `none` = not enabled.  `S` = number of shards. -/
def PT.step (S : Nat) (st : PT) : Label → Option PT
  | .store c =>
    if st.pc c ≠ .idle ∨ st.sweep.isSome then none else
    match st.closed with
    | some e => some { st with inflight := upd st.inflight c (.err e :: st.inflight c), pc := upd st.pc c .waiting }
    | none => some { st with inTable := upd st.inTable c true, pc := upd st.pc c .waiting }
  | .completeRemove i n =>
    if st.inTable i then
      some { st with inTable := upd st.inTable i false, inflight := upd st.inflight i (.ok i n :: st.inflight i) }
    else some st
  | .deliver c =>
    match st.inflight c with
    | [] => none
    | r :: rest =>
      match st.chan c with
      | none => some { st with inflight := upd st.inflight c rest, chan := upd st.chan c (some r) }
      | some _ => some { st with inflight := upd st.inflight c rest, dropped := upd st.dropped c (st.dropped c + 1) }
  | .delete c =>
    if st.pc c ≠ .waiting then none else
    some { st with inTable := upd st.inTable c false, pc := upd st.pc c .gaveUp }
  | .recv c =>
    if st.pc c ≠ .waiting then none else
    match st.chan c with
    | none => none
    | some r => some { st with chan := upd st.chan c none, pc := upd st.pc c (.got r) }
  | .failBegin e =>
    if st.sweep.isSome then none else
    some { st with closed := (match st.closed with | some e0 => some e0 | none => some e), sweep := some (e, 0) }
  | .failShard =>
    match st.sweep with
    | none => none
    | some (e, s) =>
      if s ≥ S then none else
      some { st with
        inTable := fun c => st.inTable c && !(c % S == s),
        inflight := fun c => if st.inTable c && (c % S == s) then .err e :: st.inflight c else st.inflight c,
        sweep := some (e, s + 1) }
  | .failEnd =>
    match st.sweep with
    | some (_, s) => if s = S then some { st with sweep := none } else none
    | none => none

/-- states reachable by any number of callers under any interleaving -/
inductive Reachable (S : Nat) : PT → Prop
  | init : Reachable S PT.init
  | step {st st' : PT} (l : Label) : Reachable S st → st.step S l = some st' → Reachable S st'

/-- number of responses that exist for caller `c` and have not been received yet -/
def PT.cnt (st : PT) (c : Nat) : Nat :=
  (if st.inTable c then 1 else 0) + (st.inflight c).length + (if (st.chan c).isSome then 1 else 0)

def tagOK (c : Nat) : Resp → Prop
  | .ok t _ => t = c
  | .err _ => True

end WK.C26

import WK.Prelude.Drv
import WK.Model.Repl
/-
  Line-protocol glue shared by the C01–C04 drivers: op parser, canonical
  rendering of the model state (with digest interning in print order, exactly
  as harness/C0x/repl_core.go does), and the parser of the implementation's
  observable (`Obs`) that the judges work on.  Core only.
-/
namespace WK.Repl
open WK

/-! ## op parser -/

def parseAcks (s : String) : Option (List Ack) :=
  s.toList.mapM (fun c => if c = 'D' then some Ack.D else if c = 'L' then some Ack.L
                          else if c = 'X' then some Ack.X else none)

def parseProbes (s : String) : Option (List PSpec) :=
  s.toList.mapM (fun c => if c = '1' then some PSpec.all else if c = '0' then some PSpec.none
                          else if c = 'f' then some PSpec.frontier else if c = 'p' then some PSpec.probes else none)

def natTok (s : String) : Option Nat := if s.length > 9 ∨ s.length = 0 then none else s.toNat?

def parseOp (line : String) : Option Op :=
  match fields line with
  | ["cfg", n, q, c] => do
    let n ← natTok n; let q ← natTok q; let c ← natTok c
    pure (.cfg n q c false)
  | ["cfg", n, q, c, h, k] => do
    let n ← natTok n; let q ← natTok q; let c ← natTok c; let h ← natTok h; let k ← natTok k
    -- H (hedge at once) and K (store kind) do not change the modelled behaviour
    if h > 1 ∨ k > 1 then none else pure (.cfg n q c false)
  | ["cfg", n, q, c, h, k, u] => do
    let n ← natTok n; let q ← natTok q; let c ← natTok c; let h ← natTok h; let k ← natTok k; let u ← natTok u
    -- K=1 ∧ U=1: MessageDB stores fed with server-allocated, unkeyed records (`Store.fresh`)
    if h > 1 ∨ k > 1 ∨ u > 1 then none else pure (.cfg n q c (k == 1 && u == 1))
  | ["repair", l, f, nf] => do
    let l ← natTok l; let f ← natTok f; let nf ← natTok nf
    pure (.repair l f nf)
  | ["crash", n] => do let n ← natTok n; pure (.crash n)
  | ["restart", n] => do let n ← natTok n; pure (.restart n)
  | ["install", n, e, t, f, w, q, pr, ak] => do
    let n ← natTok n; let e ← natTok e; let t ← natTok t; let f ← natTok f
    let w ← natTok w; let q ← natTok q
    let pr ← parseProbes pr; let ak ← parseAcks ak
    if w > 1 ∨ q > 9 then none else
    pure (.install n ⟨⟨e, t, f⟩, q, w == 1⟩ pr ak)
  | ["commit", n, e, t, f, c, k, p, ak] => do
    let n ← natTok n; let e ← natTok e; let t ← natTok t; let f ← natTok f
    let c ← natTok c; let k ← natTok k; let p ← natTok p
    let ak ← parseAcks ak
    if c ≥ 1048576 then none else
    pure (.commit n ⟨e, t, f⟩ c k p ak)
  | _ => none

/-! ## rendering with digest interning -/

def internDig (tbl : List Dig) (d : Dig) : List Dig × Nat :=
  if d = .zero then (tbl, 0) else
  match tbl.findIdx? (· = d) with
  | some i => (tbl, i + 1)
  | none => (tbl ++ [d], tbl.length + 1)

def authStr (a : AuthId) : String := s!"{a.epoch}.{a.term}.{a.fence}"

def cmdStr : Cmd → String
  | .biz c => toString c
  | .bar _ _ _ => "B"

def renderEntries (tbl : List Dig) : List Ident → List Dig × String
  | [] => (tbl, "")
  | e :: es =>
    let (tbl, pd) := internDig tbl e.prevDigest
    let (tbl, d) := internDig tbl e.digest
    let (tbl, rest) := renderEntries tbl es
    (tbl, s!" {authStr e.a}:{cmdStr e.cmd}:{e.prevTerm}:{pd}:{d}" ++ rest)

def Store.allEntries (s : Store) : List Ident := (s.props.reverse.map (·.entries)).flatten

def renderStore (tbl : List Dig) (s : Store) : List Dig × String :=
  match s.load with
  | .error e => (tbl, "ERR " ++ e.str)
  | .ok st =>
    let (tbl, es) := renderEntries tbl s.allEntries
    (tbl, s!"{st.leo} {st.committed}" ++ es)

def renderLeader (nd : NodeSt) : String :=
  if !nd.up then "down" else
  match nd.chan with
  | none => "none"
  | some ch =>
    let pend := match ch.pending with
      | some r => cmdStr r.p.m.cmd
      | none => "-"
    let ord := if ch.retained.isEmpty then "-" else ",".intercalate (ch.retained.map (fun x => cmdStr x.1))
    s!"{authStr ch.auth.id} q{ch.auth.q} w{boolStr ch.auth.fenced} r{boolStr ch.ready} leo{ch.frontier.leo} fc{ch.frontier.committed} hw{ch.hw} p{pend} o{ord} n{ch.retained.length}"

def renderLeaders : Nat → List NodeSt → String
  | _, [] => ""
  | i, nd :: rest => s!" | L{i} " ++ renderLeader nd ++ renderLeaders (i + 1) rest

def renderStores (tbl : List Dig) : Nat → List NodeSt → List Dig × String
  | _, [] => (tbl, "")
  | i, nd :: rest =>
    let (tbl, s) := renderStore tbl nd.store
    let (tbl, r) := renderStores tbl (i + 1) rest
    (tbl, s!" | S{i} " ++ s ++ r)

def renderRes : Res → String
  | .installed a leo hw => s!"ok {authStr a} {leo} {hw}"
  | .receipt r => s!"ok {authStr r.a} {cmdStr r.cmd} {r.first} {r.last} {r.hw}"
  | .err e => "err " ++ e.str
  | .batch outs => "ok " ++ ",".intercalate (outs.map (fun o => match o with
      | .durable => "D" | .already => "A" | .notWritten => "B"
      | .conflict nf => if nf > 0 then "N" else "C"))
  | .ok => "ok"
  | .notup => "err notup"
  | .already => "err already"
  | .bad => "bad-op"

def renderAll (tbl : List Dig) (s : Sys) (r : Res) : List Dig × String :=
  match r with
  | .bad => (tbl, "bad-op")
  | _ =>
    let (tbl, st) := renderStores tbl 1 s.nodes
    (tbl, renderRes r ++ renderLeaders 1 s.nodes ++ st)

/-! ## the implementation's observable, parsed -/

structure EObs where
  a : AuthId
  cmd : String
  prevTerm : Nat
  prevDig : Nat
  dig : Nat
deriving DecidableEq, Repr, Inhabited

structure SObs where
  ok : Bool := false
  leo : Nat := 0
  hw : Nat := 0
  entries : List EObs := []
deriving DecidableEq, Repr, Inhabited

structure LObs where
  status : String := "none"      -- down | none | present
  a : AuthId := AuthId.zero
  q : Nat := 0
  fenced : Bool := false
  ready : Bool := false
  leo : Nat := 0
  fc : Nat := 0
  hw : Nat := 0
  pending : String := "-"
  order : List String := []
  n : Nat := 0
deriving DecidableEq, Repr, Inhabited

structure Obs where
  res : List String := []
  leaders : List LObs := []
  stores : List SObs := []
  wellFormed : Bool := false
deriving Repr, Inhabited

def parseAuth (s : String) : Option AuthId :=
  match s.splitOn "." with
  | [e, t, f] => do
    let e ← e.toNat?; let t ← t.toNat?; let f ← f.toNat?
    pure ⟨e, t, f⟩
  | _ => none

def dropPrefix (pre : String) (s : String) : Option String :=
  if s.startsWith pre then some (String.ofList (s.toList.drop pre.length)) else none

def parseEntry (s : String) : Option EObs :=
  match s.splitOn ":" with
  | [a, c, pt, pd, d] => do
    let a ← parseAuth a; let pt ← pt.toNat?; let pd ← pd.toNat?; let d ← d.toNat?
    pure ⟨a, c, pt, pd, d⟩
  | _ => none

def parseStoreSec (toks : List String) : Option SObs :=
  match toks with
  | ["ERR", _] => some { ok := false }     -- the store refuses to load (reported by the C02 judge)
  | leo :: hw :: es => do
    let leo ← leo.toNat?; let hw ← hw.toNat?
    let es ← es.mapM parseEntry
    pure { ok := true, leo := leo, hw := hw, entries := es }
  | _ => none

def parseLeaderSec (toks : List String) : Option LObs :=
  match toks with
  | ["down"] => some { status := "down" }
  | ["none"] => some { status := "none" }
  | [a, q, w, r, leo, fc, hw, p, o, n] => do
    let a ← parseAuth a
    let q ← (← dropPrefix "q" q).toNat?
    let w ← (← dropPrefix "w" w).toNat?
    let r ← (← dropPrefix "r" r).toNat?
    let leo ← (← dropPrefix "leo" leo).toNat?
    let fc ← (← dropPrefix "fc" fc).toNat?
    let hw ← (← dropPrefix "hw" hw).toNat?
    let p ← dropPrefix "p" p
    let o ← dropPrefix "o" o
    let n ← (← dropPrefix "n" n).toNat?
    pure { status := "present", a := a, q := q, fenced := w == 1, ready := r == 1, leo := leo, fc := fc, hw := hw,
           pending := p, order := if o == "-" then [] else o.splitOn ",", n := n }
  | _ => none

/-- parse `<res> | L1 .. | .. | S1 .. | ..`; any section that does not parse
    makes the observation ill-formed (reported as a violation by every judge). -/
def parseObs (line : String) : Obs :=
  match line.splitOn " | " with
  | [] => {}
  | res :: secs =>
    let step (acc : Obs × Bool) (sec : String) : Obs × Bool :=
      let (o, ok) := acc
      match fields sec with
      | tag :: toks =>
        if tag.startsWith "L" then
          match parseLeaderSec toks with
          | some l => ({ o with leaders := o.leaders ++ [l] }, ok)
          | none => (o, false)
        else if tag.startsWith "S" then
          match parseStoreSec toks with
          | some s => ({ o with stores := o.stores ++ [s] }, ok)
          | none => ({ o with stores := o.stores ++ [{}] }, false)
        else (o, false)
      | [] => (o, false)
    let (o, ok) := secs.foldl step ({ res := fields res }, true)
    { o with wellFormed := ok && o.leaders.length == o.stores.length }

def Obs.store (o : Obs) (v : Nat) : SObs := if v = 0 then {} else (o.stores[v - 1]?).getD {}
def Obs.leader (o : Obs) (v : Nat) : LObs := if v = 0 then {} else (o.leaders[v - 1]?).getD {}
def SObs.entry (s : SObs) (i : Nat) : Option EObs := if i = 0 then none else s.entries[i - 1]?
def Obs.isOk (o : Obs) : Bool := o.res.head? == some "ok"
def Obs.errClass (o : Obs) : String :=
  match o.res with
  | ["err", c] => c
  | _ => ""

end WK.Repl

import WK.Spec.C41
/-
  C41 — LTS of `channelappend.Group` admission versus Stop, as coded (core Lean only).

  SubmitLocal: `g.mu.RLock(); if !started||paused||stopping||stopped {reject};
                tryAcquireAdmission(); g.mu.RUnlock()`; the slot is released by the future's onDone.
  Stop:        `g.mu.Lock(); stopping = true; g.mu.Unlock()`; `stopOnce` starts ONE finishStop, which
               polls writersIdle (admissionUsed = 0 on every shard …) with a background context, only
               then stops the pools, cancels the runtime context, sets `stopped`, closes stopDone.
               Callers wait for stopDone or their own context.
  Any number of submitters, any number of Stop callers, all interleavings.  The pipeline between
  admission and the terminal result is abstract: an admitted future completes at any time with a
  normal result, and — only if the runtime context is already cancelled — possibly as a cancellation.
-/
namespace WK.C41

inductive SPc where
  | idle
  | rlocked            -- holds g.mu in read mode
  | slot               -- admitted: slot acquired, still holds the read lock
  | admitted           -- read lock released, future pending
  | terminal (cancelled : Bool)
  | rejected
  deriving DecidableEq, Repr

inductive KPc where     -- a Stop caller
  | idle | wlocked | waiting | returned (ok : Bool)
  deriving DecidableEq, Repr

inductive FPc where     -- the single finishStop goroutine
  | none | draining | done
  deriving DecidableEq, Repr

structure G where
  sub : Nat → SPc
  stp : Nat → KPc
  fin : FPc
  stopping : Bool
  stopped : Bool
  cancelled : Bool      -- runtimeCancel() called
  stopDone : Bool
  log : List Ev

def G.init : G :=
  { sub := fun _ => .idle, stp := fun _ => .idle, fin := .none, stopping := false, stopped := false,
    cancelled := false, stopDone := false, log := [] }

def updS (f : Nat → SPc) (a : Nat) (v : SPc) : Nat → SPc := fun x => if x = a then v else f x
def updK (f : Nat → KPc) (a : Nat) (v : KPc) : Nat → KPc := fun x => if x = a then v else f x

def SPc.reads : SPc → Bool
  | .rlocked | .slot => true
  | _ => false

def SPc.holdsSlot : SPc → Bool
  | .slot | .admitted => true
  | _ => false

inductive GStep : G → G → Prop
  | rlock (s : G) (t : Nat) : s.sub t = .idle → (∀ k, s.stp k ≠ .wlocked) →
      GStep s { s with sub := updS s.sub t .rlocked, log := s.log ++ [.subBeg t] }
  | reject (s : G) (t : Nat) : s.sub t = .rlocked →      -- stopping/stopped/paused, or no free slot
      GStep s { s with sub := updS s.sub t .rejected, log := s.log ++ [.rej t] }
  | acquire (s : G) (t : Nat) : s.sub t = .rlocked → s.stopping = false → s.stopped = false →
      GStep s { s with sub := updS s.sub t .slot, log := s.log ++ [.adm t] }
  | runlock (s : G) (t : Nat) : s.sub t = .slot →
      GStep s { s with sub := updS s.sub t .admitted }
  -- the pipeline completes the future (every item terminal); onDone releases the slot
  | complete (s : G) (t : Nat) : s.sub t = .admitted →
      GStep s { s with sub := updS s.sub t (.terminal false), log := s.log ++ [.term t 0] }
  -- … a completion caused by the cancelled runtime context
  | completeCancelled (s : G) (t : Nat) : s.sub t = .admitted → s.cancelled = true →
      GStep s { s with sub := updS s.sub t (.terminal true), log := s.log ++ [.term t 1] }
  -- Stop(k)
  | stopLock (s : G) (k : Nat) : s.stp k = .idle → s.stopped = false → (∀ t, (s.sub t).reads = false) →
      (∀ k', s.stp k' ≠ .wlocked) →
      GStep s { s with stp := updK s.stp k .wlocked, log := s.log ++ [.stopBeg k] }
  | stopFast (s : G) (k : Nat) : s.stp k = .idle → s.stopped = true →
      GStep s { s with stp := updK s.stp k (.returned true), log := s.log ++ [.stopBeg k, .stopRet k 0] }
  | stopSet (s : G) (k : Nat) : s.stp k = .wlocked →
      GStep s { s with stp := updK s.stp k .waiting, stopping := true,
                       fin := if s.fin = .none then .draining else s.fin, log := s.log ++ [.stopSet] }
  | stopOk (s : G) (k : Nat) : s.stp k = .waiting → s.stopDone = true →
      GStep s { s with stp := updK s.stp k (.returned true), log := s.log ++ [.stopRet k 0] }
  -- the caller's context expires: it only stops waiting
  | stopDeadline (s : G) (k : Nat) : s.stp k = .waiting →
      GStep s { s with stp := updK s.stp k (.returned false), log := s.log ++ [.stopRet k 1] }
  -- finishStop: drainWriters saw writersIdle; pools stopped; runtimeCancel(); stopped; close(stopDone)
  | finish (s : G) : s.fin = .draining → (∀ t, (s.sub t).holdsSlot = false) →
      GStep s { s with fin := .done, cancelled := true, stopped := true, stopDone := true }

inductive GReach : G → Prop
  | init : GReach G.init
  | step {s s' : G} : GReach s → GStep s s' → GReach s'

end WK.C41

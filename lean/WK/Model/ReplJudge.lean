import WK.Model.ReplDrv
/-
  Shared bookkeeping of the C01–C04 judges.  Everything here is computed from
  the IMPLEMENTATION's observations (`Obs`) and the op text only — never from
  the model state — so a verdict is a statement about what the real code did.

  `CRec` = an entry some owner declared quorum-durable: a client receipt
  (`client = true`) or the recovered prefix/barrier of a successful install.
  `tainted` = the entry was dropped by an install whose full probe responders
  held fewer than `q` copies of it (the DESIGN §8.1 class); consequences of such
  a loss in C02/C03 carry the same signature suffix.
-/
namespace WK.Repl
open WK

def knownSuffix : String := "responder-holders-lt-quorum"

structure CRec where
  idx : Nat
  dig : Nat
  cmd : String
  client : Bool
  tainted : Bool
deriving DecidableEq, Repr, Inhabited

structure RcptRec where
  c : Nat
  k : Nat
  p : Nat
  first : Nat
  last : Nat
  a : AuthId
  node : Nat
deriving DecidableEq, Repr, Inhabited

structure NodeJ where
  hi : Option AuthId := none        -- highest authority this owner has adopted (since its last restart)
  writable : Option AuthId := none  -- authority of its last successful install, if nothing deposed it since
deriving DecidableEq, Repr, Inhabited

structure JState where
  n : Nat := 3
  prev : Obs := {}
  committed : List CRec := []
  receipts : List RcptRec := []
  nodes : List NodeJ := [{}, {}, {}]
  /-- digest id ↦ the (c,p) of the commit op during which the entry first appeared anywhere (k is
      kept for diagnostics only: records j < k of (c,k,p) and (c,k',p) are the same entries) -/
  bindings : List (Nat × Nat × Nat × Nat) := []
  /-- the case runs MessageDB stores with server-allocated, unkeyed records -/
  fresh : Bool := false
deriving Repr, Inhabited

def JState.nodeJ (j : JState) (i : Nat) : NodeJ := if i = 0 then {} else (j.nodes[i - 1]?).getD {}

def SObs.holds (s : SObs) (idx dig : Nat) : Bool :=
  match s.entry idx with
  | some e => e.dig == dig
  | none => false

def Obs.holders (o : Obs) (n idx dig : Nat) : List Nat :=
  (votersUpTo n).filter (fun v => (o.store v).holds idx dig)

/-- voters that answer every probe round of this install (and were up before it) -/
def fullResponders (prev : Obs) (n : Nat) (ps : List PSpec) : List Nat :=
  (votersUpTo n).filter (fun v =>
    (prev.leader v).status != "down" &&
      (match (ps[v - 1]?).getD .none with
       | .all | .probes => true
       | _ => false))

def respHolders (prev : Obs) (n : Nat) (ps : List PSpec) (idx dig : Nat) : Nat :=
  ((fullResponders prev n ps).filter (fun v => (prev.store v).holds idx dig)).length

/-- some voter held the entry before the op and does not hold it afterwards -/
def lostSomewhere (prev cur : Obs) (n idx dig : Nat) : Bool :=
  (votersUpTo n).any (fun v => (prev.store v).holds idx dig && !(cur.store v).holds idx dig)

/-- what happened to one tracked entry at this op -/
inductive Fate where
  | kept
  | lostKnown      -- dropped / missing from the new writable leader; responders held < q copies
  | lostOther      -- dropped / missing although ≥ q holders answered, or by a non-install op
  | replacedOther  -- the new writable leader has different content at the index although ≥ q holders answered
deriving DecidableEq, Repr, Inhabited

def fateOf (prev cur : Obs) (n : Nat) (op : Op) (r : CRec) : Fate :=
  let lost := lostSomewhere prev cur n r.idx r.dig
  match op with
  | .install node a ps _ =>
    -- re-installing the authority an owner is already writable under is a no-op report,
    -- not a leader becoming writable
    let pl := prev.leader node
    let transition := !(pl.status == "present" && pl.ready && decide (pl.a = a.id))
    let leaderMissing := cur.isOk && transition && !(cur.store node).holds r.idx r.dig
    if !lost && !leaderMissing then .kept
    else if respHolders prev n ps r.idx r.dig < a.q then .lostKnown
    else if leaderMissing && ((cur.store node).entry r.idx).isSome then .replacedOther
    else .lostOther
  | _ => if lost then .lostOther else .kept

def setNodeJ (l : List NodeJ) (i : Nat) (f : NodeJ → NodeJ) : List NodeJ :=
  match l[i - 1]? with
  | some x => if i = 0 then l else setAt l (i - 1) (f x)
  | none => l


def authMax (a : Option AuthId) (b : AuthId) : AuthId :=
  match a with
  | some x => if cmpAuth b x == .gt then b else x
  | none => b

/-- results of an install that prove the owner did NOT adopt the authority: the
    argument guards, and `stale` for an id below the adopted one (a `stale` for a
    higher id comes from the barrier, after the owner was fenced to the new id). -/
def installNotAdopted (hi : Option AuthId) (a : AuthId) (cur : Obs) : Bool :=
  cur.res == ["bad-op"] || (cur.errClass == "invalid") || (cur.errClass == "notup") || (cur.errClass == "toomany")
    || (cur.errClass == "stale" && (match hi with
                                     | some h => cmpAuth a h == .lt
                                     | none => false))

/-- entries [from, to] of a store as committed records -/
def recsOf (s : SObs) (client : Bool) : Nat → Nat → List CRec
  | _, 0 => []
  | frm, k + 1 =>
    match s.entry frm with
    | some e => ⟨frm, e.dig, e.cmd, client, false⟩ :: recsOf s client (frm + 1) k
    | none => recsOf s client (frm + 1) k

def addRecs (old new : List CRec) : List CRec :=
  new.foldl (fun acc r =>
    if acc.any (fun x => x.idx == r.idx && x.dig == r.dig) then
      acc.map (fun x => if x.idx == r.idx && x.dig == r.dig then { x with client := x.client || r.client } else x)
    else acc ++ [r]) old

def mkNodeJs : Nat → List NodeJ
  | 0 => []
  | k + 1 => {} :: mkNodeJs k

/-- every entry at or below some voter's committed watermark is a committed entry -/
def watermarkRecs (cur : Obs) : List Nat → List CRec
  | [] => []
  | v :: vs => recsOf (cur.store v) false 1 (cur.store v).hw ++ watermarkRecs cur vs

def JState.update1 (j : JState) (op : Op) (cur : Obs) : JState :=
  if cur.res == ["bad-op"] then j else
  match op with
  | .cfg n _ _ fr => if cur.isOk then { n := n, prev := cur, nodes := mkNodeJs n, fresh := fr } else { j with prev := cur }
  | .crash i | .restart i =>
    if cur.isOk then { j with prev := cur, nodes := setNodeJ j.nodes i (fun _ => {}) } else { j with prev := cur }
  | .repair _ _ _ => { j with prev := cur }
  | .install i a _ _ =>
    let committed := j.committed.map (fun r =>
      if fateOf j.prev cur j.n op r == .lostKnown then { r with tainted := true } else r)
    let committed :=
      if cur.isOk then addRecs committed (recsOf (cur.store i) false 1 (cur.store i).leo) else committed
    let nodes :=
      if installNotAdopted (j.nodeJ i).hi a.id cur then j.nodes
      else setNodeJ j.nodes i (fun nj =>
        let hi := authMax nj.hi a.id
        { hi := some hi,
          writable := if cur.isOk then some a.id
                      else if nj.writable == some hi then nj.writable else none })
    { j with prev := cur, committed := committed, nodes := nodes }
  | .commit i _ c k p _ =>
    match cur.res with
    | ["ok", a, _, f, l, _] =>
      match parseAuth a, f.toNat?, l.toNat? with
      | some a, some f, some l =>
        { j with prev := cur,
                 committed := addRecs j.committed (recsOf (cur.store i) true f (l + 1 - f)),
                 receipts := j.receipts ++ [⟨c, k, p, f, l, a, i⟩] }
      | _, _, _ => { j with prev := cur }
    | _ => { j with prev := cur }

/-- bind every not yet bound entry of command `c` (in any store) to this commit's (c,k,p) -/
def bindNew (bs : List (Nat × Nat × Nat × Nat)) (cur : Obs) (c k p : Nat) : List (Nat × Nat × Nat × Nat) :=
  let cs := toString c
  cur.stores.foldl (fun bs st =>
    st.entries.foldl (fun bs e =>
      if e.cmd == cs && !bs.any (fun b => b.1 == e.dig) then bs ++ [(e.dig, c, k, p)] else bs) bs) bs

def JState.bindingOf (j : JState) (dig : Nat) : Option (Nat × Nat) :=
  match j.bindings.find? (fun b => b.1 == dig) with
  | some b => some (b.2.1, b.2.2.2)
  | none => none

/-- bookkeeping after one op (cur = the implementation's observation of it) -/
def JState.update (j : JState) (op : Op) (cur : Obs) : JState :=
  let j := match op with
    | .commit _ _ c k p _ => if cur.res == ["bad-op"] then j else { j with bindings := bindNew j.bindings cur c k p }
    | _ => j
  let j' := j.update1 op cur
  if cur.res == ["bad-op"] then j'
  else { j' with committed := addRecs j'.committed (watermarkRecs cur (votersUpTo cur.stores.length)) }

def JState.taintedAt (j : JState) (idx dig : Nat) : Bool :=
  j.committed.any (fun r => r.idx == idx && r.dig == dig && r.tainted)

/-- generic driver step: model correspondence + a property judge on the implementation's output -/
structure DS where
  sys : Sys := Sys.default
  tbl : List Dig := []
  j : JState := {}
  /-- sticky for the rest of the case: a `fresh`-kind store held one command twice at some point
      (the model's later recovery may remove the duplicate, MessageDB's overwritten index stays) -/
  noCompare : Bool := false

def hasDupCmd : List PRec → Bool
  | [] => false
  | p :: ps => ps.any (fun q => decide (q.m.cmd = p.m.cmd)) || hasDupCmd ps

/-- a `fresh`-kind store already holds one command twice (the known finding
    `server-allocated-unkeyed-evicted` has happened): MessageDB's by-command index is overwritten
    from then on and its later answers are not modelled, so the rest of such a case is judged but
    not compared -/
def Sys.indexCorrupted (s : Sys) : Bool := s.nodes.any (fun nd => nd.store.fresh && hasDupCmd nd.store.props)

def replStep (judge : JState → Op → Obs → String) (st : DS) (opLine impl : String) : DS × String × String :=
  match parseOp opLine with
  | none => (st, "bad-op", if impl == "bad-op" then "ok" else "viol:malformed-op-accepted")
  | some o =>
    let (sys, res) := step st.sys o
    let (tbl, out) := renderAll st.tbl sys res
    let nc := st.noCompare || st.sys.indexCorrupted
    let out := if nc then "-" else out
    if impl == "bad-op" then ({ st with sys := sys, tbl := tbl, noCompare := nc }, out, "ok") else
    let cur := parseObs impl
    let verdict := if !cur.wellFormed then "viol:unparseable-output" else judge st.j o cur
    ({ sys := sys, tbl := tbl, j := st.j.update o cur, noCompare := nc }, out, verdict)

end WK.Repl

import WK.Spec.C15
/-
  C15 — executable model of the monotonic runtime-meta reducer
  (pkg/db/meta/table_runtime_meta.go, batch.go, compat.go), as pure functions on
  the stored row of one channel (`Option Meta`, `none` = no row).

  uint64 fields are `Nat` (the driver only feeds values < 2^64), int64 fields are
  `Int`; the only arithmetic is `nextChannelRouteGeneration`, which saturates at
  2^64-1 exactly as the code does.  The row codec (rowcodec envelope, Pebble) is
  not modelled: storing a row is `normalize` (encodeChannelRuntimeMetaValue
  normalizes before writing, decode normalizes after reading).
-/
namespace WK.C15

/-- insert into a sorted duplicate-free list -/
def insU (x : Nat) : List Nat → List Nat
  | [] => [x]
  | y :: ys => if x < y then x :: y :: ys else if x = y then y :: ys else y :: insU x ys

/-- normalizeUint64Set: sorted, duplicate free (nil for empty) -/
def normSet (l : List Nat) : List Nat := l.foldr insU []

def max4 (a b c d : Nat) : Nat := max (max a b) (max c d)

/-- normalizeChannelRuntimeMeta -/
def normalize (m : Meta) : Meta :=
  { m with
    replicas := normSet m.replicas
    isr := normSet m.isr
    routeGen := if m.routeGen = 0 then max4 m.chEpoch m.leEpoch m.fenceVer 1 else m.routeGen
    dirGen := if m.chType = 1 ∧ m.dirGen = 0 then 1 else m.dirGen }

/-- validateChannelRuntimeMeta (true = accepted); `idLen` = len(ChannelID) -/
def validate (idLen : Nat) (m0 : Meta) : Bool :=
  let m := normalize m0
  if idLen = 0 ∨ idLen > 65535 then false
  else if m.replicas.length = 0 then false
  else if m.minISR ≤ 0 ∨ m.minISR > (m.replicas.length : Int) then false
  else if ¬ m.isr.all (fun x => m.replicas.contains x) then false
  else if m.leader ≠ 0 ∧ ¬ (m.replicas.contains m.leader ∧ m.isr.contains m.leader) then false
  else if m.fenceToken = "" then (if m.fenceReason ≠ 0 ∨ m.fenceUntil ≠ 0 then false else true)
  else if m.fenceVer = 0 ∨ m.fenceReason = 0 ∨ m.fenceUntil ≤ 0 then false
  else true

/-- nextChannelRouteGeneration -/
def nextRG (g : Nat) : Nat := if g = u64max then g else g + 1

/-- runtimeRouteChanged -/
def routeChanged (a b : Meta) : Bool :=
  a.chEpoch ≠ b.chEpoch ∨ a.leEpoch ≠ b.leEpoch ∨ a.leader ≠ b.leader ∨ a.replicas ≠ b.replicas ∨
  a.isr ≠ b.isr ∨ a.minISR ≠ b.minISR ∨ a.status ≠ b.status ∨ a.lease ≠ b.lease ∨
  a.retSeq ≠ b.retSeq ∨ a.retAt ≠ b.retAt ∨ a.fenceToken ≠ b.fenceToken ∨ a.fenceVer ≠ b.fenceVer ∨
  a.fenceReason ≠ b.fenceReason ∨ a.fenceUntil ≠ b.fenceUntil

/-- preserveRuntimeMetaState -/
def preserve (ex c : Meta) : Meta :=
  let c := if c.dirGen < ex.dirGen then { c with dirGen := ex.dirGen } else c
  let c := if c.retSeq < ex.retSeq ∨ (c.retSeq = ex.retSeq ∧ c.retAt < ex.retAt)
    then { c with retSeq := ex.retSeq, retAt := ex.retAt } else c
  if c.fenceVer ≤ ex.fenceVer
    then { c with fenceToken := ex.fenceToken, fenceVer := ex.fenceVer, fenceReason := ex.fenceReason,
                  fenceUntil := ex.fenceUntil }
    else c

/-- bumpRuntimeRoute: only `RouteGeneration` is assigned (twice); `runtimeRouteChanged`
    does not read it, so its second-step argument is the incoming candidate -/
def bump (ex c : Meta) (hadRG : Bool) : Meta :=
  let g1 := if ¬ hadRG ∧ c.routeGen < ex.routeGen then ex.routeGen else c.routeGen
  let g2 := if routeChanged ex c ∧ g1 ≤ ex.routeGen then nextRG ex.routeGen else g1
  { c with routeGen := g2 }

inductive Res where
  | applied | stale | conflict
deriving DecidableEq, Repr

/-- resolveMonotonicChannelRuntimeMeta -/
def resolve (existing : Option Meta) (cand0 : Meta) : Meta × Res :=
  let hadRG : Bool := cand0.routeGen ≠ 0
  let cand := normalize cand0
  match existing with
  | none => (cand, .applied)
  | some ex0 =>
    let ex := normalize ex0
    if hadRG ∧ cand.routeGen < ex.routeGen then (ex, .stale)
    else if cand.chEpoch < ex.chEpoch then (ex, .stale)
    else if cand.chEpoch > ex.chEpoch then (bump ex (preserve ex cand) hadRG, .applied)
    else if cand.leEpoch < ex.leEpoch then (ex, .stale)
    else if cand.leEpoch > ex.leEpoch then (bump ex (preserve ex cand) hadRG, .applied)
    else if cand.leader ≠ ex.leader then (ex, .conflict)
    else
      let cand := if cand.lease < ex.lease then { cand with lease := ex.lease } else cand
      (bump ex (preserve ex cand) hadRG, .applied)

/-- the outcome of one store operation on the row of one channel -/
inductive Out where
  | applied | stale | conflict | invalid | notfound | ok | created | exists
deriving DecidableEq, Repr

def Out.name : Out → String
  | .applied => "applied" | .stale => "stale" | .conflict => "conflict" | .invalid => "invalid"
  | .notfound => "notfound" | .ok => "ok" | .created => "created" | .exists => "exists"

/-- Shard.UpsertChannelRuntimeMeta / Batch.UpsertChannelRuntimeMeta on one row -/
def upsert (idLen : Nat) (row : Option Meta) (cand : Meta) : Option Meta × Out :=
  if ¬ validate idLen cand then (row, .invalid)
  else
    match resolve row cand with
    | (_, .stale) => (row, .stale)
    | (_, .conflict) => (row, .conflict)
    | (next, .applied) => (some (normalize next), .applied)

/-- Batch.CreateChannelRuntimeMeta on one row -/
def create (idLen : Nat) (row : Option Meta) (cand : Meta) : Option Meta × Out :=
  let staged := normalize cand
  if ¬ validate idLen staged then (row, .invalid)
  else
    match row with
    | some _ => (row, .exists)
    | none => (some (normalize staged), .created)

structure Advance where
  expChEpoch : Nat
  expLeEpoch : Nat
  expLeader : Nat
  expLease : Int
  retSeq : Nat
  retAt : Int

/-- Shard.AdvanceChannelRetentionThroughSeq on one row -/
def advance (idLen : Nat) (row : Option Meta) (req : Advance) : Option Meta × Out :=
  if idLen = 0 ∨ idLen > 65535 then (row, .invalid)
  else
    match row with
    | none => (row, .notfound)
    | some ex =>
      if ex.chEpoch ≠ req.expChEpoch ∨ ex.leEpoch ≠ req.expLeEpoch ∨ ex.leader ≠ req.expLeader ∨
          ex.lease ≠ req.expLease then (row, .conflict)
      else if req.retSeq ≤ ex.retSeq then (row, .ok)
      else (some (normalize { ex with retSeq := req.retSeq, retAt := req.retAt, routeGen := nextRG ex.routeGen }), .ok)

/-- Shard.DeleteChannelRuntimeMeta on one row -/
def delete (idLen : Nat) (row : Option Meta) : Option Meta × Out :=
  if idLen = 0 ∨ idLen > 65535 then (row, .invalid)
  else
    match row with
    | none => (row, .notfound)
    | some _ => (none, .ok)

/-- WriteBatch.DeleteChannelRuntimeMeta (compat; what the slot FSM's delete command calls): the key is
    deleted unconditionally — no not-found result -/
def wdelete (idLen : Nat) (row : Option Meta) : Option Meta × Out :=
  if idLen = 0 ∨ idLen > 65535 then (row, .invalid) else (none, .ok)

/-- WriteBatch.AdvanceChannelRetentionThroughSeq (compat / slot FSM): as the Shard method, but the
    channel id is not validated (an empty id simply finds no row) -/
def wadvance (row : Option Meta) (req : Advance) : Option Meta × Out := advance 1 row req

/-- what the slot FSM's upsert / create commands hand to the batch: the command encoder canonicalises
    (normalizes) the candidate, the wire format has no DirectoryGeneration field, and the decoder
    canonicalises again -/
def fsmCand (c : Meta) : Meta := normalize { normalize c with dirGen := 0 }

end WK.C15

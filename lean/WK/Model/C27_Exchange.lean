import WK.Model.C27
/-
  C27 — model of the replication exchange *batch envelope* and of the probe request
  item (pkg/channel/replication/codec.go: DecodeExchangeBatch / EncodeExchangeBatch,
  probeRequest / appendProbeRequest, ProbeRequest.Valid), written with a tiny cursor
  parser algebra so that round-trip and truncation laws compose field by field.

  The Go decoder reads every field and ANDs the ok flags at the end; a failed read
  leaves the offset unchanged and every read is bounds-checked, so that is
  observationally the same as failing at the first bad field (what `andThen` does).
  Replicate and fetch items (sealed manifests, SHA-256 chained records) are NOT modelled:
  the model decoder refuses them; the driver does not compare on such inputs.
-/
namespace WK.C27

/-- a cursor parser at offset 0: value and number of bytes consumed -/
abbrev P (α : Type) := Bytes → Option (α × Nat)

def P.andThen {α β : Type} (p : P α) (q : P β) : P (α × β) := fun d =>
  match p d with
  | none => none
  | some (a, n) =>
    match q (d.drop n) with
    | none => none
    | some (b, m) => some ((a, b), n + m)

def P.guard {α : Type} (p : P α) (ok : α → Bool) : P α := fun d =>
  match p d with
  | some (a, n) => if ok a then some (a, n) else none
  | none => none

def P.map {α β : Type} (p : P α) (f : α → β) : P β := fun d =>
  match p d with
  | some (a, n) => some (f a, n)
  | none => none

/-- exactly `n` elements -/
def P.rep {α : Type} (p : P α) : Nat → P (List α)
  | 0 => fun _ => some ([], 0)
  | n + 1 => fun d =>
    match p d with
    | none => none
    | some (a, k) =>
      match P.rep p n (d.drop k) with
      | none => none
      | some (as, m) => some (a :: as, k + m)

/-- `sliceCount(maximum)` followed by that many elements; `none` = nil slice -/
def P.slice {α : Type} (p : P α) (maximum : Nat) : P (Option (List α)) := fun d =>
  match cSliceCount d maximum with
  | none => none
  | some (_, true, n) => some (none, n)
  | some (cnt, false, n) =>
    match P.rep p cnt (d.drop n) with
    | none => none
    | some (as, m) => some (some as, n + m)

/-- the whole input must be consumed (`c.offset != len(data)` ⇒ error) -/
def P.eof {α : Type} (p : P α) : Bytes → Option α := fun d =>
  match p d with
  | some (a, n) => if n = d.length then some a else none
  | none => none

def pUvarint : P Nat := uvarint
def pByte : P UInt8 := cByte
def pBytes : P Bytes := cBytes

/-! ### probe request item -/

structure ProbeReq where
  key : Bytes
  cid : Bytes
  typ : UInt8
  leader : Nat
  follower : Nat
  indexes : Option (List Nat)     -- none = nil slice
  deriving DecidableEq, Repr

def maxProbeIndexes : Nat := 256
def maxBatchItems : Nat := 256

def nodupNat : List Nat → Bool
  | [] => true
  | x :: xs => !(xs.contains x) && nodupNat xs

/-- ProbeRequest.Valid -/
def ProbeReq.valid (r : ProbeReq) : Bool :=
  !r.key.isEmpty && !r.cid.isEmpty && r.leader != 0 && r.follower != 0 && r.leader != r.follower &&
  (match r.indexes with
   | none => true
   | some l => decide (l.length ≤ maxProbeIndexes) && l.all (· != 0) && nodupNat l)

def putSliceCount (count : Nat) (isNil : Bool) : Bytes := putUvarint (if isNil then 0 else count + 1)

def encIndexes : Option (List Nat) → Bytes
  | none => putSliceCount 0 true
  | some l => putSliceCount l.length false ++ l.flatMap putUvarint

/-- appendProbeRequest -/
def encProbe (r : ProbeReq) : Bytes :=
  putBytes r.key ++ (putBytes r.cid ++ ([r.typ] ++ (putUvarint r.leader ++ (putUvarint r.follower ++ encIndexes r.indexes))))

def pProbeRaw : P ProbeReq :=
  (pBytes.andThen (pBytes.andThen (pByte.andThen (pUvarint.andThen (pUvarint.andThen (pUvarint.slice maxProbeIndexes)))))).map
    (fun x => ⟨x.1, x.2.1, x.2.2.1, x.2.2.2.1, x.2.2.2.2.1, x.2.2.2.2.2⟩)

/-- probeRequest() followed by `request.Valid()` -/
def pProbe : P ProbeReq := pProbeRaw.guard ProbeReq.valid

/-! ### the batch envelope (probe items only) -/

structure XItem where
  requestID : Nat
  probe : ProbeReq
  deriving DecidableEq, Repr

structure XBatch where
  priority : UInt8
  items : List XItem
  deriving DecidableEq, Repr

def exchangeVersion : Nat := 3
def kindProbe : UInt8 := 2

def encItem (it : XItem) : Bytes := putUvarint it.requestID ++ ([kindProbe] ++ encProbe it.probe)

/-- EncodeExchangeBatch for a foreground batch of probe items (`none` = ErrInvalidConfig / ErrBackpressured) -/
def XBatch.valid (b : XBatch) : Bool :=
  b.priority == 0 && decide (b.items.length ≠ 0) && decide (b.items.length ≤ maxBatchItems) &&
  b.items.all (fun it => it.requestID != 0 && decide (it.requestID < 2 ^ 64) && it.probe.valid)

def encBatchBytes (b : XBatch) : Bytes :=
  putUvarint exchangeVersion ++ ([b.priority] ++ (putUvarint b.items.length ++ b.items.flatMap encItem))

def encBatch (b : XBatch) : Option Bytes :=
  if b.valid && decide ((encBatchBytes b).length ≤ maxExchangeBatchBytes) then some (encBatchBytes b) else none

def pItem : P XItem :=
  (((pUvarint.guard (· != 0)).andThen ((pByte.guard (· == kindProbe)).andThen pProbe))).map (fun x => ⟨x.1, x.2.2⟩)

/-- count(MaxExchangeBatchItems) then that many items -/
def pItems : P (List XItem) := fun d =>
  match cCount d maxBatchItems with
  | none => none
  | some (cnt, n) =>
    if cnt = 0 then none else
    match P.rep pItem cnt (d.drop n) with
    | none => none
    | some (its, m) => some (its, n + m)

def pBatch : P XBatch :=
  ((pUvarint.guard (· == exchangeVersion)).andThen ((pByte.guard (· == 0)).andThen pItems)).map (fun x => ⟨x.2.1, x.2.2⟩)

/-- DecodeExchangeBatch restricted to foreground batches of probe items -/
def decBatch (d : Bytes) : Option XBatch :=
  if d.length = 0 ∨ d.length > maxExchangeBatchBytes then none else pBatch.eof d

end WK.C27

import WK.Model.C22
/-
  C23 — model of the gateway's client-stream decoding:
    * `Adapter.Decode` (/repo/pkg/gateway/protocol/wkproto/adapter.go): the loop
      around `WKProto.DecodeFrame` (model: `WK.C22.decodeFrame`), the empty-input
      guard, the negotiated-version lookup (`sessionVersion(sess,false)`);
    * the gateway's inbound buffer discipline (/repo/pkg/gateway/core/server.go,
      `onData`/`decodeInboundFrames`): append the chunk, decode, drop the consumed
      bytes, repeat until the decoder reports no progress; a decode error closes
      the session.
  Encrypted sessions (`decryptSendPacketForSession`) are C25's; `detachSendPayload`
  is a copy (checked by the harness: scribbling over the input afterwards must
  not change a decoded SEND payload).  Core only.
-/
namespace WK.C23
open WK.C22

/-- `sessionVersion(sess, false)`: a missing / zero session value means LatestVersion -/
def effVersion (v : Nat) : Nat := if v = 0 then latestVersion else v

inductive AllRes where
  | panic                                     -- DecodeFrame indexed an empty slice
  | err                                       -- (nil, 0, err)
  | ok (frames : List Frame) (consumed : Nat) -- (frames, consumed, nil)
deriving DecidableEq, Repr

/-- the `for consumed < len(in)` loop; `rem` = `in[consumed:]`, fuel = an upper bound
    on the iterations (every iteration consumes at least one byte). -/
def decodeLoop (v : Nat) : Nat → Bytes → AllRes
  | 0, _ => .ok [] 0
  | fuel+1, rem =>
    match rem with
    | [] => .ok [] 0                                  -- consumed == len(in)
    | _ =>
      match decodeFrame v rem with
      | .panic => .panic
      | .err => .err                                  -- frames decoded so far are dropped
      | .need => .ok [] 0                             -- f == nil || n == 0 → break
      | .ok f n =>
        if n = 0 then .ok [] 0
        else match decodeLoop v fuel (rem.drop n) with
          | .ok fs c => .ok (f :: fs) (n + c)
          | r => r

/-- `Adapter.Decode(sess, in)` for a session whose negotiated version value is `sv` -/
def adapterDecode (sv : Nat) (inp : Bytes) : AllRes :=
  if inp.isEmpty then .ok [] 0
  else decodeLoop (effVersion sv) inp.length inp

/-- inbound state of one gateway session -/
structure Inbound where
  buf : Bytes := []
  out : List Frame := []        -- frames dispatched so far, in order
  closed : Bool := false        -- protocol error: session closed
  panicked : Bool := false
deriving DecidableEq, Repr

/-- decode-and-drop until no progress (`for !state.isClosed()` in `onData`) -/
def drain (sv : Nat) : Nat → Inbound → Inbound
  | 0, st => st
  | fuel+1, st =>
    match adapterDecode sv st.buf with
    | .panic => { st with panicked := true, closed := true }
    | .err => { st with closed := true }
    | .ok fs c =>
      if c = 0 then st      -- (nil,0,nil): wait; frames without progress cannot happen (c = 0 ⇒ fs = [])
      else drain sv fuel { st with buf := st.buf.drop c, out := st.out ++ fs }

/-- one network read -/
def feedChunk (sv : Nat) (st : Inbound) (chunk : Bytes) : Inbound :=
  if st.closed then st
  else
    let buf := st.buf ++ chunk
    drain sv (buf.length + 1) { st with buf := buf }

def feed (sv : Nat) (chunks : List Bytes) : Inbound :=
  chunks.foldl (feedChunk sv) {}

/-- cut `bs` at the (sorted, in-range) offsets `cuts` -/
def splitAt (bs : Bytes) (cuts : List Nat) : List Bytes :=
  let rec go (bs : Bytes) (pos : Nat) : List Nat → List Bytes
    | [] => [bs]
    | c :: cs => bs.take (c - pos) :: go (bs.drop (c - pos)) c cs
  go bs 0 cuts

end WK.C23

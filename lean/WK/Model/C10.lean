import WK.Model.C07
/-
  C10 — the committed read path and the retention gate as pure functions over
  the C07 store model.

    readLocal   = channels.Service.readLocalCommitted ∘ adapter.ReadCommitted ∘ ChannelStore.ListMessagesBySeq
    syncReq / syncPage = message_reader.go readCommittedRequest / queryMaxSeq / channelMessagePageFromRead / filterSyncedMessages
    trimDecision / minISRMatch = reactor/retention.go retentionTrimDecision / minISRMatchOffset
    adopt / trimNoAdopt / storeRetention = compat AdoptRetentionBoundary, trimPrefixThroughLimit(adoptBoundary=false), worker.runStoreRetention
    applyFollower / storeCkptHW = adapter.ApplyFollower → StoreApplyFetchTrusted, StoreCheckpointHWMonotonic
-/
namespace WK.C10
open WK.C07

def maxU64 : Nat := 18446744073709551615
def maxInt : Nat := 9223372036854775807

structure Req where
  fromSeq : Nat
  maxSeq : Nat
  minSeq : Nat
  limit : Nat
  maxBytes : Nat
  reverse : Bool
deriving Repr, DecidableEq, Inhabited

structure RRes where
  msgs : List Row
  next : Nat
deriving Repr, DecidableEq, Inhabited

/-- `ChannelStore.ListMessagesBySeq` (readRows / readRowsReverse) -/
def listBySeq (ch : Chan) (fromSeq limit maxBytes : Nat) (reverse : Bool) : Chan × Except Err (List Row) :=
  if reverse then
    let (fromSeq, ch) := if fromSeq = 0 then loadLEO ch else (fromSeq, ch)
    match readForward ch.rows 1 fromSeq 0 0 with
    | .error e => (ch, .error e)
    | .ok all => (ch, .ok (revGo limit maxBytes all.reverse [] 0))
  else
    (ch, readForward ch.rows (if fromSeq = 0 then 1 else fromSeq) 0 limit maxBytes)

/-- the filter loop of adapter.ReadCommitted: (out reversed, next) -/
def filterLoop (req : Req) : List Row → List Row → Nat → RRes
  | [], out, next => ⟨out.reverse, next⟩
  | m :: rest, out, next =>
    if req.minSeq > 0 ∧ m.seq < req.minSeq then
      if req.reverse then ⟨out.reverse, req.minSeq - 1⟩ else filterLoop req rest out next
    else if req.maxSeq > 0 ∧ m.seq > req.maxSeq then
      if req.reverse then filterLoop req rest out next else ⟨out.reverse, next⟩
    else
      filterLoop req rest (m :: out) (if req.reverse then m.seq - 1 else m.seq + 1)

/-- `messageDBChannelStoreAdapter.ReadCommitted` -/
def adapterRead (ch : Chan) (req : Req) : Chan × Except Err RRes :=
  let readFrom := if !req.reverse ∧ req.minSeq > 0 ∧ req.fromSeq < req.minSeq then req.minSeq else req.fromSeq
  if req.reverse ∧ req.minSeq > 0 ∧ readFrom < req.minSeq then (ch, .ok ⟨[], readFrom⟩)
  else if !req.reverse ∧ req.maxSeq > 0 ∧ req.minSeq > 0 ∧ req.maxSeq < req.minSeq then (ch, .ok ⟨[], readFrom⟩)
  else match listBySeq ch readFrom req.limit req.maxBytes req.reverse with
    | (ch, .error e) => (ch, .error e)
    | (ch, .ok msgs) => (ch, .ok (filterLoop req msgs [] readFrom))

def nextSeq (s : Nat) : Nat := if s = maxU64 then s else s + 1

/-- the committed frontier `readLocalCommitted` derives from `store.Load` -/
def committedOf (leo : Nat) (ck : Option Ckpt) (minISR : Nat) : Nat :=
  let hw := Nat.min (match ck with | some k => k.hw | none => 0) leo
  if minISR ≤ 1 then leo else hw

def localRet (ch : Chan) : Nat := match ch.ret with | some r => r.loc | none => 0

/-- the request `readLocalCommitted` hands to the adapter, or an early answer.
    The normalisation of a forward `FromSeq = 0` to 1 is the repair of the
    "MaxSeq 0 means uncapped" leak: without it a forward read from sequence 0 with
    nothing committed slipped under the `FromSeq > committed` guard and returned
    the uncommitted tail. -/
def clampReq (req : Req) (committed floor : Nat) : Req ⊕ RRes :=
  let minS := Nat.max req.minSeq (nextSeq floor)
  let maxS := if req.maxSeq = 0 ∨ req.maxSeq > committed then committed else req.maxSeq
  let from0 := if req.reverse = false ∧ req.fromSeq = 0 then 1 else req.fromSeq
  if req.reverse = false ∧ from0 > committed then .inr ⟨[], from0⟩
  else
    let fromS := if req.reverse = true ∧ from0 > committed then committed else from0
    .inl ⟨fromS, maxS, minS, req.limit, req.maxBytes, req.reverse⟩

/-- `channels.Service.readLocalCommitted` -/
def readLocal (ch : Chan) (req : Req) (rts minISR : Nat) : Chan × Except Err RRes :=
  let (leo, ch) := loadLEO ch
  let committed := committedOf leo ch.ck minISR
  match clampReq req committed (Nat.max rts (localRet ch)) with
  | .inr r => (ch, .ok r)
  | .inl req => adapterRead ch req

/-! ### message_reader.go -/
structure Query where
  start : Nat
  end_ : Nat
  minSeq : Nat
  limit : Nat
  mode : Nat          -- 0 = PullModeDown, 1 = PullModeUp
deriving Repr, DecidableEq, Inhabited

def Query.reverse (q : Query) : Bool := q.mode = 0 ∨ (q.start = 0 ∧ q.end_ = 0)

def queryMaxSeq (q : Query) : Nat :=
  if q.mode = 1 ∧ q.end_ > 0 then q.end_ - 1
  else if q.mode = 0 ∧ q.start > 0 then q.start
  else maxU64

/-- `readCommittedRequest` (limit already normalised to ≥ 1) -/
def syncReq (q : Query) (limit : Nat) : Req :=
  let req : Req := ⟨q.start, queryMaxSeq q, q.minSeq, limit + 1, maxInt, false⟩
  let req := if q.reverse then
      let req := { req with reverse := true }
      if req.fromSeq = 0 then { req with fromSeq := maxU64, maxSeq := maxU64 } else req
    else req
  if req.fromSeq = 0 ∧ !req.reverse then { req with fromSeq := 1 } else req

/-- `channelMessagePageFromRead`; `sync` = seqs of SyncOnce rows -/
def syncPage (q : Query) (limit : Nat) (sync : List Nat) (read : RRes) : List Row × Bool :=
  let msgs := read.msgs.filter (fun m => !sync.contains m.seq)
  let msgs :=
    if q.mode = 0 ∧ q.end_ > 0 then msgs.filter (fun m => !(m.seq ≤ q.end_))
    else if q.mode = 1 ∧ q.end_ > 0 then msgs.filter (fun m => !(m.seq ≥ q.end_))
    else msgs
  let more := msgs.length > limit
  let msgs := if more then msgs.take limit else msgs
  (if q.reverse then msgs.reverse else msgs, more)

/-! ### the trim gate -/
structure RState where
  role : Nat            -- 1 follower, 2 leader
  localNode : Nat
  isr : List Nat
  prog : List (Nat × Nat)
  hw : Nat
  ckhw : Nat
  leo : Nat
  phys : Nat
  rts : Nat
deriving Repr, Inhabited

def matchOf (st : RState) (node : Nat) : Nat :=
  if node = st.localNode then st.leo
  else match alookup node st.prog with
    | some m => m
    | none => st.rts

/-- `minISRMatchOffset` -/
def minISRMatch (st : RState) : Nat :=
  match st.isr with
  | [] => 0
  | n :: rest => rest.foldl (fun m node => if matchOf st node < m then matchOf st node else m) (matchOf st n)

/-- `retentionTrimDecision` -/
def trimDecision (st : RState) (t : Nat) : Bool × String :=
  if t = 0 then (false, "leo_lag")
  else if t ≤ st.phys then (false, "")
  else if t > st.hw then (false, "hw_lag")
  else if t > st.ckhw then (false, "checkpoint_lag")
  else if t > st.leo then (false, "leo_lag")
  else if st.role = 2 ∧ t > minISRMatch st then (false, "min_isr_lag")
  else (true, "")

/-! ### store mutations through the compat ChannelStore -/
def retOrZero (ch : Chan) : Ret := match ch.ret with | some r => r | none => ⟨0, 0, 0⟩

def adoptRet (state : Ret) (leo through : Nat) : Ret :=
  ⟨Nat.max state.loc through, state.phys, Nat.max state.max (Nat.max leo through)⟩

/-- `if next.RetainedMaxSeq > leo { leo = next.RetainedMaxSeq }` on the cached LEO -/
def bumpLeo (ch : Chan) (m : Nat) : Chan :=
  match ch.leoC with
  | some l => if m > l then { ch with leoC := some m } else ch
  | none => ch

/-- compat `AdoptRetentionBoundary` (the dispatch cursor is not observable here; writing an
    unchanged retention state is a no-op) -/
def adopt (ch : Chan) (through : Nat) : Chan × Except Err Unit :=
  if through = 0 then (ch, .error .invalid)
  else
    let next := adoptRet (retOrZero (loadLEO ch).2) (loadLEO ch).1 through
    (bumpLeo { (loadLEO ch).2 with ret := some next } next.max, .ok ())

structure TrimPlan where
  del : List Row
  delThrough : Nat
  more : Bool
  phys : Nat

/-- which of the rows read for a trim are deleted, and the next physical boundary -/
def trimPlan (rows : List Row) (statePhys through maxMsgs maxBytes : Nat) : TrimPlan :=
  let more1 : Bool := decide (maxMsgs > 0 ∧ rows.length > maxMsgs)
  let del := if more1 then rows.take maxMsgs else rows
  let lastBelow : Bool := match del.getLast? with | some r => decide (r.seq < through) | none => false
  let more : Bool := more1 || (decide (maxBytes > 0) && lastBelow)
  let delThrough := match del.getLast? with | some r => r.seq | none => 0
  let phys := if more = false ∧ through > statePhys then through
              else if delThrough > statePhys then delThrough else statePhys
  ⟨del, delThrough, more, phys⟩

/-- `trimPrefixThroughLimit` with adoptBoundary = false, on one channel (indexes are not observed by C10) -/
def trimNoAdopt (ch : Chan) (through maxMsgs maxBytes : Nat) : Chan × Except Err (Nat × Nat × Bool) :=
  if through = 0 then (ch, .error .invalid)
  else
    let leo := (loadLEO ch).1
    let ch := (loadLEO ch).2
    let state := retOrZero ch
    if through > state.loc then (ch, .error .corruptstate)
    else
      match readForward ch.rows (state.phys + 1) through (if maxMsgs > 0 then maxMsgs + 1 else 0) maxBytes with
      | .error e => (ch, .error e)
      | .ok rows =>
        let p := trimPlan rows state.phys through maxMsgs maxBytes
        let next : Ret := ⟨state.loc, p.phys, if leo > state.max then leo else state.max⟩
        if retValid next = false then (ch, .error .corruptvalue)
        else
          ({ ch with rows := ch.rows.filter (fun r => !(p.del.any (fun d => d.seq = r.seq))),
                     ret := some next, leoC := some (if leo > next.max then leo else next.max) },
           .ok (p.delThrough, p.del.length, p.more))

structure RetOut where
  loc : Nat
  phys : Nat
  max : Nat
  delThrough : Nat
  deleted : Nat
  more : Bool
deriving Repr, DecidableEq, Inhabited

/-- `worker.runStoreRetention` -/
def storeRetention (ch : Chan) (through : Nat) (trimAllowed : Bool) (maxMsgs maxBytes : Nat) : Chan × Except Err RetOut :=
  match adopt ch through with
  | (ch, .error e) => (ch, .error e)
  | (ch, .ok ()) =>
    let retainedMax := (retOrZero ch).max
    let (ch, tr) : Chan × Except Err (Nat × Nat × Bool) :=
      if trimAllowed then trimNoAdopt ch through maxMsgs maxBytes else (ch, .ok (0, 0, false))
    match tr with
    | .error e => (ch, .error e)
    | .ok (dt, d, more) =>
      let r := retOrZero ch
      (ch, .ok ⟨r.loc, r.phys, Nat.max retainedMax r.max, dt, d, more⟩)

/-- `StoreCheckpointHWMonotonic` -/
def storeCkptHW (ch : Chan) (hw : Nat) : Chan × Except Err Unit :=
  match ch.ck with
  | some cur =>
    if hw ≤ cur.hw then (ch, .ok ())
    else if cur.lso > hw then (ch, .error .corruptstate)
    else ({ ch with ck := some { cur with hw := hw } }, .ok ())
  | none => ({ ch with ck := some ⟨0, 0, hw⟩ }, .ok ())

/-- adapter.ApplyFollower → StoreApplyFetchTrusted with `CheckpointHW`; rows = the records (Index = base + i) -/
def applyFollower (ch : Chan) (base : Nat) (recs : List Rec) (leaderHW : Nat) : Chan × Except Err (Nat × Nat) :=
  let n := recs.length
  let ckHW : Option Nat :=
    if leaderHW = 0 ∨ n = 0 then none
    else let hw := Nat.min leaderHW (base + n - 1); if hw = 0 then none else some hw
  let (leo, ch) := loadLEO ch
  let nextLEO := leo + n
  let ckRes : Except Err (Option Ckpt) :=
    match ckHW with
    | none => .ok none
    | some hw =>
      if hw > nextLEO then .error .corruptstate
      else
        let cur : Ckpt := match ch.ck with | some k => k | none => ⟨0, 0, 0⟩
        if hw > cur.hw then
          let k := { cur with hw := hw }
          if ckptMonoOk { ch with ck := ch.ck } k nextLEO nextLEO then .ok (some k) else .error .corruptstate
        else .ok none
  match ckRes with
  | .error e => (ch, .error e)
  | .ok newCk =>
    if n = 0 ∧ ckHW.isNone then (ch, .ok (nextLEO, 0))
    else
      -- compatibilityRowsFromRecords: Index must be 0 or the expected seq
      if n > 0 ∧ base ≠ 0 ∧ base ≠ leo + 1 then (ch, .error .corruptstate)
      else
        let rows := (List.range n).zip recs |>.map (fun (i, r) => mkRow (leo + 1 + i) r)
        if rows.any (fun r => r.id = 0) then (ch, .error .invalid)
        else
          let ch := { ch with rows := ch.rows ++ rows,
                              ck := match newCk with | some k => some k | none => ch.ck,
                              leoC := if n > 0 then some nextLEO else ch.leoC }
          (ch, .ok (nextLEO, match ckHW with | some hw => hw | none => 0))


/-- `handleForwardCommittedReads` for one item: either an error, or the (retention floor,
    minISR) handed to `readLocalCommitted`.  Modes (what the leader's metadata lookup yields, local node 1,
    item fence = leader 1 / epochs 1 unless stated):
      0 meta found (leader 1, epochs 1, MinISR `mminisr`, RetentionThroughSeq `mrts`)
      1 meta missing, complete fence  → FALLBACK with the item's RetentionThroughSeq and ExpectedMinISR
      2 meta missing, ExpectedLeader 0 → the lookup error
      3 meta names another leader      4 meta epoch older than the fence
      5 channel deleting               6 meta without a leader -/
def fwdDecision (mode rts eminisr mminisr mrts : Nat) : String ⊕ (Nat × Nat) :=
  if mode = 0 then .inr (Nat.max rts mrts, mminisr)
  else if mode = 1 then .inr (rts, eminisr)
  else if mode = 2 then .inl "err:notfound"
  else if mode = 3 then .inl "err:notleader"
  else if mode = 4 then .inl "err:stalemeta"
  else if mode = 5 then .inl "err:notfound"
  else .inl "err:notready"

end WK.C10

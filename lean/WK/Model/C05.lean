import WK.Prelude.Hex
import WK.Gen.C05
/-
  C05 — executable model of pkg/quorumlog/proposal.go.

  * `preimage` is DEFINED from `WK.Gen.C05.digestItems`, the ordered list of hash
    writes the extractor reads out of `digestProposalEntry` on every run.
  * `digest H e r = H (preimage e r)` for an arbitrary hash `H` (the theorems
    quantify over it); the driver instantiates `H := sha256` (below, core Lean,
    checked against Go's crypto/sha256 by the harness' `sha` ops on every run).
  * `verifyGuards` / `verify` / `derive` / `sealManifest` mirror `VerifyEntry`,
    `DeriveProposalEntries`, `SealProposalManifest` guard for guard.
  Core only (the driver is a lean_exe).
-/
namespace WK.C05
open WK.Gen.C05

/-- a digest / command id is a byte string (32 bytes when well formed) -/
abbrev Dig := Bytes

/-- quorumlog.EntryIdentity -/
structure Entry where
  version : Nat
  epoch : Nat
  term : Nat
  fence : Nat
  index : Nat
  pterm : Nat
  pidx : Nat
  cmd : Bytes
  pdig : Dig
  dig : Dig
  deriving Repr, DecidableEq, Inhabited

/-- quorumlog.Record (ServerTimestampMS is an int64, hence `Int`) -/
structure Rec where
  id : Nat
  index : Nat
  epoch : Nat
  setting : Nat
  frm : Bytes
  cmn : Bytes
  ts : Int
  sync : Bool
  payload : Bytes
  deriving Repr, DecidableEq, Inhabited

/-- quorumlog.ProposalManifest -/
structure Manifest where
  version : Nat
  epoch : Nat
  term : Nat
  fence : Nat
  cmd : Bytes
  base : Nat
  last : Nat
  pterm : Nat
  pidx : Nat
  pdig : Dig
  dig : Dig
  deriving Repr, DecidableEq, Inhabited

def two64 : Nat := 18446744073709551616

/-- the all-zero `[32]byte` (Go's `CommandID{}` / `EntryDigest{}`) -/
def zero32 : Bytes := List.replicate 32 0

/-! ### field access by the generated vocabulary -/

/-- numeric view of a field (`uint64(int64)` conversion for the timestamp = two's complement) -/
def natOf (e : Entry) (r : Rec) : Fld → Nat
  | .eVersion => e.version | .eEpoch => e.epoch | .eTerm => e.term | .eFence => e.fence
  | .eIndex => e.index | .ePrevTerm => e.pterm | .ePrevIndex => e.pidx
  | .rID => r.id | .rIndex => r.index | .rEpoch => r.epoch | .rSetting => r.setting
  | .rTimestamp => (r.ts % 18446744073709551616).toNat
  | _ => 0

def bytesOf (e : Entry) (r : Rec) : Fld → Bytes
  | .eCommand => e.cmd | .ePrevDigest => e.pdig | .eDigest => e.dig
  | .rFromUID => r.frm | .rClientMsgNo => r.cmn | .rPayload => r.payload
  | _ => []

def boolOf (_ : Entry) (r : Rec) : Fld → Bool
  | .rSyncOnce => r.sync
  | _ => false

/-! ### the encoder -/

/-- `binary.BigEndian.PutUint64` (value taken mod 2^64) -/
def u64be (n : Nat) : Bytes :=
  [UInt8.ofNat (n / 72057594037927936 % 256), UInt8.ofNat (n / 281474976710656 % 256),
   UInt8.ofNat (n / 1099511627776 % 256), UInt8.ofNat (n / 4294967296 % 256),
   UInt8.ofNat (n / 16777216 % 256), UInt8.ofNat (n / 65536 % 256),
   UInt8.ofNat (n / 256 % 256), UInt8.ofNat (n % 256)]

/-- what one write of `digestProposalEntry` feeds to the hash -/
def encItem (e : Entry) (r : Rec) : Item → Bytes
  | .tag bs => bs.map UInt8.ofNat
  | .u64 f => u64be (natOf e r f)
  | .arr32 f => bytesOf e r f
  | .u8 f => [UInt8.ofNat (natOf e r f)]
  | .flag f t el => [UInt8.ofNat (if boolOf e r f then t else el)]
  | .lenBytes f => u64be (bytesOf e r f).length ++ bytesOf e r f

def preimageOf (items : List Item) (e : Entry) (r : Rec) : Bytes :=
  items.flatMap (encItem e r)

/-- the SHA-256 preimage of an entry digest, per the current source -/
def preimage (e : Entry) (r : Rec) : Bytes := preimageOf digestItems e r

/-- `digestProposalEntry` with the hash abstract -/
def digest (H : Bytes → Dig) (e : Entry) (r : Rec) : Dig := H (preimage e r)

/-! ### VerifyEntry -/

/-- the structural guards of `VerifyEntry` (everything before the digest comparison) -/
def verifyGuards (e : Entry) (r : Rec) : Bool :=
  if e.version != 1 || e.epoch == 0 || e.term == 0 || e.fence == 0 ||
     e.index == 0 || e.cmd == zero32 || e.dig == zero32 ||
     (e.pidx + 1) % two64 != e.index || r.id == 0 || (r.index != 0 && r.index != e.index) ||
     r.epoch != e.epoch || r.ts ≤ 0 then false
  else if e.pidx == 0 then
    if e.pterm != 0 || e.pdig != zero32 then false else true
  else if e.pterm == 0 || e.pdig == zero32 then false
  else true

def verify (H : Bytes → Dig) (e : Entry) (r : Rec) : Bool :=
  verifyGuards e r && (digest H e r == e.dig)

/-! ### DeriveProposalEntries / SealProposalManifest -/

/-- manifest-level guards of `DeriveProposalEntries` (`count` = recordCount, a non-negative int) -/
def deriveGuards (m : Manifest) (count : Nat) : Bool :=
  if count == 0 || count > (two64 - 1) - m.base ||
     m.version != 1 || m.epoch == 0 || m.term == 0 || m.fence == 0 ||
     m.cmd == zero32 || m.last != (m.base + count) % two64 || m.pidx != m.base then false
  else if m.base == 0 then
    if m.pterm != 0 || m.pdig != zero32 then false else true
  else if m.pterm == 0 || m.pdig == zero32 then false
  else true

/-- per-record guard inside the loop -/
def recordOK (m : Manifest) (index : Nat) (r : Rec) : Bool :=
  !(r.id == 0 || (r.index != 0 && r.index != index) || r.epoch != m.epoch || r.ts ≤ 0)

/-- the loop: `index` is the index of the next entry, (pt, pi, pd) the predecessor -/
def chain (H : Bytes → Dig) (m : Manifest) : Nat → Nat → Nat → Dig → List Rec → Option (List Entry)
  | _, _, _, _, [] => some []
  | index, pt, pi, pd, r :: rs =>
    if recordOK m index r then
      let e0 : Entry := { version := 1, epoch := m.epoch, term := m.term, fence := m.fence, index := index,
                          pterm := pt, pidx := pi, cmd := m.cmd, pdig := pd, dig := [] }
      let e : Entry := { e0 with dig := digest H e0 r }
      match chain H m (index + 1) e.term e.index e.dig rs with
      | some es => some (e :: es)
      | none => none
    else none

def derive (H : Bytes → Dig) (m : Manifest) (recs : List Rec) : Option (List Entry) :=
  if deriveGuards m recs.length then chain H m (m.base + 1) m.pterm m.pidx m.pdig recs else none

def sealManifest (H : Bytes → Dig) (m : Manifest) (recs : List Rec) : Option (Manifest × List Entry) :=
  match derive H m recs with
  | none => none
  | some es =>
    match es.getLast? with
    | none => none
    | some l => some ({ m with dig := l.dig }, es)

/-! ### SHA-256 (FIPS 180-4), executable, used only by the driver -/

def shaK : Array UInt32 := #[
  0x428a2f98, 0x71374491, 0xb5c0fbcf, 0xe9b5dba5, 0x3956c25b, 0x59f111f1, 0x923f82a4, 0xab1c5ed5,
  0xd807aa98, 0x12835b01, 0x243185be, 0x550c7dc3, 0x72be5d74, 0x80deb1fe, 0x9bdc06a7, 0xc19bf174,
  0xe49b69c1, 0xefbe4786, 0x0fc19dc6, 0x240ca1cc, 0x2de92c6f, 0x4a7484aa, 0x5cb0a9dc, 0x76f988da,
  0x983e5152, 0xa831c66d, 0xb00327c8, 0xbf597fc7, 0xc6e00bf3, 0xd5a79147, 0x06ca6351, 0x14292967,
  0x27b70a85, 0x2e1b2138, 0x4d2c6dfc, 0x53380d13, 0x650a7354, 0x766a0abb, 0x81c2c92e, 0x92722c85,
  0xa2bfe8a1, 0xa81a664b, 0xc24b8b70, 0xc76c51a3, 0xd192e819, 0xd6990624, 0xf40e3585, 0x106aa070,
  0x19a4c116, 0x1e376c08, 0x2748774c, 0x34b0bcb5, 0x391c0cb3, 0x4ed8aa4a, 0x5b9cca4f, 0x682e6ff3,
  0x748f82ee, 0x78a5636f, 0x84c87814, 0x8cc70208, 0x90befffa, 0xa4506ceb, 0xbef9a3f7, 0xc67178f2]

def shaH0 : Array UInt32 := #[
  0x6a09e667, 0xbb67ae85, 0x3c6ef372, 0xa54ff53a, 0x510e527f, 0x9b05688c, 0x1f83d9ab, 0x5be0cd19]

@[inline] def rotr (x : UInt32) (n : UInt32) : UInt32 := (x >>> n) ||| (x <<< (32 - n))

def shaPad (msg : Bytes) : Bytes :=
  let n := msg.length
  msg ++ [0x80] ++ List.replicate ((119 - n % 64) % 64) 0 ++ u64be (n * 8)

def shaCompress (h : Array UInt32) (p : Array UInt8) (off : Nat) : Array UInt32 := Id.run do
  let mut w : Array UInt32 := Array.replicate 64 0
  for i in [0:16] do
    let b0 := (p[off + 4*i]!).toUInt32
    let b1 := (p[off + 4*i + 1]!).toUInt32
    let b2 := (p[off + 4*i + 2]!).toUInt32
    let b3 := (p[off + 4*i + 3]!).toUInt32
    w := w.set! i ((b0 <<< 24) ||| (b1 <<< 16) ||| (b2 <<< 8) ||| b3)
  for i in [16:64] do
    let w15 := w[i-15]!
    let w2 := w[i-2]!
    let s0 := rotr w15 7 ^^^ rotr w15 18 ^^^ (w15 >>> 3)
    let s1 := rotr w2 17 ^^^ rotr w2 19 ^^^ (w2 >>> 10)
    w := w.set! i (w[i-16]! + s0 + w[i-7]! + s1)
  let mut a := h[0]!
  let mut b := h[1]!
  let mut c := h[2]!
  let mut d := h[3]!
  let mut e := h[4]!
  let mut f := h[5]!
  let mut g := h[6]!
  let mut hh := h[7]!
  for i in [0:64] do
    let S1 := rotr e 6 ^^^ rotr e 11 ^^^ rotr e 25
    let ch := (e &&& f) ^^^ ((~~~ e) &&& g)
    let t1 := hh + S1 + ch + shaK[i]! + w[i]!
    let S0 := rotr a 2 ^^^ rotr a 13 ^^^ rotr a 22
    let mj := (a &&& b) ^^^ (a &&& c) ^^^ (b &&& c)
    let t2 := S0 + mj
    hh := g
    g := f
    f := e
    e := d + t1
    d := c
    c := b
    b := a
    a := t1 + t2
  return #[h[0]! + a, h[1]! + b, h[2]! + c, h[3]! + d, h[4]! + e, h[5]! + f, h[6]! + g, h[7]! + hh]

def u32be (x : UInt32) : Bytes :=
  [(x >>> 24).toUInt8, (x >>> 16).toUInt8, (x >>> 8).toUInt8, x.toUInt8]

def sha256 (msg : Bytes) : Dig :=
  let p := (shaPad msg).toArray
  let h := (List.range (p.size / 64)).foldl (fun h i => shaCompress h p (i * 64)) shaH0
  h.toList.flatMap u32be

end WK.C05

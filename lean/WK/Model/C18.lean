/-
  C18 — model of the Controller state machine's batch loop
  (`pkg/controller/fsm/fsm.go: ApplyBatch`) and of the commit discipline every
  handler ends in (`mutation_guards.go: validateChanged`, the validate-or-roll-back
  of `applyReportNodeHealth`, `applyInit`).  Core only, executable.

  The 514 + 1651 lines of command handlers and state validation are NOT
  modelled: `handler` (what a command proposes for a state) and `valid`
  (`ClusterState.Validate`) are PARAMETERS.  What the handlers do with their
  proposal — bump the revision and validate, or roll back — is modelled.
-/
namespace WK.C18

/-- `state.ClusterState` as far as the batch loop looks at it: the logical
    revision, the durable applied Raft index, and everything else (`body`). -/
structure State (β : Type) where
  rev : Nat
  applied : Nat
  body : β
deriving Repr, DecidableEq

inductive Outcome
  | changed                      -- ApplyResult.Changed
  | updated                      -- ApplyResult.Updated
  | noop (reason : String)       -- ApplyResult.Noop
  | rejected (reason : String)   -- ApplyResult.Rejected
deriving Repr, DecidableEq

def Outcome.isRejected : Outcome → Bool
  | .rejected _ => true
  | _ => false

/-- what a command handler arrives at for a candidate state -/
inductive Proposal (β : Type)
  | reject (reason : String)     -- `return reject(..)`
  | noop (reason : String)       -- `return noop(..)`: the handler found nothing to change
  | change (cand : β)            -- `return validateChanged(next, before, cmd)`
  | update (cand : β)            -- report-node-health: validate or roll back, revision kept
  | init (body : β)              -- applyInit on an uninitialised state
deriving Repr

structure Entry (κ : Type) where
  idx : Nat
  cmd : κ
deriving Repr, DecidableEq

/-- ApplyResult as published per entry -/
structure Result where
  outcome : Outcome
  rev : Nat
  applied : Nat
deriving Repr, DecidableEq

def reasonInvalidState : String := "invalid_state"
def reasonAlreadyApplied : String := "already_applied"
def reasonInitConflict : String := "init_conflict"

/-- `validateChanged`: `next.Revision++`, (stamp UpdatedAt — part of `cand`),
    `Validate`, on failure `*next = before`. -/
def validateChanged {β : Type} (valid : State β → Bool) (before : State β) (cand : β) : State β × Outcome :=
  let next : State β := ⟨before.rev + 1, before.applied, cand⟩
  if valid next then (next, .changed) else (before, .rejected reasonInvalidState)

/-- `applyMutation`: run the handler on the candidate, then commit its proposal
    the way the handlers do. -/
def mutate {β κ : Type} (handler : State β → Nat → κ → Proposal β) (valid : State β → Bool)
    (s : State β) (idx : Nat) (cmd : κ) : State β × Outcome :=
  match handler s idx cmd with
  | .reject r => (s, .rejected r)
  | .noop r => (s, .noop r)
  | .change cand => validateChanged valid s cand
  | .update cand =>
    let next : State β := ⟨s.rev, s.applied, cand⟩
    if valid next then (next, .updated) else (s, .rejected reasonInvalidState)
  | .init body =>
    -- initialStateFromCommand: Revision 1, AppliedRaftIndex = raftIndex, validated
    let st : State β := ⟨1, idx, body⟩
    if !valid st then (s, .rejected reasonInvalidState)
    else if s.rev = 0 then (st, .changed)
    else (s, .rejected reasonInitConflict)   -- (an equivalent init is a handler `.noop`)

/-- Facts about the loop read out of fsm.go by the extractor (`WK.Gen.C18`):
    `guardLe` = the replay guard compares with `<=`; `guardOnCurrent` = its
    initialisation test reads `current.Revision` (the batch-start state);
    `bumpGt` = the applied index is raised only when `entry.Index >` it. -/
structure LoopFacts where
  guardLe : Bool := true
  guardOnCurrent : Bool := true
  bumpGt : Bool := true
deriving Repr, DecidableEq

/-- `current.Revision != 0 && entry.Index <= next.AppliedRaftIndex` (as regenerated) -/
def guardFires {β : Type} (F : LoopFacts) (current next : State β) (idx : Nat) : Bool :=
  (if F.guardOnCurrent then current.rev != 0 else next.rev != 0) &&
  (if F.guardLe then decide (idx ≤ next.applied) else decide (idx < next.applied))

/-- `next.Revision != 0 && entry.Index > next.AppliedRaftIndex` (as regenerated) -/
def raises {β : Type} (F : LoopFacts) (n1 : State β) (idx : Nat) : Bool :=
  n1.rev != 0 && (if F.bumpGt then decide (idx > n1.applied) else decide (idx ≥ n1.applied))

/-- one iteration of the `for _, entry := range entries` loop -/
def stepEntry {β κ : Type} (F : LoopFacts) (handler : State β → Nat → κ → Proposal β) (valid : State β → Bool)
    (current : State β) (acc : State β × List Result) (e : Entry κ) : State β × List Result :=
  if guardFires F current acc.1 e.idx then
    (acc.1, acc.2 ++ [⟨.noop reasonAlreadyApplied, acc.1.rev, acc.1.applied⟩])
  else
    let r := mutate handler valid acc.1 e.idx e.cmd
    let n2 : State β := if raises F r.1 e.idx then { r.1 with applied := e.idx } else r.1
    let ra := if n2.rev = 0 ∧ r.2.isRejected then e.idx else n2.applied
    (n2, acc.2 ++ [⟨r.2, n2.rev, ra⟩])

/-- the state machine: the published state (`sm.state`) and the state file -/
structure SM (β : Type) where
  published : State β
  file : Option (State β)
deriving Repr, DecidableEq

def runEntries {β κ : Type} (F : LoopFacts) (handler : State β → Nat → κ → Proposal β) (valid : State β → Bool)
    (current : State β) (es : List (Entry κ)) (acc : State β × List Result) : State β × List Result :=
  es.foldl (stepEntry F handler valid current) acc

/-- `ApplyBatch`: clone, loop, and — unless the state is still uninitialised —
    checksum, save once, publish. -/
def applyBatch {β κ : Type} (F : LoopFacts) (handler : State β → Nat → κ → Proposal β) (valid : State β → Bool)
    (sm : SM β) (es : List (Entry κ)) : SM β × List Result :=
  let r := runEntries F handler valid sm.published es (sm.published, [])
  if r.1.rev = 0 then (sm, r.2)
  else ({ published := r.1, file := some r.1 }, r.2)

/-- restart: a new StateMachine `Load`s the file (`os.ErrNotExist` ⇒ the empty state) -/
def restart {β : Type} (empty : State β) (sm : SM β) : SM β :=
  { published := sm.file.getD empty, file := sm.file }

/-- Rollback facts the extractor reads out of one `apply*` handler of
    mutation_handlers.go (regenerated into `WK.Gen.C18.handlerFacts`). -/
structure HandlerFact where
  name : String
  /-- text of the snapshot expression in `before := <expr>` (`-` if the handler takes none) -/
  snapshot : String
  /-- number of statements that write through `next` (assignments, upserts, Normalize) -/
  writes : Nat
  /-- a write through `next` precedes the snapshot -/
  writesBeforeSnapshot : Bool
  /-- every `validateChanged(..)` call is `validateChanged(next, before, cmd)` -/
  validateArgsOk : Bool
  /-- every `return reject(..)` after the snapshot is directly preceded by `*next = before` -/
  rejectsRestore : Bool
  /-- returns after the snapshot that are none of validateChanged / reject / noop / Updated -/
  otherReturns : Nat
  /-- the handler is `applyInit`'s shape: its only write is `*next = initial; return changed()` -/
  wholeReplace : Bool
deriving Repr, DecidableEq

/-- the rollback discipline: a handler that writes through the candidate takes
    its snapshot as a DEEP copy OF THE CANDIDATE (`next.Clone()`) before the first
    write and gives it back on every rejecting path. -/
def HandlerFact.ok (h : HandlerFact) : Bool :=
  h.writes == 0 || h.wholeReplace ||
  (h.snapshot == "next.Clone()" && !h.writesBeforeSnapshot && h.validateArgsOk && h.rejectsRestore && h.otherReturns == 0)

/-! ### the same loop over an arbitrary `mutate` function (the handlers' contract
    is then a hypothesis on `mutate`: `WK.C18.MutateContract`) -/

def stepEntryM {β κ : Type} (F : LoopFacts) (mutate : State β → Nat → κ → State β × Outcome)
    (current : State β) (acc : State β × List Result) (e : Entry κ) : State β × List Result :=
  if guardFires F current acc.1 e.idx then
    (acc.1, acc.2 ++ [⟨.noop reasonAlreadyApplied, acc.1.rev, acc.1.applied⟩])
  else
    let r := mutate acc.1 e.idx e.cmd
    let n2 : State β := if raises F r.1 e.idx then { r.1 with applied := e.idx } else r.1
    let ra := if n2.rev = 0 ∧ r.2.isRejected then e.idx else n2.applied
    (n2, acc.2 ++ [⟨r.2, n2.rev, ra⟩])

def runEntriesM {β κ : Type} (F : LoopFacts) (mutate : State β → Nat → κ → State β × Outcome)
    (current : State β) (es : List (Entry κ)) (acc : State β × List Result) : State β × List Result :=
  es.foldl (stepEntryM F mutate current) acc

def applyBatchM {β κ : Type} (F : LoopFacts) (mutate : State β → Nat → κ → State β × Outcome)
    (sm : SM β) (es : List (Entry κ)) : SM β × List Result :=
  let r := runEntriesM F mutate sm.published es (sm.published, [])
  if r.1.rev = 0 then (sm, r.2)
  else ({ published := r.1, file := some r.1 }, r.2)

/-! ### snapshot install (pkg/controller/raft/apply_scheduler.go: applyJob) -/

/-- regenerated: the decoded payload's AppliedRaftIndex is raised to the snapshot
    metadata index only if it is LOWER (`true`), or overwritten (`false`) -/
structure RestoreFacts where
  raiseOnlyIfLower : Bool := true
deriving Repr, DecidableEq

/-- `state.Decode(snapshot.Data)`, reconcile the applied index with the snapshot
    metadata index, `StateMachine.Restore` (save if initialised, publish). -/
def restoreSnapshot {β : Type} (R : RestoreFacts) (sm : SM β) (payload : State β) (metaIdx : Nat) : SM β :=
  let a := if R.raiseOnlyIfLower then (if payload.applied < metaIdx then metaIdx else payload.applied) else metaIdx
  let st : State β := { payload with applied := a }
  if st.rev ≠ 0 then { published := st, file := some st } else { published := st, file := sm.file }

end WK.C18

import WK.Spec.C12
/-
  C12 — the Ready DRIVER of one slot replica as a labelled transition system
  (pkg/slot/multiraft: processReady / runApplyTask / compactLogAt / newSlot).
  etcd/raft is a parameter: it only ever hands over committed entries
  `(applied, b]` with `b ≤ commit`, after they are persisted.  Core only.
-/
namespace WK.C12

structure D where
  persisted : Nat := 0            -- last index durable in the Raft log
  commit : Nat := 0               -- durable commit index
  smPos : Nat := 0                -- state machine's durable applied index (atomic with its content)
  mark : Nat := 0                 -- Storage.MarkApplied
  snap : Nat := 0                 -- durable snapshot index (0 = none)
  vol : Option Nat := some 0      -- in-memory lastApplied; none = the process is down
  inflight : Option (Nat × Nat) := none   -- committed entries (a,b] handed to the apply path, not yet applied
  pending : List Nat := []        -- indices of tracked proposal futures
  resolved : List Nat := []       -- futures resolved "committed at i"
  failed : List Nat := []
deriving Repr, Inhabited

inductive Step where
  | persist (n : Nat)             -- Save(entries, hard state) up to n
  | commitTo (c : Nat)
  | track (i : Nat)               -- trackReadyEntries: a local proposal got index i
  | deliver (b : Nat)             -- Ready.CommittedEntries = (applied, b]; Advance may follow at once (async apply)
  | apply                         -- ApplyBatch of the in-flight entries (atomic with the applied index)
  | markApplied
  | resolve (i : Nat)             -- completeResolutions
  | compact                       -- compactLogAt(lastApplied)
  | install (k : Nat)             -- Ready.Snapshot at k: Save + Restore
  | leaderLoss                    -- failLeadershipDependent
  | crash
  | restart
deriving Repr

/-- `newSlot`: a durable snapshot wins (the state machine is restored to it), else
    the larger of the storage's and the state machine's applied index -/
def restartPos (d : D) : Nat × Nat :=
  if d.snap ≠ 0 then (d.snap, d.snap) else (d.smPos, Nat.max d.mark d.smPos)

def step (d : D) : Step → Option D
  | .persist n => if d.vol.isSome ∧ d.persisted ≤ n then some { d with persisted := n } else none
  | .commitTo c => if d.vol.isSome ∧ d.commit ≤ c ∧ c ≤ d.persisted then some { d with commit := c } else none
  | .track i => if d.vol.isSome ∧ d.commit < i then some { d with pending := i :: d.pending } else none
  | .deliver b =>
    match d.vol, d.inflight with
    | some a, none => if a < b ∧ b ≤ d.commit then some { d with inflight := some (a, b) } else none
    | _, _ => none
  | .apply =>
    match d.vol, d.inflight with
    | some _, some (_, b) => some { d with smPos := b, vol := some b, inflight := none }
    | _, _ => none
  | .markApplied =>
    match d.vol with
    | some a => some { d with mark := a }
    | none => none
  | .resolve i =>
    if d.vol.isSome ∧ i ∈ d.pending ∧ i ≤ d.smPos then
      some { d with pending := d.pending.erase i, resolved := i :: d.resolved } else none
  | .compact =>
    match d.vol, d.inflight with
    | some a, none => if a ≠ 0 then some { d with snap := a, mark := a } else none
    | _, _ => none
  | .install k =>
    match d.vol, d.inflight with
    | some a, none =>
      if a < k then
        some { d with persisted := Nat.max d.persisted k, commit := Nat.max d.commit k, snap := k, smPos := k, vol := some k }
      else none
    | _, _ => none
  | .leaderLoss => if d.vol.isSome then some { d with failed := d.pending ++ d.failed, pending := [] } else none
  | .crash => some { d with vol := none, inflight := none, failed := d.pending ++ d.failed, pending := [] }
  | .restart =>
    match d.vol with
    | none => some { d with smPos := (restartPos d).1, vol := some (restartPos d).2 }
    | some _ => none

/-- run a schedule, ignoring steps that are not enabled -/
def run (d : D) (ss : List Step) : D := ss.foldl (fun d s => (step d s).getD d) d

end WK.C12

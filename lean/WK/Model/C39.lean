import WK.Spec.C39
/-
  C39 — executable model of the two slot FSMs during a hash-slot migration
  (pkg/slot/fsm/statemachine.go ApplyBatch / stageMigrationOutbox /
  stageMigrationFence / applyDelta path, AckHashSlotMigrationOutbox) for ONE
  migrating hash slot, source slot 1 → target slot 2.  Core only.
-/
namespace WK.C39

/-- HashSlotMigrationState row on the source -/
structure MState where
  phase : Nat
  fence : Nat
  lastOutbox : Nat
  lastAcked : Nat
deriving DecidableEq, Repr

structure Src where
  data : KV := []
  /-- the source still owns the hash slot -/
  owned : Bool := true
  /-- `migrations[hashSlot]` is set (UpdateOutgoingDeltaTargets): commands are copied to the outbox -/
  started : Bool := false
  /-- raft index of the last command handed to the source -/
  idx : Nat := 0
  outbox : List Nat := []
  st : Option MState := none
deriving Repr

structure Tgt where
  data : KV := []
  owned : Bool := false
  /-- durable AppliedHashSlotDelta records (source index) -/
  applied : List Nat := []
deriving Repr

/-- isHashSlotFenced -/
def Src.fenced (s : Src) : Bool :=
  match s.st with
  | some m => m.fence != 0
  | none => false

def Src.loadOrCreate (s : Src) : MState := s.st.getD ⟨0, 0, 0, 0⟩

/-- one ordinary write command at the source -/
def Src.write (s : Src) (k v : Nat) : Src × String × Option Delta :=
  let s := { s with idx := s.idx + 1 }
  if !s.owned then (s, "err:invalid", none)          -- resolveHashSlot: not an owned hash slot
  else if s.fenced then (s, "fenced", none)           -- ApplyResultHashSlotFenced, nothing applied
  else
    let s := { s with data := put k v s.data }
    if s.started then
      -- stageMigrationOutbox: the outbox row and the state row are in the same batch as the write
      let m := s.loadOrCreate
      let m := { m with phase := 1, lastOutbox := max m.lastOutbox s.idx }
      ({ s with outbox := s.outbox ++ [s.idx], st := some m }, "ok", some ⟨s.idx, some (k, v)⟩)
    else (s, "ok", none)

/-- EnterFence at the source -/
def Src.fence (s : Src) : Src × String × Option Delta :=
  let s := { s with idx := s.idx + 1 }
  if !s.started then (s, "err:invalid", none)         -- migrationForFence: no migration, no target
  else
    let m := s.loadOrCreate
    if m.fence != 0 then (s, "ok", none)
    else
      let m := { m with phase := 2, fence := s.idx, lastOutbox := max m.lastOutbox s.idx }
      ({ s with outbox := s.outbox ++ [s.idx], st := some m }, "ok", some ⟨s.idx, none⟩)

/-- AckHashSlotMigrationOutbox -/
def Src.ack (s : Src) (i : Nat) : Src × String :=
  match s.st with
  | none => (s, "err:notfound")
  | some m =>
    if i == 0 || i > m.lastOutbox then (s, "err:invalid")
    else ({ s with st := some { m with lastAcked := max m.lastAcked i }, outbox := s.outbox.filter (· != i) }, "ok")

/-- the replicated ack command (applyMigrationOutboxAck): deletes exactly the acked row -/
def Src.ackCmd (s : Src) (i : Nat) : Src × String :=
  let s := { s with idx := s.idx + 1 }
  if i == 0 then (s, "err:invalid")
  else match s.st with
    | none => (s, "ok")
    | some m =>
      if i > m.lastOutbox then (s, "ok")
      else ({ s with st := some { m with lastAcked := max m.lastAcked i }, outbox := s.outbox.filter (· != i) }, "ok")

/-- the replicated cleanup command (applyMigrationOutboxCleanup): once every outbox row up to the last one
    is covered it also deletes the migration-state row (and with it the fence) -/
def Src.cleanup (s : Src) (through : Nat) : Src × String :=
  let s := { s with idx := s.idx + 1 }
  if through == 0 then (s, "err:invalid")
  else
    let st := match s.st with
      | some m => if m.lastOutbox != 0 && m.lastOutbox ≤ through then none else some m
      | none => none
    ({ s with st := st, outbox := s.outbox.filter (fun i => i > through) }, "ok")

/-- one apply_delta command at the target: skipped if its replay key is recorded, otherwise the
    effect and the record are written in the same batch -/
def Tgt.applyDelta (t : Tgt) (d : Delta) : Tgt :=
  if t.applied.any (· == d.idx) then t
  else
    { t with data := (match d.cmd with | some (k, v) => put k v t.data | none => t.data),
             applied := d.idx :: t.applied }

def Tgt.deliverAll (t : Tgt) (ds : List Delta) : Tgt := ds.foldl Tgt.applyDelta t

/-- an ordinary write for the migrating hash slot at the target -/
def Tgt.write (t : Tgt) (k v : Nat) : Tgt × String :=
  if !t.owned then (t, "err:invalid") else ({ t with data := put k v t.data }, "ok")

/-- ImportHashSlotSnapshotPreservingMigrationMeta of the source's export -/
def Tgt.importSnapshot (t : Tgt) (s : Src) : Tgt := { t with data := s.data }

/-- a run of ordinary writes at the source, collecting the forwarded deltas -/
def Src.writes (s : Src) : List (Nat × Nat) → Src × List Delta
  | [] => (s, [])
  | (k, v) :: rest =>
    let r := s.write k v
    let r2 := Src.writes r.1 rest
    (r2.1, (match r.2.2 with | some d => [d] | none => []) ++ r2.2)

end WK.C39

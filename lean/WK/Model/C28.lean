/-
  C28 — labelled transition system of the gateway SEND path (core only).

  One transition = one atomic action of the Go code:

    recv s        Server.onData hands the next SEND of session s to
                  sendExecutor.submit: `closed` is read and `admitted.Add(1)`
                  done inside ONE `admissionMu` critical section
                  (async_send.go submit); a closed session drops the frame
                  (onData `state.isClosed()`), a set fence rejects it and closes
                  the session (dispatchSendFrameAsync → state.close).
    enq s ok      the rest of submit: reserve / reserveShard / mailbox.SubmitHash.
                  ok=false is the queue-full path (completeAdmission + close).
                  Capacity only decides WHICH outcome happens, so the model
                  allows both at any time (over-approximation).
    take sh k     the single drainer of shard sh (ShardedMailbox `scheduled`
                  flag — C37's single-drain guarantee, taken as the mailbox's
                  contract here) takes the next k queued items of its shard as
                  one handler batch; only when the previous batch of that
                  shard is finished.
    ack s         Handler.OnSendBatch `complete`: the head un-acked item of
                  session s in the running batch gets its SENDACK written
                  (session.WriteFrame under writeMu, session not closed).
                  Items of different sessions complete in any order.
    abort sh      the batch of shard sh fails (sendack write on a closed
                  session, or a usecase error): Server.dispatchSendBatch closes
                  every session that still has an item in it
                  (handleHandlerError, CloseOnHandlerError = true) and the
                  items are dropped (deferred completeAdmission).
    close s       peer close / server close of a session (state.close).
    push s        another sequential writer issues its next frame through
                  session.WriteFrame (atomic under writeMu; fails when closed).
    drainStart    sendExecutor.drain sets `closed` under admissionMu.
    drainDone     the drain goroutine's `admitted.Wait()` returns (wg = 0).
-/
namespace WK.C28

abbrev Item := Nat × Nat   -- (session, client seq)

structure Sess where
  closed : Bool := false
  sent : List Nat := []       -- client seqs handed over by the transport (seq = index)
  late : List Nat := []       -- ghost: those handed over after the fence was set
  admitted : List Nat := []   -- submit returned true
  acked : List Nat := []      -- SENDACK written to the transport
  pushNext : Nat := 1
  pushed : List Nat := []     -- frames of the sequential writer that reached the transport

structure St where
  fence : Bool := false
  drained : Bool := false
  wg : Nat := 0               -- sendExecutor.admitted (WaitGroup counter)
  pend : List Item := []      -- submits between the admission fence and the mailbox
  queue : List Item := []     -- all shard mailboxes, merged in admission order
  inflight : List Item := []  -- un-acked items of the running handler batches
  sess : Nat → Sess := fun _ => {}

inductive Lbl where
  | recv (s : Nat)
  | enq (s : Nat) (ok : Bool)
  | take (sh k : Nat)
  | ack (s : Nat)
  | abort (sh : Nat)
  | close (s : Nat)
  | push (s : Nat)
  | drainStart
  | drainDone
  deriving Repr, DecidableEq

def itemsOf (s : Nat) (l : List Item) : List Nat := (l.filter (fun it => it.1 == s)).map (·.2)

def upd (f : Nat → Sess) (s : Nat) (v : Sess) : Nat → Sess := fun x => if x = s then v else f x

/-- first item of session `s`, and the list without it -/
def popFirst (s : Nat) : List Item → Option (Nat × List Item)
  | [] => none
  | (t, n) :: xs =>
    if t = s then some (n, xs)
    else match popFirst s xs with
      | some (m, r) => some (m, (t, n) :: r)
      | none => none

/-- the first `k` elements satisfying `p` (in order), and everything else (in order) -/
def takeP (p : Item → Bool) : Nat → List Item → List Item × List Item
  | 0, l => ([], l)
  | _, [] => ([], [])
  | k+1, x :: xs =>
    if p x then ((x :: (takeP p k xs).1), (takeP p k xs).2)
    else ((takeP p (k+1) xs).1, x :: (takeP p (k+1) xs).2)

def step (shardOf : Nat → Nat) (st : St) : Lbl → Option St
  | .recv s =>
    if (itemsOf s st.pend) ≠ [] then none else
    let z := st.sess s
    let n := z.sent.length
    let late' := if st.fence then z.late ++ [n] else z.late
    if z.closed then
      some { st with sess := upd st.sess s { z with sent := z.sent ++ [n], late := late' } }
    else if st.fence then
      some { st with sess := upd st.sess s { z with sent := z.sent ++ [n], late := late', closed := true } }
    else
      some { st with wg := st.wg + 1, pend := st.pend ++ [(s, n)],
                     sess := upd st.sess s { z with sent := z.sent ++ [n] } }
  | .enq s ok =>
    match popFirst s st.pend with
    | none => none
    | some (n, rest) =>
      let z := st.sess s
      if ok then
        some { st with pend := rest, queue := st.queue ++ [(s, n)],
                       sess := upd st.sess s { z with admitted := z.admitted ++ [n] } }
      else
        some { st with pend := rest, wg := st.wg - 1, sess := upd st.sess s { z with closed := true } }
  | .take sh k =>
    let tr := takeP (fun it => shardOf it.1 == sh) k st.queue
    if k = 0 ∨ tr.1 = [] ∨ st.inflight.any (fun it => shardOf it.1 == sh) then none else
    some { st with queue := tr.2, inflight := st.inflight ++ tr.1 }
  | .ack s =>
    let z := st.sess s
    if z.closed then none else
    match popFirst s st.inflight with
    | none => none
    | some (n, rest) =>
      some { st with inflight := rest, wg := st.wg - 1, sess := upd st.sess s { z with acked := z.acked ++ [n] } }
  | .abort sh =>
    let dropped := st.inflight.filter (fun it => shardOf it.1 == sh)
    if dropped = [] then none else
    some { st with inflight := st.inflight.filter (fun it => !(shardOf it.1 == sh)),
                   wg := st.wg - dropped.length,
                   sess := fun x => if dropped.any (fun it => it.1 == x) then { st.sess x with closed := true } else st.sess x }
  | .close s => some { st with sess := upd st.sess s { st.sess s with closed := true } }
  | .push s =>
    let z := st.sess s
    if z.closed then some { st with sess := upd st.sess s { z with pushNext := z.pushNext + 1 } }
    else some { st with sess := upd st.sess s { z with pushNext := z.pushNext + 1, pushed := z.pushed ++ [z.pushNext] } }
  | .drainStart => some { st with fence := true }
  | .drainDone => if st.fence ∧ st.wg = 0 ∧ st.drained = false then some { st with drained := true } else none

/-- internal (gateway-owned) actions: what must eventually run without further input -/
def Lbl.internal : Lbl → Bool
  | .enq _ _ | .take _ _ | .ack _ | .abort _ | .drainDone => true
  | _ => false

inductive Reach (shardOf : Nat → Nat) : St → Prop where
  | init : Reach shardOf {}
  | step {st st' : St} (l : Lbl) : Reach shardOf st → step shardOf st l = some st' → Reach shardOf st'

/-- run a label list (used by the non-vacuity examples) -/
def run (shardOf : Nat → Nat) : St → List Lbl → Option St
  | st, [] => some st
  | st, l :: ls => match step shardOf st l with
    | some st' => run shardOf st' ls
    | none => none

/-! ### source facts the LTS relies on (checked against `WK.Gen.C28`, regenerated from async_send.go) -/

/-- calls at nesting depth 0, in source order -/
def topCalls (cs : List (Nat × String)) : List String := (cs.filter (fun c => c.1 == 0)).map (·.2)

/-- `recv` is ONE atomic step: submit reads `closed` and does `admitted.Add(1)` inside one
    admissionMu critical section (Lock, closed.Load, Add, Unlock are the first four top-level
    calls, and the only thing nested between Load and Add is the early exit's Unlock), and only
    then asks the session for its shard. -/
def admissionAtomic (cs : List (Nat × String)) : Bool :=
  (topCalls cs).take 5 == ["e.admissionMu.Lock", "e.closed.Load", "e.admitted.Add", "e.admissionMu.Unlock", "asyncSendShardIndex"] &&
  ((cs.dropWhile (fun c => c.2 != "e.closed.Load")).drop 1).takeWhile (fun c => c.2 != "e.admitted.Add") == [(1, "e.admissionMu.Unlock")]

/-- `enq s false`: every fallible step after the admission (reserve, reserveShard, SubmitHash)
    is followed, one level deeper, by `completeAdmission` before the next top-level step. -/
def failureExitsGiveBack : List (Nat × String) → Bool
  | [] => true
  | c :: rest =>
    (if c.1 == 0 && (c.2 == "e.reserve" || c.2 == "e.reserveShard" || c.2 == "e.mailbox.SubmitHash")
     then (rest.takeWhile (fun d => d.1 != 0)).contains (1, "e.completeAdmission") else true) && failureExitsGiveBack rest

/-- `drainStart` / `drainDone`: drain stores `closed` under admissionMu, and only afterwards waits
    for `admitted` and closes `drained`. -/
def drainOrder (cs : List (Nat × String)) : Bool :=
  cs.map (·.2) == ["e.admissionMu.Lock", "e.closed.Store", "e.admissionMu.Unlock", "e.drainOnce.Do", "e.admitted.Wait", "close"]

/-- `ack` / `abort`: the batch handler gives the admissions back in a deferred call that is
    registered before dispatch, i.e. it runs after the handler returned. -/
def batchGivesBackAfterDispatch (cs : List (Nat × String)) : Bool :=
  match cs.map (·.2) |>.dropWhile (· != "defer e.completeAdmission") with
  | _ :: rest => rest.contains "e.dispatchMailboxBatch" && !(cs.map (·.2)).contains "e.completeAdmission"
  | [] => false

end WK.C28

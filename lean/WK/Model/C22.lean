import WK.Prelude.Hex
/-
  C22 / C23 — byte-level model of the WKProto client codec
  (/repo/pkg/protocol/codec/{protocol,common,encoder,decoder,connect,connack,send,
  sendack,recv,recvack,disconnect,sub,suback,event,message_seq}.go and
  /repo/pkg/protocol/frame/*.go).  Core only (the drivers link this file).

  Conventions (DESIGN §5): Go `string`/`[]byte` = `List UInt8`; every integer
  field is a `Nat`; the encoder truncates exactly where the Go conversion does
  (`byte(i)`, `uint32(x)`), the decoder always yields in-range values.  Signed
  fields (`int64 MessageID`, `int32 Timestamp`, …) are carried as their two's
  complement bit pattern (the harness prints `uint64(x)`).

  The model mirrors the code branch for branch, including what the code does
  OUTSIDE the protocol limits:
    * `Encoder.WriteString` panics for len > math.MaxInt16  → `EncFail.panic`
    * SEND payload > PayloadMaxSize, legacy message-seq > u32 → `EncFail.err`
      (first failing write wins, in the order the Go code writes)
    * `decodeLength` stops after four continuation bytes and reports 5 consumed
      bytes without looking at the fifth
    * `DecodeFrame` indexes `data[0]` unguarded                → `DecRes.panic`
    * frame type 0 and an incomplete length are "need more data" (nil,0,nil)
    * SENDACK bodies are tried core-first, then client-msg-no-first
-/
namespace WK.C22

/-! ## constants (pkg/protocol/codec/common.go, pkg/protocol/frame/common.go) -/

def maxRemainingLength : Nat := 1024 * 1024
def payloadMaxSize : Nat := 32767          -- 1<<15 - 1
def maxInt16 : Nat := 32767
def legacyMessageSeqVersion : Nat := 5
def latestVersion : Nat := 6

def settingTopic : Nat := 8                -- 1 << 3
def settingStream : Nat := 2               -- 1 << 1

/-- `Setting.IsSet` : `s & v != 0` -/
def isSet (s bit : Nat) : Bool := (s &&& bit) != 0

/-! ## frames -/

/-- the encodable part of `frame.Framer` (+ `End`, which is never encoded) -/
structure Flags where
  noPersist : Bool := false
  redDot : Bool := false
  syncOnce : Bool := false
  dup : Bool := false
  hsv : Bool := false      -- HasServerVersion (CONNACK only)
  fin : Bool := false      -- End
deriving DecidableEq, Repr, Inhabited

structure Connect where
  version : Nat
  deviceFlag : Nat
  deviceID : Bytes
  uid : Bytes
  token : Bytes
  clientTimestamp : Nat
  clientKey : Bytes
deriving DecidableEq, Repr

structure Connack where
  serverVersion : Nat
  timeDiff : Nat
  reasonCode : Nat
  serverKey : Bytes
  salt : Bytes
  nodeId : Nat
deriving DecidableEq, Repr

structure Send where
  setting : Nat
  clientSeq : Nat
  clientMsgNo : Bytes
  streamNo : Bytes
  channelID : Bytes
  channelType : Nat
  expire : Nat
  msgKey : Bytes
  topic : Bytes
  payload : Bytes
deriving DecidableEq, Repr

structure Sendack where
  messageID : Nat
  clientSeq : Nat
  messageSeq : Nat
  reasonCode : Nat
  clientMsgNo : Bytes
deriving DecidableEq, Repr

structure Recv where
  setting : Nat
  msgKey : Bytes
  fromUID : Bytes
  channelID : Bytes
  channelType : Nat
  expire : Nat
  clientMsgNo : Bytes
  streamFlag : Nat
  streamNo : Bytes
  streamId : Nat
  messageID : Nat
  messageSeq : Nat
  timestamp : Nat
  topic : Bytes
  payload : Bytes
deriving DecidableEq, Repr

structure Recvack where
  messageID : Nat
  messageSeq : Nat
deriving DecidableEq, Repr

structure Disconnect where
  reasonCode : Nat
  reason : Bytes
deriving DecidableEq, Repr

structure Sub where
  setting : Nat
  subNo : Bytes
  channelID : Bytes
  channelType : Nat
  action : Nat
  param : Bytes
deriving DecidableEq, Repr

structure Suback where
  subNo : Bytes
  channelID : Bytes
  channelType : Nat
  action : Nat
  reasonCode : Nat
deriving DecidableEq, Repr

structure Event where
  id : Bytes
  type : Bytes
  timestamp : Nat
  data : Bytes
deriving DecidableEq, Repr

inductive Frame where
  | connect (h : Flags) (p : Connect)
  | connack (h : Flags) (p : Connack)
  | send (h : Flags) (p : Send)
  | sendack (h : Flags) (p : Sendack)
  | recv (h : Flags) (p : Recv)
  | recvack (h : Flags) (p : Recvack)
  | ping (h : Flags)
  | pong (h : Flags)
  | disconnect (h : Flags) (p : Disconnect)
  | sub (h : Flags) (p : Sub)
  | suback (h : Flags) (p : Suback)
  | event (h : Flags) (p : Event)
deriving DecidableEq, Repr

/-- `frame.FrameType` numbers (iota order in frame/common.go) -/
def Frame.typeNo : Frame → Nat
  | .connect .. => 1 | .connack .. => 2 | .send .. => 3 | .sendack .. => 4
  | .recv .. => 5 | .recvack .. => 6 | .ping .. => 7 | .pong .. => 8
  | .disconnect .. => 9 | .sub .. => 10 | .suback .. => 11 | .event .. => 12

def Frame.flags : Frame → Flags
  | .connect h _ | .connack h _ | .send h _ | .sendack h _ | .recv h _ | .recvack h _
  | .ping h | .pong h | .disconnect h _ | .sub h _ | .suback h _ | .event h _ => h

/-! ## fixed header byte (common.go) -/

def b2n (b : Bool) : Nat := if b then 1 else 0

/-- `ToFixHeaderUint8`: type<<4 | DUP<<3 | SyncOnce<<2 | RedDot<<1 | NoPersist,
    except CONNACK whose low nibble is just HasServerVersion. -/
def hdrByte (ft : Nat) (h : Flags) : UInt8 :=
  let nib := if ft = 2 then b2n h.hsv
             else b2n h.dup * 8 + b2n h.syncOnce * 4 + b2n h.redDot * 2 + b2n h.noPersist
  UInt8.ofNat (ft * 16 + nib)

/-- `FramerFromUint8` (flag part). -/
def flagsOfByte (b : UInt8) : Flags :=
  let v := b.toNat
  { noPersist := v % 2 = 1
    redDot := v / 2 % 2 = 1
    syncOnce := v / 4 % 2 = 1
    dup := v / 8 % 2 = 1
    hsv := if v / 16 = 2 then v % 2 = 1 else false
    fin := false }

def typeOfByte (b : UInt8) : Nat := b.toNat / 16

/-! ## remaining-length varint (protocol.go) -/

/-- `encodeVariable2` for a uint32: at most five iterations. -/
def encVarF : Nat → Nat → Bytes
  | 0, _ => []
  | fuel+1, size =>
    if size > 0 then
      let digit := size % 128
      let size' := size / 128
      if size' > 0 then UInt8.ofNat (digit + 128) :: encVarF fuel size'
      else [UInt8.ofNat digit]
    else []

def encVar (size : Nat) : Bytes := encVarF 5 size

/-- `encodedVariableSize` -/
def varSizeF : Nat → Nat → Nat
  | 0, _ => 0
  | fuel+1, size => if size > 0 then 1 + varSizeF fuel (size / 128) else 0

def varSize (size : Nat) : Nat := varSizeF 5 size

/-- `decodeLength`: `fuel` = iterations left while `multiplier < 27` (4), `acc` =
    rLength, `off` = offset.  `none` = errDecodeLength. Returns (rLength, bytes consumed). -/
def decLenF : Nat → Nat → Nat → Nat → Bytes → Option (Nat × Nat)
  | 0, _, off, acc, _ => some (acc, off + 1)
  | fuel+1, mult, off, acc, data =>
    match data with
    | [] => none
    | d :: rest =>
      let acc' := acc + (d.toNat % 128) * 2 ^ mult     -- `|=` of disjoint bit ranges
      if d.toNat / 128 = 0 then some (acc', off + 1)
      else decLenF fuel (mult + 7) (off + 1) acc' rest

def decLen (data : Bytes) : Option (Nat × Nat) := decLenF 4 0 0 0 data

/-! ## Encoder primitives (encoder.go) -/

def encU8 (n : Nat) : Bytes := [UInt8.ofNat n]
def encU16 (n : Nat) : Bytes := [UInt8.ofNat (n / 256), UInt8.ofNat n]
def encU32 (n : Nat) : Bytes :=
  [UInt8.ofNat (n / 16777216), UInt8.ofNat (n / 65536), UInt8.ofNat (n / 256), UInt8.ofNat n]
def encU64 (n : Nat) : Bytes :=
  [UInt8.ofNat (n / 72057594037927936), UInt8.ofNat (n / 281474976710656),
   UInt8.ofNat (n / 1099511627776), UInt8.ofNat (n / 4294967296),
   UInt8.ofNat (n / 16777216), UInt8.ofNat (n / 65536), UInt8.ofNat (n / 256), UInt8.ofNat n]
/-- `WriteString`/`WriteBinary` for an admissible length -/
def encStr (s : Bytes) : Bytes := encU16 s.length ++ s

inductive EncFail where
  | err      -- EncodeFrame returned an error
  | panic    -- WriteString panicked (len > math.MaxInt16)
deriving DecidableEq, Repr

/-- one write of the encoder: bytes, or the failure that aborts the frame -/
abbrev W := Except EncFail Bytes

def wStr (s : Bytes) : W := if s.length > maxInt16 then .error .panic else .ok (encStr s)

/-- `encodeMessageSeq` -/
def wSeq (v n : Nat) : W :=
  if v ≤ legacyMessageSeqVersion then
    if n > 4294967295 then .error .err else .ok (encU32 n)
  else .ok (encU64 n)

/-- `messageSeqSize` -/
def seqSize (v : Nat) : Nat := if v ≤ legacyMessageSeqVersion then 4 else 8

/-- run the writes left to right; the first failure aborts -/
def wCat : List W → W
  | [] => .ok []
  | .error e :: _ => .error e
  | .ok b :: rest =>
    match wCat rest with
    | .error e => .error e
    | .ok r => .ok (b ++ r)

def wIf (c : Bool) (ws : List W) : List W := if c then ws else []

/-- `version < 5 && version >= 2 && Setting.IsSet(SettingStream)` -/
def streamOn (v setting : Nat) : Bool := decide (v < 5) && decide (v ≥ 2) && isSet setting settingStream
def topicOn (setting : Nat) : Bool := isSet setting settingTopic

/-! ## per-type bodies: encodeX / encodeXSize -/

def encConnect (p : Connect) : W :=
  wCat [.ok (encU8 p.version), .ok (encU8 p.deviceFlag), wStr p.deviceID, wStr p.uid, wStr p.token,
        .ok (encU64 p.clientTimestamp), wStr p.clientKey]

def sizeConnect (p : Connect) : Nat :=
  1 + 1 + (p.deviceID.length + 2) + (p.uid.length + 2) + (p.token.length + 2) + 8 + (p.clientKey.length + 2)

def encConnack (v : Nat) (h : Flags) (p : Connack) : W :=
  wCat (wIf h.hsv [.ok (encU8 p.serverVersion)] ++
        [.ok (encU64 p.timeDiff), .ok (encU8 p.reasonCode), wStr p.serverKey, wStr p.salt] ++
        wIf (decide (v ≥ 4)) [.ok (encU64 p.nodeId)])

def sizeConnack (v : Nat) (h : Flags) (p : Connack) : Nat :=
  (if h.hsv then 1 else 0) + 8 + 1 + (p.serverKey.length + 2) + (p.salt.length + 2) + (if v ≥ 4 then 8 else 0)

def encSend (v : Nat) (p : Send) : W :=
  wCat ([.ok (encU8 p.setting), .ok (encU32 p.clientSeq), wStr p.clientMsgNo] ++
        wIf (streamOn v p.setting) [wStr p.streamNo] ++
        [wStr p.channelID, .ok (encU8 p.channelType)] ++
        wIf (decide (v ≥ 3)) [.ok (encU32 p.expire)] ++
        [wStr p.msgKey] ++
        wIf (topicOn p.setting) [wStr p.topic] ++
        [.ok p.payload])

def sizeSend (v : Nat) (p : Send) : Nat :=
  1 + 4 + (p.clientMsgNo.length + 2) + (if streamOn v p.setting then p.streamNo.length + 2 else 0) +
  (p.channelID.length + 2) + 1 + (if v ≥ 3 then 4 else 0) + (p.msgKey.length + 2) +
  (if topicOn p.setting then p.topic.length + 2 else 0) + p.payload.length

def encSendack (v : Nat) (p : Sendack) : W :=
  wCat ([.ok (encU64 p.messageID), .ok (encU32 p.clientSeq), wSeq v p.messageSeq, .ok (encU8 p.reasonCode)] ++
        wIf (!p.clientMsgNo.isEmpty) [wStr p.clientMsgNo])

def sizeSendack (v : Nat) (p : Sendack) : Nat :=
  8 + 4 + seqSize v + 1 + (if p.clientMsgNo.isEmpty then 0 else p.clientMsgNo.length + 2)

def encRecv (v : Nat) (p : Recv) : W :=
  wCat ([.ok (encU8 p.setting), wStr p.msgKey, wStr p.fromUID, wStr p.channelID, .ok (encU8 p.channelType)] ++
        wIf (decide (v ≥ 3)) [.ok (encU32 p.expire)] ++
        [wStr p.clientMsgNo] ++
        wIf (streamOn v p.setting) [.ok (encU8 p.streamFlag), wStr p.streamNo, .ok (encU64 p.streamId)] ++
        [.ok (encU64 p.messageID), wSeq v p.messageSeq, .ok (encU32 p.timestamp)] ++
        wIf (topicOn p.setting) [wStr p.topic] ++
        [.ok p.payload])

def sizeRecv (v : Nat) (p : Recv) : Nat :=
  1 + (p.msgKey.length + 2) + (p.fromUID.length + 2) + (p.channelID.length + 2) + 1 +
  (if v ≥ 3 then 4 else 0) + (p.clientMsgNo.length + 2) +
  (if streamOn v p.setting then 1 + (p.streamNo.length + 2) + 8 else 0) +
  8 + seqSize v + 4 + (if topicOn p.setting then p.topic.length + 2 else 0) + p.payload.length

def encRecvack (v : Nat) (p : Recvack) : W :=
  wCat [.ok (encU64 p.messageID), wSeq v p.messageSeq]

def sizeRecvack (v : Nat) : Nat := 8 + seqSize v

def encDisconnect (p : Disconnect) : W :=
  wCat [.ok (encU8 p.reasonCode), wStr p.reason]

def sizeDisconnect (p : Disconnect) : Nat := 1 + p.reason.length + 2

def encSub (p : Sub) : W :=
  wCat [.ok (encU8 p.setting), wStr p.subNo, wStr p.channelID, .ok (encU8 p.channelType),
        .ok (encU8 p.action), wStr p.param]

def sizeSub (p : Sub) : Nat :=
  1 + (p.subNo.length + 2) + (p.channelID.length + 2) + 1 + 1 + (p.param.length + 2)

def encSuback (p : Suback) : W :=
  wCat [wStr p.subNo, wStr p.channelID, .ok (encU8 p.channelType), .ok (encU8 p.action), .ok (encU8 p.reasonCode)]

def sizeSuback (p : Suback) : Nat :=
  (p.subNo.length + 2) + (p.channelID.length + 2) + 1 + 1 + 1

def encEvent (p : Event) : W :=
  wCat [wStr p.id, wStr p.type, .ok (encU64 p.timestamp), .ok p.data]

def sizeEvent (p : Event) : Nat :=
  (p.id.length + 2) + (p.type.length + 2) + 8 + p.data.length

/-- the body writes of a non-PING/PONG frame -/
def encodeBody (v : Nat) : Frame → W
  | .connect _ p => encConnect p
  | .connack h p => encConnack v h p
  | .send _ p => encSend v p
  | .sendack _ p => encSendack v p
  | .recv _ p => encRecv v p
  | .recvack _ p => encRecvack v p
  | .disconnect _ p => encDisconnect p
  | .sub _ p => encSub p
  | .suback _ p => encSuback p
  | .event _ p => encEvent p
  | .ping _ | .pong _ => .ok []

/-- `encodedFrameBodySize` (the `encodeXSize` functions; `ok = false` is modelled by
    the SEND guard in `encodedSize`/`encodeFrame`) -/
def bodySize (v : Nat) : Frame → Nat
  | .connect _ p => sizeConnect p
  | .connack h p => sizeConnack v h p
  | .send _ p => sizeSend v p
  | .sendack _ p => sizeSendack v p
  | .recv _ p => sizeRecv v p
  | .recvack _ _ => sizeRecvack v
  | .disconnect _ p => sizeDisconnect p
  | .sub _ p => sizeSub p
  | .suback _ p => sizeSuback p
  | .event _ p => sizeEvent p
  | .ping _ | .pong _ => 0

def sendTooLarge : Frame → Bool
  | .send _ p => decide (p.payload.length > payloadMaxSize)
  | _ => false

/-- `encodedFrameSize` -/
def encodedSize (v : Nat) (f : Frame) : Nat :=
  match f with
  | .ping _ | .pong _ => 1
  | _ => if sendTooLarge f then 0 else 1 + varSize (bodySize v f) + bodySize v f

/-- `WKProto.EncodeFrame`.  The remaining length written in the header comes from
    the SIZE function, not from the bytes actually written. -/
def encodeFrame (v : Nat) (f : Frame) : W :=
  match f with
  | .ping _ => .ok [UInt8.ofNat (7 * 16)]
  | .pong _ => .ok [UInt8.ofNat (8 * 16)]
  | _ =>
    if sendTooLarge f then .error .err
    else match encodeBody v f with
      | .error e => .error e
      | .ok body => .ok (hdrByte f.typeNo f.flags :: (encVar (bodySize v f) ++ body))

/-! ## Decoder primitives (decoder.go) -/

abbrev P (α : Type) := Bytes → Option (α × Bytes)

def getU8 : P Nat
  | a :: r => some (a.toNat, r)
  | _ => none

def getU16 : P Nat
  | a :: b :: r => some (a.toNat * 256 + b.toNat, r)
  | _ => none

def getU32 : P Nat
  | a :: b :: c :: d :: r => some (a.toNat * 16777216 + b.toNat * 65536 + c.toNat * 256 + d.toNat, r)
  | _ => none

def getU64 : P Nat
  | a :: b :: c :: d :: e :: f :: g :: h :: r =>
    some (a.toNat * 72057594037927936 + b.toNat * 281474976710656 + c.toNat * 1099511627776 +
          d.toNat * 4294967296 + e.toNat * 16777216 + f.toNat * 65536 + g.toNat * 256 + h.toNat, r)
  | _ => none

/-- `Decoder.Binary`/`String`: int16 size, negative (≥ 0x8000) is an error -/
def getStr : P Bytes := fun bs =>
  match getU16 bs with
  | none => none
  | some (n, r) =>
    if n > maxInt16 then none
    else if r.length < n then none
    else some (r.take n, r.drop n)

/-- `decodeMessageSeq` -/
def getSeq (v : Nat) : P Nat := if v ≤ legacyMessageSeqVersion then getU32 else getU64

/-! ## per-type body decoders (trailing bytes are ignored unless stated) -/

def decConnect (h : Flags) (b : Bytes) : Option Frame := do
  let (version, b) ← getU8 b
  let (deviceFlag, b) ← getU8 b
  let (deviceID, b) ← getStr b
  let (uid, b) ← getStr b
  let (token, b) ← getStr b
  let (clientTimestamp, b) ← getU64 b
  let (clientKey, _) ← getStr b
  pure (.connect h { version, deviceFlag, deviceID, uid, token, clientTimestamp, clientKey })

def decConnack (v : Nat) (h : Flags) (b : Bytes) : Option Frame := do
  let (serverVersion, b) ← if h.hsv then getU8 b else pure (0, b)
  let (timeDiff, b) ← getU64 b
  let (reasonCode, b) ← getU8 b
  let (serverKey, b) ← getStr b
  let (salt, b) ← getStr b
  let (nodeId, _) ← if v ≥ 4 then getU64 b else pure (0, b)
  pure (.connack h { serverVersion, timeDiff, reasonCode, serverKey, salt, nodeId })

def decSend (v : Nat) (h : Flags) (b : Bytes) : Option Frame := do
  let (setting, b) ← getU8 b
  let (clientSeq, b) ← getU32 b
  let (clientMsgNo, b) ← getStr b
  let (streamNo, b) ← if streamOn v setting then getStr b else pure ([], b)
  let (channelID, b) ← getStr b
  let (channelType, b) ← getU8 b
  let (expire, b) ← if v ≥ 3 then getU32 b else pure (0, b)
  let (msgKey, b) ← getStr b
  let (topic, b) ← if topicOn setting then getStr b else pure ([], b)
  pure (.send h { setting, clientSeq, clientMsgNo, streamNo, channelID, channelType, expire, msgKey, topic,
                  payload := b })

/-- `decodeSendackBodyCoreFirst` → (clientMsgNo, messageSeq, reasonCode) -/
def sendackCoreFirst (v : Nat) (b : Bytes) : Option (Bytes × Nat × Nat) := do
  let (seq, b) ← getSeq v b
  let (rc, b) ← getU8 b
  let (no, b) ← if b.length > 0 then getStr b else pure ([], b)
  if b.length ≠ 0 then none else pure (no, seq, rc)

/-- `decodeSendackBodyClientMsgNoFirst` -/
def sendackNoFirst (v : Nat) (b : Bytes) : Option (Bytes × Nat × Nat) := do
  let (no, b) ← getStr b
  let (seq, b) ← getSeq v b
  let (rc, b) ← getU8 b
  if b.length ≠ 0 then none else pure (no, seq, rc)

def sendackBody (v : Nat) (b : Bytes) : Option (Bytes × Nat × Nat) :=
  match sendackCoreFirst v b with
  | some r => some r
  | none => sendackNoFirst v b

def decSendack (v : Nat) (h : Flags) (b : Bytes) : Option Frame := do
  let (messageID, b) ← getU64 b
  let (clientSeq, b) ← getU32 b
  let (clientMsgNo, messageSeq, reasonCode) ← sendackBody v b
  pure (.sendack h { messageID, clientSeq, messageSeq, reasonCode, clientMsgNo })

def decRecv (v : Nat) (h : Flags) (b : Bytes) : Option Frame := do
  let (setting, b) ← getU8 b
  let (msgKey, b) ← getStr b
  let (fromUID, b) ← getStr b
  let (channelID, b) ← getStr b
  let (channelType, b) ← getU8 b
  let (expire, b) ← if v ≥ 3 then getU32 b else pure (0, b)
  let (clientMsgNo, b) ← getStr b
  let ((streamFlag, streamNo, streamId), b) ←
    if streamOn v setting then do
      let (sf, b) ← getU8 b
      let (sn, b) ← getStr b
      let (si, b) ← getU64 b
      pure ((sf, sn, si), b)
    else pure ((0, [], 0), b)
  let (messageID, b) ← getU64 b
  let (messageSeq, b) ← getSeq v b
  let (timestamp, b) ← getU32 b
  let (topic, b) ← if topicOn setting then getStr b else pure ([], b)
  pure (.recv h { setting, msgKey, fromUID, channelID, channelType, expire, clientMsgNo, streamFlag, streamNo,
                  streamId, messageID, messageSeq, timestamp, topic, payload := b })

def decRecvack (v : Nat) (h : Flags) (b : Bytes) : Option Frame := do
  let (messageID, b) ← getU64 b
  let (messageSeq, _) ← getSeq v b
  pure (.recvack h { messageID, messageSeq })

def decDisconnect (h : Flags) (b : Bytes) : Option Frame := do
  let (reasonCode, b) ← getU8 b
  let (reason, _) ← getStr b
  pure (.disconnect h { reasonCode, reason })

def decSub (h : Flags) (b : Bytes) : Option Frame := do
  let (setting, b) ← getU8 b
  let (subNo, b) ← getStr b
  let (channelID, b) ← getStr b
  let (channelType, b) ← getU8 b
  let (action, b) ← getU8 b
  let (param, _) ← getStr b
  pure (.sub h { setting, subNo, channelID, channelType, action, param })

def decSuback (h : Flags) (b : Bytes) : Option Frame := do
  let (subNo, b) ← getStr b
  let (channelID, b) ← getStr b
  let (channelType, b) ← getU8 b
  let (action, b) ← getU8 b
  let (reasonCode, _) ← getU8 b
  pure (.suback h { subNo, channelID, channelType, action, reasonCode })

def decEvent (h : Flags) (b : Bytes) : Option Frame := do
  let (id, b) ← getStr b
  let (type, b) ← getStr b
  let (timestamp, b) ← getU64 b
  pure (.event h { id, type, timestamp, data := b })

/-- `packetDecodeMap[frameType]`; the outer `none` = no decoder registered -/
def decodeBody (ft v : Nat) (h : Flags) (body : Bytes) : Option (Option Frame) :=
  match ft with
  | 1 => some (decConnect h body)
  | 2 => some (decConnack v h body)
  | 3 => some (decSend v h body)
  | 4 => some (decSendack v h body)
  | 5 => some (decRecv v h body)
  | 6 => some (decRecvack v h body)
  | 9 => some (decDisconnect h body)
  | 10 => some (decSub h body)
  | 11 => some (decSuback h body)
  | 12 => some (decEvent h body)
  | _ => none

inductive DecRes where
  | panic                       -- index out of range on empty input
  | need                        -- (nil, 0, nil): wait for more data
  | err                         -- (nil, 0, err)
  | ok (f : Frame) (n : Nat)    -- frame and bytes consumed
deriving DecidableEq, Repr

/-- the header part of `DecodeFrame` (`decodeFramer`): (type, flags, remainingLength,
    remainingLengthLength); `none` = errDecodeLength (⇒ Framer{} ⇒ UNKNOWN). -/
def decodeHeader (b0 : UInt8) (rest : Bytes) : Option (Nat × Flags × Nat × Nat) :=
  let ft := typeOfByte b0
  if ft ≠ 7 ∧ ft ≠ 8 then
    match decLen rest with
    | none => none
    | some (rl, rll) => some (ft, flagsOfByte b0, rl, rll)
  else some (ft, flagsOfByte b0, 0, 0)

/-- `WKProto.DecodeFrame` -/
def decodeFrame (v : Nat) (data : Bytes) : DecRes :=
  match data with
  | [] => .panic
  | b0 :: rest =>
    match decodeHeader b0 rest with
    | none => .need
    | some (ft, h, rl, rll) =>
      if ft = 0 then .need
      else if ft = 7 then .ok (.ping h) 1
      else if ft = 8 then .ok (.pong h) 1
      else if rl > maxRemainingLength then .err
      else if data.length < rl + 1 + rll then .need
      else
        let body := (data.drop (1 + rll)).take rl        -- data[1+rll : msgLen]
        match decodeBody ft v h body with
        | none => .err
        | some none => .err
        | some (some f) => .ok f (1 + rll + rl)

/-- remaining length of a decoded frame as stored in its Framer -/
def decodedRemainingLength (data : Bytes) : Nat :=
  match data with
  | [] => 0
  | b0 :: rest => match decodeHeader b0 rest with
    | none => 0
    | some (_, _, rl, _) => rl

end WK.C22

/-
  Shared message-level model of WuKongIM's channel replication (C01–C04).

  Mirrors, branch for branch,
    pkg/quorumlog/proposal.go            (manifest / entry identity derivation)
    pkg/channel/store/memory.go          (appendLeaderExactLocked, ReplaceRecoverySuffix,
                                          LoadExactRecoveryState, ReadExactRecoveryPage, LoadExactProposal)
    pkg/channel/replication/store_adapter.go (Sync / Replace / Fetch validation)
    pkg/channel/replication/quorum_round.go  (runDurableRound vote counting)
    pkg/channel/replication/recovery_owner.go (recoverQuorumPrefix, single identity page)
    pkg/channel/replication/recovery_repair.go (repairQuorumPrefix)
    pkg/channel/replication/recovery_barrier.go (writeCurrentTermBarrier)
    pkg/channel/replication/quorum_log.go    (Install / Commit / finishCommit / remember /
                                              reconcileCommandConflict)

  Abstractions (all stated in props/C0x.json):
    * SHA-256 is the free term algebra `Dig` (constructor injectivity = collision
      freedom; `Dig.mk … ≠ Dig.zero` = "no digest is all-zero").
    * a record is one `Nat` (`content`): every digest-bound record field is a
      function of (command, content) in the harness.
    * voters are 1..N for the whole history; one identity page (logs < 256 entries);
      timers, hedging, batching, contexts are erased: a durability round is the
      list of per-voter answers (`Ack`) in the order runDurableRound consumes them.
  Core Lean only (compiled into the drivers).
-/
namespace WK.Repl

/-! ## identities -/

structure AuthId where
  epoch : Nat
  term : Nat
  fence : Nat
deriving DecidableEq, Repr, Inhabited

def AuthId.zero : AuthId := ⟨0, 0, 0⟩

/-- `compareAuthorityID` (quorum_log.go): lexicographic (epoch, term, fence). -/
def cmpAuth (l r : AuthId) : Ordering :=
  if l.epoch < r.epoch then .lt else if l.epoch > r.epoch then .gt
  else if l.term < r.term then .lt else if l.term > r.term then .gt
  else if l.fence < r.fence then .lt else if l.fence > r.fence then .gt
  else .eq

/-- command identity: business commands are numbered by the client (0 = the zero
    CommandID), a recovery barrier's command is a function of its authority. -/
inductive Cmd where
  | biz (c : Nat)
  | bar (a : AuthId) (leader : Nat) (q : Nat)
deriving DecidableEq, Repr, Inhabited

def Cmd.isZero : Cmd → Bool
  | .biz 0 => true
  | _ => false

/-- symbolic SHA-256: the digest of an entry IS its preimage
    (authority, index, previous term/index, command, previous digest, record). -/
inductive Dig where
  | zero
  | mk (a : AuthId) (index prevTerm prevIndex : Nat) (cmd : Cmd) (prev : Dig) (content : Nat)
deriving DecidableEq, Repr, Inhabited

/-- `quorumlog.EntryIdentity` -/
structure Ident where
  a : AuthId
  index : Nat
  prevTerm : Nat
  prevIndex : Nat
  cmd : Cmd
  prevDigest : Dig
  digest : Dig
deriving DecidableEq, Repr, Inhabited

def Ident.zero : Ident := ⟨AuthId.zero, 0, 0, 0, .biz 0, .zero, .zero⟩

/-- `quorumlog.ProposalManifest` (Version is the constant 1) -/
structure Manifest where
  a : AuthId
  cmd : Cmd
  base : Nat
  last : Nat
  prevTerm : Nat
  prevIndex : Nat
  prevDigest : Dig
  digest : Dig
deriving DecidableEq, Repr, Inhabited

def Manifest.zero : Manifest := ⟨AuthId.zero, .biz 0, 0, 0, 0, 0, .zero, .zero⟩

/-- `ProposalManifest.StructurallyValid` -/
def Manifest.structurallyValid (m : Manifest) : Bool :=
  if m.a.epoch = 0 ∨ m.a.term = 0 ∨ m.a.fence = 0 ∨ m.cmd.isZero ∨ m.digest = .zero ∨
     m.last ≤ m.base ∨ m.prevIndex ≠ m.base then false
  else if m.base = 0 then m.prevTerm = 0 ∧ m.prevDigest = .zero
  else m.prevTerm ≠ 0 ∧ m.prevDigest ≠ .zero

/-- `ProposalManifest.ValidFor` -/
def Manifest.validFor (m : Manifest) (expectedBase count : Nat) : Bool :=
  m.structurallyValid && decide (count > 0) && decide (m.base = expectedBase) &&
    decide (m.last = expectedBase + count)

/-- the entry chain of one proposal (loop body of `DeriveProposalEntries`) -/
def deriveFrom (a : AuthId) (cmd : Cmd) : (index prevTerm prevIndex : Nat) → Dig → List Nat → List Ident
  | _, _, _, _, [] => []
  | idx, pt, pi, pd, c :: cs =>
    let d := Dig.mk a idx pt pi cmd pd c
    ⟨a, idx, pt, pi, cmd, pd, d⟩ :: deriveFrom a cmd (idx + 1) a.term idx d cs

/-- `DeriveProposalEntries` (record-level guards hold for every harness record) -/
def deriveEntries (m : Manifest) (cs : List Nat) : Option (List Ident) :=
  if cs.length = 0 ∨ m.a.epoch = 0 ∨ m.a.term = 0 ∨ m.a.fence = 0 ∨ m.cmd.isZero ∨
     m.last ≠ m.base + cs.length ∨ m.prevIndex ≠ m.base then none
  else if m.base = 0 then
    if m.prevTerm ≠ 0 ∨ m.prevDigest ≠ .zero then none
    else some (deriveFrom m.a m.cmd (m.base + 1) m.prevTerm m.prevIndex m.prevDigest cs)
  else if m.prevTerm = 0 ∨ m.prevDigest = .zero then none
  else some (deriveFrom m.a m.cmd (m.base + 1) m.prevTerm m.prevIndex m.prevDigest cs)

def lastIdent : List Ident → Ident
  | [] => Ident.zero
  | [e] => e
  | _ :: es => lastIdent es

/-- `SealProposalManifest` -/
def sealM (m : Manifest) (cs : List Nat) : Option (Manifest × List Ident) :=
  match deriveEntries { m with digest := .zero } cs with
  | none => none
  | some es => some ({ m with digest := (lastIdent es).digest }, es)

/-! ## one replica's durable store (MemoryChannelStore behind the StoreAdapter) -/

structure PRec where
  m : Manifest
  contents : List Nat
  entries : List Ident
deriving DecidableEq, Repr, Inhabited

/-- proposals newest first; `hw` is the persisted committed watermark.  `fresh` is a store-kind
    attribute that never changes: a MessageDB store fed with ServerAllocatedMessageIDs = true and
    records without idempotency key, where `prepareExactAppendRecordsLocked` treats an append at
    exactly the log end as `sequencedFresh` and skips the by-command / by-last / entry-set checks. -/
structure Store where
  props : List PRec
  hw : Nat
  fresh : Bool
deriving DecidableEq, Repr, Inhabited

def Store.empty : Store := ⟨[], 0, false⟩

def Store.leo (s : Store) : Nat :=
  match s.props with
  | [] => 0
  | p :: _ => p.m.last

def Store.byLast (s : Store) (l : Nat) : Option PRec := s.props.find? (fun p => p.m.last == l)
def Store.byCmd (s : Store) (c : Cmd) : Option PRec := s.props.find? (fun p => decide (p.m.cmd = c))

def findEntry (i : Nat) : List PRec → Option Ident
  | [] => none
  | p :: ps =>
    match p.entries.find? (fun e => e.index == i) with
    | some e => some e
    | none => findEntry i ps

def Store.entryAt (s : Store) (i : Nat) : Option Ident := findEntry i s.props

/-- `replication.ReplicaState` -/
structure RState where
  leo : Nat
  committed : Nat
  manifest : Manifest
  tail : Ident
deriving DecidableEq, Repr, Inhabited

def RState.zero : RState := ⟨0, 0, Manifest.zero, Ident.zero⟩

inductive Err where
  | invalid | notready | stale | fenced | conflict | backpressure | unavailable
  | recoveryUnavailable | probeIncomplete | linkDown | peerUnknown | toomany | other
  | norepair | repairFailed
deriving DecidableEq, Repr, Inhabited

def Err.str : Err → String
  | .invalid => "invalid" | .notready => "notready" | .stale => "stale" | .fenced => "fenced"
  | .conflict => "conflict" | .backpressure => "backpressure" | .unavailable => "unavailable"
  | .recoveryUnavailable => "recovery-unavailable" | .probeIncomplete => "probe-incomplete"
  | .linkDown => "link-down" | .peerUnknown => "peer-unknown" | .toomany => "toomany" | .other => "other"
  | .norepair => "norepair" | .repairFailed => "repair-failed"

/-- `loadExactStateLocked` + `validateExactState` -/
def Store.load (s : Store) : Except Err RState :=
  if s.hw > s.leo then .error .conflict
  else match s.props with
    | [] => .ok ⟨0, s.hw, Manifest.zero, Ident.zero⟩
    | p :: _ =>
      let tail := lastIdent p.entries
      if tail.index ≠ p.m.last ∨ tail.digest ≠ p.m.digest ∨ tail.a ≠ p.m.a ∨ tail.cmd ≠ p.m.cmd ∨
         !p.m.structurallyValid then .error .conflict
      else .ok ⟨p.m.last, s.hw, p.m, tail⟩

/-- one probed index of `LoadExactRecoveryState`: present iff index ≤ LEO -/
def Store.probe (s : Store) (i : Nat) : Except Err (Option Ident) :=
  if i ≤ s.leo then
    match s.entryAt i with
    | some e => .ok (some e)
    | none => .error .conflict
  else .ok none

def probeAll (s : Store) : List Nat → Except Err (List (Option Ident))
  | [] => .ok []
  | i :: is => do
    let e ← s.probe i
    let r ← probeAll s is
    pure (e :: r)

/-- the closed result of one exact append -/
inductive SOut where
  | durable | already | notWritten | conflict (needFrom : Nat)
deriving DecidableEq, Repr, Inhabited

def SOut.isDurable : SOut → Bool
  | .durable | .already => true
  | _ => false

/-- the predecessor guard of `appendLeaderExactLocked` -/
def Store.prevMismatch (s : Store) (m : Manifest) : Bool :=
  match s.byLast m.base with
  | none => true
  | some p => decide (p.m.a.term ≠ m.prevTerm ∨ p.m.digest ≠ m.prevDigest)

/-- the exact-replay branch of `appendLeaderExactLocked`: command and last offset both index the
    very same manifest, the log already covers it, and every entry identity is the persisted one -/
def Store.isExactReplay (s : Store) (m : Manifest) (es : List Ident) : Bool :=
  match s.byCmd m.cmd, s.byLast m.last with
  | some pc, some pl =>
    decide (pc.m = m) && decide (pl.m = m) && !decide (s.leo < m.last) &&
      es.all (fun e => s.entryAt e.index == some e)
  | _, _ => false

/-- what `appendLeaderExactLocked` decides before touching anything -/
inductive ADec where
  | notWritten | conflict (needFrom : Nat) | already | append (es : List Ident)
deriving DecidableEq, Repr, Inhabited

/-- the guards of `appendLeaderExactLocked`, in source order (ExpectedBaseOffset =
    manifest.BaseOffset at every caller) -/
def Store.appendDecision (s : Store) (m : Manifest) (cs : List Nat) : ADec :=
  if !m.validFor m.base cs.length then .notWritten else
  match deriveEntries m cs with
  | none => .notWritten
  | some es =>
    if (lastIdent es).digest ≠ m.digest then .conflict 0
    else if m.base > s.leo then .conflict (s.leo + 1)
    else if m.base > 0 ∧ s.prevMismatch m then .conflict 0
    else if s.fresh ∧ m.base = s.leo then .append es          -- sequencedFresh (pkg/db/message/compat.go)
    else if (s.byCmd m.cmd).isSome ∨ (s.byLast m.last).isSome then
      (if s.isExactReplay m es then .already else .conflict 0)
    else if es.any (fun e => (s.entryAt e.index).isSome) then .conflict 0
    else if s.leo < m.base ∨ (s.leo > m.base ∧ s.leo < m.base + cs.length) then .conflict 0
    else if s.leo ≥ m.base + cs.length then .conflict 0
    else .append es

/-- `appendLeaderExactLocked` -/
def Store.appendExact (s : Store) (m : Manifest) (cs : List Nat) : Store × SOut :=
  match s.appendDecision m cs with
  | .notWritten => (s, .notWritten)
  | .conflict nf => (s, .conflict nf)
  | .already => (s, .already)
  | .append es => ({ s with props := ⟨m, cs, es⟩ :: s.props }, .durable)

/-- `validMutation` (store_adapter.go) -/
def validMutation (m : Manifest) (cs : List Nat) (committed : Nat) : Bool :=
  m.validFor m.base cs.length && decide (committed ≤ m.last) &&
    (match sealM m cs with
     | some (_, es) => es.length == cs.length && decide ((lastIdent es).digest = m.digest)
     | none => false)

/-- `storeAdapter.Sync` of one mutation + `MemoryChannelStore.AppendLeader` (exact mode):
    a durable or already-durable append also raises the committed watermark. -/
def Store.sync (s : Store) (m : Manifest) (cs : List Nat) (committed : Nat) : Store × SOut :=
  if !validMutation m cs committed then (s, .notWritten) else
  let (s', out) := s.appendExact m cs
  if out.isDurable ∧ committed > s'.hw then ({ s' with hw := committed }, out) else (s', out)

/-- chain of bases required of a replacement / fetched page -/
def chainBases : Nat → List PRec → Bool
  | _, [] => true
  | base, p :: ps => decide (p.m.base = base) && validMutation p.m p.contents 0 && chainBases p.m.last ps

def lastBase : Nat → List PRec → Nat
  | base, [] => base
  | _, p :: ps => lastBase p.m.last ps

def appendAll (s : Store) : List PRec → Option Store
  | [] => some s
  | p :: ps =>
    match s.appendExact p.m p.contents with
    | (s', .durable) => appendAll s' ps
    | (s', .already) => appendAll s' ps
    | _ => none

/-- `storeAdapter.Replace` (validateRecoveryReplacement) + `ReplaceRecoverySuffix`.
    Error classes: invalid (adapter validation), conflict (store fence). -/
def Store.replace (s : Store) (expected : RState) (keep : Nat) (ps : List PRec) (committed : Nat) :
    Except Err Store :=
  if keep > expected.leo ∨ keep < expected.committed ∨ committed < expected.committed then .error .invalid
  else if !chainBases keep ps then .error .invalid
  else if committed > lastBase keep ps then .error .invalid
  else match s.load with
    | .error e => .error e
    | .ok current =>
      if current ≠ expected ∨ keep > current.leo ∨ keep < current.committed ∨ committed < current.committed then
        .error .conflict
      else if keep > 0 ∧ (s.byLast keep).isNone then .error .conflict
      else
        let kept : Store := ⟨s.props.filter (fun p => p.m.last ≤ keep), s.hw, s.fresh⟩
        match appendAll kept ps with
        | none => .error .conflict
        | some next => .ok { next with hw := committed }

/-- proposals of `ReadExactRecoveryPage` starting with `p` (fuel = number of proposals) -/
def pageFrom (s : Store) (through : Nat) : Nat → PRec → List PRec → Except Err (List PRec)
  | 0, _, _ => .error .conflict
  | fuel + 1, p, acc =>
    if p.m.last > through then
      if acc.isEmpty then .error .backpressure else .ok acc.reverse
    else
      let acc := p :: acc
      if p.m.last = through then .ok acc.reverse
      else match s.entryAt (p.m.last + 1) with
        | none => .error .conflict
        | some nx =>
          match s.byCmd nx.cmd with
          | none => .error .conflict
          | some np => if np.m.base ≠ p.m.last then .error .conflict else pageFrom s through fuel np acc

/-- `storeAdapter.Fetch` + `ReadExactRecoveryPage` + `recoveryProposalsFromPage` +
    `validRecoveryProposals`: the complete proposals in [from, through]. -/
def Store.fetch (s : Store) (expected : RState) (frm through : Nat) (previous : Ident) :
    Except Err (List PRec) :=
  if frm = 0 ∨ through < frm ∨ through > expected.leo then .error .invalid
  else if (frm = 1 ∧ previous ≠ Ident.zero) ∨ (frm > 1 ∧ previous.index ≠ frm - 1) then .error .invalid
  else match s.load with
    | .error e => .error e
    | .ok state =>
      if through > state.leo then .error .conflict
      else match s.entryAt frm with
        | none => .error .conflict
        | some first =>
          match s.byCmd first.cmd with
          | none => .error .conflict
          | some fp =>
            if fp.m.base + 1 ≠ frm then .error .conflict
            else match pageFrom s through (s.props.length + 1) fp [] with
              | .error e => .error e
              | .ok ps =>
                if state ≠ expected then .error .stale
                else if first.prevIndex ≠ previous.index ∨ first.prevTerm ≠ previous.a.term ∨
                        first.prevDigest ≠ previous.digest then .error .conflict
                else .ok ps

/-! ## durability round (runDurableRound) -/

/-- what one voter does with a request of the current op -/
inductive Ack where
  | D   -- applies and answers
  | L   -- applies, the answer is lost
  | X   -- unreachable
deriving DecidableEq, Repr, Inhabited

/-- completion classes consumed by the round -/
inductive Comp where
  | durable | notWritten | conflict | unknown
deriving DecidableEq, Repr, Inhabited

structure Proposal where
  m : Manifest
  contents : List Nat
  committed : Nat
deriving DecidableEq, Repr, Inhabited

/-- one voter's write: new store and the completion the round sees -/
def voteOn (s : Store) (ack : Ack) (isLocal : Bool) (p : Proposal) : Store × Comp :=
  match ack with
  | .X => (s, if isLocal then .notWritten else .unknown)
  | .L => ((s.sync p.m p.contents p.committed).1, .unknown)
  | .D =>
    let (s', out) := s.sync p.m p.contents p.committed
    (s', match out with
         | .durable | .already => .durable
         | .notWritten => .notWritten
         | .conflict nf => if !isLocal ∧ nf > 0 then .notWritten else .conflict)

structure RoundAcc where
  localDurable : Bool := false
  votes : Nat := 0
  unknown : Bool := false
  conflict : Bool := false
deriving DecidableEq, Repr, Inhabited

inductive Outcome where
  | durable | notWritten | conflict | unknown
deriving DecidableEq, Repr, Inhabited

/-- the result loop of runDurableRound over completions in consumption order
    (local first, then the rotated followers); returns as soon as the local vote
    and `q` durable votes are in. -/
def countVotes (q : Nat) : RoundAcc → List (Bool × Comp) → Bool × Outcome
  | acc, [] =>
    (false, if acc.unknown then .unknown else if acc.conflict then .conflict else .notWritten)
  | acc, (isLocal, c) :: rest =>
    let acc := match c with
      | .durable => { acc with votes := acc.votes + 1, localDurable := acc.localDurable || isLocal, unknown := true }
      | .unknown => { acc with unknown := true }
      | .conflict => { acc with conflict := true }
      | .notWritten => acc
    if acc.localDurable ∧ acc.votes ≥ q then (true, .durable) else countVotes q acc rest

/-! ## system state -/

structure Authority where
  id : AuthId
  q : Nat
  fenced : Bool
deriving DecidableEq, Repr, Inhabited

structure Receipt where
  a : AuthId
  cmd : Cmd
  first : Nat
  last : Nat
  hw : Nat
deriving DecidableEq, Repr, Inhabited

structure Retained where
  p : Proposal
  first : Nat
  last : Nat
  receipt : Option Receipt
deriving DecidableEq, Repr, Inhabited

/-- `quorumChannel` -/
structure QChan where
  auth : Authority
  frontier : RState
  hw : Nat
  ready : Bool
  pending : Option Retained
  retained : List (Cmd × Retained)   -- in `order` (oldest first)
deriving DecidableEq, Repr, Inhabited

structure NodeSt where
  up : Bool
  chan : Option QChan
  store : Store
deriving DecidableEq, Repr, Inhabited

structure Sys where
  n : Nat
  q : Nat
  cap : Nat
  started : Bool
  nodes : List NodeSt                 -- node i is nodes[i-1]
  owners : List (AuthId × Nat)        -- control-plane grant: authority id ↦ leader
deriving DecidableEq, Repr, Inhabited

def mkNodes (fresh : Bool) : Nat → List NodeSt
  | 0 => []
  | k + 1 => ⟨true, none, ⟨[], 0, fresh⟩⟩ :: mkNodes fresh k

def Sys.init (n q cap : Nat) (fresh : Bool := false) : Sys := ⟨n, q, cap, false, mkNodes fresh n, []⟩
def Sys.default : Sys := Sys.init 3 2 2

def Sys.node? (s : Sys) (i : Nat) : Option NodeSt := if i = 0 then none else s.nodes[i - 1]?

def setAt {α : Type} : List α → Nat → α → List α
  | [], _, _ => []
  | _ :: xs, 0, v => v :: xs
  | x :: xs, k + 1, v => x :: setAt xs k v

def Sys.setNode (s : Sys) (i : Nat) (nd : NodeSt) : Sys := { s with nodes := setAt s.nodes (i - 1) nd }

def Sys.storeOf (s : Sys) (i : Nat) : Store :=
  match s.node? i with
  | some nd => nd.store
  | none => Store.empty

def Sys.isUp (s : Sys) (i : Nat) : Bool :=
  match s.node? i with
  | some nd => nd.up
  | none => false

def Sys.setStore (s : Sys) (i : Nat) (st : Store) : Sys :=
  match s.node? i with
  | some nd => s.setNode i { nd with store := st }
  | none => s

/-- voters 1..n -/
def votersUpTo : Nat → List Nat
  | 0 => []
  | k + 1 => votersUpTo k ++ [k + 1]

/-- FNV-1a of the harness' fixed channel key "1:verif" reduced mod the follower
    count (`preferredFollowerIndex`). -/
def fnv1a (bs : List Nat) : Nat :=
  bs.foldl (fun h b => ((h ^^^ b) * 16777619) % 4294967296) 2166136261

def keyBytes : List Nat := [49, 58, 118, 101, 114, 105, 102]

def preferredFollowerIndex (followers : Nat) : Nat :=
  if followers ≤ 1 then 0 else fnv1a keyBytes % followers

/-- consumption order of a round: local, then followers rotated by the preferred index -/
def roundOrder (n localNode : Nat) : List Nat :=
  let followers := (votersUpTo n).filter (· ≠ localNode)
  let start := preferredFollowerIndex followers.length
  localNode :: (followers.drop start ++ followers.take start)

def ackOf (s : Sys) (acks : List Ack) (v : Nat) : Ack :=
  if s.isUp v then (acks[v - 1]?).getD .X else .X

/-- apply one proposal on every voter per its ack (every voter is always asked:
    before the quorum is reached as a foreground write, afterwards as a deferred one) -/
def applyVotes (s : Sys) (localNode : Nat) (acks : List Ack) (p : Proposal) :
    List Nat → Sys × List (Bool × Comp)
  | [] => (s, [])
  | v :: vs =>
    let (st, c) := voteOn (s.storeOf v) (ackOf s acks v) (v == localNode) p
    let s := s.setStore v st
    let (s', cs) := applyVotes s localNode acks p vs
    (s', (v == localNode, c) :: cs)

/-- `runDurableRound`: (system after all writes, round returned nil?, result.outcome) -/
def runRound (s : Sys) (localNode q : Nat) (acks : List Ack) (p : Proposal) : Sys × Bool × Outcome :=
  let (s', comps) := applyVotes s localNode acks p (roundOrder s.n localNode)
  let (ok, out) := countVotes q {} comps
  (s', ok, out)

/-! ## recovery (recoverQuorumPrefix, one identity page) -/

/-- what one voter does with the probe / fetch requests of the current install -/
inductive PSpec where
  | all        -- answers every request
  | none       -- unreachable
  | frontier   -- answers only the frontier round
  | probes     -- answers probes, not donor fetches
deriving DecidableEq, Repr, Inhabited

def pspecOf (s : Sys) (ps : List PSpec) (v : Nat) : PSpec :=
  if s.isUp v then (ps[v - 1]?).getD .none else .none

/-- `quorumFrontier`: the q-th highest value -/
def insertDesc (x : Nat) : List Nat → List Nat
  | [] => [x]
  | y :: ys => if x ≥ y then x :: y :: ys else y :: insertDesc x ys

def sortDesc : List Nat → List Nat
  | [] => []
  | x :: xs => insertDesc x (sortDesc xs)

def quorumFrontier (vals : List Nat) (q : Nat) : Nat := ((sortDesc vals)[q - 1]?).getD 0

structure Report where
  voter : Nat
  state : RState
  entries : List (Nat × Option Ident)   -- (index, identity if present)
deriving DecidableEq, Repr, Inhabited

def Report.at (r : Report) (pos : Nat) : Option Ident :=
  match r.entries[pos]? with
  | some (_, e) => e
  | none => none

def countIdent (id : Ident) (pos : Nat) (needCommitted : Option Nat) : List Report → Nat
  | [] => 0
  | r :: rs =>
    let ok := (match needCommitted with
               | some c => decide (r.state.committed ≥ c)
               | none => true) && (r.at pos == some id)
    (if ok then 1 else 0) + countIdent id pos needCommitted rs

/-- `quorumIdentityAt` / `quorumCommittedIdentityAt`: the first identity (in report
    order) carried by ≥ q of the eligible reports -/
def quorumIdentAux (all : List Report) (pos q : Nat) (needCommitted : Option Nat) : List Report → Option Ident
  | [] => none
  | r :: rs =>
    let eligible := match needCommitted with
      | some c => decide (r.state.committed ≥ c)
      | none => true
    match (if eligible then r.at pos else none) with
    | some id => if countIdent id pos needCommitted all ≥ q then some id else quorumIdentAux all pos q needCommitted rs
    | none => quorumIdentAux all pos q needCommitted rs

def quorumIdentityAt (reports : List Report) (pos q : Nat) : Option Ident :=
  quorumIdentAux reports pos q none reports

def quorumCommittedIdentityAt (reports : List Report) (pos index q : Nat) : Option Ident :=
  quorumIdentAux reports pos q (some index) reports

structure Supporter where
  voter : Nat
  state : RState
deriving DecidableEq, Repr, Inhabited

structure Selection where
  index : Nat := 0
  identity : Ident := Ident.zero
  certifiedCommitted : Nat := 0
  certifiedIdentity : Ident := Ident.zero
  supporters : List Supporter := []
deriving DecidableEq, Repr, Inhabited

def supportersFor (reports : List Report) (pos : Nat) (id : Ident) : List Supporter :=
  (reports.filter (fun r => r.at pos == some id)).map (fun r => ⟨r.voter, r.state⟩)

def ascending (first : Nat) : Nat → List Nat
  | 0 => []
  | k + 1 => first :: ascending (first + 1) k

/-- the identity-page scan of recoverQuorumPrefix from `pos` on -/
def scanPage (reports : List Report) (q : Nat) : Nat → List Nat → Selection → Except Err Selection
  | _, [], sel => .ok sel
  | pos, index :: rest, sel =>
    match quorumIdentityAt reports pos q with
    | none => .ok sel
    | some id =>
      if sel.index = 0 then
        if index ≠ 1 ∨ id.prevIndex ≠ 0 ∨ id.prevTerm ≠ 0 ∨ id.prevDigest ≠ .zero then .error .conflict
        else scanPage reports q (pos + 1) rest
          { sel with index := index, identity := id, supporters := supportersFor reports pos id }
      else if id.prevIndex ≠ sel.identity.index ∨ id.prevTerm ≠ sel.identity.a.term ∨
              id.prevDigest ≠ sel.identity.digest then .error .conflict
      else scanPage reports q (pos + 1) rest
        { sel with index := index, identity := id, supporters := supportersFor reports pos id }

/-- frontier reports of the voters that answer, in voter order -/
def frontierReports (s : Sys) (ps : List PSpec) : List Nat → List Report
  | [] => []
  | v :: vs =>
    match pspecOf s ps v with
    | .none => frontierReports s ps vs
    | _ =>
      match (s.storeOf v).load with
      | .ok st => ⟨v, st, []⟩ :: frontierReports s ps vs
      | .error _ => frontierReports s ps vs

/-- page reports of the still-stable voters -/
def pageReports (s : Sys) (ps : List PSpec) (indexes : List Nat) : List Report → List Report
  | [] => []
  | r :: rs =>
    match pspecOf s ps r.voter with
    | .none | .frontier => pageReports s ps indexes rs
    | _ =>
      match (s.storeOf r.voter).load, probeAll (s.storeOf r.voter) indexes with
      | .ok st, .ok es =>
        if st = r.state then ⟨r.voter, st, indexes.zip es⟩ :: pageReports s ps indexes rs
        else pageReports s ps indexes rs
      | _, _ => pageReports s ps indexes rs

/-- `recoverQuorumPrefix` (Continuation = nil, one page) -/
def recoverPrefix (s : Sys) (q : Nat) (ps : List PSpec) : Except Err Selection :=
  let fr := frontierReports s ps (votersUpTo s.n)
  if fr.length < q then .error .recoveryUnavailable else
  let cc := quorumFrontier (fr.map (·.state.committed)) q
  let qleo := quorumFrontier (fr.map (·.state.leo)) q
  if cc > qleo then .error .conflict else
  if qleo = 0 then .ok { certifiedCommitted := cc } else
  let first := if cc = 0 then 1 else cc
  let indexes := ascending first (qleo - first + 1)
  let stable := pageReports s ps indexes fr
  if stable.length < q then .error .probeIncomplete else
  if quorumFrontier (stable.map (·.state.committed)) q ≠ cc ∨
     quorumFrontier (stable.map (·.state.leo)) q ≠ qleo then .error .probeIncomplete else
  if cc > 0 then
    match quorumCommittedIdentityAt stable 0 cc q with
    | none => .error .conflict
    | some id =>
      scanPage stable q 1 (indexes.drop 1)
        { index := cc, identity := id, certifiedCommitted := cc, certifiedIdentity := id,
          supporters := supportersFor stable 0 id }
  else scanPage stable q 0 indexes { certifiedCommitted := cc }

/-! ## repair (repairQuorumPrefix) -/

/-- `fetchRecoveryPage`: first supporter whose donor read succeeds; otherwise the last error -/
def fetchFromSupporters (s : Sys) (ps : List PSpec) (localNode frm through : Nat) (previous : Ident) :
    List Supporter → Option Err → Except Err (List PRec)
  | [], lastErr => .error (lastErr.getD .recoveryUnavailable)
  | sup :: rest, _ =>
    match pspecOf s ps sup.voter with
    | .all =>
      match (s.storeOf sup.voter).fetch sup.state frm through previous with
      | .ok props => .ok props
      | .error e =>
        -- a remote donor's store error reaches the owner as errInvalidExchangeResult
        fetchFromSupporters s ps localNode frm through previous rest
          (some (if sup.voter = localNode then e else .peerUnknown))
    | _ => fetchFromSupporters s ps localNode frm through previous rest (some .linkDown)

def identAtIn (i : Nat) : List PRec → Option Ident
  | [] => none
  | p :: ps => if i ≤ p.m.base ∨ i > p.m.last then identAtIn i ps else p.entries.find? (fun e => e.index == i)

def lastOf : List PRec → Option PRec
  | [] => none
  | [p] => some p
  | _ :: ps => lastOf ps

/-- page loop of repairQuorumPrefix (fuel bounds the number of pages) -/
def repairPages (s : Sys) (ps : List PSpec) (localNode : Nat) (sel : Selection) (keepThrough : Nat) :
    Nat → (frm : Nat) → (previous : Ident) → (current : RState) → (firstPage : Bool) →
    Sys × Except Err (Nat × RState)
  | 0, _, _, _, _ => (s, .error .other)
  | fuel + 1, frm, previous, current, firstPage =>
    if frm > sel.index then (s, .ok (frm, current)) else
    match fetchFromSupporters s ps localNode frm sel.index previous sel.supporters none with
    | .error e => (s, .error e)
    | .ok props =>
      match lastOf props with
      | none => (s, .error .conflict)
      | some lp =>
        let last := lp.m.last
        let tail := lastIdent lp.entries
        if previous.index < sel.certifiedCommitted ∧ last ≥ sel.certifiedCommitted ∧
           identAtIn sel.certifiedCommitted props ≠ some sel.certifiedIdentity then (s, .error .conflict) else
        let pageKeep := if firstPage then keepThrough else current.leo
        match (s.storeOf localNode).replace current pageKeep props last with
        | .error e => (s, .error e)
        | .ok st =>
          let s := s.setStore localNode st
          match st.load with
          | .error e => (s, .error e)
          | .ok loaded =>
            let want : RState := ⟨last, last, lp.m, tail⟩
            if loaded ≠ want then (s, .error .conflict)
            else repairPages s ps localNode sel keepThrough fuel (last + 1) tail loaded false

/-- `repairQuorumPrefix` -/
def repairPrefix (s : Sys) (ps : List PSpec) (localNode : Nat) (sel : Selection) : Sys × Except Err RState :=
  match (s.storeOf localNode).load with
  | .error e => (s, .error e)
  | .ok loc =>
    if loc.committed > sel.index then (s, .error .conflict) else
    let keepThrough := loc.committed
    let prevE : Except Err Ident :=
      if keepThrough > 0 then
        match (s.storeOf localNode).probe keepThrough with
        | .ok (some id) =>
          if keepThrough = sel.certifiedCommitted ∧ id ≠ sel.certifiedIdentity then .error .conflict
          else if keepThrough = sel.index ∧ id ≠ sel.identity then .error .conflict
          else .ok id
        | .ok none => .error .stale
        | .error e => .error e
      else .ok Ident.zero
    match prevE with
    | .error e => (s, .error e)
    | .ok previous =>
      if loc.leo = sel.index ∧ loc.tail = sel.identity ∧ loc.committed = sel.index then (s, .ok loc) else
      match repairPages s ps localNode sel keepThrough (sel.index + 2) (keepThrough + 1) previous loc true with
      | (s, .error e) => (s, .error e)
      | (s, .ok (frm, current)) =>
        let step : Sys × Except Err RState :=
          if frm = 1 ∧ sel.index = 0 then
            match (s.storeOf localNode).replace current 0 [] 0 with
            | .error e => (s, .error e)
            | .ok st => (s.setStore localNode st, .ok RState.zero)
          else (s, .ok current)
        match step with
        | (s, .error e) => (s, .error e)
        | (s, .ok cur) =>
          if cur.leo ≠ sel.index ∨ cur.committed ≠ sel.index ∨ cur.tail ≠ sel.identity then (s, .error .conflict)
          else (s, .ok cur)

/-! ## the owner (quorum_log.go) -/

def frontierUsesAuthority (f : RState) (a : AuthId) : Bool := decide (f.leo > 0) && decide (f.manifest.a = a)

/-- `validAuthority` + Install's own guards (voters are 1..n, leader = the local node) -/
def validAuthority (n : Nat) (a : Authority) : Bool :=
  !(a.id.epoch = 0 ∨ a.id.term = 0 ∨ a.id.fence = 0 ∨ n = 0 ∨ a.q = 0 ∨ a.q > n ∨ a.q * 2 ≤ n)

def fenceChan (a : Authority) : QChan := ⟨a, RState.zero, 0, false, none, []⟩

/-- `writeCurrentTermBarrier` -/
def writeBarrier (s : Sys) (localNode : Nat) (a : Authority) (recovered : RState) (acks : List Ack) :
    Sys × Except Err RState :=
  if recovered.committed ≠ recovered.leo then (s, .error .invalid) else
  if recovered.leo > 0 ∧ (a.id.epoch < recovered.tail.a.epoch ∨
      (a.id.epoch = recovered.tail.a.epoch ∧ a.id.term ≤ recovered.tail.a.term)) then (s, .error .stale) else
  let m0 : Manifest := ⟨a.id, .bar a.id localNode a.q, recovered.leo, recovered.leo + 1,
    recovered.tail.a.term, recovered.leo, recovered.tail.digest, .zero⟩
  match sealM m0 [0] with
  | none => (s, .error .invalid)
  | some (m, es) =>
    let (s', ok, _) := runRound s localNode a.q acks ⟨m, [0], recovered.leo⟩
    if !ok then (s', .error .unavailable)
    else (s', .ok ⟨m.last, recovered.leo, m, lastIdent es⟩)

inductive Res where
  | installed (a : AuthId) (leo hw : Nat)
  | receipt (r : Receipt)
  | err (e : Err)
  | batch (outs : List SOut)
  | ok
  | notup
  | already
  | bad
deriving DecidableEq, Repr, Inhabited

/-- the authority comparison at the top of `Install`: reject, answer from the ready
    state, keep the (not ready) state of an equal authority, or fence to the new one -/
def installDecision (chan : Option QChan) (a : Authority) : Except Res QChan :=
  match chan with
  | some ch =>
    if ch.auth.id ≠ AuthId.zero then
      match cmpAuth a.id ch.auth.id with
      | .lt => .error (.err .stale)
      | .eq =>
        if a ≠ ch.auth then .error (.err .conflict)
        else if a.fenced then .error (.err .fenced)
        else if ch.ready then .error (.installed ch.auth.id ch.frontier.leo ch.hw)
        else .ok ch
      | .gt => .ok (fenceChan a)
    else .ok (fenceChan a)
  | none => .ok (fenceChan a)

/-- the tail of `Install`: publish the recovered (and barrier-extended) frontier -/
def installFinish (i : Nat) (ch : QChan) (a : Authority) : Sys × Except Err RState → Sys × Res
  | (s, .error e) => (s, .err e)
  | (s, .ok frontier) =>
    match s.node? i with
    | none => (s, .bad)
    | some nd' =>
      let ch' : QChan := { ch with frontier := frontier, hw := frontier.leo, ready := true,
                                   pending := none, retained := [] }
      (s.setNode i { nd' with chan := some ch' }, .installed a.id frontier.leo frontier.leo)

/-- recovery, repair and barrier of `Install` (the owner is already fenced to `ch`) -/
def installRecover (s : Sys) (i : Nat) (ch : QChan) (a : Authority) (ps : List PSpec) (acks : List Ack) : Sys × Res :=
  if a.fenced then (s, .err .fenced) else
  match recoverPrefix s a.q ps with
  | .error e => (s, .err e)
  | .ok sel =>
    match repairPrefix s ps i sel with
    | (s, .error e) => (s, .err e)
    | (s, .ok recovered) =>
      installFinish i ch a
        (if recovered ≠ RState.zero ∧ !frontierUsesAuthority recovered a.id then writeBarrier s i a recovered acks
         else (s, .ok recovered))

/-- `quorumLog.Install` on node `i` -/
def install (s : Sys) (i : Nat) (a : Authority) (ps : List PSpec) (acks : List Ack) : Sys × Res :=
  match s.node? i with
  | none => (s, .bad)
  | some nd =>
    if !validAuthority s.n a then (s, .err .invalid) else
    match installDecision nd.chan a with
    | .error r => (s, r)
    | .ok ch => installRecover (s.setNode i { nd with chan := some ch }) i ch a ps acks

/-- `remember`: bounded FIFO of retained commands -/
def remember (cap : Nat) (retained : List (Cmd × Retained)) (r : Retained) : List (Cmd × Retained) :=
  let cmd := r.p.m.cmd
  if retained.any (fun x => decide (x.1 = cmd)) then
    retained.map (fun x => if x.1 = cmd then (cmd, r) else x)
  else if retained.length = cap then retained.drop 1 ++ [(cmd, r)]
  else retained ++ [(cmd, r)]

/-- `finishCommit` (the round already proved local + quorum durability) -/
def finishCommit (cap : Nat) (ch : QChan) (r : Retained) : QChan × Res :=
  match sealM r.p.m r.p.contents with
  | none => (ch, .err .conflict)
  | some (_, es) =>
    if es.isEmpty then (ch, .err .conflict) else
    let receipt : Receipt := ⟨ch.auth.id, r.p.m.cmd, r.first, r.last, r.last⟩
    let r' := { r with receipt := some receipt }
    ({ ch with frontier := ⟨r.last, r.p.committed, r.p.m, lastIdent es⟩, hw := r.last, pending := none,
               retained := remember cap ch.retained r' }, .receipt receipt)

/-- `sealBusinessProposal` -/
def sealBusiness (ch : QChan) (cmd : Cmd) (cs : List Nat) : Option Retained :=
  let f := ch.frontier
  match sealM ⟨ch.auth.id, cmd, f.leo, f.leo + cs.length, f.tail.a.term, f.leo, f.tail.digest, .zero⟩ cs with
  | none => none
  | some (m, es) =>
    if es.length ≠ cs.length then none
    else some ⟨⟨m, cs, ch.hw⟩, f.leo + 1, m.last, none⟩

/-- `reconcileCommandConflict` + `loadRetainedProposal` (durable command index of the local store) -/
def reconcile (cap : Nat) (ch : QChan) (st : Store) (cmd : Cmd) (cs : List Nat) : QChan × Res :=
  match st.byCmd cmd with
  | none => (ch, .err .conflict)
  | some p =>
    let m := p.m
    if !m.structurallyValid ∨ m.cmd ≠ cmd ∨ m.last > ch.hw ∨ m.a ≠ ch.auth.id then (ch, .err .conflict) else
    match sealM m p.contents with
    | none => (ch, .err .conflict)
    | some (sealed, es) =>
      if sealed ≠ m ∨ es.isEmpty then (ch, .err .conflict) else
      if p.contents ≠ cs then (ch, .err .conflict) else
      let receipt : Receipt := ⟨ch.auth.id, cmd, m.base + 1, m.last, m.last⟩
      let r : Retained := ⟨⟨m, p.contents, m.base⟩, m.base + 1, m.last, some receipt⟩
      ({ ch with retained := remember cap ch.retained r }, .receipt receipt)

/-- `retryPending` + `finishCommit`: run the round again for an already sealed proposal -/
def commitRetry (s : Sys) (i : Nat) (ch : QChan) (r : Retained) (acks : List Ack) : Sys × Res :=
  let (s', ok, _) := runRound s i ch.auth.q acks r.p
  if !ok then (s', .err .unavailable) else
  let (ch', res) := finishCommit s.cap ch r
  match s'.node? i with
  | none => (s', .bad)
  | some nd' => (s'.setNode i { nd' with chan := some ch' }, res)

/-- the new-command path of `Commit`: seal, remember as pending, run the round, then
    finish, reconcile a definite conflict through the durable command index, or
    keep the proposal pending -/
def commitFresh (s : Sys) (i : Nat) (nd : NodeSt) (ch : QChan) (cmd : Cmd) (cs : List Nat) (acks : List Ack) : Sys × Res :=
  match sealBusiness ch cmd cs with
  | none => (s, .err .invalid)
  | some r =>
    let chP := { ch with pending := some r }
    let s := s.setNode i { nd with chan := some chP }
    let (s', ok, out) := runRound s i ch.auth.q acks r.p
    match s'.node? i with
    | none => (s', .bad)
    | some nd' =>
      if !ok then
        if out = .conflict then
          let (ch', res) := reconcile s.cap { chP with pending := none } nd'.store cmd cs
          (s'.setNode i { nd' with chan := some ch' }, res)
        else (s', .err .unavailable)
      else
        let (ch', res) := finishCommit s.cap chP r
        (s'.setNode i { nd' with chan := some ch' }, res)

/-- `Commit` once the admission guards passed (ready, expected authority, not fenced) -/
def commitAdmitted (s : Sys) (i : Nat) (nd : NodeSt) (ch : QChan) (cmd : Cmd) (cs : List Nat) (acks : List Ack) : Sys × Res :=
  match ch.retained.find? (fun x => decide (x.1 = cmd)) with
  | some (_, r) =>
    if r.p.contents ≠ cs then (s, .err .conflict) else
    match r.receipt with
    | some rc => (s, .receipt rc)
    | none => commitRetry s i ch r acks
  | none =>
    match ch.pending with
    | some r =>
      if r.p.m.cmd = cmd then
        if r.p.contents ≠ cs then (s, .err .conflict) else commitRetry s i ch r acks
      else (s, .err .backpressure)
    | none => commitFresh s i nd ch cmd cs acks

/-- `quorumLog.Commit` on node `i`: command `c`, record contents `cs` -/
def commit (s : Sys) (i : Nat) (expected : AuthId) (c : Nat) (cs : List Nat) (acks : List Ack) : Sys × Res :=
  match s.node? i with
  | none => (s, .bad)
  | some nd =>
    if expected = AuthId.zero ∨ c = 0 ∨ cs.length = 0 ∨ cs.length > 256 then (s, .err .invalid) else
    match nd.chan with
    | none => (s, .err .notready)
    | some ch =>
      if !ch.ready then (s, .err .notready) else
      if expected ≠ ch.auth.id then (s, .err .stale) else
      if ch.auth.fenced then (s, .err .fenced) else
      commitAdmitted s i nd ch (Cmd.biz c) cs acks

/-! ## follower gap repair (runtimeRepairOwner.repair / repairFromFrontier) -/

/-- replicate the leader's proposals one by one; stop at the first answer that is not durable.
    `committed` is the LEADER's committed watermark: each proposal carries
    min(leader committed, proposal last) -/
def repairProps (s : Sys) (f committed : Nat) : List PRec → Sys × Bool
  | [] => (s, true)
  | p :: ps =>
    if !s.isUp f then (s, false) else
    let (st, out) := (s.storeOf f).sync p.m p.contents (min committed p.m.last)
    let s := s.setStore f st
    if out.isDurable then repairProps s f committed ps else (s, false)

/-- one follower Sync BATCH (several replicate items of one channel in one exchange): every item is
    applied in order, none stops the others; the result is the per-item outcome list -/
def batchProps (s : Sys) (f committed : Nat) : List PRec → Sys × List SOut
  | [] => (s, [])
  | p :: ps =>
    let (st, out) := (s.storeOf f).sync p.m p.contents (min committed p.m.last)
    let (s', outs) := batchProps (s.setStore f st) f committed ps
    (s', out :: outs)

/-- `repair l f (1000+nf)`: the leader's proposals [nf, LEO] followed by an exact REPLAY of the
    proposal ending at nf-1, sent to the follower as ONE batch (≤ 4 items) -/
def batchFollower (s : Sys) (l f nf : Nat) : Sys × Res :=
  if l = f then (s, .err .norepair) else
  match (s.storeOf l).load with
  | .error _ => (s, .err .norepair)
  | .ok state =>
    let asc := (s.storeOf l).props.reverse
    let tail := asc.filter (fun p => p.m.last ≥ nf)
    let replay := (asc.filter (fun p => p.m.last + 1 == nf)).take 1
    let items := tail ++ replay
    if nf = 0 ∨ !(tail.head?.any (fun p => p.m.base + 1 == nf)) ∨ items.length > 4 ∨ !s.isUp f then (s, .err .norepair)
    else
      let (s', outs) := batchProps s f state.committed items
      (s', .batch outs)

/-- `repair(l → f, needFrom)`: load the leader frontier (with the identity before needFrom),
    fetch the leader's proposals [needFrom, LEO] and replicate them to the follower -/
def repairFollower (s : Sys) (l f nf : Nat) : Sys × Res :=
  if nf ≥ 1000 then batchFollower s l f (nf - 1000) else
  if l = f then (s, .err .norepair) else
  match (s.storeOf l).load with
  | .error _ => (s, .err .norepair)
  | .ok state =>
    if nf = 0 ∨ state.manifest.last < nf ∨ state.leo < nf ∨ state.manifest.a.epoch = 0 ∨
       state.manifest.a.term = 0 ∨ state.manifest.a.fence = 0 then (s, .err .norepair) else
    let prevE : Option Ident :=
      if nf > 1 then
        match (s.storeOf l).probe (nf - 1) with
        | .ok (some id) => some id
        | _ => none
      else some Ident.zero
    match prevE with
    | none => (s, .err .repairFailed)
    | some previous =>
      match (s.storeOf l).fetch state nf state.manifest.last previous with
      | .error _ => (s, .err .repairFailed)
      | .ok props =>
        match repairProps s f state.committed props with
        | (s', true) => (s', .ok)
        | (s', false) => (s', .err .repairFailed)

/-! ## operations -/

inductive Op where
  | cfg (n q cap : Nat) (fresh : Bool)
  | install (node : Nat) (a : Authority) (probes : List PSpec) (acks : List Ack)
  | commit (node : Nat) (expected : AuthId) (c : Nat) (k p : Nat) (acks : List Ack)
  | crash (node : Nat)
  | restart (node : Nat)
  | repair (leader follower needFrom : Nat)
deriving Repr, Inhabited

/-- record `j` of command variant `p` has abstract content `p*8+j` -/
def contentsOf (k p : Nat) : List Nat := (List.range k).map (fun j => p * 8 + j)

def ownerOf (owners : List (AuthId × Nat)) (a : AuthId) : Option Nat :=
  match owners.find? (fun x => decide (x.1 = a)) with
  | some (_, n) => some n
  | none => none

def step (s : Sys) : Op → Sys × Res
  | .cfg n q cap fresh =>
    if s.started ∨ n < 1 ∨ n > 5 ∨ q < 1 ∨ q > n ∨ cap < 1 ∨ cap > 8 then (s, .bad)
    else ({ Sys.init n q cap fresh with started := true }, .ok)
  | .crash i =>
    let s := { s with started := true }
    match s.node? i with
    | none => (s, .bad)
    | some nd => if !nd.up then (s, .notup) else (s.setNode i { nd with up := false, chan := none }, .ok)
  | .restart i =>
    let s := { s with started := true }
    match s.node? i with
    | none => (s, .bad)
    | some nd => if nd.up then (s, .already) else (s.setNode i { nd with up := true, chan := none }, .ok)
  | .repair l f nf =>
    let s := { s with started := true }
    match s.node? l, s.node? f with
    | some nd, some _ => if !nd.up then (s, .notup) else repairFollower s l f nf
    | _, _ => (s, .bad)
  | .install i a ps acks =>
    let s := { s with started := true }
    match s.node? i with
    | none => (s, .bad)
    | some nd =>
      if ps.length ≠ s.n ∨ acks.length ≠ s.n then (s, .bad) else
      match ownerOf s.owners a.id with
      | some o => if o ≠ i then (s, .bad) else
        if !nd.up then (s, .notup) else install s i a ps acks
      | none =>
        if !nd.up then (s, .notup) else
        install { s with owners := (a.id, i) :: s.owners } i a ps acks
  | .commit i e c k p acks =>
    let s := { s with started := true }
    match s.node? i with
    | none => (s, .bad)
    | some nd =>
      if acks.length ≠ s.n ∨ k > 3 ∨ p > 7 then (s, .bad) else
      if !nd.up then (s, .notup) else commit s i e c (contentsOf k p) acks

def run (s : Sys) (ops : List Op) : Sys := ops.foldl (fun s o => (step s o).1) s

end WK.Repl

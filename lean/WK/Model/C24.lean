import WK.Prelude.Hex
/-
  C24 — model of pkg/protocol/jsonrpc (codec.go: determineMessageType, Decode's
  dispatch, ToFrame, FromFrame; types.go: the field mappings) at the level of
  TYPED messages.  The JSON text layer (encoding/json) is abstract: its effect on
  a typed message of a supported shape is `reDecode` below (member presence under
  `omitempty`, UTF-8 sanitisation of strings, responses come back generic).
  Core only, executable.
-/
namespace WK.C24
open WK

abbrev Str := Bytes

/-- the five header flags the bridge knows (Framer.NoPersist/RedDot/SyncOnce/DUP/End ↔ Header) -/
structure Flags where
  noPersist : Bool := false
  redDot : Bool := false
  syncOnce : Bool := false
  dup : Bool := false
  end_ : Bool := false
  deriving DecidableEq, Repr

def Flags.none : Flags := {}

/-- frame.LatestVersion -/
def latestVersion : Nat := 6

/-! ## frames -/

structure ConnectPacket where
  fl : Flags
  version : Nat
  clientKey : Str
  deviceID : Str
  deviceFlag : Nat
  clientTimestamp : Int
  uid : Str
  token : Str
  deriving DecidableEq, Repr

structure SendPacket where
  fl : Flags
  setting : Nat
  msgKey : Str
  expire : Nat
  clientSeq : Nat
  clientMsgNo : Str
  streamNo : Str
  channelID : Str
  channelType : Nat
  topic : Str
  payload : Bytes
  deriving DecidableEq, Repr

structure RecvackPacket where
  fl : Flags
  messageID : Int
  messageSeq : Nat
  deriving DecidableEq, Repr

structure DisconnectPacket where
  fl : Flags
  reasonCode : Nat
  reason : Str
  deriving DecidableEq, Repr

structure ConnackPacket where
  fl : Flags
  hasServerVersion : Bool
  serverVersion : Nat
  serverKey : Str
  salt : Str
  timeDiff : Int
  reasonCode : Nat
  nodeId : Nat
  deriving DecidableEq, Repr

structure SendackPacket where
  fl : Flags
  messageID : Int
  messageSeq : Nat
  clientSeq : Nat
  clientMsgNo : Str
  reasonCode : Nat
  deriving DecidableEq, Repr

structure RecvPacket where
  fl : Flags
  setting : Nat
  msgKey : Str
  expire : Nat
  messageID : Int
  messageSeq : Nat
  clientMsgNo : Str
  streamNo : Str
  streamId : Nat
  streamFlag : Nat
  timestamp : Int
  channelID : Str
  channelType : Nat
  topic : Str
  fromUID : Str
  payload : Bytes
  clientSeq : Nat
  deriving DecidableEq, Repr

structure EventPacket where
  fl : Flags
  id : Str
  type : Str
  timestamp : Int
  data : Bytes
  deriving DecidableEq, Repr

inductive Frame where
  | connect (p : ConnectPacket)
  | send (p : SendPacket)
  | recvack (p : RecvackPacket)
  | disconnect (p : DisconnectPacket)
  | ping (fl : Flags)
  | pong (fl : Flags)
  | connack (p : ConnackPacket)
  | sendack (p : SendackPacket)
  | recv (p : RecvPacket)
  | event (p : EventPacket)
  deriving DecidableEq, Repr

/-! ## typed messages (types.go) -/

structure SettingFlags where
  receipt : Bool := false
  signal : Bool := false
  stream : Bool := false
  topic : Bool := false
  deriving DecidableEq, Repr

structure ConnectParams where
  header : Flags
  version : Int
  clientKey : Str
  deviceID : Str
  deviceFlag : Int
  clientTimestamp : Int
  uid : Str
  token : Str
  deriving DecidableEq, Repr

structure SendParams where
  header : Flags
  setting : SettingFlags
  msgKey : Str
  expire : Nat
  clientMsgNo : Str
  streamNo : Str
  channelID : Str
  channelType : Int
  topic : Str
  payload : Bytes
  deriving DecidableEq, Repr

structure RecvAckParams where
  header : Flags
  messageID : Str
  messageSeq : Nat
  deriving DecidableEq, Repr

structure DisconnectParams where
  reasonCode : Int
  reason : Str
  deriving DecidableEq, Repr

structure ConnectResult where
  header : Option Flags
  serverVersion : Int
  serverKey : Str
  salt : Str
  timeDiff : Int
  reasonCode : Int
  nodeID : Nat
  deriving DecidableEq, Repr

structure SendResult where
  header : Option Flags
  messageID : Str
  messageSeq : Nat
  reasonCode : Int
  deriving DecidableEq, Repr

structure RecvParams where
  header : Option Flags
  setting : Option SettingFlags
  msgKey : Str
  expire : Nat
  messageID : Str
  messageSeq : Nat
  clientMsgNo : Str
  streamNo : Str
  streamID : Str
  streamFlag : Int
  timestamp : Int
  channelID : Str
  channelType : Int
  topic : Str
  fromUID : Str
  payload : Bytes
  deriving DecidableEq, Repr

structure EventParams where
  header : Option Flags
  id : Str
  type : Str
  timestamp : Int
  data : Str
  deriving DecidableEq, Repr

inductive Msg where
  | connectReq (id : Str) (p : ConnectParams)
  | sendReq (id : Str) (p : SendParams)
  | pingReq (id : Str)
  | disconnectReq (id : Str) (p : DisconnectParams)
  | subscribeReq (id : Str)
  | unsubscribeReq (id : Str)
  | recvAckNotif (p : RecvAckParams)
  | connectResp (id : Str) (r : ConnectResult)
  | sendResp (id : Str) (r : SendResult)
  | pongResp (id : Str)
  | recvNotif (p : RecvParams)
  | eventNotif (p : EventParams)
  | disconnectNotif (p : DisconnectParams)
  deriving DecidableEq, Repr

inductive Err where
  | version | responsefmt | requestfmt | unknownmethod | missingparams | field | structure
  | jsontype | unknownnotif | undetermined | unknownpacket | unknownframe
  deriving DecidableEq, Repr

def Err.str : Err → String
  | .version => "version" | .responsefmt => "responsefmt" | .requestfmt => "requestfmt"
  | .unknownmethod => "unknownmethod" | .missingparams => "missingparams" | .field => "field"
  | .structure => "structure" | .jsontype => "jsontype" | .unknownnotif => "unknownnotif"
  | .undetermined => "undetermined" | .unknownpacket => "unknownpacket" | .unknownframe => "unknownframe"

/-! ## decimal strings -/

def decDigit (n : Nat) : UInt8 := UInt8.ofNat (48 + n)

/-- strconv.FormatUint(n, 10) -/
def decBytes (n : Nat) : Bytes :=
  if n < 10 then [decDigit n] else decBytes (n / 10) ++ [decDigit (n % 10)]
termination_by n
decreasing_by omega

/-- strconv.FormatInt(i, 10) -/
def fmtInt (i : Int) : Str := if i < 0 then 45 :: decBytes i.natAbs else decBytes i.natAbs

def isDigit (b : UInt8) : Bool := 48 ≤ b.toNat && b.toNat ≤ 57

def decVal (bs : Bytes) : Nat := bs.foldl (fun a b => a * 10 + (b.toNat - 48)) 0

/-- the digits of ParseInt after the optional sign: 0 on a syntax error, CLAMPED on a range error -/
def parseMag (neg : Bool) (digits : Str) : Int :=
  if digits.isEmpty || !digits.all isDigit then 0
  else if neg then (if decVal digits > 2 ^ 63 then -(2 ^ 63 : Int) else -(decVal digits : Int))
  else (if decVal digits ≥ 2 ^ 63 then (2 ^ 63 - 1 : Int) else (decVal digits : Int))

/-- `v, _ := strconv.ParseInt(s, 10, 64)`: 0 on a syntax error, clamped on a range error (the error is dropped) -/
def parseInt64 : Str → Int
  | 43 :: r => parseMag false r
  | 45 :: r => parseMag true r
  | r => parseMag false r

/-! ## conversions of types.go -/

/-- Go `uint8(x)` of an int -/
def toU8 (x : Int) : Nat := (x % 256).toNat

/-- fromProtoHeader: nil when no flag is set -/
def hdrOf (f : Flags) : Option Flags := if f = Flags.none then none else some f

/-- SettingFlags.ToProto: Receipt 1<<7, Signal 1<<5, Stream 1<<1, Topic 1<<3 -/
def settingToProto (s : SettingFlags) : Nat :=
  (if s.receipt then 128 else 0) + (if s.signal then 32 else 0) + (if s.stream then 2 else 0) + (if s.topic then 8 else 0)

def bit (n k : Nat) : Bool := (n / 2 ^ k) % 2 == 1

/-- fromProtoSetting: nil when the byte is 0; otherwise only the four named bits -/
def settingOf (n : Nat) : Option SettingFlags :=
  if n = 0 then none else some { receipt := bit n 7, signal := bit n 5, stream := bit n 1, topic := bit n 3 }

/-- `ToFrame` -/
def toFrame : Msg → Except Err (Frame × Str)
  | .connectReq id p =>
    .ok (.connect { fl := p.header, version := if p.version = 0 then latestVersion else toU8 p.version,
                    clientKey := p.clientKey, deviceID := p.deviceID, deviceFlag := toU8 p.deviceFlag,
                    clientTimestamp := p.clientTimestamp, uid := p.uid, token := p.token }, id)
  | .sendReq id p =>
    .ok (.send { fl := p.header, setting := settingToProto p.setting, msgKey := p.msgKey, expire := p.expire, clientSeq := 0,
                 clientMsgNo := p.clientMsgNo, streamNo := p.streamNo, channelID := p.channelID, channelType := toU8 p.channelType,
                 topic := p.topic, payload := p.payload }, id)
  | .pingReq id => .ok (.ping Flags.none, id)
  | .disconnectReq id p => .ok (.disconnect { fl := Flags.none, reasonCode := toU8 p.reasonCode, reason := p.reason }, id)
  | .recvAckNotif p => .ok (.recvack { fl := p.header, messageID := parseInt64 p.messageID, messageSeq := p.messageSeq }, [])
  | _ => .error .unknownpacket

/-- `FromFrame` -/
def fromFrame (reqId : Str) : Frame → Except Err Msg
  | .connack a =>
    .ok (.connectResp reqId { header := hdrOf a.fl, serverVersion := a.serverVersion, serverKey := a.serverKey, salt := a.salt,
                              timeDiff := a.timeDiff, reasonCode := a.reasonCode, nodeID := a.nodeId })
  | .sendack a =>
    .ok (.sendResp reqId { header := hdrOf a.fl, messageID := fmtInt a.messageID, messageSeq := a.messageSeq, reasonCode := a.reasonCode })
  | .recv r =>
    .ok (.recvNotif { header := hdrOf r.fl, setting := settingOf r.setting, msgKey := r.msgKey, expire := r.expire,
                      messageID := fmtInt r.messageID, messageSeq := r.messageSeq, clientMsgNo := r.clientMsgNo, streamNo := r.streamNo,
                      streamID := decBytes r.streamId, streamFlag := r.streamFlag, timestamp := r.timestamp, channelID := r.channelID,
                      channelType := r.channelType, topic := r.topic, fromUID := r.fromUID, payload := r.payload })
  | .event e => .ok (.eventNotif { header := hdrOf e.fl, id := e.id, type := e.type, timestamp := e.timestamp, data := e.data })
  | .disconnect d => .ok (.disconnectNotif { reasonCode := d.reasonCode, reason := d.reason })
  | .pong _ => .ok (.pongResp reqId)
  | _ => .error .unknownframe

/-! ## determineMessageType -/

inductive JV where
  | absent
  | str (s : Str)     -- a JSON string (JSON null behaves as the string "": Unmarshal leaves the zero value)
  | nonString         -- number/object/…: json.Unmarshal into a string fails
  deriving DecidableEq, Repr

/-- what determineMessageType looks at -/
structure Probe where
  jv : JV
  idRaw : Option Str      -- the raw JSON text of "id" (none = member absent)
  method : Str
  result : Bool           -- member present (RawMessage non-nil; JSON null counts as present)
  error : Bool
  deriving DecidableEq, Repr

inductive MsgType where
  | unknown | request | response | notification
  deriving DecidableEq, Repr

def MsgType.num : MsgType → Nat
  | .unknown => 0 | .request => 1 | .response => 2 | .notification => 3

def v20 : Str := [50, 46, 48]

def knownNotif (m : Str) : Bool :=
  m == "recv".toUTF8.toList || m == "disconnect".toUTF8.toList || m == "recvack".toUTF8.toList || m == "event".toUTF8.toList

/-- `determineMessageType`, statement for statement (including its unreachable arms) -/
def determine (p : Probe) : MsgType × Option Err :=
  let verErr : Option Err :=
    match p.jv with
    | .absent => none
    | .nonString => some .field
    | .str s => if s ≠ v20 then some .version else none
  match verErr with
  | some e => (.unknown, some e)
  | none =>
    let idIsNull := p.idRaw.isNone || p.idRaw == some []
    let idIsPresent := p.idRaw.isSome && p.idRaw != some []
    let methodIsPresent := p.method != []
    let prelimIsNotification := methodIsPresent && (!idIsPresent || idIsNull)
    let prelimIsResponse := idIsPresent && !idIsNull && !methodIsPresent && (p.result || p.error)
    let prelimIsRequest := methodIsPresent && idIsPresent && !idIsNull
    if prelimIsRequest && prelimIsResponse then (.unknown, some .structure)
    else if prelimIsResponse && !p.result && !p.error then (.unknown, some .responsefmt)
    else if prelimIsResponse && p.result && p.error then (.unknown, some .responsefmt)
    else if prelimIsRequest then (.request, none)
    else if prelimIsResponse then (.response, none)
    else if prelimIsNotification then
      if knownNotif p.method then (.notification, none) else (.notification, some .unknownnotif)
    else if methodIsPresent && (!idIsPresent || idIsNull) then (.unknown, some .structure)
    else (.unknown, some .undetermined)

/-! ## the JSON text layer, abstractly -/

def cont (b : UInt8) : Bool := 0x80 ≤ b.toNat && b.toNat ≤ 0xBF

/-- length of the valid UTF-8 sequence at the head (Go's utf8.DecodeRune acceptance), 0 = invalid byte -/
def utf8Len : Bytes → Nat
  | [] => 0
  | a :: rest =>
    let x := a.toNat
    if x < 0x80 then 1
    else if 0xC2 ≤ x && x ≤ 0xDF then
      match rest with
      | b :: _ => if cont b then 2 else 0
      | _ => 0
    else if 0xE0 ≤ x && x ≤ 0xEF then
      match rest with
      | b :: c :: _ =>
        let lo := if x = 0xE0 then 0xA0 else 0x80
        let hi := if x = 0xED then 0x9F else 0xBF
        if lo ≤ b.toNat && b.toNat ≤ hi && cont c then 3 else 0
      | _ => 0
    else if 0xF0 ≤ x && x ≤ 0xF4 then
      match rest with
      | b :: c :: d :: _ =>
        let lo := if x = 0xF0 then 0x90 else 0x80
        let hi := if x = 0xF4 then 0x8F else 0xBF
        if lo ≤ b.toNat && b.toNat ≤ hi && cont c && cont d then 4 else 0
      | _ => 0
    else 0

/-- what encoding/json makes of a Go string: every byte that does not start a valid sequence becomes U+FFFD -/
def sanitizeAux : Nat → Bytes → Bytes
  | 0, _ => []
  | _ + 1, [] => []
  | fuel + 1, a :: rest =>
    match utf8Len (a :: rest) with
    | 0 => 0xEF :: 0xBF :: 0xBD :: sanitizeAux fuel rest
    | k => (a :: rest).take k ++ sanitizeAux fuel ((a :: rest).drop k)

def sanitize (s : Str) : Str := sanitizeAux (s.length + 1) s

def ValidUtf8 (s : Str) : Prop := sanitize s = s

/-- The typed effect of `Encode` then `Decode` on a message built by FromFrame or by a client:
    strings are sanitised; a request whose id is empty loses its id member (`omitempty`) and is then taken for a
    notification; a response whose id is empty is rejected (so was, before the fix, the PONG response: it had neither result nor error). -/
def reDecode : Msg → Except Err Msg
  | .connectReq id p => if id = [] then .error .unknownnotif else
      .ok (.connectReq (sanitize id) { p with clientKey := sanitize p.clientKey, deviceID := sanitize p.deviceID, uid := sanitize p.uid, token := sanitize p.token })
  | .sendReq id p => if id = [] then .error .unknownnotif else
      .ok (.sendReq (sanitize id) { p with msgKey := sanitize p.msgKey, clientMsgNo := sanitize p.clientMsgNo, streamNo := sanitize p.streamNo,
                                            channelID := sanitize p.channelID, topic := sanitize p.topic })
  | .pingReq id => if id = [] then .error .unknownnotif else .ok (.pingReq (sanitize id))
  | .disconnectReq id p => if id = [] then .ok (.disconnectNotif { p with reason := sanitize p.reason }) else
      .ok (.disconnectReq (sanitize id) { p with reason := sanitize p.reason })
  | .subscribeReq id => if id = [] then .error .unknownnotif else .ok (.subscribeReq (sanitize id))
  | .unsubscribeReq id => if id = [] then .error .unknownnotif else .ok (.unsubscribeReq (sanitize id))
  | .recvAckNotif p => .ok (.recvAckNotif { p with messageID := sanitize p.messageID })
  | .connectResp id r => if id = [] then .error .undetermined else
      .ok (.connectResp (sanitize id) { r with serverKey := sanitize r.serverKey, salt := sanitize r.salt })
  | .sendResp id r => if id = [] then .error .undetermined else .ok (.sendResp (sanitize id) { r with messageID := sanitize r.messageID })
  | .pongResp id => if id = [] then .error .undetermined else .ok (.pongResp (sanitize id))   -- result `{}` since the fix
  | .recvNotif p =>
      .ok (.recvNotif { p with msgKey := sanitize p.msgKey, messageID := sanitize p.messageID, clientMsgNo := sanitize p.clientMsgNo,
                               streamNo := sanitize p.streamNo, streamID := sanitize p.streamID, channelID := sanitize p.channelID,
                               topic := sanitize p.topic, fromUID := sanitize p.fromUID })
  | .eventNotif p => .ok (.eventNotif { p with id := sanitize p.id, type := sanitize p.type, data := sanitize p.data })
  | .disconnectNotif p => .ok (.disconnectNotif { p with reason := sanitize p.reason })

/-! ## Decode's dispatch on a document described by a spec (the `doc` ops) -/

inductive IdSpec where | absent | null | str | num | emptystr | obj
  deriving DecidableEq, Repr
inductive ParamSpec where | absent | null | good | badtype | arr | str | emptyobj
  deriving DecidableEq, Repr
inductive ErrSpec where | absent | null | obj | str
  deriving DecidableEq, Repr

structure DocSpec where
  jv : JV
  id : IdSpec
  methodIsNumber : Bool      -- "method": 5  → the probe itself fails to decode
  method : Str               -- "" when absent or the empty string
  params : ParamSpec
  result : Bool
  error : ErrSpec

inductive Kind where
  | ConnectRequest | SendRequest | SubscribeRequest | UnsubscribeRequest | PingRequest | DisconnectRequest
  | GenericResponse | RecvNotification | RecvAckNotification | DisconnectNotification | EventNotification
  deriving DecidableEq, Repr

def Kind.frameKind : Kind → Option String
  | .ConnectRequest => some "connect" | .SendRequest => some "send" | .PingRequest => some "ping"
  | .DisconnectRequest => some "disconnect" | .RecvAckNotification => some "recvack" | _ => none

def idRawOf : IdSpec → Option Str
  | .absent => none
  | .null => some "null".toUTF8.toList
  | .str => some "\"req-1\"".toUTF8.toList
  | .num => some "7".toUTF8.toList
  | .emptystr => some "\"\"".toUTF8.toList
  | .obj => some "{\"a\":1}".toUTF8.toList

def m (s : String) : Str := s.toUTF8.toList

/-- json.Unmarshal(params, &T) for the param shapes of the spec -/
def paramsOk (isPing : Bool) : ParamSpec → Except Err Unit
  | .absent => if isPing then .ok () else .error .missingparams
  | .null | .good | .emptyobj => .ok ()
  | .badtype => if isPing then .ok () else .error .field   -- PingParams has no fields: unknown members are ignored
  | .arr | .str => .error .field

/-- `Decode` after a successful probe decode -/
def decodeSpec (d : DocSpec) : Except Err (Kind × Str) :=
  if d.methodIsNumber then .error .jsontype else
  let probe : Probe := { jv := d.jv, idRaw := idRawOf d.id, method := d.method, result := d.result, error := d.error != .absent }
  match determine probe with
  | (_, some e) => .error e
  | (.request, none) =>
    if d.id = .null then .error .requestfmt
    else if d.id = .num ∨ d.id = .obj then .error .field
    else
      let rid : Str := if d.id = .str then m "req-1" else []
      let go (k : Kind) (isPing : Bool) : Except Err (Kind × Str) :=
        match paramsOk isPing d.params with
        | .error e => .error e
        | .ok () => .ok (k, rid)
      if d.method = m "connect" then go .ConnectRequest false
      else if d.method = m "send" then go .SendRequest false
      else if d.method = m "subscribe" then go .SubscribeRequest false
      else if d.method = m "unsubscribe" then go .UnsubscribeRequest false
      else if d.method = m "ping" then go .PingRequest true
      else if d.method = m "disconnect" then go .DisconnectRequest false
      else .error .unknownmethod
  | (.response, none) =>
    if d.id = .null then .error .responsefmt
    else if d.id = .num ∨ d.id = .obj then .error .field
    else if d.error = .str then .error .field
    else .ok (.GenericResponse, [])
  | (.notification, none) =>
    let go (k : Kind) : Except Err (Kind × Str) :=
      match paramsOk false d.params with
      | .error e => .error e
      | .ok () => .ok (k, [])
    if d.method = m "recv" then go .RecvNotification
    else if d.method = m "recvack" then go .RecvAckNotification
    else if d.method = m "disconnect" then go .DisconnectNotification
    else if d.method = m "event" then go .EventNotification
    else .error .unknownmethod
  | (.unknown, none) => .error .structure

end WK.C24

import WK.Prelude.Hex
/-
  The line-protocol driver loop shared by all properties.

  stdin : one line per operation,  `<op>\t<implOut>`   (the harness' op and
          the implementation's canonical observable for it), or `#case <n>`
          which resets the model state (start of an independent history).
  stdout: one line per operation,  `<modelOut>\t<verdict>`
          modelOut = what the model computes for the op (`-` = not compared),
          verdict  = `ok`, or `viol:<why>` when the property's judge rejects
                     the *implementation's* output for this op.
-/
namespace WK

structure Drv (σ : Type) where
  init : σ
  /-- state → op → implementation output → (state', modelOut, verdict) -/
  step : σ → String → String → σ × String × String

def stripNL (s : String) : String :=
  let s := if s.endsWith "\n" then (s.dropEnd 1).toString else s
  if s.endsWith "\r" then (s.dropEnd 1).toString else s

partial def Drv.loop {σ : Type} (d : Drv σ) (hin hout : IO.FS.Stream) (st : σ) : IO Unit := do
  let line ← hin.getLine
  if line.isEmpty then
    hout.flush
    return ()
  let line := stripNL line
  if line.startsWith "#case" then
    hout.putStrLn "#case"
    d.loop hin hout d.init
  else
    let (op, impl) := match line.splitOn "\t" with
      | [a] => (a, "")
      | a :: b :: _ => (a, b)
      | [] => ("", "")
    let (st', m, v) := d.step st op impl
    hout.putStrLn (m ++ "\t" ++ v)
    d.loop hin hout st'

def Drv.main {σ : Type} (d : Drv σ) : IO Unit := do
  let hin ← IO.getStdin
  let hout ← IO.getStdout
  d.loop hin hout d.init

end WK

/-
  Hex <-> bytes helpers used by every line-protocol driver.  Core only.
  Go strings / []byte are `List UInt8` in all models (never `String`).
-/
namespace WK

abbrev Bytes := List UInt8

def hexDigit (n : Nat) : Char :=
  if n < 10 then Char.ofNat (48 + n) else Char.ofNat (87 + n)

def hexByte (b : UInt8) : List Char :=
  [hexDigit (b.toNat / 16), hexDigit (b.toNat % 16)]

/-- lower-case hex of a byte string; the empty string is rendered `-` so that
    every field of a line is non-empty. -/
def hexEncode (bs : Bytes) : String :=
  if bs.isEmpty then "-" else String.ofList (bs.flatMap hexByte)

def hexVal (c : Char) : Option Nat :=
  if '0' ≤ c ∧ c ≤ '9' then some (c.toNat - 48)
  else if 'a' ≤ c ∧ c ≤ 'f' then some (c.toNat - 87)
  else if 'A' ≤ c ∧ c ≤ 'F' then some (c.toNat - 55)
  else none

def hexDecodeChars : List Char → Option Bytes
  | [] => some []
  | [_] => none
  | a :: b :: rest => do
    let x ← hexVal a
    let y ← hexVal b
    let r ← hexDecodeChars rest
    pure (UInt8.ofNat (x * 16 + y) :: r)

def hexDecode (s : String) : Option Bytes :=
  if s == "-" then some [] else hexDecodeChars s.toList

/-- fields of a line are separated by single spaces -/
def fields (s : String) : List String :=
  (s.splitOn " ").filter (· ≠ "")

def natList (xs : List Nat) : String :=
  "[" ++ ",".intercalate (xs.map toString) ++ "]"

def boolStr (b : Bool) : String := if b then "1" else "0"

end WK

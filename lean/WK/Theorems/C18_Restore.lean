import WK.Theorems.C18
/-
  C18 — snapshot install (pkg/controller/raft/apply_scheduler.go: applyJob) in
  front of the batch loop.  `restoreFacts` is regenerated from the source: the
  decoded payload's AppliedRaftIndex is raised to the snapshot metadata index only
  if it is lower.
-/
namespace WK.C18
open WK.Gen.C18

variable {β κ : Type} (handler : State β → Nat → κ → Proposal β) (valid : State β → Bool)

/-- the installed state never claims less than its payload contains, nor less than the metadata index -/
theorem restore_applied (sm : SM β) (payload : State β) (metaIdx : Nat) :
    payload.applied ≤ (restoreSnapshot restoreFacts sm payload metaIdx).published.applied ∧
    metaIdx ≤ (restoreSnapshot restoreFacts sm payload metaIdx).published.applied ∧
    (restoreSnapshot restoreFacts sm payload metaIdx).published.rev = payload.rev ∧
    (restoreSnapshot restoreFacts sm payload metaIdx).published.body = payload.body := by
  simp only [restoreSnapshot, restoreFacts]
  by_cases h : payload.applied < metaIdx <;> by_cases hr : payload.rev = 0 <;> simp [h, hr] <;> omega

/-- **Replay across a snapshot install is a no-op**: after installing a snapshot
    of an initialised state — whether its payload is behind, at, or AHEAD of the
    snapshot metadata index (log compaction racing with apply) — every entry whose
    index is covered by the payload or by the metadata index is answered
    `Noop already_applied` and leaves the installed state (published and saved)
    exactly as it is. -/
theorem c18_restore_replay_noop (sm : SM β) (payload : State β) (metaIdx : Nat) (es : List (Entry κ))
    (hrev : payload.rev ≠ 0) (hidx : ∀ e ∈ es, e.idx ≤ payload.applied ∨ e.idx ≤ metaIdx) :
    applyBatch loopFacts handler valid (restoreSnapshot restoreFacts sm payload metaIdx) es =
      (restoreSnapshot restoreFacts sm payload metaIdx,
       es.map (fun _ => ⟨.noop reasonAlreadyApplied, payload.rev,
                          (restoreSnapshot restoreFacts sm payload metaIdx).published.applied⟩)) := by
  have ha := restore_applied sm payload metaIdx
  have hrev' : (restoreSnapshot restoreFacts sm payload metaIdx).published.rev ≠ 0 := by rw [ha.2.2.1]; exact hrev
  have hfile : (restoreSnapshot restoreFacts sm payload metaIdx).file = some (restoreSnapshot restoreFacts sm payload metaIdx).published := by
    simp only [restoreSnapshot, restoreFacts]
    by_cases h : payload.applied < metaIdx <;> simp [h, hrev]
  have := c18_replay_noop handler valid (restoreSnapshot restoreFacts sm payload metaIdx) es hrev'
    (fun e he => by rcases hidx e he with h | h <;> omega)
  rw [this, ha.2.2.1]
  generalize restoreSnapshot restoreFacts sm payload metaIdx = r at hfile ⊢
  obtain ⟨p, f⟩ := r
  simp only at hfile
  simp [hfile]

/-- non-vacuity, payload AHEAD of its metadata index: entries 6 and 8 lie after
    the metadata index 5 but inside the payload (applied 9) and are skipped -/
example : applyBatch loopFacts (fun (s : State Nat) _ (c : Nat) => Proposal.change (s.body + c)) (fun _ => true)
    (restoreSnapshot restoreFacts { published := ⟨0, 0, 0⟩, file := none } ⟨3, 9, 40⟩ 5) [⟨6, 1⟩, ⟨8, 1⟩] =
    ({ published := ⟨3, 9, 40⟩, file := some ⟨3, 9, 40⟩ },
     [⟨.noop reasonAlreadyApplied, 3, 9⟩, ⟨.noop reasonAlreadyApplied, 3, 9⟩]) := by decide

/-- ... and OVERWRITING the applied index with the metadata index instead (the
    other value of the regenerated fact) applies both entries a second time -/
example : (applyBatch loopFacts (fun (s : State Nat) _ (c : Nat) => Proposal.change (s.body + c)) (fun _ => true)
    (restoreSnapshot { raiseOnlyIfLower := false } { published := ⟨0, 0, 0⟩, file := none } ⟨3, 9, 40⟩ 5) [⟨6, 1⟩, ⟨8, 1⟩]).1.published =
    ⟨5, 8, 42⟩ := by decide

end WK.C18

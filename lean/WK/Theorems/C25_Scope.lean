import WK.Theorems.C25
/-
  C25 — the scope of tamper evidence made explicit (the preimage has no separators), and the RECV side.
-/
namespace WK.C25
open WK WK.Gen.C25

/-- the preimage `SendMsgKeyWithCrypto` builds, spelled out for the append order read from the source: five strings
    concatenated WITHOUT separators or length prefixes -/
theorem c25_preimage_concat (p : SendPacket) :
    sendPreimage p = decBytes p.clientSeq ++ p.clientMsgNo ++ p.channelID ++ decBytes p.channelType ++ p.payload := by
  simp [sendPreimage, preimageOf, sendPreimageOrder, fieldEnc]

example : sendPreimage { clientSeq := 7, clientMsgNo := [97], channelID := [98], channelType := 1, payload := [99] } = [55, 97, 98, 49, 99] := by
  rw [c25_preimage_concat]; simp [decBytes, decDigit]

/-- the msg key depends on the packet only through the concatenation -/
theorem sendMsgKey_congr (P : Prims) (k : SessionKeys) (p q : SendPacket) (h : sendPreimage q = sendPreimage p) :
    sendMsgKey P k q = sendMsgKey P k p := by
  unfold sendMsgKey; rw [h]

/-- **the exact scope of tamper evidence**: for a packet `q` that kept the msg key of a genuine packet `p`, validation
    accepts `q` IF AND ONLY IF the two concatenations are equal (absent an MD5 collision).  Single-field alterations always
    change the concatenation (`c25_single_field_tamper`); JOINT alterations that keep it are exactly the accepted ones. -/
theorem c25_accepted_iff_same_concatenation (P : Prims) (hC : BlockCipherOK P) (hB : B64OK P) (hM : ¬ Md5Collision P)
    (k : SessionKeys) (hk : ValidKeys k) (p q : SendPacket) (hgen : sendMsgKey P k p = .ok p.msgKey) (hkey : q.msgKey = p.msgKey) :
    validateSend P k q = .ok () ↔
      decBytes q.clientSeq ++ q.clientMsgNo ++ q.channelID ++ decBytes q.channelType ++ q.payload
        = decBytes p.clientSeq ++ p.clientMsgNo ++ p.channelID ++ decBytes p.channelType ++ p.payload := by
  rw [← c25_preimage_concat, ← c25_preimage_concat]
  constructor
  · intro hacc
    apply Classical.byContradiction
    intro hne
    exact hM (c25_validate_detects P hC hB k hk p q hgen hkey hne hacc)
  · intro heq
    rw [validate_ok_iff, sendMsgKey_congr P k p q heq, hkey]
    exact hgen

/-- the two families of joint alterations that keep the concatenation: moving bytes across the ClientMsgNo/ChannelID
    boundary, and (through the decimal fields) any re-split with the same digits — e.g. ClientSeq 1 + ClientMsgNo "2x"
    versus ClientSeq 12 + ClientMsgNo "x" -/
theorem c25_boundary_shift_keeps_preimage (p : SendPacket) (a b a' b' : Bytes) (h : a ++ b = a' ++ b') :
    sendPreimage { p with clientMsgNo := a, channelID := b } = sendPreimage { p with clientMsgNo := a', channelID := b' } := by
  rw [c25_preimage_concat, c25_preimage_concat]
  simp only [List.append_assoc]
  rw [← List.append_assoc a, ← List.append_assoc a', h]

example : sendPreimage { clientSeq := 1, clientMsgNo := [50, 120] } = sendPreimage { clientSeq := 12, clientMsgNo := [120] } := by
  rw [c25_preimage_concat, c25_preimage_concat]; simp [decBytes, decDigit]

/-- … and the server really accepts such a packet (the `shift` perturbation of the harness, on the model) -/
theorem c25_boundary_shift_accepted (P : Prims) (k : SessionKeys) (p : SendPacket) (a b a' b' : Bytes) (h : a ++ b = a' ++ b')
    (hgen : validateSend P k { p with clientMsgNo := a, channelID := b } = .ok ()) :
    validateSend P k { p with clientMsgNo := a', channelID := b' } = .ok () := by
  rw [validate_ok_iff] at *
  rw [sendMsgKey_congr P k _ _ (c25_boundary_shift_keeps_preimage p a' b' a b h.symm)]
  exact hgen

example : ∃ s, sealSend toyP toyKeys { clientMsgNo := [97, 98], channelID := [99] } = .ok s ∧
    validateSend toyP toyKeys { s with clientMsgNo := [97], channelID := [98, 99] } = .ok () := by
  obtain ⟨s, hs, hk, _⟩ := c25_adapter_roundtrip toyP toy_cipher toy_b64 toyKeys toy_keys_valid { clientMsgNo := [97, 98], channelID := [99] }
  refine ⟨s, hs, ?_⟩
  have hs' := hs
  unfold sealSend at hs'
  cases he : encryptPayload toyP toyKeys [] with
  | error e => rw [show ({ clientMsgNo := [97, 98], channelID := [99] } : SendPacket).payload = [] from rfl, he] at hs'; cases hs'
  | ok enc =>
    rw [show ({ clientMsgNo := [97, 98], channelID := [99] } : SendPacket).payload = [] from rfl, he] at hs'
    simp only at hs'
    cases hm : sendMsgKey toyP toyKeys { ({ clientMsgNo := [97, 98], channelID := [99] } : SendPacket) with payload := enc } with
    | error e => rw [hm] at hs'; cases hs'
    | ok mk =>
      rw [hm] at hs'
      injection hs' with hs'
      subst hs'
      exact c25_boundary_shift_accepted toyP toyKeys _ [97, 98] [99] [97] [98, 99] (by decide) ((validate_ok_iff _ _ _).2 hk)

/-! ## the RECV side -/

/-- **what the gateway seals, the client opens**: `SealRecvPacket` encrypts the payload so that `DecryptPayload` returns the
    original bytes, and keys the SEALED packet: MsgKey = hex(MD5(base64(CBC(pad(VerityBytes(sealed)))))) -/
theorem c25_recv_seal_roundtrip (P : Prims) (hC : BlockCipherOK P) (hB : B64OK P) (k : SessionKeys) (hk : ValidKeys k) (r : RecvPacket) :
    ∃ s, sealRecv P k r = .ok s ∧ decryptPayload P k s.payload = .ok r.payload ∧
      msgKeyOf P k (recvPreimage s) = .ok s.msgKey ∧ s.messageID = r.messageID ∧ s.channelID = r.channelID := by
  obtain ⟨c, hc, hd⟩ := c25_decrypt_encrypt P hC hB k hk r.payload
  obtain ⟨mk, hmk⟩ : ∃ mk, msgKeyOf P k (recvPreimage { r with payload := c }) = .ok mk := ⟨_, msgKeyOf_ok P k hk _⟩
  refine ⟨{ r with payload := c, msgKey := mk }, ?_, hd, ?_, rfl, rfl⟩
  · unfold sealRecv; rw [hc]; simp only [hmk]
  · exact hmk

example : ∃ s, sealRecv toyP toyKeys { payload := [1, 2] } = .ok s ∧ decryptPayload toyP toyKeys s.payload = .ok [1, 2] := by
  obtain ⟨s, h1, h2, _⟩ := c25_recv_seal_roundtrip toyP toy_cipher toy_b64 toyKeys toy_keys_valid { payload := [1, 2] }
  exact ⟨s, h1, h2⟩

/-- altering only the (sealed) payload of a RECV changes its preimage -/
theorem c25_recv_payload_tamper (r : RecvPacket) (x : Bytes) (h : x ≠ r.payload) :
    recvPreimage { r with payload := x } ≠ recvPreimage r := by
  unfold recvPreimage
  intro he
  exact h (List.append_cancel_left he)

example : recvPreimage { payload := [1] } ≠ recvPreimage { payload := [2] } :=
  c25_recv_payload_tamper { payload := [2] } [1] (by decide)

/-! ## the base64 codec the driver runs satisfies its contract -/

theorem b64Val_char : ∀ n : Fin 64, b64Val (b64Char n.val) = some n.val ∧ b64Char n.val ≠ 61 := by decide

theorem b64Val_char' (n : Nat) (h : n < 64) : b64Val (b64Char n) = some n := (b64Val_char ⟨n, h⟩).1

theorem b64Val_pad : b64Val 61 = none := by decide

/-- one sextet consumed in the collecting phase with fewer than three sextets pending -/
theorem step_collect (out : Bytes) (acc : List Nat) (n : Nat) (h : n < 64) (hacc : acc.length < 3) :
    b64Step { phase := .normal, acc := acc, out := out, bad := false } (b64Char n)
      = { phase := .normal, acc := acc ++ [n], out := out, bad := false } := by
  unfold b64Step
  simp only [Bool.false_eq_true, if_false, b64Val_char' n h]
  match acc, hacc with
  | [], _ => rfl
  | [_], _ => rfl
  | [_, _], _ => rfl

theorem step_fourth (out : Bytes) (x y z n : Nat) (h : n < 64) :
    b64Step { phase := .normal, acc := [x, y, z], out := out, bad := false } (b64Char n)
      = { phase := .normal, acc := [],
          out := UInt8.ofNat ((x * 262144 + y * 4096 + z * 64 + n) % 256) :: UInt8.ofNat ((x * 262144 + y * 4096 + z * 64 + n) / 256 % 256)
                   :: UInt8.ofNat ((x * 262144 + y * 4096 + z * 64 + n) / 65536) :: out, bad := false } := by
  unfold b64Step
  simp only [Bool.false_eq_true, if_false, b64Val_char' n h]

theorem u8_of (a : UInt8) (n : Nat) (h : n = a.toNat) : UInt8.ofNat n = a := by subst h; simp

/-- a full 3-byte group -/
theorem group3 (a b c : UInt8) (out : Bytes) :
    let v := a.toNat * 65536 + b.toNat * 256 + c.toNat
    [b64Char (v / 262144), b64Char (v / 4096 % 64), b64Char (v / 64 % 64), b64Char (v % 64)].foldl b64Step
        { phase := .normal, acc := [], out := out, bad := false }
      = { phase := .normal, acc := [], out := c :: b :: a :: out, bad := false } := by
  intro v
  have ha := a.toNat_lt; have hb := b.toNat_lt; have hc := c.toNat_lt
  simp only [List.foldl]
  rw [step_collect out [] _ (by omega) (by simp), List.nil_append,
      step_collect out [_] _ (by omega) (by simp), List.singleton_append,
      step_collect out [_, _] _ (by omega) (by simp)]
  simp only [List.cons_append, List.nil_append]
  rw [step_fourth out _ _ _ _ (by omega)]
  congr 2
  · exact u8_of c _ (by omega)
  · congr 1
    · exact u8_of b _ (by omega)
    · congr 1
      exact u8_of a _ (by omega)

theorem step_pad3 (out : Bytes) (x y z : Nat) :
    b64Step { phase := .normal, acc := [x, y, z], out := out, bad := false } 61
      = { phase := .tail, acc := [], out := UInt8.ofNat ((x * 4096 + y * 64 + z) / 4 % 256) :: UInt8.ofNat ((x * 4096 + y * 64 + z) / 1024) :: out, bad := false } := by
  unfold b64Step
  simp [b64Val_pad]

theorem step_pad2 (out : Bytes) (x y : Nat) :
    b64Step { phase := .normal, acc := [x, y], out := out, bad := false } 61
      = { phase := .needPad, acc := [], out := UInt8.ofNat ((x * 4 + y / 16) % 256) :: out, bad := false } := by
  unfold b64Step
  simp [b64Val_pad]

theorem step_needPad (out : Bytes) :
    b64Step { phase := .needPad, acc := [], out := out, bad := false } 61 = { phase := .tail, acc := [], out := out, bad := false } := by
  unfold b64Step
  simp

/-- decoding an encoding leaves the decoder in an accepting state with exactly the input as output -/
theorem fold_enc (x : Bytes) : ∀ out : Bytes, ∃ ph, (ph = B64Phase.normal ∨ ph = B64Phase.tail) ∧
    (b64Enc x).foldl b64Step { phase := .normal, acc := [], out := out, bad := false }
      = { phase := ph, acc := [], out := x.reverse ++ out, bad := false } := by
  induction x using b64Enc.induct with
  | case1 a b c rest ih =>
    intro out
    obtain ⟨ph, hph, h⟩ := ih (c :: b :: a :: out)
    refine ⟨ph, hph, ?_⟩
    rw [b64Enc]
    rw [show ∀ (p q r s : UInt8) (t : Bytes), p :: q :: r :: s :: t = [p, q, r, s] ++ t from fun _ _ _ _ _ => rfl, List.foldl_append,
      group3 a b c out, h]
    simp
  | case2 a b =>
    intro out
    refine ⟨.tail, Or.inr rfl, ?_⟩
    have ha := a.toNat_lt; have hb := b.toNat_lt
    rw [b64Enc]
    simp only [List.foldl]
    rw [step_collect out [] _ (by omega) (by simp), List.nil_append,
        step_collect out [_] _ (by omega) (by simp), List.singleton_append,
        step_collect out [_, _] _ (by omega) (by simp)]
    simp only [List.cons_append, List.nil_append]
    rw [step_pad3]
    simp only [List.reverse_cons, List.reverse_nil, List.nil_append, List.cons_append]
    congr 2
    · exact u8_of b _ (by omega)
    · congr 1
      exact u8_of a _ (by omega)
  | case3 a =>
    intro out
    refine ⟨.tail, Or.inr rfl, ?_⟩
    have ha := a.toNat_lt
    rw [b64Enc]
    simp only [List.foldl]
    rw [step_collect out [] _ (by omega) (by simp), List.nil_append,
        step_collect out [_] _ (by omega) (by simp), List.singleton_append, step_pad2, step_needPad]
    simp only [List.reverse_cons, List.reverse_nil, List.nil_append, List.cons_append]
    congr 2
    exact u8_of a _ (by omega)
  | case4 =>
    intro out
    exact ⟨.normal, Or.inl rfl, by simp [b64Enc]⟩

/-- **the base64 contract holds of the codec the driver runs**: `b64Dec (b64Enc x) = some x` for every byte string -/
theorem c25_b64_concrete (x : Bytes) : b64Dec (b64Enc x) = some x := by
  obtain ⟨ph, hph, h⟩ := fold_enc x []
  unfold b64Dec
  show (let s := (b64Enc x).foldl b64Step {}; _) = _
  have h0 : ({} : B64St) = { phase := .normal, acc := [], out := [], bad := false } := rfl
  simp only [h]
  rcases hph with hph | hph <;> subst hph <;> simp

example : b64Dec (b64Enc [1, 2, 3, 4]) = some [1, 2, 3, 4] := c25_b64_concrete _

/-- hence `B64OK` is no longer an assumption for any instance of the primitives that uses the Lean codec — in particular the
    driver's `prims` (b64enc := b64Enc, b64dec := b64Dec): what stays trusted is only that Go's encoding/base64 agrees with it,
    which the differential run compares on every op -/
theorem c25_driver_b64_ok (P : Prims) (he : P.b64enc = b64Enc) (hd : P.b64dec = b64Dec) : B64OK P := by
  intro x; rw [he, hd]; exact c25_b64_concrete x

example : B64OK { toyP with b64enc := b64Enc, b64dec := b64Dec } := c25_driver_b64_ok _ rfl rfl

end WK.C25

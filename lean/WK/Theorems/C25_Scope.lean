import WK.Theorems.C25
/-
  C25 — the scope of tamper evidence made explicit (the preimage has no separators), and the RECV side.
-/
namespace WK.C25
open WK WK.Gen.C25

/-- the preimage `SendMsgKeyWithCrypto` builds, spelled out for the append order read from the source: five strings
    concatenated WITHOUT separators or length prefixes -/
theorem c25_preimage_concat (p : SendPacket) :
    sendPreimage p = decBytes p.clientSeq ++ p.clientMsgNo ++ p.channelID ++ decBytes p.channelType ++ p.payload := by
  simp [sendPreimage, preimageOf, sendPreimageOrder, fieldEnc]

example : sendPreimage { clientSeq := 7, clientMsgNo := [97], channelID := [98], channelType := 1, payload := [99] } = [55, 97, 98, 49, 99] := by
  rw [c25_preimage_concat]; simp [decBytes, decDigit]

/-- the msg key depends on the packet only through the concatenation -/
theorem sendMsgKey_congr (P : Prims) (k : SessionKeys) (p q : SendPacket) (h : sendPreimage q = sendPreimage p) :
    sendMsgKey P k q = sendMsgKey P k p := by
  unfold sendMsgKey; rw [h]

/-- **the exact scope of tamper evidence**: for a packet `q` that kept the msg key of a genuine packet `p`, validation
    accepts `q` IF AND ONLY IF the two concatenations are equal (absent an MD5 collision).  Single-field alterations always
    change the concatenation (`c25_single_field_tamper`); JOINT alterations that keep it are exactly the accepted ones. -/
theorem c25_accepted_iff_same_concatenation (P : Prims) (hC : BlockCipherOK P) (hB : B64OK P) (hM : ¬ Md5Collision P)
    (k : SessionKeys) (hk : ValidKeys k) (p q : SendPacket) (hgen : sendMsgKey P k p = .ok p.msgKey) (hkey : q.msgKey = p.msgKey) :
    validateSend P k q = .ok () ↔
      decBytes q.clientSeq ++ q.clientMsgNo ++ q.channelID ++ decBytes q.channelType ++ q.payload
        = decBytes p.clientSeq ++ p.clientMsgNo ++ p.channelID ++ decBytes p.channelType ++ p.payload := by
  rw [← c25_preimage_concat, ← c25_preimage_concat]
  constructor
  · intro hacc
    apply Classical.byContradiction
    intro hne
    exact hM (c25_validate_detects P hC hB k hk p q hgen hkey hne hacc)
  · intro heq
    rw [validate_ok_iff, sendMsgKey_congr P k p q heq, hkey]
    exact hgen

/-- the two families of joint alterations that keep the concatenation: moving bytes across the ClientMsgNo/ChannelID
    boundary, and (through the decimal fields) any re-split with the same digits — e.g. ClientSeq 1 + ClientMsgNo "2x"
    versus ClientSeq 12 + ClientMsgNo "x" -/
theorem c25_boundary_shift_keeps_preimage (p : SendPacket) (a b a' b' : Bytes) (h : a ++ b = a' ++ b') :
    sendPreimage { p with clientMsgNo := a, channelID := b } = sendPreimage { p with clientMsgNo := a', channelID := b' } := by
  rw [c25_preimage_concat, c25_preimage_concat]
  simp only [List.append_assoc]
  rw [← List.append_assoc a, ← List.append_assoc a', h]

example : sendPreimage { clientSeq := 1, clientMsgNo := [50, 120] } = sendPreimage { clientSeq := 12, clientMsgNo := [120] } := by
  rw [c25_preimage_concat, c25_preimage_concat]; simp [decBytes, decDigit]

/-- … and the server really accepts such a packet (the `shift` perturbation of the harness, on the model) -/
theorem c25_boundary_shift_accepted (P : Prims) (k : SessionKeys) (p : SendPacket) (a b a' b' : Bytes) (h : a ++ b = a' ++ b')
    (hgen : validateSend P k { p with clientMsgNo := a, channelID := b } = .ok ()) :
    validateSend P k { p with clientMsgNo := a', channelID := b' } = .ok () := by
  rw [validate_ok_iff] at *
  rw [sendMsgKey_congr P k _ _ (c25_boundary_shift_keeps_preimage p a' b' a b h.symm)]
  exact hgen

example : ∃ s, sealSend toyP toyKeys { clientMsgNo := [97, 98], channelID := [99] } = .ok s ∧
    validateSend toyP toyKeys { s with clientMsgNo := [97], channelID := [98, 99] } = .ok () := by
  obtain ⟨s, hs, hk, _⟩ := c25_adapter_roundtrip toyP toy_cipher toy_b64 toyKeys toy_keys_valid { clientMsgNo := [97, 98], channelID := [99] }
  refine ⟨s, hs, ?_⟩
  have hs' := hs
  unfold sealSend at hs'
  cases he : encryptPayload toyP toyKeys [] with
  | error e => rw [show ({ clientMsgNo := [97, 98], channelID := [99] } : SendPacket).payload = [] from rfl, he] at hs'; cases hs'
  | ok enc =>
    rw [show ({ clientMsgNo := [97, 98], channelID := [99] } : SendPacket).payload = [] from rfl, he] at hs'
    simp only at hs'
    cases hm : sendMsgKey toyP toyKeys { ({ clientMsgNo := [97, 98], channelID := [99] } : SendPacket) with payload := enc } with
    | error e => rw [hm] at hs'; cases hs'
    | ok mk =>
      rw [hm] at hs'
      injection hs' with hs'
      subst hs'
      exact c25_boundary_shift_accepted toyP toyKeys _ [97, 98] [99] [97] [98, 99] (by decide) ((validate_ok_iff _ _ _).2 hk)

/-! ## the RECV side -/

/-- **what the gateway seals, the client opens**: `SealRecvPacket` encrypts the payload so that `DecryptPayload` returns the
    original bytes, and keys the SEALED packet: MsgKey = hex(MD5(base64(CBC(pad(VerityBytes(sealed)))))) -/
theorem c25_recv_seal_roundtrip (P : Prims) (hC : BlockCipherOK P) (hB : B64OK P) (k : SessionKeys) (hk : ValidKeys k) (r : RecvPacket) :
    ∃ s, sealRecv P k r = .ok s ∧ decryptPayload P k s.payload = .ok r.payload ∧
      msgKeyOf P k (recvPreimage s) = .ok s.msgKey ∧ s.messageID = r.messageID ∧ s.channelID = r.channelID := by
  obtain ⟨c, hc, hd⟩ := c25_decrypt_encrypt P hC hB k hk r.payload
  obtain ⟨mk, hmk⟩ : ∃ mk, msgKeyOf P k (recvPreimage { r with payload := c }) = .ok mk := ⟨_, msgKeyOf_ok P k hk _⟩
  refine ⟨{ r with payload := c, msgKey := mk }, ?_, hd, ?_, rfl, rfl⟩
  · unfold sealRecv; rw [hc]; simp only [hmk]
  · exact hmk

example : ∃ s, sealRecv toyP toyKeys { payload := [1, 2] } = .ok s ∧ decryptPayload toyP toyKeys s.payload = .ok [1, 2] := by
  obtain ⟨s, h1, h2, _⟩ := c25_recv_seal_roundtrip toyP toy_cipher toy_b64 toyKeys toy_keys_valid { payload := [1, 2] }
  exact ⟨s, h1, h2⟩

/-- altering only the (sealed) payload of a RECV changes its preimage -/
theorem c25_recv_payload_tamper (r : RecvPacket) (x : Bytes) (h : x ≠ r.payload) :
    recvPreimage { r with payload := x } ≠ recvPreimage r := by
  unfold recvPreimage
  intro he
  exact h (List.append_cancel_left he)

example : recvPreimage { payload := [1] } ≠ recvPreimage { payload := [2] } :=
  c25_recv_payload_tamper { payload := [2] } [1] (by decide)

end WK.C25

import WK.Theorems.C15
/-!
  C15 — T translation of `bumpRuntimeRoute` (table_runtime_meta.go).

  `extract/c15.go` translates the body of `bumpRuntimeRoute` — a list of
  `if COND { candidate.RouteGeneration = E }` statements followed by `return candidate`; any other
  statement or assigned field is refused — into `WK.Gen.C15.bumpRG` on every run.  `c15_gen_bump`
  proves it equal to the route generation of the model's `bump`, which all reducer theorems
  (`c15_route_gen_strict`, `c15_route_gen_mono`, `c15_step` …) are about.  That
  `runtimeRouteChanged` does not read `RouteGeneration` (so evaluating it after the first assignment
  is the same as before) is `c15_gen_route_fields`.
-/
namespace WK.C15

/-- **bumpRuntimeRoute (T translation).**  The Go function, translated from the current source to
    BitVec 64 (`WK.Gen.C15.bumpRG`), computes exactly the route generation of the model's `bump`
    for all rows whose route generations fit in a uint64. -/
theorem c15_gen_bump (ex c : Meta) (hadRG : Bool) (he : ex.routeGen < 2 ^ 64) (hc : c.routeGen < 2 ^ 64) :
    (WK.Gen.C15.bumpRG hadRG (routeChanged ex c) (BitVec.ofNat 64 c.routeGen) (BitVec.ofNat 64 ex.routeGen)).toNat
      = (bump ex c hadRG).routeGen := by
  have hn := c15_gen_nextRG ex.routeGen he
  have lt_iff : ∀ a b : Nat, a < 2 ^ 64 → b < 2 ^ 64 → (BitVec.ofNat 64 a < BitVec.ofNat 64 b ↔ a < b) := by
    intro a b ha hb; simp [BitVec.lt_def, BitVec.toNat_ofNat, Nat.mod_eq_of_lt ha, Nat.mod_eq_of_lt hb]
  have le_iff : ∀ a b : Nat, a < 2 ^ 64 → b < 2 ^ 64 → (BitVec.ofNat 64 a ≤ BitVec.ofNat 64 b ↔ a ≤ b) := by
    intro a b ha hb; simp [BitVec.le_def, BitVec.toNat_ofNat, Nat.mod_eq_of_lt ha, Nat.mod_eq_of_lt hb]
  have tn : ∀ a : Nat, a < 2 ^ 64 → (BitVec.ofNat 64 a).toNat = a := by
    intro a ha; simp [BitVec.toNat_ofNat, Nat.mod_eq_of_lt ha]
  unfold WK.Gen.C15.bumpRG bump
  cases hadRG <;> cases hch : routeChanged ex c <;>
    by_cases h1 : c.routeGen < ex.routeGen <;> by_cases h2 : c.routeGen ≤ ex.routeGen <;>
    simp [lt_iff, le_iff, tn, he, hc, h1, h2, hn] <;> omega

/-- non-vacuity: a changed route with an unset candidate generation bumps 7 to 8; at the uint64
    ceiling the generation saturates; an unchanged route keeps the larger generation -/
example : WK.Gen.C15.bumpRG false true 0#64 7#64 = 8#64 := by decide
example : WK.Gen.C15.bumpRG true true 3#64 (~~~0#64) = ~~~0#64 := by decide
example : WK.Gen.C15.bumpRG true false 9#64 7#64 = 9#64 := by decide
example : (bump { exOld with routeGen := 7, leader := 1 } { exOld with routeGen := 0, leader := 2 } false).routeGen = 8 := by decide

end WK.C15

import WK.Proofs.Repl_Owner
import WK.Proofs.C03_Ledger
import WK.Theorems.C02
/-
  C03 — append receipts are exact, contiguous and retry-stable.
  Theorems about the sequencer part of the model the C03 driver executes
  (`sealBusiness`, `commitAdmitted`, `commitFresh`, `commitRetry`, `finishCommit`,
  `reconcile`, `remember` of WK/Model/Repl.lean = quorum_log.go).
-/
namespace WK.C03
open WK WK.Repl

theorem sealM_fields {m m' : Manifest} {cs : List Nat} {es : List Ident} (h : sealM m cs = some (m', es)) :
    m'.a = m.a ∧ m'.cmd = m.cmd ∧ m'.base = m.base ∧ m'.last = m.last := by
  unfold sealM at h
  split at h
  · cases h
  · cases h; exact ⟨rfl, rfl, rfl, rfl⟩

/-- **c03_contiguous** — a new command is sealed, BEFORE any I/O, onto exactly
    `[frontier+1, frontier+len]`, under the installed authority, with the caller's records. -/
theorem c03_contiguous (ch : QChan) (cmd : Cmd) (cs : List Nat) (r : Retained) (h : sealBusiness ch cmd cs = some r) :
    r.first = ch.frontier.leo + 1 ∧ r.last = ch.frontier.leo + cs.length ∧
    r.p.m.base = ch.frontier.leo ∧ r.p.m.last = r.last ∧ r.p.m.cmd = cmd ∧ r.p.m.a = ch.auth.id ∧
    r.p.contents = cs ∧ r.p.committed = ch.hw ∧ r.receipt = none := by
  unfold sealBusiness at h
  simp only at h
  split at h
  · cases h
  · rename_i m es hs
    split at h
    · cases h
    · cases h
      obtain ⟨h1, h2, h3, h4⟩ := sealM_fields hs
      simp only at h1 h2 h3 h4
      exact ⟨rfl, h4, h3, rfl, h2, h1, rfl, rfl, rfl⟩

example : ∃ r, sealBusiness ⟨⟨⟨1, 1, 1⟩, 2, false⟩, RState.zero, 0, true, none, []⟩ (.biz 7) [0, 1] = some r ∧
    r.first = 1 ∧ r.last = 2 := ⟨_, rfl, rfl, rfl⟩

/-- the receipt `finishCommit` builds is the sealed range, and the frontier moves to its end -/
theorem finishCommit_receipt (cap : Nat) (ch : QChan) (r : Retained) (rc : Receipt)
    (h : (finishCommit cap ch r).2 = .receipt rc) :
    rc = ⟨ch.auth.id, r.p.m.cmd, r.first, r.last, r.last⟩ ∧
    (finishCommit cap ch r).1.frontier.leo = r.last ∧ (finishCommit cap ch r).1.hw = r.last ∧
    (finishCommit cap ch r).1.pending = none := by
  unfold finishCommit at h ⊢
  cases hs : sealM r.p.m r.p.contents with
  | none => simp [hs] at h
  | some me =>
    obtain ⟨m', es⟩ := me
    simp only [hs] at h ⊢
    by_cases he : es.isEmpty = true
    · simp [he] at h
    · simp only [he] at h ⊢
      simp only [Bool.false_eq_true, if_false, Res.receipt.injEq] at h ⊢
      refine ⟨h.symm, ?_, ?_, ?_⟩ <;> first | trivial | rfl

/-- every receipt a retry of a sealed proposal returns is its sealed range -/
theorem commitRetry_receipt (s : Sys) (i : Nat) (ch : QChan) (r : Retained) (acks : List Ack) (rc : Receipt)
    (h : (commitRetry s i ch r acks).2 = .receipt rc) : rc.first = r.first ∧ rc.last = r.last ∧ rc.hw = r.last ∧
      rc.cmd = r.p.m.cmd ∧ rc.a = ch.auth.id := by
  unfold commitRetry at h
  generalize runRound s i ch.auth.q acks r.p = rr at h
  obtain ⟨s', ok, out⟩ := rr
  simp only at h
  split at h
  · cases h
  · split at h
    · cases h
    · have := (finishCommit_receipt s.cap ch r rc h).1
      subst this
      exact ⟨rfl, rfl, rfl, rfl, rfl⟩

/-- `reconcile` either refuses (`conflict`, nothing changes) or answers with the stored proposal
    of that command: same records, same authority, at or below the committed watermark -/
theorem reconcile_cases (cap : Nat) (ch : QChan) (st : Store) (cmd : Cmd) (cs : List Nat) :
    reconcile cap ch st cmd cs = (ch, .err .conflict) ∨
    ∃ p, st.byCmd cmd = some p ∧ p.contents = cs ∧ p.m.a = ch.auth.id ∧ p.m.last ≤ ch.hw ∧
      reconcile cap ch st cmd cs =
        ({ ch with retained := remember cap ch.retained (Retained.mk (Proposal.mk p.m p.contents p.m.base) (p.m.base + 1) p.m.last (some (Receipt.mk ch.auth.id cmd (p.m.base + 1) p.m.last p.m.last))) },
         .receipt ⟨ch.auth.id, cmd, p.m.base + 1, p.m.last, p.m.last⟩) := by
  unfold reconcile
  cases hb : st.byCmd cmd with
  | none => left; rfl
  | some p =>
    dsimp only
    split
    · left; rfl
    · rename_i hg
      split
      · left; rfl
      · split
        · left; rfl
        · split
          · left; rfl
          · rename_i hc
            right
            simp only [not_or, Decidable.not_not, Nat.not_lt, gt_iff_lt] at hg hc
            exact ⟨p, rfl, hc, hg.2.2.2, hg.2.2.1, rfl⟩

/-- a receipt from the durable command index describes the stored proposal of that command,
    has the same records, lies at or below the committed watermark, and leaves the frontier alone -/
theorem reconcile_receipt (cap : Nat) (ch : QChan) (st : Store) (cmd : Cmd) (cs : List Nat) (rc : Receipt)
    (h : (reconcile cap ch st cmd cs).2 = .receipt rc) :
    ∃ p, st.byCmd cmd = some p ∧ p.contents = cs ∧ p.m.a = ch.auth.id ∧
      rc = ⟨ch.auth.id, cmd, p.m.base + 1, p.m.last, p.m.last⟩ ∧ p.m.last ≤ ch.hw ∧
      (reconcile cap ch st cmd cs).1.frontier = ch.frontier ∧ (reconcile cap ch st cmd cs).1.hw = ch.hw := by
  rcases reconcile_cases cap ch st cmd cs with he | ⟨p, h1, h2, h3, h4, he⟩
  · rw [he] at h; cases h
  · rw [he] at h ⊢
    simp only [Res.receipt.injEq] at h
    exact ⟨p, h1, h2, h3, h.symm, h4, rfl, rfl⟩

/-- **c03_contiguous (receipt form)** — a receipt for a command the owner has neither retained nor
    pending is EITHER the freshly sealed range `[frontier+1, frontier+len]` with HW = Last (and the
    frontier advances to Last), OR — the store already held the command — the stored range of
    that command with identical records, untouched frontier. Nothing else is ever returned. -/
theorem c03_fresh_receipt (s : Sys) (i : Nat) (nd : NodeSt) (ch : QChan) (cmd : Cmd) (cs : List Nat) (acks : List Ack)
    (rc : Receipt) (h : (commitFresh s i nd ch cmd cs acks).2 = .receipt rc) :
    (rc = ⟨ch.auth.id, cmd, ch.frontier.leo + 1, ch.frontier.leo + cs.length, ch.frontier.leo + cs.length⟩) ∨
    (∃ (st : Store) (p : PRec), st.byCmd cmd = some p ∧ p.contents = cs ∧ p.m.a = ch.auth.id ∧ p.m.last ≤ ch.hw ∧
        rc = ⟨ch.auth.id, cmd, p.m.base + 1, p.m.last, p.m.last⟩) := by
  unfold commitFresh at h
  cases hs : sealBusiness ch cmd cs with
  | none => simp [hs] at h
  | some r =>
    obtain ⟨c1, c2, _, _, c5, _, _, _, _⟩ := c03_contiguous ch cmd cs r hs
    simp only [hs] at h
    generalize runRound (s.setNode i { nd with chan := some { ch with pending := some r } }) i ch.auth.q acks r.p = rr at h
    obtain ⟨s', ok, out⟩ := rr
    simp only at h
    split at h
    · cases h
    · rename_i nd' hn'
      split at h
      · split at h
        · right
          obtain ⟨p, h1, h2, h3, h4, h5, _, _⟩ := reconcile_receipt _ _ nd'.store cmd cs rc h
          exact ⟨nd'.store, p, h1, h2, h3, h5, h4⟩
        · cases h
      · left
        have := (finishCommit_receipt _ _ r rc h).1
        rw [this, c1, c2, c5]

/-- **c03_retry_same (retained hit)** — an exact retry of a retained command returns the very
    same receipt and changes NOTHING (no I/O, no state). -/
theorem c03_retry_same_retained (s : Sys) (i : Nat) (nd : NodeSt) (ch : QChan) (cmd : Cmd) (cs : List Nat) (acks : List Ack)
    (x : Cmd × Retained) (rc : Receipt)
    (hf : ch.retained.find? (fun x => decide (x.1 = cmd)) = some x) (hc : x.2.p.contents = cs) (hr : x.2.receipt = some rc) :
    commitAdmitted s i nd ch cmd cs acks = (s, .receipt rc) := by
  unfold commitAdmitted
  obtain ⟨c, r⟩ := x
  simp only at hc hr
  simp [hf, hc, hr]

/-- **c03_retry_same (pending hit)** — an exact retry of the pending command re-runs the round for
    the SAME sealed proposal; if it returns a receipt, it is the originally sealed range. -/
theorem c03_retry_same_pending (s : Sys) (i : Nat) (nd : NodeSt) (ch : QChan) (cmd : Cmd) (cs : List Nat) (acks : List Ack)
    (r : Retained) (hn : ch.retained.find? (fun x => decide (x.1 = cmd)) = none) (hp : ch.pending = some r)
    (hcmd : r.p.m.cmd = cmd) (hc : r.p.contents = cs) :
    commitAdmitted s i nd ch cmd cs acks = commitRetry s i ch r acks ∧
    ∀ rc, (commitRetry s i ch r acks).2 = .receipt rc → rc.first = r.first ∧ rc.last = r.last := by
  constructor
  · unfold commitAdmitted; simp [hn, hp, hcmd, hc]
  · intro rc h; exact ⟨(commitRetry_receipt s i ch r acks rc h).1, (commitRetry_receipt s i ch r acks rc h).2.1⟩

/-- **c03_retry_conflict** — reusing a command identity with different records is rejected
    `conflict` with no I/O and no state change, whether the command is retained, pending, or
    only in the durable command index; and while another command is pending, new commands are
    refused (`backpressure`), which is what keeps ranges from interleaving. -/
theorem c03_retry_conflict (s : Sys) (i : Nat) (nd : NodeSt) (ch : QChan) (cmd : Cmd) (cs : List Nat) (acks : List Ack) :
    (∀ x, ch.retained.find? (fun x => decide (x.1 = cmd)) = some x → x.2.p.contents ≠ cs →
        commitAdmitted s i nd ch cmd cs acks = (s, .err .conflict)) ∧
    (∀ r, ch.retained.find? (fun x => decide (x.1 = cmd)) = none → ch.pending = some r → r.p.m.cmd = cmd →
        r.p.contents ≠ cs → commitAdmitted s i nd ch cmd cs acks = (s, .err .conflict)) ∧
    (∀ r, ch.retained.find? (fun x => decide (x.1 = cmd)) = none → ch.pending = some r → r.p.m.cmd ≠ cmd →
        commitAdmitted s i nd ch cmd cs acks = (s, .err .backpressure)) ∧
    (∀ cap st p, st.byCmd cmd = some p → p.contents ≠ cs → reconcile cap ch st cmd cs = (ch, .err .conflict)) := by
  refine ⟨?_, ?_, ?_, ?_⟩
  · intro x hf hc
    obtain ⟨c, r⟩ := x
    unfold commitAdmitted; simp only at hc; simp [hf, hc]
  · intro r hn hp hcmd hc
    unfold commitAdmitted; simp [hn, hp, hcmd, hc]
  · intro r hn hp hcmd
    unfold commitAdmitted; simp [hn, hp, hcmd]
  · intro cap st p hb hc
    unfold reconcile
    simp only [hb]
    split
    · rfl
    · split
      · rfl
      · split
        · rfl
        · simp [hc]

example : (reconcile 2 ⟨⟨⟨1, 1, 1⟩, 2, false⟩, RState.zero, 0, true, none, []⟩ Store.empty (.biz 1) [0]).2 = .err .conflict := by
  decide

/-- **c03_evict_sound** — the retained-command cache is a bounded FIFO: it never exceeds the cap,
    the remembered command is always present afterwards, an update in place keeps the order, and
    when full exactly the oldest entry is evicted (so an evicted command can only be answered
    through the durable command index, `reconcile_receipt`). -/
theorem c03_evict_sound (cap : Nat) (l : List (Cmd × Retained)) (r : Retained) (hcap : 0 < cap) (hl : l.length ≤ cap) :
    (remember cap l r).length ≤ cap ∧
    (∃ x ∈ remember cap l r, x = (r.p.m.cmd, r)) ∧
    ((l.any (fun x => decide (x.1 = r.p.m.cmd)) = false) → l.length = cap → remember cap l r = l.drop 1 ++ [(r.p.m.cmd, r)]) ∧
    ((l.any (fun x => decide (x.1 = r.p.m.cmd)) = false) → l.length < cap → remember cap l r = l ++ [(r.p.m.cmd, r)]) := by
  unfold remember
  dsimp only
  cases hany : l.any (fun x => decide (x.1 = r.p.m.cmd)) with
  | true =>
    simp only [↓reduceIte]
    refine ⟨by simp [hl], ?_, by simp, by simp⟩
    rw [List.any_eq_true] at hany
    obtain ⟨y, hy, hyc⟩ := hany
    refine ⟨(r.p.m.cmd, r), ?_, rfl⟩
    rw [List.mem_map]
    exact ⟨y, hy, by simp at hyc; simp [hyc]⟩
  | false =>
    simp only [Bool.false_eq_true, ↓reduceIte]
    by_cases hfull : l.length = cap
    · rw [if_pos hfull]
      refine ⟨?_, ⟨_, by simp, rfl⟩, fun _ _ => rfl, fun _ h => by omega⟩
      simp; omega
    · rw [if_neg hfull]
      refine ⟨?_, ⟨_, by simp, rfl⟩, fun _ h => absurd h hfull, fun _ _ => rfl⟩
      simp; omega

example : remember 1 [(.biz 1, ⟨⟨Manifest.zero, [], 0⟩, 1, 1, none⟩)] ⟨⟨{ Manifest.zero with cmd := .biz 2 }, [], 0⟩, 2, 2, none⟩
    = [(.biz 2, ⟨⟨{ Manifest.zero with cmd := .biz 2 }, [], 0⟩, 2, 2, none⟩)] := by decide

end WK.C03

/-! ## history level (one owner incarnation) -/
namespace WK.C03
open WK WK.Repl

theorem pairwise_cmd_eq : ∀ (l : List PRec), l.Pairwise (fun p q => p.m.cmd ≠ q.m.cmd) →
    ∀ p ∈ l, ∀ q ∈ l, p.m.cmd = q.m.cmd → p = q := by
  intro l
  induction l with
  | nil => intro _ p hp; cases hp
  | cons x rest ih =>
    intro hpw p hp q hq he
    rw [List.pairwise_cons] at hpw
    rcases List.mem_cons.mp hp with rfl | hp' <;> rcases List.mem_cons.mp hq with rfl | hq'
    · rfl
    · exact absurd he (hpw.1 q hq')
    · exact absurd he.symm (hpw.1 p hp')
    · exact ih hpw.2 p hp' q hq' he

theorem ownerInv_of_empty (ch : QChan) (st : Store) (h1 : ch.retained = []) (h2 : ch.pending = none) : OwnerInv ch st :=
  ⟨fun x hx => (by rw [h1] at hx; cases hx), fun r h => (by rw [h2] at h; cases h)⟩

/-- **c03_receipts_backed** — inside one owner incarnation of node `i` (any commits on any node with
    any per-voter answers, follower repairs, crashes/restarts of other nodes; no install, no reset of
    `i`), starting right after an install (empty cache, nothing pending): EVERY receipt the owner
    returns — fresh, pending retry, cached, or via the durable command index after eviction — is
    backed in the owner's final local log by one stored proposal of that command with exactly that
    range, and no proposal ever leaves that log. -/
theorem c03_receipts_backed (i : Nat) (s : Sys) (ch : QChan) (ops : List Op)
    (hseg : ∀ op ∈ ops, segOp i op = true) (hch : chanOf s i = some (some ch))
    (h1 : ch.retained = []) (h2 : ch.pending = none) :
    ∀ rc ∈ receiptsOn i s ops, Backed ((Repl.runS s ops).storeOf i) rc :=
  (run_seg i ops s ch hseg hch (ownerInv_of_empty ch _ h1 h2)).2

/-- **c03_disjoint** — two receipts of DIFFERENT commands handed out in one owner incarnation never
    overlap (whatever the interleaving of new commands, retries, evictions, lost replies), given the
    owner's final log is a proposal chain (c02_store_inv: true in every reachable state). -/
theorem c03_disjoint (i : Nat) (s : Sys) (ch : QChan) (ops : List Op)
    (hseg : ∀ op ∈ ops, segOp i op = true) (hch : chanOf s i = some (some ch))
    (h1 : ch.retained = []) (h2 : ch.pending = none) (hchain : ChainP ((Repl.runS s ops).storeOf i).props) :
    ∀ r1 ∈ receiptsOn i s ops, ∀ r2 ∈ receiptsOn i s ops, r1.cmd ≠ r2.cmd →
      r1.last < r2.first ∨ r2.last < r1.first := by
  intro r1 hr1 r2 hr2 hne
  obtain ⟨p1, hp1, c1, f1, l1⟩ := c03_receipts_backed i s ch ops hseg hch h1 h2 r1 hr1
  obtain ⟨p2, hp2, c2, f2, l2⟩ := c03_receipts_backed i s ch ops hseg hch h1 h2 r2 hr2
  have hpne : p1 ≠ p2 := fun e => hne (by rw [← c1, ← c2, e])
  rcases chain_disjoint hchain p1 hp1 p2 hp2 hpne with h | h <;> omega

/-- **c03_retry_same (history)** — within one owner incarnation, every receipt for the same command
    is the same range, through cache hits, pending retries AND evictions (command-index path), given
    stored commands are unique (c03_cmd_uniq: true in every reachable state). -/
theorem c03_retry_same_history (i : Nat) (s : Sys) (ch : QChan) (ops : List Op)
    (hseg : ∀ op ∈ ops, segOp i op = true) (hch : chanOf s i = some (some ch))
    (h1 : ch.retained = []) (h2 : ch.pending = none) (hu : CmdUniq ((Repl.runS s ops).storeOf i)) :
    ∀ r1 ∈ receiptsOn i s ops, ∀ r2 ∈ receiptsOn i s ops, r1.cmd = r2.cmd →
      r1.first = r2.first ∧ r1.last = r2.last := by
  intro r1 hr1 r2 hr2 he
  obtain ⟨p1, hp1, c1, f1, l1⟩ := c03_receipts_backed i s ch ops hseg hch h1 h2 r1 hr1
  obtain ⟨p2, hp2, c2, f2, l2⟩ := c03_receipts_backed i s ch ops hseg hch h1 h2 r2 hr2
  have : p1 = p2 := pairwise_cmd_eq _ hu.2 p1 hp1 p2 hp2 (by rw [c1, c2, he])
  subst this
  omega

end WK.C03

/-! ## reachable states -/
namespace WK.C03
open WK WK.Repl

theorem cmdUniq_empty : CmdUniq Store.empty := ⟨rfl, List.Pairwise.nil⟩

theorem allUniq_init (n q cap : Nat) (st : Bool) : ∀ v, CmdUniq (({ Sys.init n q cap with started := st } : Sys).storeOf v) := by
  intro v
  unfold Sys.storeOf Sys.node?
  by_cases hv : v = 0
  · simp [hv]; exact cmdUniq_empty
  · simp only [hv, if_false]
    cases h : (mkNodes false n)[v - 1]? with
    | none => simp [Sys.init, h]; exact cmdUniq_empty
    | some nd => simp [Sys.init, h]; rw [C02.node?_mkNodes_store false n (v - 1) nd h]; exact cmdUniq_empty

/-- an op that does not select the server-allocated / unkeyed MessageDB store kind -/
def keyed : Op → Bool
  | .cfg _ _ _ fr => !fr
  | _ => true

theorem cmdUniq_step (s : Sys) (op : Op) (hk : keyed op = true) (h : ∀ v, CmdUniq (s.storeOf v)) :
    ∀ v, CmdUniq ((step s op).1.storeOf v) := by
  by_cases hc : ∃ n q c fr, op = .cfg n q c fr
  · obtain ⟨n, q, c, fr, rfl⟩ := hc
    simp only [keyed, Bool.not_eq_true'] at hk
    subst hk
    simp only [step]
    split
    · exact h
    · exact allUniq_init n q c true
  · have hne : ∀ n q c fr, op ≠ .cfg n q c fr := fun n q c fr e => hc ⟨n, q, c, fr, e⟩
    rw [C02.step_started s op hne]
    intro v
    exact step_stores uniqRel_rel { s with started := true } op rfl v (h v)

/-- **c03_cmd_uniq** — in every reachable state no replica log stores two proposals of one command,
    for every store kind except MessageDB fed with server-allocated, unkeyed records (`keyed`), where
    it is false (c03_unkeyed_counterexample). -/
theorem c03_cmd_uniq (ops : List Op) (hk : ∀ op ∈ ops, keyed op = true) (v : Nat) :
    CmdUniq ((Repl.runS Sys.default ops).storeOf v) := by
  suffices h : ∀ s, (∀ v, CmdUniq (s.storeOf v)) → ∀ v, CmdUniq ((Repl.runS s ops).storeOf v) from
    h _ (allUniq_init 3 2 2 false) v
  induction ops with
  | nil => intro s h; exact h
  | cons op ops ih =>
    intro s h
    exact ih (fun o ho => hk o (List.mem_cons_of_mem _ ho)) _ (cmdUniq_step s op (hk op List.mem_cons_self) h)

theorem runS_append (s : Sys) (a b : List Op) : Repl.runS s (a ++ b) = Repl.runS (Repl.runS s a) b := by
  unfold Repl.runS; rw [List.foldl_append]

/-- **c03_disjoint_reachable / c03_retry_same_reachable** — for every reachable state `runS default pre`
    whose owner `i` has an empty cache and nothing pending (the state every install leaves), and every
    continuation without install / reset of `i`: receipts of different commands are disjoint, receipts
    of one command are equal.  No further hypothesis. -/
theorem c03_history_reachable (i : Nat) (pre ops : List Op) (ch : QChan)
    (hseg : ∀ op ∈ ops, segOp i op = true) (hkey : ∀ op ∈ pre, keyed op = true)
    (hch : chanOf (Repl.runS Sys.default pre) i = some (some ch))
    (h1 : ch.retained = []) (h2 : ch.pending = none) :
    ∀ r1 ∈ receiptsOn i (Repl.runS Sys.default pre) ops, ∀ r2 ∈ receiptsOn i (Repl.runS Sys.default pre) ops,
      (r1.cmd ≠ r2.cmd → r1.last < r2.first ∨ r2.last < r1.first) ∧
      (r1.cmd = r2.cmd → r1.first = r2.first ∧ r1.last = r2.last) := by
  intro r1 hr1 r2 hr2
  have hchain : ChainP ((Repl.runS (Repl.runS Sys.default pre) ops).storeOf i).props := by
    rw [← runS_append]; exact (C02.c02_store_inv (pre ++ ops) i).chain
  have hu : CmdUniq ((Repl.runS (Repl.runS Sys.default pre) ops).storeOf i) := by
    rw [← runS_append]
    refine c03_cmd_uniq (pre ++ ops) (fun o ho => ?_) i
    rcases List.mem_append.mp ho with h | h
    · exact hkey o h
    · have := hseg o h
      cases o <;> simp_all [segOp, keyed]
  exact ⟨c03_disjoint i _ ch ops hseg hch h1 h2 hchain r1 hr1 r2 hr2,
         c03_retry_same_history i _ ch ops hseg hch h1 h2 hu r1 hr1 r2 hr2⟩

/-- non-vacuity: after `install 1 (1,1,1)` with cache cap 2 (default), three commands and a retry of
    the first one AFTER its eviction: four receipts, the retry equal to the first -/
example :
    let pre : List Op := [.install 1 ⟨⟨1, 1, 1⟩, 2, false⟩ [.all, .all, .all] [.D, .D, .D]]
    let ops : List Op := [.commit 1 ⟨1, 1, 1⟩ 1 2 0 [.D, .D, .X], .commit 1 ⟨1, 1, 1⟩ 2 1 0 [.D, .D, .X],
                          .commit 1 ⟨1, 1, 1⟩ 3 1 0 [.D, .D, .X], .commit 1 ⟨1, 1, 1⟩ 1 2 0 [.D, .D, .D]]
    (∀ op ∈ ops, segOp 1 op = true) ∧
    (receiptsOn 1 (Repl.runS Sys.default pre) ops).map (fun r => (r.first, r.last)) = [(1, 2), (3, 3), (4, 4), (1, 2)] := by
  decide

end WK.C03

namespace WK.C03
open WK WK.Repl

/-- cache cap 1, MessageDB stores with server-allocated unkeyed records: command 1 is acknowledged at
    [1,2], evicted by command 2, and its exact retry is sealed at the log end where
    `prepareExactAppendRecordsLocked` (sequencedFresh) skips the command-index check -/
def unkeyedWitness : List Op :=
  [.cfg 3 2 1 true,
   .install 1 ⟨⟨1, 1, 1⟩, 2, false⟩ [.all, .all, .all] [.D, .D, .D],
   .commit 1 ⟨1, 1, 1⟩ 1 2 0 [.D, .D, .D],
   .commit 1 ⟨1, 1, 1⟩ 2 1 0 [.D, .D, .D],
   .commit 1 ⟨1, 1, 1⟩ 1 2 0 [.D, .D, .D]]

/-- **c03_unkeyed_counterexample** — retry stability is FALSE for that store kind, on the model as on
    the code (corpus/C03/unkeyed-evicted.ops): the exact retry of the evicted command is stored again
    and acknowledged at [4,5] instead of [1,2]. -/
theorem c03_unkeyed_counterexample :
    (receiptsOn 1 Sys.default unkeyedWitness).map (fun r => (r.cmd, r.first, r.last)) =
      [(.biz 1, 1, 2), (.biz 2, 3, 3), (.biz 1, 4, 5)] ∧
    ((Repl.runS Sys.default unkeyedWitness).storeOf 1).leo = 5 := by decide

end WK.C03

/-! ## backpressure only while another command is pending -/
namespace WK.C03
open WK WK.Repl

theorem finishCommit_not_bp (cap : Nat) (ch : QChan) (r : Retained) : (finishCommit cap ch r).2 ≠ .err .backpressure := by
  unfold finishCommit
  repeat' split
  all_goals simp

theorem reconcile_not_bp (cap : Nat) (ch : QChan) (st : Store) (cmd : Cmd) (cs : List Nat) :
    (reconcile cap ch st cmd cs).2 ≠ .err .backpressure := by
  rcases reconcile_cases cap ch st cmd cs with h | ⟨p, _, _, _, _, h⟩ <;> rw [h] <;> simp

theorem commitRetry_not_bp (s : Sys) (i : Nat) (ch : QChan) (r : Retained) (acks : List Ack) :
    (commitRetry s i ch r acks).2 ≠ .err .backpressure := by
  unfold commitRetry
  generalize runRound s i ch.auth.q acks r.p = rr
  obtain ⟨s', ok, out⟩ := rr
  simp only
  split
  · simp
  · split
    · simp
    · exact finishCommit_not_bp _ _ _

theorem commitFresh_not_bp (s : Sys) (i : Nat) (nd : NodeSt) (ch : QChan) (cmd : Cmd) (cs : List Nat) (acks : List Ack) :
    (commitFresh s i nd ch cmd cs acks).2 ≠ .err .backpressure := by
  unfold commitFresh
  cases sealBusiness ch cmd cs with
  | none => simp
  | some r =>
    simp only
    generalize runRound (s.setNode i { nd with chan := some { ch with pending := some r } }) i ch.auth.q acks r.p = rr
    obtain ⟨s', ok, out⟩ := rr
    simp only
    split
    · simp
    · split
      · split
        · exact reconcile_not_bp _ _ _ _ _
        · simp
      · exact finishCommit_not_bp _ _ _

/-- **c03_backpressure_only_pending** — the model theorem behind the judge clause
    `viol:backpressure-without-pending`: `Commit` answers `backpressure` ONLY while the owner holds a
    pending proposal of a DIFFERENT command; no other path (cache hit, pending retry, fresh round,
    command-index reconciliation) can produce it. -/
theorem c03_backpressure_only_pending (s : Sys) (i : Nat) (e : AuthId) (c : Nat) (cs : List Nat) (acks : List Ack)
    (h : (commit s i e c cs acks).2 = .err .backpressure) :
    ∃ nd ch r, s.node? i = some nd ∧ nd.chan = some ch ∧ ch.pending = some r ∧ r.p.m.cmd ≠ Cmd.biz c := by
  unfold commit at h
  cases hn : s.node? i with
  | none => simp [hn] at h
  | some nd =>
    simp only [hn] at h
    split at h
    · cases h
    · cases hc : nd.chan with
      | none => simp [hc] at h
      | some ch =>
        simp only [hc] at h
        split at h
        · cases h
        · split at h
          · cases h
          · split at h
            · cases h
            · unfold commitAdmitted at h
              split at h
              · split at h
                · cases h
                · split at h
                  · cases h
                  · exact absurd h (commitRetry_not_bp _ _ _ _ _)
              · cases hp : ch.pending with
                | none =>
                  simp only [hp] at h
                  exact absurd h (commitFresh_not_bp _ _ _ _ _ _ _)
                | some r =>
                  simp only [hp] at h
                  split at h
                  · split at h
                    · cases h
                    · exact absurd h (commitRetry_not_bp _ _ _ _ _)
                  · rename_i hne
                    exact ⟨nd, ch, r, rfl, hc, hp, hne⟩

/-- non-vacuity: a second command while the first is pending -/
example :
    let s := (step (step Sys.default (.install 1 ⟨⟨1, 1, 1⟩, 2, false⟩ [.all, .all, .all] [.D, .D, .D])).1
               (.commit 1 ⟨1, 1, 1⟩ 1 1 0 [.L, .X, .X])).1
    (commit s 1 ⟨1, 1, 1⟩ 2 [0] [.D, .D, .D]).2 = .err .backpressure := by decide

end WK.C03

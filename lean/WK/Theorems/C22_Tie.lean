import WK.Theorems.C22
import WK.Gen.C22
/-
  C22 — T tie for the protocol constants.  `WK.Gen.C22` is regenerated from
  /repo's current source on every check run (extract/c22.go); this theorem is
  re-proved against it, so a changed frame-type number, version constant, limit,
  setting bit or field width in the Go source breaks the proof (and the D tie
  then looks for the failing frame).  Kept in its own file so that C23, which
  reuses the codec theorems, does not depend on a generated file.
-/
namespace WK.C22

/-- the per-field widths the model's `sizeX` functions hard-code -/
def modelByteSizes : List (String × Nat) :=
  [("SettingByteSize", 1), ("StringFixLenByteSize", 2), ("ClientSeqByteSize", 4), ("ChannelTypeByteSize", 1),
   ("VersionByteSize", 1), ("DeviceFlagByteSize", 1), ("ClientTimestampByteSize", 8), ("TimeDiffByteSize", 8),
   ("ReasonCodeByteSize", 1), ("MessageIDByteSize", 8), ("MessageSeqLegacyByteSize", 4),
   ("MessageSeqU64ByteSize", 8), ("TimestampByteSize", 4), ("BigTimestampByteSize", 8), ("ActionByteSize", 1),
   ("StreamIdByteSize", 8), ("StreamFlagByteSize", 1), ("ExpireByteSize", 4), ("NodeIdByteSize", 8)]

/-- the frame-type numbers of the model's constructors (`Frame.typeNo`, `decodeBody`) -/
def modelFrameTypes : List (String × Nat) :=
  [("UNKNOWN", 0),
   ("CONNECT", (Frame.connect {} ⟨0, 0, [], [], [], 0, []⟩).typeNo),
   ("CONNACK", (Frame.connack {} ⟨0, 0, 0, [], [], 0⟩).typeNo),
   ("SEND", (Frame.send {} ⟨0, 0, [], [], [], 0, 0, [], [], []⟩).typeNo),
   ("SENDACK", (Frame.sendack {} ⟨0, 0, 0, 0, []⟩).typeNo),
   ("RECV", (Frame.recv {} ⟨0, [], [], [], 0, 0, [], 0, [], 0, 0, 0, 0, [], []⟩).typeNo),
   ("RECVACK", (Frame.recvack {} ⟨0, 0⟩).typeNo),
   ("PING", (Frame.ping {}).typeNo),
   ("PONG", (Frame.pong {}).typeNo),
   ("DISCONNECT", (Frame.disconnect {} ⟨0, []⟩).typeNo),
   ("SUB", (Frame.sub {} ⟨0, [], [], 0, 0, []⟩).typeNo),
   ("SUBACK", (Frame.suback {} ⟨[], [], 0, 0, 0⟩).typeNo),
   ("EVENT", (Frame.event {} ⟨[], [], 0, []⟩).typeNo)]

/-- The constants in the Go source are the constants of the model. -/
theorem c22_constants_tie :
    WK.Gen.C22.latestVersion = latestVersion ∧
    WK.Gen.C22.legacyMessageSeqVersion = legacyMessageSeqVersion ∧
    WK.Gen.C22.settingTopic = settingTopic ∧
    WK.Gen.C22.settingStream = settingStream ∧
    WK.Gen.C22.maxRemainingLength = maxRemainingLength ∧
    WK.Gen.C22.payloadMaxSize = payloadMaxSize ∧
    WK.Gen.C22.frameTypes = modelFrameTypes ∧
    WK.Gen.C22.byteSizes = modelByteSizes := by decide

/-- MaxRemaingLength is inside the range the varint decoder handles (4 bytes, 2^28-1),
    and a string/payload limit is what an int16 length prefix can carry. -/
theorem c22_limits_consistent :
    WK.Gen.C22.maxRemainingLength < 268435456 ∧ WK.Gen.C22.payloadMaxSize = maxInt16 := by decide

end WK.C22
